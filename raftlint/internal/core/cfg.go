package core

import (
	"fmt"
	"go/constant"
	"go/token"
	"go/types"
	"sort"
	"strings"

	"golang.org/x/tools/go/ssa"
)

// ---------------------------------------------------------------- selection

// CalleesOf returns the possible repo/static callees of a call instruction:
// the static callee, or for interface/dynamic calls the VTA-resolved targets.
func (p *Program) CalleesOf(call ssa.CallInstruction) []*ssa.Function {
	com := call.Common()
	if f := com.StaticCallee(); f != nil {
		return []*ssa.Function{f}
	}
	if _, ok := com.Value.(*ssa.Builtin); ok {
		return nil
	}
	// closure call / defer of a MakeClosure
	if mc, ok := com.Value.(*ssa.MakeClosure); ok {
		return []*ssa.Function{mc.Fn.(*ssa.Function)}
	}
	var out []*ssa.Function
	if n := p.CallGraph().Nodes[call.Parent()]; n != nil {
		for _, e := range n.Out {
			if e.Site == call {
				out = append(out, e.Callee.Func)
			}
		}
	}
	sort.Slice(out, func(i, j int) bool { return out[i].String() < out[j].String() })
	return out
}

// CallsTo lists call instructions (call, defer, go) in fn (not its closures)
// that may call callee; calls located in new helpers (IsNew) that fn calls are
// included, since such a helper is part of fn as far as the rules are concerned.
func (p *Program) CallsTo(fn *ssa.Function, callee *ssa.Function) []ssa.CallInstruction {
	out := p.callsToLocal(fn, callee)
	if p.IsNew(callee) {
		return out
	}
	for _, g := range p.Scope(fn) {
		if g == fn || g.Parent() != nil && Root(g) == Root(fn) {
			continue
		}
		out = append(out, p.callsToLocal(g, callee)...)
	}
	return out
}

func (p *Program) callsToLocal(fn *ssa.Function, callee *ssa.Function) []ssa.CallInstruction {
	var out []ssa.CallInstruction
	for _, b := range fn.Blocks {
		for _, in := range b.Instrs {
			if ci, ok := in.(ssa.CallInstruction); ok {
				for _, c := range p.CalleesOf(ci) {
					if c == callee {
						out = append(out, ci)
						break
					}
				}
			}
		}
	}
	return out
}

// CallsToDeep is CallsTo over fn and all nested closures.
func (p *Program) CallsToDeep(fn *ssa.Function, callee *ssa.Function) []ssa.CallInstruction {
	out := p.CallsTo(fn, callee)
	for _, c := range p.Closures(fn) {
		out = append(out, p.CallsTo(c, callee)...)
	}
	return out
}

// Callers lists every call site in the repo that may call callee (incl. method values / closures are not calls).
func (p *Program) Callers(callee *ssa.Function) []Site {
	var out []Site
	for _, fn := range p.funcs {
		for _, ci := range p.CallsTo(fn, callee) {
			out = append(out, Site{fn, ci})
		}
	}
	return out
}

// FuncValueUses lists places where callee is used as a value (method value, passed as func) rather than called.
func (p *Program) FuncValueUses(callee *ssa.Function) []Site {
	var out []Site
	for _, fn := range p.funcs {
		for _, b := range fn.Blocks {
			for _, in := range b.Instrs {
				ops := in.Operands(nil)
				for _, op := range ops {
					if *op == nil {
						continue
					}
					isCallee := false
					if f, ok := (*op).(*ssa.Function); ok && f == callee {
						isCallee = true
					}
					if !isCallee {
						continue
					}
					if ci, ok := in.(ssa.CallInstruction); ok && ci.Common().Value == *op {
						continue // direct call
					}
					out = append(out, Site{fn, in})
				}
			}
		}
	}
	return out
}

// CallerNames returns the sorted set of root function names that call callee.
func (p *Program) CallerNames(callee *ssa.Function) []string {
	m := map[string]bool{}
	for _, s := range p.Callers(callee) {
		m[p.FuncName(Root(s.Fn))] = true
	}
	return sortedKeys(m)
}

// ---------------------------------------------------------------- stores

// StoreKind distinguishes plain stores from map mutation through a field.
type storeRec struct {
	Site
	Path *Expr  // canonical address expression
	Kind string // "store", "mapupdate", "delete"
}

func (p *Program) buildStoreIdx() {
	if p.storeIdx != nil {
		return
	}
	p.storeIdx = map[*types.Var][]Site{}
	p.storePaths = map[ssa.Instruction]*Expr{}
	for _, fn := range p.funcs {
		fi := p.Info(fn)
		for _, b := range fn.Blocks {
			for _, in := range b.Instrs {
				var addr ssa.Value
				switch x := in.(type) {
				case *ssa.Store:
					addr = x.Addr
				case *ssa.MapUpdate:
					addr = x.Map
				case *ssa.Call:
					if bi, ok := x.Call.Value.(*ssa.Builtin); ok && (bi.Name() == "delete" || bi.Name() == "copy") && len(x.Call.Args) > 0 {
						addr = x.Call.Args[0]
					}
				}
				if addr == nil {
					continue
				}
				e := fi.Sym(addr)
				p.storePaths[in] = e
				// the written field is the last field on the path (through idx)
				x := e
				for x != nil && (x.Op == "idx" || x.Op == "conv") {
					x = x.Args[0]
				}
				if x != nil && x.Op == "fld" && x.Var != nil {
					p.storeIdx[x.Var] = append(p.storeIdx[x.Var], Site{fn, in})
				}
			}
		}
	}
}

// StoresTo lists instructions that write the field (direct store, element
// store, map update or delete through it), anywhere in the repo.
func (p *Program) StoresTo(f *types.Var) []Site {
	p.buildStoreIdx()
	return p.storeIdx[f]
}

// StorePath returns the canonical address written by a store-like instruction.
func (p *Program) StorePath(in ssa.Instruction) *Expr {
	p.buildStoreIdx()
	return p.storePaths[in]
}

// StoreFuncs returns the sorted set of root function names storing to the field.
func (p *Program) StoreFuncs(f *types.Var) []string {
	m := map[string]bool{}
	for _, s := range p.StoresTo(f) {
		m[p.FuncName(Root(s.Fn))] = true
	}
	return sortedKeys(m)
}

// ModSet is the transitive set of struct fields a function may write
// (itself, its closures, static and VTA-resolved callees inside the repo).
func (p *Program) ModSet(fn *ssa.Function) map[*types.Var]bool {
	if p.modsets == nil {
		p.modsets = map[*ssa.Function]map[*types.Var]bool{}
	}
	if m, ok := p.modsets[fn]; ok {
		return m
	}
	p.buildStoreIdx()
	seen := map[*ssa.Function]bool{}
	out := map[*types.Var]bool{}
	var rec func(f *ssa.Function)
	rec = func(f *ssa.Function) {
		if f == nil || seen[f] || !p.inRepo(f) {
			return
		}
		seen[f] = true
		for _, b := range f.Blocks {
			for _, in := range b.Instrs {
				if e, ok := p.storePaths[in]; ok {
					for _, v := range e.Fields() {
						_ = v
					}
					x := e
					for x != nil && (x.Op == "idx" || x.Op == "conv") {
						x = x.Args[0]
					}
					if x != nil && x.Op == "fld" && x.Var != nil {
						// stores into local struct copies do not count
						if r := x.Root(); r != nil {
							if a, ok := r.Val.(*ssa.Alloc); ok && !a.Heap {
								if _, isStruct := a.Type().(*types.Pointer).Elem().Underlying().(*types.Struct); isStruct {
									continue
								}
							}
						}
						out[x.Var] = true
					}
				}
				if ci, ok := in.(ssa.CallInstruction); ok {
					for _, c := range p.CalleesOf(ci) {
						rec(c)
					}
				}
				if mc, ok := in.(*ssa.MakeClosure); ok {
					rec(mc.Fn.(*ssa.Function))
				}
			}
		}
	}
	rec(fn)
	p.modsets[fn] = out
	return out
}

// ---------------------------------------------------------------- dominance

func instrIndex(in ssa.Instruction) int {
	for i, x := range in.Block().Instrs {
		if x == in {
			return i
		}
	}
	return -1
}

// Dominates: instruction a dominates instruction b (same function).
func Dominates(a, b ssa.Instruction) bool {
	if a.Parent() != b.Parent() {
		return false
	}
	if a.Block() == b.Block() {
		return instrIndex(a) < instrIndex(b)
	}
	return a.Block().Dominates(b.Block())
}

// ---------------------------------------------------------------- gates

// FeasibleSucc reports whether the i-th successor edge of b can be taken: an
// If on a constant (the `trace` build constant) has only one live successor.
func FeasibleSucc(b *ssa.BasicBlock, i int) bool {
	if len(b.Instrs) == 0 {
		return true
	}
	iff, ok := b.Instrs[len(b.Instrs)-1].(*ssa.If)
	if !ok {
		return true
	}
	if bo, isBin := iff.Cond.(*ssa.BinOp); isBin {
		// comparison of two nil constants (a variable that is provably nil on this path)
		cx, okx := bo.X.(*ssa.Const)
		cy, oky := bo.Y.(*ssa.Const)
		if okx && oky && cx.IsNil() && cy.IsNil() {
			switch bo.Op {
			case token.EQL:
				return i == 0
			case token.NEQ:
				return i == 1
			}
		}
		return true
	}
	c, ok := iff.Cond.(*ssa.Const)
	if !ok || c.Value == nil {
		return true
	}
	isTrue := c.Value.String() == "true"
	if isTrue {
		return i == 0
	}
	return i == 1
}

// GateResult describes a gate query outcome.
type GateResult struct {
	OK      bool
	Witness string // path of blocks bypassing the gate
	Gates   int    // number of gate edges recognised
}

// MustCross decides: every CFG path from the entry of target's function to
// target crosses an edge whose atom satisfies pass(). The witness lists the
// branch decisions of a bypassing path.
func (fi *FuncInfo) MustCross(target ssa.Instruction, pass func(Atom) bool) GateResult {
	return fi.MustCrossEdges(target, pass, nil)
}

// MustCrossEdges is MustCross restricted to gate edges accepted by edgeOK (nil = all).
func (fi *FuncInfo) MustCrossEdges(target ssa.Instruction, pass func(Atom) bool, edgeOK func(Edge) bool) GateResult {
	return fi.MustCrossOrPass(target, pass, edgeOK, nil)
}

// MustCrossOrPass: every path to target crosses a passing edge or executes an
// instruction satisfying instrPass (which then acts like an assert-style gate).
func (fi *FuncInfo) MustCrossOrPass(target ssa.Instruction, pass func(Atom) bool, edgeOK func(Edge) bool, instrPass func(ssa.Instruction) bool) GateResult {
	return fi.mustCrossOrPassDeep(target, pass, edgeOK, instrPass, 0)
}

// mustCrossOrPassDeep adds the treatment of helpers no rule knows by name
// (Program.IsNew): a target inside one is looked at in its own function, and
// when the gate is not found there, on the paths to every call site of that
// helper (the gate may have stayed in the function the helper was extracted
// from). Edge filters (stability) are not carried across the call.
func (fi *FuncInfo) mustCrossOrPassDeep(target ssa.Instruction, pass func(Atom) bool, edgeOK func(Edge) bool, instrPass func(ssa.Instruction) bool, depth int) GateResult {
	tfn := target.Parent()
	if tfn != fi.Fn {
		if !fi.P.IsNew(tfn) && depth == 0 {
			return GateResult{OK: false, Witness: "target not in function"}
		}
		return fi.P.Info(tfn).mustCrossOrPassDeep(target, pass, edgeOK, instrPass, depth)
	}
	r := fi.mustCrossOrPassLocal(target, pass, edgeOK, instrPass)
	if r.OK || depth > 3 || !fi.P.IsNew(tfn) || tfn.Parent() != nil {
		return r
	}
	callers := fi.P.Callers(tfn)
	if len(callers) == 0 {
		return r
	}
	for _, s := range callers {
		cr := fi.P.Info(s.Fn).mustCrossOrPassDeep(s.Instr, pass, nil, instrPass, depth+1)
		if !cr.OK {
			return GateResult{OK: false, Witness: r.Witness + " ; and on the way to its call at " + fi.P.PosStr(s.Instr.Pos(), s.Fn) + ": " + cr.Witness}
		}
	}
	return GateResult{OK: true}
}

func (fi *FuncInfo) mustCrossOrPassLocal(target ssa.Instruction, pass func(Atom) bool, edgeOK func(Edge) bool, instrPass func(ssa.Instruction) bool) GateResult {
	fn := fi.Fn
	if target.Parent() != fn {
		return GateResult{OK: false, Witness: "target not in function"}
	}
	gates := 0
	isGate := map[Edge]bool{}
	for _, ea := range fi.AllEdgeAtoms() {
		if pass(ea.A) || fi.helperEdgePasses(ea.E, pass) {
			// an If whose two successors are the same block is not a gate
			if ea.E.From.Succs[0] == ea.E.From.Succs[1] {
				continue
			}
			if edgeOK != nil && !edgeOK(ea.E) {
				continue
			}
			isGate[ea.E] = true
			gates++
		}
	}
	// assert-style guards: a call assert(cond) whose condition passes gates
	// everything after it in its block
	assertAt := map[*ssa.BasicBlock]int{}
	for _, b := range fn.Blocks {
		for i, in := range b.Instrs {
			if c, ok := in.(*ssa.Call); ok && fi.P.isAssert(c) {
				if pass(fi.AtomOf(c.Call.Args[0])) {
					if _, ok := assertAt[b]; !ok {
						assertAt[b] = i
						gates++
					}
				}
			}
			if instrPass != nil && instrPass(in) {
				if _, ok := assertAt[b]; !ok {
					assertAt[b] = i
					gates++
				}
			}
		}
	}
	// BFS from entry avoiding gate edges (threaded view: see thread.go)
	type st struct {
		n    TNode
		prev *st
		via  string
	}
	seen := map[TNode]bool{}
	q := []*st{{n: TEntry(fn.Blocks[0])}}
	seen[q[0].n] = true
	tb := target.Block()
	ti := instrIndex(target)
	for len(q) > 0 {
		s := q[0]
		q = q[1:]
		sb := s.n.B
		ai, hasAssert := assertAt[sb]
		if sb == tb && !(hasAssert && ai < ti) {
			var parts []string
			for x := s; x != nil; x = x.prev {
				if x.via != "" {
					parts = append([]string{x.via}, parts...)
				}
			}
			if len(parts) > 12 {
				parts = append(parts[:6], append([]string{"..."}, parts[len(parts)-5:]...)...)
			}
			return GateResult{OK: false, Witness: strings.Join(parts, " ; "), Gates: gates}
		}
		if hasAssert {
			continue
		}
		for i := range sb.Succs {
			e := Edge{sb, i}
			if isGate[e] {
				continue
			}
			if (s.n.From >= 0 || s.n.Sel != "") && sb.Succs[0] != sb.Succs[len(sb.Succs)-1] {
				if a, ok := fi.EdgeAtomN(e, s.n); ok && pass(a) && (edgeOK == nil || edgeOK(e)) {
					continue
				}
			}
			next, feasible := fi.P.TStep(s.n, i)
			if !feasible || seen[next] {
				continue
			}
			seen[next] = true
			via := ""
			if a, ok := fi.EdgeAtomN(e, s.n); ok {
				via = "[" + a.String() + "]"
			}
			q = append(q, &st{n: next, prev: s, via: via})
		}
	}
	return GateResult{OK: true, Gates: gates}
}

// isAssert: a call to the repo's assert(bool) helper.
func (p *Program) isAssert(c *ssa.Call) bool {
	f := c.Call.StaticCallee()
	return f != nil && f.Name() == "assert" && f.Pkg != nil && f.Pkg.Pkg.Path() == RaftPkg && len(c.Call.Args) == 1
}

// MustCrossAtom is MustCross with a single wanted atom (any edge atom implying it passes).
func (fi *FuncInfo) MustCrossAtom(target ssa.Instruction, want Atom) GateResult {
	return fi.MustCross(target, func(a Atom) bool { return a.Implies(want) })
}

// EdgeStable decides, for one gate edge, that (a) the values the condition
// reads are fresh at the branch (no write to the fields it mentions between the
// load and the If), and (b) on no path from the gate edge to target that does
// not re-evaluate the gate a field mentioned in the condition may be written.
func (fi *FuncInfo) EdgeStable(e Edge, target ssa.Instruction) (bool, string) {
	return fi.edgeStable(e, target, true)
}

// EdgeFresh is part (a) of EdgeStable only: the values the condition reads are
// fresh at the branch. Used where the guard establishes a fact about the
// moment of the check (the handler itself legitimately changes the state later).
func (fi *FuncInfo) EdgeFresh(e Edge) (bool, string) {
	return fi.edgeStable(e, nil, false)
}

func (fi *FuncInfo) edgeStable(e Edge, target ssa.Instruction, between bool) (bool, string) {
	p := fi.P
	p.buildStoreIdx()
	a, ok := fi.EdgeAtom(e)
	if !ok {
		return true, ""
	}
	var exprs []*Expr
	for _, x := range []*Expr{a.LE, a.RE} {
		if x != nil {
			exprs = append(exprs, x)
		}
	}
	iff := e.From.Instrs[len(e.From.Instrs)-1].(*ssa.If)
	for _, ld := range condLoads(iff.Cond) {
		li, ok := ld.(ssa.Instruction)
		if !ok || li.Parent() != fi.Fn {
			continue
		}
		if bad := fi.writeOnPaths(li.Block(), instrIndex(li)+1, iff, nil, []*Expr{fi.Sym(ld)}); bad != "" {
			return false, fmt.Sprintf("%s between the read of the guarded value and the guard [%s]", bad, a)
		}
	}
	if !between {
		return true, ""
	}
	start := e.From.Succs[e.Succ]
	if bad := fi.writeOnPaths(start, 0, target, e.From, exprs); bad != "" {
		return false, fmt.Sprintf("%s between gate [%s] and target", bad, a)
	}
	return true, ""
}

// StableBetween: every gate edge implying want is stable (kept for callers that
// want the strict form).
func (fi *FuncInfo) StableBetween(target ssa.Instruction, want Atom) (bool, string) {
	for _, ea := range fi.AllEdgeAtoms() {
		if ea.A.Implies(want) {
			if ok, why := fi.EdgeStable(ea.E, target); !ok {
				return false, why
			}
		}
	}
	return true, ""
}

// condLoads collects the memory reads (loads, map lookups) feeding a condition.
func condLoads(v ssa.Value) []ssa.Value {
	var out []ssa.Value
	seen := map[ssa.Value]bool{}
	var rec func(x ssa.Value, d int)
	rec = func(x ssa.Value, d int) {
		if x == nil || seen[x] || d > 12 {
			return
		}
		seen[x] = true
		switch y := x.(type) {
		case *ssa.UnOp:
			if y.Op == token.MUL {
				out = append(out, y)
				return
			}
			rec(y.X, d+1)
		case *ssa.BinOp:
			rec(y.X, d+1)
			rec(y.Y, d+1)
		case *ssa.Convert:
			rec(y.X, d+1)
		case *ssa.ChangeType:
			rec(y.X, d+1)
		case *ssa.Field:
			rec(y.X, d+1)
		case *ssa.Extract:
			rec(y.Tuple, d+1)
		case *ssa.Lookup:
			out = append(out, y)
			rec(y.X, d+1)
		}
	}
	rec(v, 0)
	return out
}

// writeOnPaths scans the instructions lying on some path from (b, idx) to
// `until` that does not pass through stopBlock, and reports the first one that
// may write a location one of the expressions reads.
func (fi *FuncInfo) writeOnPaths(b *ssa.BasicBlock, idx int, until ssa.Instruction, stopBlock *ssa.BasicBlock, exprs []*Expr) string {
	p := fi.P
	ub := until.Block()
	scan := func(blk *ssa.BasicBlock, from, to int) string {
		for i := from; i < to && i < len(blk.Instrs); i++ {
			if bad := p.mayWriteExprs(blk.Instrs[i], exprs); bad != "" {
				return fmt.Sprintf("%s writes %s", p.PosStr(blk.Instrs[i].Pos(), fi.Fn), bad)
			}
		}
		return ""
	}
	if stopBlock == nil && idx > 0 {
		// the scan starts after a memory read inside b: a path that re-enters b
		// executes that read again, which refreshes the value
		stopBlock = b
	}
	if b == ub && idx <= instrIndex(until) {
		// straight-line part
		if bad := scan(b, idx, instrIndex(until)); bad != "" {
			return bad
		}
	}
	// forward set: blocks reachable from b's successors without expanding stopBlock.
	// `until` may execute several times (loops): a path may pass it and come back.
	fwd := map[*ssa.BasicBlock]bool{}
	var stack []*ssa.BasicBlock
	push := func(from *ssa.BasicBlock) {
		for si, s := range from.Succs {
			if FeasibleSucc(from, si) && !fwd[s] && s != stopBlock {
				fwd[s] = true
				stack = append(stack, s)
			}
		}
	}
	push(b)
	for len(stack) > 0 {
		x := stack[len(stack)-1]
		stack = stack[:len(stack)-1]
		push(x)
	}
	if !fwd[ub] {
		return "" // until not reachable again from here without re-evaluating the gate
	}
	// backward set: blocks that reach ub without passing stopBlock
	bwd := map[*ssa.BasicBlock]bool{ub: true}
	stack = []*ssa.BasicBlock{ub}
	for len(stack) > 0 {
		x := stack[len(stack)-1]
		stack = stack[:len(stack)-1]
		for _, pr := range x.Preds {
			if !bwd[pr] && pr != stopBlock {
				bwd[pr] = true
				stack = append(stack, pr)
			}
		}
	}
	// is ub on a cycle (within the allowed region)? then everything in it can precede a later execution of until
	ubCycle := false
	for _, sc := range ub.Succs {
		if fwdReach(sc, ub, stopBlock) {
			ubCycle = true
		}
	}
	if b != ub && bwd[b] {
		if bad := scan(b, idx, len(b.Instrs)); bad != "" {
			return bad
		}
	}
	for _, blk := range fi.Fn.Blocks {
		if !fwd[blk] || !bwd[blk] {
			continue
		}
		if blk == b && blk != ub {
			// b reachable again through a cycle: its whole body counts
			if bad := scan(blk, 0, len(blk.Instrs)); bad != "" {
				return bad
			}
			continue
		}
		to := len(blk.Instrs)
		if blk == ub && !ubCycle {
			to = instrIndex(until)
		}
		if blk == ub && ubCycle {
			// skip `until` itself
			if bad := scan(blk, 0, instrIndex(until)); bad != "" {
				return bad
			}
			if bad := scan(blk, instrIndex(until)+1, len(blk.Instrs)); bad != "" {
				return bad
			}
			continue
		}
		if bad := scan(blk, 0, to); bad != "" {
			return bad
		}
	}
	return ""
}

func fwdReach(from, to, stop *ssa.BasicBlock) bool {
	if from == stop {
		return false
	}
	seen := map[*ssa.BasicBlock]bool{from: true}
	stack := []*ssa.BasicBlock{from}
	for len(stack) > 0 {
		x := stack[len(stack)-1]
		stack = stack[:len(stack)-1]
		if x == to {
			return true
		}
		for si, s := range x.Succs {
			if !seen[s] && s != stop && FeasibleSucc(x, si) {
				seen[s] = true
				stack = append(stack, s)
			}
		}
	}
	return false
}

func reachBack(b *ssa.BasicBlock) map[*ssa.BasicBlock]bool {
	seen := map[*ssa.BasicBlock]bool{b: true}
	stack := []*ssa.BasicBlock{b}
	for len(stack) > 0 {
		x := stack[len(stack)-1]
		stack = stack[:len(stack)-1]
		for _, pr := range x.Preds {
			if !seen[pr] {
				seen[pr] = true
				stack = append(stack, pr)
			}
		}
	}
	return seen
}

// mayWriteExprs: may the instruction write a memory location that one of the
// expressions reads? Field-based, with one refinement: a location rooted at an
// object allocated in this function can be written by a callee only if that
// object is passed to it.
func (p *Program) mayWriteExprs(in ssa.Instruction, exprs []*Expr) string {
	type loc struct {
		f    *types.Var
		root *Expr
	}
	var locs []loc
	var rec func(x *Expr)
	rec = func(x *Expr) {
		if x == nil {
			return
		}
		if x.Op == "fld" && x.Var != nil {
			locs = append(locs, loc{x.Var, x.Root()})
		}
		for _, a := range x.Args {
			rec(a)
		}
	}
	for _, e := range exprs {
		rec(e)
	}
	if len(locs) == 0 {
		return ""
	}
	localRoot := func(r *Expr) *ssa.Alloc {
		if r == nil {
			return nil
		}
		a, _ := r.Val.(*ssa.Alloc)
		return a
	}
	if e, ok := p.storePaths[in]; ok {
		x := e
		for x != nil && (x.Op == "idx" || x.Op == "conv") {
			x = x.Args[0]
		}
		if x != nil && x.Op == "fld" {
			wr := localRoot(x.Root())
			for _, l := range locs {
				if l.f != x.Var {
					continue
				}
				lr := localRoot(l.root)
				if wr != nil && lr != nil && wr != lr {
					continue // different local objects
				}
				if (wr != nil) != (lr != nil) {
					// one side is a fresh local object, the other is reached through a parameter: distinct unless the local escaped
					continue
				}
				return x.Var.Name()
			}
		}
	}
	if ci, ok := in.(ssa.CallInstruction); ok {
		if _, isDefer := in.(*ssa.Defer); isDefer {
			return ""
		}
		if _, isGo := in.(*ssa.Go); isGo {
			return ""
		}
		fi := p.Info(in.Parent())
		for _, c := range p.CalleesOf(ci) {
			if !p.inRepo(c) {
				continue
			}
			ms := p.ModSet(c)
			for _, l := range locs {
				if !ms[l.f] {
					continue
				}
				if lr := localRoot(l.root); lr != nil {
					passed := false
					for _, a := range ci.Common().Args {
						if _, basic := a.Type().Underlying().(*types.Basic); basic {
							continue // a scalar copy gives no access to the object
						}
						if r := fi.Sym(a).Root(); r != nil && r.Val == ssa.Value(lr) {
							passed = true
						}
					}
					if !passed {
						continue
					}
				}
				return l.f.Name() + " (via " + p.FuncName(c) + ")"
			}
		}
	}
	return ""
}

// mayWrite is the field-set form kept for simple callers.
func (p *Program) mayWrite(in ssa.Instruction, fields map[*types.Var]bool) string {
	if e, ok := p.storePaths[in]; ok {
		x := e
		for x != nil && (x.Op == "idx" || x.Op == "conv") {
			x = x.Args[0]
		}
		if x != nil && x.Op == "fld" && fields[x.Var] {
			return x.Var.Name()
		}
	}
	if ci, ok := in.(ssa.CallInstruction); ok {
		for _, c := range p.CalleesOf(ci) {
			ms := p.ModSet(c)
			for f := range fields {
				if ms[f] {
					return f.Name() + " (via " + p.FuncName(c) + ")"
				}
			}
		}
	}
	return ""
}

// ---------------------------------------------------------------- follows

// FollowResult describes a post-dominance style query.
type FollowResult struct {
	OK      bool
	Witness string
}

// AlwaysFollowedBy decides: on every path from just after `from` to a normal
// return of the function, an instruction satisfying `hit` occurs. Paths ending
// in panic are accepted. `stopAt` (optional) marks instructions that end the
// obligation as satisfied as well (e.g. loop back to a re-check).
func (fi *FuncInfo) AlwaysFollowedBy(from ssa.Instruction, hit func(ssa.Instruction) bool) FollowResult {
	return fi.AlwaysFollowedByE(from, hit, nil)
}

// AlwaysFollowedByE additionally accepts CFG edges whose atom satisfies edgeHit
// as discharging the obligation (e.g. "the entry is not a configuration").
func (fi *FuncInfo) AlwaysFollowedByE(from ssa.Instruction, hit func(ssa.Instruction) bool, edgeHit func(Atom) bool) FollowResult {
	return fi.AlwaysFollowedFrom(from.Block(), instrIndex(from)+1, hit, edgeHit)
}

// AlwaysFollowedFrom starts the obligation at instruction index idx of block b0.
func (fi *FuncInfo) AlwaysFollowedFrom(b0 *ssa.BasicBlock, idx int, hit func(ssa.Instruction) bool, edgeHit func(Atom) bool) FollowResult {
	type pos struct {
		n TNode
		i int
	}
	start := pos{TEntry(b0), idx}
	seen := map[TNode]bool{}
	type item struct {
		p    pos
		path []string
	}
	stack := []item{{start, nil}}
	for len(stack) > 0 {
		it := stack[len(stack)-1]
		stack = stack[:len(stack)-1]
		b := it.p.n.B
		done := false
		for i := it.p.i; i < len(b.Instrs); i++ {
			in := b.Instrs[i]
			if hit(in) {
				done = true
				break
			}
			switch in.(type) {
			case *ssa.Return:
				return FollowResult{false, fmt.Sprintf("reaches return at %s via %s", fi.P.PosStr(in.Pos(), fi.Fn), strings.Join(it.path, " ; "))}
			case *ssa.Panic:
				done = true
			}
			if done {
				break
			}
		}
		if done {
			continue
		}
		for si := range b.Succs {
			next, feasible := fi.P.TStep(it.p.n, si)
			if !feasible || seen[next] {
				continue
			}
			via := ""
			if a, ok := fi.EdgeAtomN(Edge{b, si}, it.p.n); ok {
				via = "[" + a.String() + "]"
				if edgeHit != nil && edgeHit(a) {
					continue
				}
			}
			seen[next] = true
			np := append(append([]string{}, it.path...), via)
			if via == "" {
				np = it.path
			}
			stack = append(stack, item{pos{next, 0}, np})
		}
	}
	return FollowResult{OK: true}
}

// Precedes decides: on every path from function entry to `target`, an
// instruction satisfying hit occurs before it (dominance by a set).
func (fi *FuncInfo) PrecededBy(target ssa.Instruction, hit func(ssa.Instruction) bool) FollowResult {
	type pos struct {
		b *ssa.BasicBlock
	}
	// forward search from entry; blocks containing a hit (before target if same block) stop the search
	seen := map[TNode]bool{}
	stack := []TNode{TEntry(fi.Fn.Blocks[0])}
	seen[stack[0]] = true
	for len(stack) > 0 {
		n := stack[len(stack)-1]
		stack = stack[:len(stack)-1]
		b := n.B
		blocked := false
		for _, in := range b.Instrs {
			if in == target {
				return FollowResult{false, fmt.Sprintf("path reaches %s without passing the required instruction (block %d)", fi.P.PosStr(target.Pos(), fi.Fn), b.Index)}
			}
			if hit(in) {
				blocked = true
				break
			}
		}
		if blocked {
			continue
		}
		for si := range b.Succs {
			next, feasible := fi.P.TStep(n, si)
			if feasible && !seen[next] {
				seen[next] = true
				stack = append(stack, next)
			}
		}
	}
	return FollowResult{OK: true}
}

// ---------------------------------------------------------------- misc selection

// Returns lists the return instructions of fn.
func Returns(fn *ssa.Function) []*ssa.Return {
	var out []*ssa.Return
	for _, b := range fn.Blocks {
		if b == fn.Recover {
			continue // synthetic exit taken only after a recovered panic
		}
		for _, in := range b.Instrs {
			if r, ok := in.(*ssa.Return); ok {
				out = append(out, r)
			}
		}
	}
	return out
}

// Instrs iterates over all instructions of fn.
func Instrs(fn *ssa.Function, f func(ssa.Instruction)) {
	for _, b := range fn.Blocks {
		for _, in := range b.Instrs {
			f(in)
		}
	}
}

// IsCallTo reports whether instruction is a (non-go, non-defer unless allowed) call that may reach callee.
func (p *Program) IsCallTo(in ssa.Instruction, callee *ssa.Function) bool {
	ci, ok := in.(ssa.CallInstruction)
	if !ok {
		return false
	}
	for _, c := range p.CalleesOf(ci) {
		if c == callee {
			return true
		}
	}
	return false
}

// DeferredClosures returns closures that fn defers (defer func(){...}()).
func (p *Program) DeferredClosures(fn *ssa.Function) []*ssa.Function {
	var out []*ssa.Function
	Instrs(fn, func(in ssa.Instruction) {
		if d, ok := in.(*ssa.Defer); ok {
			if mc, ok := d.Call.Value.(*ssa.MakeClosure); ok {
				out = append(out, mc.Fn.(*ssa.Function))
			} else if f, ok := d.Call.Value.(*ssa.Function); ok && f.Parent() == fn {
				out = append(out, f)
			}
		}
	})
	return out
}

// GoTargets returns, for each `go` statement in fn, the function started.
func (p *Program) GoSites(fn *ssa.Function) []*ssa.Go {
	var out []*ssa.Go
	Instrs(fn, func(in ssa.Instruction) {
		if g, ok := in.(*ssa.Go); ok {
			out = append(out, g)
		}
	})
	return out
}

var _ = token.NoPos

// RangeHeader finds the loop header block of `for ... range <expr>`: the block
// whose If tests each(expr).ok. ord selects the n-th such loop (0-based, in
// block order).
func (fi *FuncInfo) RangeHeader(rangeExpr string, ord int) *ssa.BasicBlock {
	k := 0
	for _, b := range fi.Fn.Blocks {
		if a, ok := fi.EdgeAtom(Edge{b, 0}); ok && a.Op == "true" && a.L == "each("+rangeExpr+").ok" {
			if k == ord {
				return b
			}
			k++
		}
	}
	return nil
}

// LoopBodyMustCross decides: every path through the loop body (from the
// header's true edge back to the header) crosses an edge satisfying pass. A
// path that leaves the function (return/panic) is fine.
func (fi *FuncInfo) LoopBodyMustCross(header *ssa.BasicBlock, pass func(Atom) bool) GateResult {
	return fi.LoopBodyMustCrossOrPass(header, pass, nil)
}

// LoopBodyMustCrossOrPass: every path through the loop body crosses a passing
// edge or executes an instruction satisfying hit.
func (fi *FuncInfo) LoopBodyMustCrossOrPass(header *ssa.BasicBlock, pass func(Atom) bool, hit func(ssa.Instruction) bool) GateResult {
	type st struct {
		n    TNode
		prev *st
		via  string
	}
	body, feasible := fi.P.TStep(TEntry(header), 0)
	if !feasible {
		return GateResult{OK: true}
	}
	seen := map[TNode]bool{body: true}
	q := []*st{{n: body}}
	gates := 0
	for len(q) > 0 {
		s := q[0]
		q = q[1:]
		sb := s.n.B
		if sb == header {
			var parts []string
			for x := s; x != nil; x = x.prev {
				if x.via != "" {
					parts = append([]string{x.via}, parts...)
				}
			}
			return GateResult{OK: false, Witness: strings.Join(parts, " ; "), Gates: gates}
		}
		if hit != nil {
			blocked := false
			for _, in := range sb.Instrs {
				if hit(in) {
					blocked = true
				}
			}
			if blocked {
				continue
			}
		}
		for i := range sb.Succs {
			next, feasible := fi.P.TStep(s.n, i)
			if !feasible {
				continue
			}
			via := ""
			if a, ok := fi.EdgeAtomN(Edge{sb, i}, s.n); ok {
				via = "[" + a.String() + "]"
				if pass(a) && sb.Succs[0] != sb.Succs[1] {
					gates++
					continue
				}
			}
			if seen[next] && next.B != header {
				continue
			}
			seen[next] = true
			q = append(q, &st{n: next, prev: s, via: via})
		}
	}
	return GateResult{OK: true, Gates: gates}
}

// MustPassFeasible decides: every *feasible* path from entry to target
// executes an instruction satisfying instrPass. Feasibility filter (E2/E3
// bridge): along a path the atoms of the branches taken are pinned; a branch
// whose atom contradicts a pinned atom over the same expressions is not taken;
// pins are dropped at any instruction that may write what they read. This
// removes the classic correlated-condition false alarm (`if n > 0 { defer }`
// followed by `for n > 0 { ... }`).
func (fi *FuncInfo) MustPassFeasible(target ssa.Instruction, instrPass func(ssa.Instruction) bool) GateResult {
	p := fi.P
	p.buildStoreIdx()
	type pin struct {
		a Atom
	}
	type state struct {
		b    TNode
		pins string
	}
	type item struct {
		n    TNode
		pins []Atom
		path []string
	}
	key := func(pins []Atom) string {
		var s []string
		for _, a := range pins {
			s = append(s, a.String())
		}
		sort.Strings(s)
		return strings.Join(s, "&")
	}
	contradicts := func(pins []Atom, a Atom) bool {
		for _, q := range pins {
			if q.L == a.L && q.R == a.R {
				// q true; a contradicts if q implies not a
				if q.Implies(a.Negate()) {
					return true
				}
			}
		}
		return false
	}
	pinnable := func(a Atom) bool {
		for _, e := range []*Expr{a.LE, a.RE} {
			if e == nil {
				continue
			}
			bad := false
			var rec func(x *Expr)
			rec = func(x *Expr) {
				if x == nil {
					return
				}
				if x.Op == "call" || x.Op == "phi" || x.Op == "opaque" {
					bad = true
				}
				for _, y := range x.Args {
					rec(y)
				}
			}
			rec(e)
			if bad {
				return false
			}
		}
		return true
	}
	seen := map[state]bool{}
	stack := []item{{n: TEntry(fi.Fn.Blocks[0])}}
	tb := target.Block()
	steps := 0
	for len(stack) > 0 {
		it := stack[len(stack)-1]
		stack = stack[:len(stack)-1]
		itb := it.n.B
		st := state{it.n, key(it.pins)}
		if seen[st] {
			continue
		}
		seen[st] = true
		steps++
		if steps > 20000 {
			return GateResult{OK: false, Witness: "path bound exceeded"}
		}
		pins := it.pins
		passed := false
		reached := false
		for _, in := range itb.Instrs {
			if in == target {
				reached = true
				break
			}
			if instrPass(in) {
				passed = true
				break
			}
			// drop pins invalidated by this instruction
			if len(pins) > 0 {
				var keep []Atom
				for _, q := range pins {
					if p.mayWriteExprs(in, []*Expr{q.LE, q.RE}) == "" {
						keep = append(keep, q)
					}
				}
				pins = keep
			}
		}
		if passed {
			continue
		}
		if reached && itb == tb {
			return GateResult{OK: false, Witness: strings.Join(it.path, " ; ")}
		}
		for si := range itb.Succs {
			succ, feasible := fi.P.TStep(it.n, si)
			if !feasible {
				continue
			}
			np := pins
			path := it.path
			if a, ok := fi.EdgeAtomN(Edge{itb, si}, it.n); ok {
				if contradicts(pins, a) {
					continue
				}
				path = append(append([]string{}, it.path...), "["+a.String()+"]")
				if pinnable(a) {
					np = append(append([]Atom{}, pins...), a)
				}
			}
			stack = append(stack, item{succ, np, path})
		}
	}
	return GateResult{OK: true}
}

// LoopHeaders returns blocks that are targets of back edges (natural loop headers).
func LoopHeaders(fn *ssa.Function) []*ssa.BasicBlock {
	var out []*ssa.BasicBlock
	seen := map[*ssa.BasicBlock]bool{}
	for _, b := range fn.Blocks {
		for _, s := range b.Succs {
			if s.Dominates(b) && !seen[s] {
				seen[s] = true
				out = append(out, s)
			}
		}
	}
	sort.Slice(out, func(i, j int) bool { return out[i].Index < out[j].Index })
	return out
}

// Reachable computes the set of functions reachable from root over the call
// graph (static + VTA edges), including closures created on the way.
func (p *Program) Reachable(root *ssa.Function) map[*ssa.Function]bool {
	seen := map[*ssa.Function]bool{}
	var rec func(f *ssa.Function)
	rec = func(f *ssa.Function) {
		if f == nil || seen[f] {
			return
		}
		seen[f] = true
		if !p.inRepo(f) {
			return
		}
		for _, b := range f.Blocks {
			for _, in := range b.Instrs {
				switch x := in.(type) {
				case ssa.CallInstruction:
					if _, isGo := in.(*ssa.Go); isGo {
						continue // a new goroutine is a different root
					}
					for _, c := range p.CalleesOf(x) {
						rec(c)
					}
				case *ssa.MakeClosure:
					// closures are entered where they are called/deferred; a closure handed to `go` is skipped above,
					// but one stored and called later must be covered: include unless only used by a Go instruction
					onlyGo := true
					for _, r := range *x.Referrers() {
						if _, isGo := r.(*ssa.Go); !isGo {
							onlyGo = false
						}
					}
					if !onlyGo {
						rec(x.Fn.(*ssa.Function))
					}
				}
			}
		}
	}
	rec(root)
	return seen
}

// ValueFresh decides that the memory reads feeding value v are still current
// when instruction `at` executes: no instruction on any path from a read to
// `at` may write what it read. It returns the offending write, if any.
func (fi *FuncInfo) ValueFresh(v ssa.Value, at ssa.Instruction) (bool, string) {
	fi.P.buildStoreIdx()
	for _, ld := range condLoads(v) {
		li, ok := ld.(ssa.Instruction)
		if !ok || li.Parent() != fi.Fn {
			continue
		}
		if bad := fi.writeOnPaths(li.Block(), instrIndex(li)+1, at, nil, []*Expr{fi.Sym(ld)}); bad != "" {
			return false, bad
		}
	}
	return true, ""
}

// LoopBodyMustPass decides: every path through the loop body (header's true
// edge back to the header) executes an instruction satisfying hit. Leaving the
// function is fine.
func (fi *FuncInfo) LoopBodyMustPass(header *ssa.BasicBlock, hit func(ssa.Instruction) bool) GateResult {
	type st struct {
		n    TNode
		prev *st
		via  string
	}
	// every iteration executes the header block itself
	for _, in := range header.Instrs {
		if hit(in) {
			return GateResult{OK: true}
		}
	}
	body, feasible := fi.P.TStep(TEntry(header), 0)
	if !feasible {
		return GateResult{OK: true}
	}
	seen := map[TNode]bool{body: true}
	q := []*st{{n: body}}
	for len(q) > 0 {
		s := q[0]
		q = q[1:]
		sb := s.n.B
		if sb == header {
			var parts []string
			for x := s; x != nil; x = x.prev {
				if x.via != "" {
					parts = append([]string{x.via}, parts...)
				}
			}
			return GateResult{OK: false, Witness: strings.Join(parts, " ; ")}
		}
		blocked := false
		for _, in := range sb.Instrs {
			if hit(in) {
				blocked = true
				break
			}
		}
		if blocked {
			continue
		}
		for i := range sb.Succs {
			next, feasible := fi.P.TStep(s.n, i)
			if !feasible {
				continue
			}
			via := ""
			if a, ok := fi.EdgeAtomN(Edge{sb, i}, s.n); ok {
				via = "[" + a.String() + "]"
			}
			if seen[next] && next.B != header {
				continue
			}
			seen[next] = true
			q = append(q, &st{n: next, prev: s, via: via})
		}
	}
	return GateResult{OK: true}
}

// InLoop reports whether block b belongs to the natural loop of header.
func InLoop(header, b *ssa.BasicBlock) bool {
	if !header.Dominates(b) {
		return false
	}
	// b reaches header
	seen := map[*ssa.BasicBlock]bool{b: true}
	stack := []*ssa.BasicBlock{b}
	for len(stack) > 0 {
		x := stack[len(stack)-1]
		stack = stack[:len(stack)-1]
		for _, s := range x.Succs {
			if s == header {
				return true
			}
			if !seen[s] && header.Dominates(s) {
				seen[s] = true
				stack = append(stack, s)
			}
		}
	}
	return false
}

// MustCrossInLoop: every path from the loop header to target (inside the loop)
// crosses an edge satisfying pass — i.e. within the current iteration.
func (fi *FuncInfo) MustCrossInLoop(header *ssa.BasicBlock, target ssa.Instruction, pass func(Atom) bool) GateResult {
	return fi.MustCrossOrPassInLoop(header, target, pass, nil)
}

// MustCrossOrPassInLoop: as MustCrossInLoop; an instruction satisfying hit,
// executed in the current iteration before target, also discharges the path.
func (fi *FuncInfo) MustCrossOrPassInLoop(header *ssa.BasicBlock, target ssa.Instruction, pass func(Atom) bool, hit func(ssa.Instruction) bool) GateResult {
	type st struct {
		n    TNode
		prev *st
		via  string
	}
	seen := map[TNode]bool{TEntry(header): true}
	q := []*st{{n: TEntry(header)}}
	tb := target.Block()
	for len(q) > 0 {
		s := q[0]
		q = q[1:]
		sb := s.n.B
		blocked := false
		reached := false
		for _, in := range sb.Instrs {
			if in == target {
				reached = true
				break
			}
			if hit != nil && hit(in) {
				blocked = true
				break
			}
		}
		if blocked {
			continue
		}
		if sb == tb && reached {
			var parts []string
			for x := s; x != nil; x = x.prev {
				if x.via != "" {
					parts = append([]string{x.via}, parts...)
				}
			}
			return GateResult{OK: false, Witness: strings.Join(parts, " ; ")}
		}
		for i := range sb.Succs {
			next, feasible := fi.P.TStep(s.n, i)
			if !feasible || seen[next] {
				continue
			}
			if next.B == header {
				continue // the next iteration
			}
			via := ""
			if a, ok := fi.EdgeAtomN(Edge{sb, i}, s.n); ok {
				via = "[" + a.String() + "]"
				if pass(a) {
					continue
				}
			}
			seen[next] = true
			q = append(q, &st{n: next, prev: s, via: via})
		}
	}
	return GateResult{OK: true}
}

// FeasiblePath decides whether block `to` can be reached from (from, idx)
// along a path consistent with the pinned atoms (a branch whose atom
// contradicts a pin over the same expressions is not taken; pins die when
// something they read may be written).
func (fi *FuncInfo) FeasiblePath(from *ssa.BasicBlock, idx int, pins []Atom, to *ssa.BasicBlock) (bool, string) {
	p := fi.P
	p.buildStoreIdx()
	type item struct {
		b    *ssa.BasicBlock
		i    int
		pins []Atom
		path []string
	}
	key := func(b *ssa.BasicBlock, pins []Atom) string {
		var s []string
		for _, a := range pins {
			s = append(s, a.String())
		}
		sort.Strings(s)
		return fmt.Sprintf("%d|%s", b.Index, strings.Join(s, "&"))
	}
	seen := map[string]bool{}
	stack := []item{{from, idx, pins, nil}}
	first := true
	for len(stack) > 0 {
		it := stack[len(stack)-1]
		stack = stack[:len(stack)-1]
		if !first && it.b == to {
			return true, strings.Join(it.path, " ; ")
		}
		k := key(it.b, it.pins)
		if seen[k] && !first {
			continue
		}
		seen[k] = true
		first = false
		pn := it.pins
		for i := it.i; i < len(it.b.Instrs); i++ {
			in := it.b.Instrs[i]
			if len(pn) > 0 {
				var keep []Atom
				for _, q := range pn {
					if p.mayWriteExprs(in, []*Expr{q.LE, q.RE}) == "" {
						keep = append(keep, q)
					}
				}
				pn = keep
			}
		}
		for si, succ := range it.b.Succs {
			if !FeasibleSucc(it.b, si) {
				continue
			}
			path := it.path
			np := pn
			if a, ok := fi.EdgeAtom(Edge{it.b, si}); ok {
				bad := false
				for _, q := range pn {
					if q.L == a.L && q.R == a.R && q.Implies(a.Negate()) {
						bad = true
					}
				}
				if bad {
					continue
				}
				path = append(append([]string{}, it.path...), "["+a.String()+"]")
			}
			stack = append(stack, item{succ, 0, np, path})
		}
	}
	return false, ""
}

// EdgeAtomsMatching returns atoms (with their expressions) of edges satisfying pred.
func (fi *FuncInfo) EdgeAtomsMatching(pred func(Atom) bool) []Atom {
	var out []Atom
	for _, ea := range fi.AllEdgeAtoms() {
		if pred(ea.A) {
			out = append(out, ea.A)
		}
	}
	return out
}

// LoopExit is an edge leaving the natural loop of a header, or a return /
// panic inside the loop body.
type LoopExit struct {
	From *ssa.BasicBlock
	To   *ssa.BasicBlock // nil for return/panic inside the loop
	Atom Atom            // condition under which the exit edge is taken (HasAtom)
	Has  bool
	Term ssa.Instruction // the return/panic (To == nil)
}

// LoopExits lists every way control leaves the natural loop of header.
func (fi *FuncInfo) LoopExits(header *ssa.BasicBlock) []LoopExit {
	var out []LoopExit
	for _, b := range fi.Fn.Blocks {
		if b != header && !InLoop(header, b) {
			continue
		}
		if len(b.Succs) == 0 && len(b.Instrs) > 0 {
			out = append(out, LoopExit{From: b, Term: b.Instrs[len(b.Instrs)-1]})
			continue
		}
		for i, s := range b.Succs {
			if s == header || InLoop(header, s) {
				continue
			}
			// a successor outside the loop: if it only returns/panics, report it as exit too
			ex := LoopExit{From: b, To: s}
			if a, ok := fi.EdgeAtom(Edge{b, i}); ok && len(b.Succs) == 2 {
				ex.Atom, ex.Has = a, true
			}
			out = append(out, ex)
		}
	}
	return out
}

// helperEdgePasses: the edge is the true edge of `if H(args)` where H is a
// boolean helper no rule knows by name (IsNew) — a condition that a
// refactoring moved into a predicate function. The edge then implies, for every
// way H can return true, the conditions H tested on that way; it passes when on
// each way one of them satisfies pass (after renaming H's parameters to the
// call's arguments).
func (fi *FuncInfo) helperEdgePasses(e Edge, pass func(Atom) bool) bool {
	if len(e.From.Instrs) == 0 {
		return false
	}
	iff, ok := e.From.Instrs[len(e.From.Instrs)-1].(*ssa.If)
	if !ok {
		return false
	}
	cond := iff.Cond
	pol := e.Succ == 0
	for {
		u, isNot := cond.(*ssa.UnOp)
		if !isNot || u.Op != token.NOT {
			break
		}
		cond = u.X
		pol = !pol
	}
	call, ok := cond.(*ssa.Call)
	if !ok || !pol {
		return false
	}
	h := call.Common().StaticCallee()
	if h == nil || !fi.P.IsNew(h) || h.Blocks == nil || h.Signature.Results().Len() != 1 {
		return false
	}
	ways := fi.P.trueWays(h)
	if len(ways) == 0 {
		return false
	}
	// rename parameters
	hfi := fi.P.Info(h)
	ren := map[string]string{}
	for i, prm := range h.Params {
		if i < len(call.Common().Args) {
			ren[hfi.paramLeaf(prm)] = fi.Sym(call.Common().Args[i]).String()
		}
	}
	rn := func(x string) string {
		for from, to := range ren {
			if from == to {
				continue
			}
			x = replaceToken(x, from, to)
		}
		return x
	}
	for _, way := range ways {
		found := false
		for _, a := range way {
			b := Atom{L: rn(a.L), Op: a.Op, R: rn(a.R)}
			if pass(b.norm(false)) || pass(b) {
				found = true
				break
			}
		}
		if !found {
			return false
		}
	}
	return true
}

// trueWays: for a boolean function, one set of atoms per way of returning
// true: the branch atoms that every path to that return (or to the phi edge
// supplying the value) crosses, plus the returned comparison itself.
func (p *Program) trueWays(h *ssa.Function) [][]Atom {
	fi := p.Info(h)
	crossed := func(at ssa.Instruction) []Atom {
		var out []Atom
		for _, ea := range fi.AllEdgeAtoms() {
			a := ea.A
			r := fi.mustCrossOrPassLocal(at, func(x Atom) bool { return x.L == a.L && x.Op == a.Op && x.R == a.R }, nil, nil)
			if r.OK {
				out = append(out, a)
			}
		}
		return out
	}
	var ways [][]Atom
	var addVal func(v ssa.Value, at ssa.Instruction, depth int)
	addVal = func(v ssa.Value, at ssa.Instruction, depth int) {
		if c, ok := v.(*ssa.Const); ok {
			if c.Value != nil && c.Value.Kind() == constant.Bool && constant.BoolVal(c.Value) {
				ways = append(ways, crossed(at))
			}
			return
		}
		if phi, ok := v.(*ssa.Phi); ok && depth < 4 {
			for i, ed := range phi.Edges {
				pred := phi.Block().Preds[i]
				addVal(ed, pred.Instrs[len(pred.Instrs)-1], depth+1)
			}
			return
		}
		w := crossed(at)
		w = append(w, fi.AtomOf(v))
		ways = append(ways, w)
	}
	for _, r := range Returns(h) {
		if len(r.Results) == 1 {
			addVal(r.Results[0], r, 0)
		}
	}
	return ways
}

func replaceToken(s, from, to string) string {
	if from == "" {
		return s
	}
	var out strings.Builder
	for i := 0; i < len(s); {
		if strings.HasPrefix(s[i:], from) {
			end := i + len(from)
			beforeOK := i == 0 || !isIdentByte(s[i-1])
			afterOK := end == len(s) || !isIdentByte(s[end])
			if beforeOK && afterOK {
				out.WriteString(to)
				i = end
				continue
			}
		}
		out.WriteByte(s[i])
		i++
	}
	return out.String()
}

func isIdentByte(c byte) bool {
	return c == '_' || c == '$' || c >= '0' && c <= '9' || c >= 'a' && c <= 'z' || c >= 'A' && c <= 'Z'
}
