package core

import (
	"sort"
	"strconv"
	"strings"
)

// Rel is an ordering/equality fact between two symbolic terms.
type Rel struct {
	A, Op, B string // Op in == != < <= > >=
}

func (r Rel) String() string { return r.A + " " + r.Op + " " + r.B }

func (r Rel) Negate() Rel { return Rel{r.A, negOp[r.Op], r.B} }

// constVal extracts a numeric value from a constant term ("3", "rpcResult(3)").
func constVal(s string) (int64, bool) {
	if i := strings.Index(s, "("); i > 0 && strings.HasSuffix(s, ")") && isConstStr(s) {
		s = s[i+1 : len(s)-1]
	}
	if s == "false" {
		return 0, true
	}
	if s == "true" {
		return 1, true
	}
	n, err := strconv.ParseInt(s, 10, 64)
	if err != nil {
		if u, err2 := strconv.ParseUint(s, 10, 64); err2 == nil {
			_ = u
			return 1 << 62, true
		}
		return 0, false
	}
	return n, true
}

// Consistent decides satisfiability of a conjunction of order facts over a
// total order (congruence closure + strict-cycle detection). Built-in axioms:
// numeric constants are ordered by value; "(t + 1)" is greater than t;
// terms listed in unsigned are >= 0.
func Consistent(rels []Rel, unsigned map[string]bool) bool {
	// collect terms
	idx := map[string]int{}
	var terms []string
	add := func(t string) int {
		if i, ok := idx[t]; ok {
			return i
		}
		idx[t] = len(terms)
		terms = append(terms, t)
		return len(terms) - 1
	}
	for _, r := range rels {
		add(r.A)
		add(r.B)
	}
	// successor axiom and constants
	var extra []Rel
	for _, t := range append([]string{}, terms...) {
		if strings.HasPrefix(t, "(") && strings.HasSuffix(t, " + 1)") {
			base := t[1 : len(t)-len(" + 1)")]
			add(base)
			extra = append(extra, Rel{base, "<", t})
		}
	}
	// freshly allocated objects, closures and channels are not nil
	for _, t := range append([]string{}, terms...) {
		if strings.HasPrefix(t, "new:") || strings.HasPrefix(t, "&") || strings.HasPrefix(t, "closure:") || strings.HasPrefix(t, "makechan") || strings.HasPrefix(t, "local:") && false {
			if !strings.ContainsAny(t[1:], ".[@") {
				add("nil")
				extra = append(extra, Rel{t, "!=", "nil"})
			}
		}
	}
	var consts []string
	for _, t := range terms {
		if _, ok := constVal(t); ok && isConstStr(t) {
			consts = append(consts, t)
		}
	}
	sort.Strings(consts)
	for i := 0; i < len(consts); i++ {
		for j := i + 1; j < len(consts); j++ {
			a, _ := constVal(consts[i])
			b, _ := constVal(consts[j])
			switch {
			case a < b:
				extra = append(extra, Rel{consts[i], "<", consts[j]})
			case a > b:
				extra = append(extra, Rel{consts[j], "<", consts[i]})
			default:
				extra = append(extra, Rel{consts[i], "==", consts[j]})
			}
		}
	}
	if len(unsigned) > 0 {
		z := "0"
		for _, t := range terms {
			if unsigned[t] {
				add(z)
				extra = append(extra, Rel{z, "<=", t})
			}
		}
		// constants vs 0 (if 0 was just added)
		if _, ok := idx[z]; ok {
			for _, c := range consts {
				if c == z {
					continue
				}
				if v, ok := constVal(c); ok {
					if v > 0 {
						extra = append(extra, Rel{z, "<", c})
					} else if v == 0 {
						extra = append(extra, Rel{z, "==", c})
					}
				}
			}
		}
	}
	all := append(append([]Rel{}, rels...), extra...)
	n := len(terms)
	le := make([][]bool, n) // a <= b
	lt := make([][]bool, n) // a < b
	for i := range le {
		le[i] = make([]bool, n)
		lt[i] = make([]bool, n)
		le[i][i] = true
	}
	var neq [][2]int
	for _, r := range all {
		a, b := idx[r.A], idx[r.B]
		switch r.Op {
		case "==":
			le[a][b], le[b][a] = true, true
		case "<=":
			le[a][b] = true
		case ">=":
			le[b][a] = true
		case "<":
			le[a][b], lt[a][b] = true, true
		case ">":
			le[b][a], lt[b][a] = true, true
		case "!=":
			neq = append(neq, [2]int{a, b})
		}
	}
	for k := 0; k < n; k++ {
		for i := 0; i < n; i++ {
			if !le[i][k] {
				continue
			}
			for j := 0; j < n; j++ {
				if le[k][j] {
					le[i][j] = true
					if lt[i][k] || lt[k][j] {
						lt[i][j] = true
					}
				}
			}
		}
	}
	for i := 0; i < n; i++ {
		if lt[i][i] {
			return false
		}
	}
	for _, p := range neq {
		if le[p[0]][p[1]] && le[p[1]][p[0]] {
			return false
		}
	}
	return true
}

// Entails: the facts imply the goal (refutation).
func Entails(rels []Rel, goal Rel, unsigned map[string]bool) bool {
	return !Consistent(append(append([]Rel{}, rels...), goal.Negate()), unsigned)
}
