package core

import (
	"go/types"
	"sort"
	"strings"

	"golang.org/x/tools/go/ssa"
)

// E5 — must-lockset dataflow.

// LockState maps a canonical mutex expression ("snapshots.mu") to "W" or "R".
type LockState map[string]string

func (s LockState) clone() LockState {
	n := LockState{}
	for k, v := range s {
		n[k] = v
	}
	return n
}

func meet(a, b LockState) LockState {
	n := LockState{}
	for k, v := range a {
		if w, ok := b[k]; ok {
			if v == w {
				n[k] = v
			} else {
				n[k] = "R"
			}
		}
	}
	return n
}

func eq(a, b LockState) bool {
	if len(a) != len(b) {
		return false
	}
	for k, v := range a {
		if b[k] != v {
			return false
		}
	}
	return true
}

func (s LockState) String() string {
	var k []string
	for x, m := range s {
		k = append(k, x+":"+m)
	}
	sort.Strings(k)
	return "{" + strings.Join(k, ",") + "}"
}

// lockOp classifies a call as a mutex operation on the expression it returns.
func (fi *FuncInfo) lockOp(in ssa.Instruction) (expr, op string) {
	c, ok := in.(*ssa.Call)
	if !ok {
		return "", ""
	}
	f := c.Common().StaticCallee()
	if f == nil || f.Pkg == nil || f.Pkg.Pkg.Path() != "sync" || len(c.Common().Args) == 0 {
		return "", ""
	}
	switch f.Name() {
	case "Lock", "Unlock", "RLock", "RUnlock":
		return fi.Sym(c.Common().Args[0]).String(), f.Name()
	}
	return "", ""
}

// Locksets computes, for every instruction of fn, the locks certainly held
// just before it, given the locks held on entry.
func (fi *FuncInfo) Locksets(entry LockState) map[ssa.Instruction]LockState {
	fn := fi.Fn
	in := map[*ssa.BasicBlock]LockState{}
	out := map[*ssa.BasicBlock]LockState{}
	res := map[ssa.Instruction]LockState{}
	if len(fn.Blocks) == 0 {
		return res
	}
	in[fn.Blocks[0]] = entry.clone()
	changed := true
	for iter := 0; changed && iter < 50; iter++ {
		changed = false
		for _, b := range fn.Blocks {
			var st LockState
			if b == fn.Blocks[0] {
				st = entry.clone()
			} else {
				first := true
				for _, p := range b.Preds {
					o, ok := out[p]
					if !ok {
						continue
					}
					if first {
						st = o.clone()
						first = false
					} else {
						st = meet(st, o)
					}
				}
				if first {
					continue // unreachable so far
				}
			}
			in[b] = st
			cur := st.clone()
			for _, ins := range b.Instrs {
				res[ins] = cur.clone()
				if e, op := fi.lockOp(ins); e != "" {
					switch op {
					case "Lock":
						cur[e] = "W"
					case "RLock":
						cur[e] = "R"
					case "Unlock", "RUnlock":
						delete(cur, e)
					}
				}
			}
			if o, ok := out[b]; !ok || !eq(o, cur) {
				out[b] = cur
				changed = true
			}
		}
	}
	return res
}

// GuardedAccess is one access to a lock-guarded field.
type GuardedAccess struct {
	Fn    *ssa.Function
	Instr ssa.Instruction
	Base  string // expression of the owning object
	Write bool
	Field *types.Var
}

// AccessesOf lists the accesses to field f in fn: stores to it, and every use
// of a value loaded from it (map/slice operations, reads).
func (fi *FuncInfo) AccessesOf(f *types.Var) []GuardedAccess {
	var out []GuardedAccess
	for _, b := range fi.Fn.Blocks {
		for _, in := range b.Instrs {
			fa, ok := in.(*ssa.FieldAddr)
			if !ok {
				continue
			}
			st := structOf(fa.X.Type())
			if st == nil || st.Field(fa.Field) != f {
				continue
			}
			base := fi.Sym(fa.X).String()
			for _, ref := range *fa.Referrers() {
				switch r := ref.(type) {
				case *ssa.Store:
					if r.Addr == ssa.Value(fa) {
						out = append(out, GuardedAccess{fi.Fn, r, base, true, f})
					}
				case *ssa.UnOp:
					// the load itself is a read; uses of the loaded reference value (map/slice) are accesses too
					out = append(out, GuardedAccess{fi.Fn, r, base, false, f})
					if r.Referrers() == nil {
						continue
					}
					for _, u := range *r.Referrers() {
						switch x := u.(type) {
						case *ssa.MapUpdate:
							if x.Map == ssa.Value(r) {
								out = append(out, GuardedAccess{fi.Fn, x, base, true, f})
							}
						case *ssa.Lookup, *ssa.Range, *ssa.IndexAddr, *ssa.Slice:
							out = append(out, GuardedAccess{fi.Fn, x.(ssa.Instruction), base, false, f})
						case *ssa.Call:
							if bi, ok := x.Call.Value.(*ssa.Builtin); ok {
								w := bi.Name() == "delete" || bi.Name() == "append" && false
								out = append(out, GuardedAccess{fi.Fn, x, base, w, f})
							}
						}
					}
				}
			}
		}
	}
	return out
}
