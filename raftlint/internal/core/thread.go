package core

// Jump threading for the CFG queries. A block that tests a value merged by a
// phi of the same block
//
//	J:  err = phi [P0: nil, P1: ErrStale, P2: validate()]
//	    if err != nil goto A else B
//
// is, for a path that enters it from P0 or P1, not a decision at all: the
// outcome was fixed where the value was assigned. Path queries that treat J
// as a free two-way branch invent paths (P1 -> J -> B) that no execution
// takes; the accumulate idiom `if err == nil { err = step() }` and results
// handed back by an expanded helper (inline.go) both produce this shape. The
// queries therefore walk (block, entered-from) pairs and ask threadFeasible
// before following a successor.

import (
	"fmt"
	"go/constant"
	"go/token"
	"go/types"
	"sort"
	"strings"

	"golang.org/x/tools/go/ssa"
)

// TNode is a CFG node of the threaded view: From is the index into B.Preds of
// the edge the path entered by, or -1 when that is irrelevant (B does not
// test one of its own phis).
type TNode struct {
	B    *ssa.BasicBlock
	From int
	// Sel records, for the phis of OTHER blocks that some later branch tests
	// (a flag computed in one block and tested in another), which incoming
	// value the path merged: "name=edge,name=edge" sorted by name.
	Sel string
}

// TEntry is the node for the function's entry (or any block entered without
// a known predecessor).
func TEntry(b *ssa.BasicBlock) TNode { return TNode{B: b, From: -1} }

// TStep follows successor k of n.B: feasible reports whether a path that
// entered n.B by n.From can leave it by k.
func (p *Program) TStep(n TNode, k int) (next TNode, feasible bool) {
	b := n.B
	if !FeasibleSucc(b, k) {
		return TNode{}, false
	}
	if n.From >= 0 || n.Sel != "" {
		v, known := p.threadCondN(n)
		if known {
			if (k == 0) != v {
				return TNode{}, false
			}
		}
	}
	succ := b.Succs[k]
	idx, cnt := -1, 0
	for i, pb := range succ.Preds {
		if pb == b {
			idx = i
			cnt++
		}
	}
	if cnt != 1 {
		idx = -1
	}
	from := -1
	if threadable(succ) {
		from = idx
	}
	sel := n.Sel
	if tr := p.trackedPhis(succ.Parent()); len(tr) > 0 {
		for _, in := range succ.Instrs {
			ph, ok := in.(*ssa.Phi)
			if !ok {
				break
			}
			if tr[ph] {
				sel = setSel(sel, ph.Name(), idx)
			}
		}
	}
	return TNode{succ, from, sel}, true
}

// trackedPhis: phis whose value is tested by a branch of another block.
func (p *Program) trackedPhis(fn *ssa.Function) map[*ssa.Phi]bool {
	if p.tracked == nil {
		p.tracked = map[*ssa.Function]map[*ssa.Phi]bool{}
	}
	if m, ok := p.tracked[fn]; ok {
		return m
	}
	m := map[*ssa.Phi]bool{}
	var walk func(v ssa.Value, b *ssa.BasicBlock, d int)
	walk = func(v ssa.Value, b *ssa.BasicBlock, d int) {
		if d > 3 {
			return
		}
		switch x := v.(type) {
		case *ssa.Phi:
			if x.Block() != b {
				if m[x] {
					return
				}
				m[x] = true
			}
			// a merged value may itself be a merge made earlier (`a || b`
			// overwritten on one branch, then tested; a helper's result
			// variable assigned at several returns): follow the operands
			for _, e := range x.Edges {
				if ph, ok := e.(*ssa.Phi); ok && ph.Block() != b {
					walk(ph, b, d+1)
				}
			}
		case *ssa.UnOp:
			if x.Op == token.NOT {
				walk(x.X, b, d+1)
			}
		case *ssa.BinOp:
			if x.Op == token.EQL || x.Op == token.NEQ {
				walk(x.X, b, d+1)
				walk(x.Y, b, d+1)
			}
		}
	}
	for _, b := range fn.Blocks {
		if len(b.Instrs) == 0 {
			continue
		}
		if iff, ok := b.Instrs[len(b.Instrs)-1].(*ssa.If); ok {
			walk(iff.Cond, b, 0)
		}
	}
	p.tracked[fn] = m
	return m
}

func setSel(sel, name string, idx int) string {
	var parts []string
	if sel != "" {
		for _, kv := range strings.Split(sel, ",") {
			if !strings.HasPrefix(kv, name+"=") {
				parts = append(parts, kv)
			}
		}
	}
	if idx >= 0 {
		parts = append(parts, fmt.Sprintf("%s=%d", name, idx))
	}
	sort.Strings(parts)
	return strings.Join(parts, ",")
}

func getSel(sel, name string) int {
	if sel == "" {
		return -1
	}
	for _, kv := range strings.Split(sel, ",") {
		if strings.HasPrefix(kv, name+"=") {
			v := 0
			fmt.Sscanf(kv[len(name)+1:], "%d", &v)
			return v
		}
	}
	return -1
}

// resolveN reads v on the path described by n: phis of n.B by the edge the
// path entered through, tracked phis of other blocks by the recorded choice.
func resolveN(v ssa.Value, n TNode) ssa.Value {
	v = fwdLoad(v)
	for i := 0; i < 6; i++ {
		ph, ok := v.(*ssa.Phi)
		if !ok {
			return v
		}
		if ph.Block() == n.B {
			if n.From < 0 || n.From >= len(ph.Edges) {
				return v
			}
			v = ph.Edges[n.From]
			continue
		}
		k := getSel(n.Sel, ph.Name())
		if k < 0 || k >= len(ph.Edges) {
			return v
		}
		v = ph.Edges[k]
	}
	return v
}

// threadCondN evaluates n.B's branch condition on the path described by n.
func (p *Program) threadCondN(n TNode) (val, known bool) {
	b := n.B
	if len(b.Instrs) == 0 {
		return false, false
	}
	iff, ok := b.Instrs[len(b.Instrs)-1].(*ssa.If)
	if !ok {
		return false, false
	}
	if n.From >= 0 {
		if v, k := p.evalThreaded(iff.Cond, b, n.From, 0); k {
			return v, true
		}
	}
	if n.Sel == "" {
		return false, false
	}
	return p.evalSel(iff.Cond, n, 0)
}

// evalSel: the condition with tracked phis read as recorded; constants only
// (and never-nil values against nil).
func (p *Program) evalSel(c ssa.Value, n TNode, depth int) (val, known bool) {
	if depth > 4 {
		return false, false
	}
	c = resolveN(c, n)
	switch x := c.(type) {
	case *ssa.Const:
		if x.Value != nil && x.Value.Kind() == constant.Bool {
			return constant.BoolVal(x.Value), true
		}
	case *ssa.UnOp:
		if x.Op == token.NOT {
			v, k := p.evalSel(x.X, n, depth+1)
			return !v, k
		}
	case *ssa.BinOp:
		if x.Op != token.EQL && x.Op != token.NEQ {
			return false, false
		}
		eq, k := p.valuesEqual(resolveN(x.X, n), resolveN(x.Y, n))
		if !k {
			return false, false
		}
		if x.Op == token.NEQ {
			return !eq, true
		}
		return eq, true
	}
	return false, false
}

func threadable(b *ssa.BasicBlock) bool {
	if len(b.Instrs) == 0 || len(b.Preds) < 2 {
		return false
	}
	iff, ok := b.Instrs[len(b.Instrs)-1].(*ssa.If)
	if !ok {
		return false
	}
	return condUsesOwnPhi(iff.Cond, b, 0)
}

func condUsesOwnPhi(v ssa.Value, b *ssa.BasicBlock, depth int) bool {
	if depth > 3 {
		return false
	}
	v = fwdLoad(v)
	switch x := v.(type) {
	case *ssa.Phi:
		return x.Block() == b
	case *ssa.UnOp:
		if x.Op == token.NOT {
			return condUsesOwnPhi(x.X, b, depth+1)
		}
	case *ssa.BinOp:
		return condUsesOwnPhi(x.X, b, depth+1) || condUsesOwnPhi(x.Y, b, depth+1)
	}
	return false
}

// threadCond evaluates b's branch condition for a path entering by pred `from`.
func (p *Program) threadCond(b *ssa.BasicBlock, from int) (val, known bool) {
	iff, ok := b.Instrs[len(b.Instrs)-1].(*ssa.If)
	if !ok {
		return false, false
	}
	return p.evalThreaded(iff.Cond, b, from, 0)
}

// fwdLoad: a load of a local cell that the same block has just stored (a
// variable captured by a closure lives in a cell: `x = φ; if x != nil` reads
// it back) is the stored value, when nothing between store and load can
// write the cell.
func fwdLoad(v ssa.Value) ssa.Value {
	u, ok := v.(*ssa.UnOp)
	if !ok || u.Op != token.MUL {
		return v
	}
	al, ok := u.X.(*ssa.Alloc)
	if !ok {
		return v
	}
	b := u.Block()
	pos := -1
	for i, in := range b.Instrs {
		if in == ssa.Instruction(u) {
			pos = i
		}
	}
	for i := pos - 1; i >= 0; i-- {
		switch x := b.Instrs[i].(type) {
		case *ssa.Store:
			if x.Addr == ssa.Value(al) {
				return x.Val
			}
		case ssa.CallInstruction:
			return v // a call may run a closure that writes the cell
		}
	}
	return v
}

func selPhi(v ssa.Value, b *ssa.BasicBlock, from int) ssa.Value {
	v = fwdLoad(v)
	for i := 0; i < 4; i++ {
		ph, ok := v.(*ssa.Phi)
		if !ok || ph.Block() != b || from >= len(ph.Edges) {
			return v
		}
		v = ph.Edges[from]
	}
	return v
}

func (p *Program) evalThreaded(c ssa.Value, b *ssa.BasicBlock, from, depth int) (val, known bool) {
	if depth > 4 {
		return false, false
	}
	c = selPhi(c, b, from)
	if from >= 0 && from < len(b.Preds) {
		// a test that dominates the predecessor speaks about the value as it was
		// then: usable only for a value that entering b does not compute anew
		if _, isConst := c.(*ssa.Const); !isConst && !definedIn(c, b) {
			if v, k := domTest(c, b, from); k {
				return v, true
			}
		}
	}
	switch x := c.(type) {
	case *ssa.Const:
		if x.Value != nil && x.Value.Kind() == constant.Bool {
			return constant.BoolVal(x.Value), true
		}
	case *ssa.UnOp:
		if x.Op == token.NOT {
			v, k := p.evalThreaded(x.X, b, from, depth+1)
			return !v, k
		}
	case *ssa.BinOp:
		if x.Op != token.EQL && x.Op != token.NEQ {
			return false, false
		}
		l, r := selPhi(x.X, b, from), selPhi(x.Y, b, from)
		eq, k := p.valuesEqual(l, r)
		if !k && from >= 0 && from < len(b.Preds) {
			// an SSA value never changes: a test of the same value against nil
			// that dominates the predecessor still holds
			var opnd ssa.Value
			if isNilC(l) {
				opnd = r
			} else if isNilC(r) {
				opnd = l
			}
			if opnd != nil && !definedIn(opnd, b) {
				if isNil, known := domNilTest(opnd, b, from); known {
					eq, k = isNil, true
				}
			}
		}
		if !k {
			return false, false
		}
		if x.Op == token.NEQ {
			return !eq, true
		}
		return eq, true
	}
	return false, false
}

// valuesEqual decides l == r where that is certain.
func (p *Program) valuesEqual(l, r ssa.Value) (eq, known bool) {
	lc, lok := l.(*ssa.Const)
	rc, rok := r.(*ssa.Const)
	if lok && rok {
		if lc.IsNil() || rc.IsNil() {
			return lc.IsNil() && rc.IsNil(), true
		}
		if lc.Value != nil && rc.Value != nil && lc.Value.Kind() == rc.Value.Kind() && lc.Value.Kind() != constant.Unknown {
			return constant.Compare(lc.Value, token.EQL, rc.Value), true
		}
		return false, false
	}
	if lok && lc.IsNil() && p.NeverNil(r, 0) {
		return false, true
	}
	if rok && rc.IsNil() && p.NeverNil(l, 0) {
		return false, true
	}
	return false, false
}

// NeverNil: v is certainly not nil — a value boxed into an interface, an
// allocation, an error built on the spot, or one of the package's sentinel
// errors (a package-level variable assigned only by its initialiser).
func (p *Program) NeverNil(v ssa.Value, depth int) bool {
	if depth > 4 {
		return false
	}
	switch x := v.(type) {
	case *ssa.MakeInterface, *ssa.Alloc, *ssa.MakeClosure, *ssa.MakeMap, *ssa.MakeChan, *ssa.MakeSlice, *ssa.Function:
		return true
	case *ssa.ChangeInterface:
		return p.NeverNil(x.X, depth+1)
	case *ssa.ChangeType:
		return p.NeverNil(x.X, depth+1)
	case *ssa.Phi:
		for _, e := range x.Edges {
			if e == v || !p.NeverNil(e, depth+1) {
				return false
			}
		}
		return len(x.Edges) > 0
	case *ssa.Call:
		if f := x.Call.StaticCallee(); f != nil && f.Pkg != nil {
			switch f.Pkg.Pkg.Path() + "." + f.Name() {
			case "errors.New", "fmt.Errorf":
				return true
			}
			// a repository function all of whose returns are never nil (opError, ...)
			if p.inRepo(f) && f.Blocks != nil && f.Signature.Results().Len() == 1 && depth < 3 {
				all := true
				n := 0
				for _, r := range Returns(f) {
					n++
					if !p.NeverNil(r.Results[0], depth+2) {
						all = false
					}
				}
				return all && n > 0
			}
		}
	case *ssa.UnOp:
		if x.Op == token.MUL {
			if g, ok := x.X.(*ssa.Global); ok {
				return p.sentinel(g)
			}
		}
	}
	return false
}

// sentinel: a package-level variable of the repository that is written only
// by its package initialiser, with a never-nil value.
func (p *Program) sentinel(g *ssa.Global) bool {
	if p.sentinels == nil {
		p.sentinels = map[*ssa.Global]bool{}
		cand := map[*ssa.Global]bool{}
		bad := map[*ssa.Global]bool{}
		visit := func(fn *ssa.Function, isInit bool) {
			for _, b := range fn.Blocks {
				for _, in := range b.Instrs {
					if st, ok := in.(*ssa.Store); ok {
						if gg, ok := st.Addr.(*ssa.Global); ok {
							if isInit && p.NeverNil(st.Val, 1) {
								cand[gg] = true
							} else {
								bad[gg] = true
							}
						}
					}
					// address taken (other than load/store): give up on it
					for _, op := range in.Operands(nil) {
						if gg, ok := (*op).(*ssa.Global); ok {
							switch u := in.(type) {
							case *ssa.Store:
								if u.Addr != ssa.Value(gg) {
									bad[gg] = true
								}
							case *ssa.UnOp:
								if u.Op != token.MUL {
									bad[gg] = true
								}
							default:
								bad[gg] = true
							}
						}
					}
				}
			}
		}
		for _, sp := range p.SSA {
			if init := sp.Func("init"); init != nil {
				visit(init, true)
			}
		}
		for _, fn := range p.funcs {
			visit(fn, false)
		}
		for gg := range cand {
			if !bad[gg] {
				if _, isIface := gg.Type().(*types.Pointer).Elem().Underlying().(*types.Interface); isIface || true {
					p.sentinels[gg] = true
				}
			}
		}
	}
	return p.sentinels[g]
}

// EdgeAtomFrom is EdgeAtom for a path that entered e.From by predecessor
// `from`: phis of that block are read as the value they take on that path.
func (fi *FuncInfo) EdgeAtomFrom(e Edge, from int) (Atom, bool) {
	return fi.EdgeAtomN(e, TNode{B: e.From, From: from})
}

// EdgeAtomN is EdgeAtom for the path described by n (n.B == e.From).
func (fi *FuncInfo) EdgeAtomN(e Edge, n TNode) (Atom, bool) {
	from := n.From
	if (from < 0 && n.Sel == "") || len(e.From.Instrs) == 0 {
		return fi.EdgeAtom(e)
	}
	if from < 0 {
		iff, ok := e.From.Instrs[len(e.From.Instrs)-1].(*ssa.If)
		if !ok {
			return Atom{}, false
		}
		a := fi.atomOfN(iff.Cond, n, 0)
		if e.Succ == 1 {
			a = a.Negate()
		}
		return a, true
	}
	iff, ok := e.From.Instrs[len(e.From.Instrs)-1].(*ssa.If)
	if !ok {
		return Atom{}, false
	}
	var a Atom
	if n.Sel != "" {
		// merged values that are themselves earlier merges: read both levels
		a = fi.atomOfN(iff.Cond, n, 0)
	} else {
		a = fi.atomOfSel(iff.Cond, e.From, from, 0)
	}
	if e.Succ == 1 {
		a = a.Negate()
	}
	return a, true
}

func (fi *FuncInfo) atomOfSel(v ssa.Value, b *ssa.BasicBlock, from, depth int) Atom {
	v = selPhi(v, b, from)
	if depth < 4 {
		switch x := v.(type) {
		case *ssa.BinOp:
			if op, ok := cmpOps[x.Op]; ok {
				lx, rx := selPhi(x.X, b, from), selPhi(x.Y, b, from)
				if lx != x.X || rx != x.Y {
					l, r := fi.Sym(lx), fi.Sym(rx)
					a := Atom{L: l.String(), R: r.String(), Op: op, LE: l, RE: r}
					return a.norm(isUnsigned(lx))
				}
			}
		case *ssa.UnOp:
			if x.Op == token.NOT {
				return fi.atomOfSel(x.X, b, from, depth+1).Negate()
			}
		}
	}
	return fi.AtomOf(v)
}

// livePhiEdges: the phi's block tests one of its own phis, and the reader `at`
// lies on one side of that test only. Returns, per incoming edge, whether a
// path that merged that edge's value can reach the reader; nil when nothing
// can be pruned.
func (p *Program) livePhiEdges(ph *ssa.Phi, at ssa.Instruction) []bool {
	if at == nil {
		return nil
	}
	j := ph.Block()
	if !threadable(j) || at.Block() == j || at.Parent() != ph.Parent() {
		return nil
	}
	// which successors of j reach the reader without re-entering j
	var reach [2]bool
	for k := 0; k < 2 && k < len(j.Succs); k++ {
		reach[k] = fwdReach(j.Succs[k], at.Block(), j)
	}
	if reach[0] && reach[1] {
		return nil
	}
	live := make([]bool, len(ph.Edges))
	pruned := false
	for i := range ph.Edges {
		v, known := p.threadCond(j, i)
		switch {
		case !known:
			live[i] = true
		case v:
			live[i] = reach[0]
		default:
			live[i] = reach[1]
		}
		if !live[i] {
			pruned = true
		}
	}
	if !pruned {
		return nil
	}
	return live
}

func isNilC(v ssa.Value) bool {
	c, ok := v.(*ssa.Const)
	return ok && c.IsNil()
}

// domEdges calls f for every conditional edge that dominates block at (the
// block is reached only through that edge), innermost first.
func domEdges(at *ssa.BasicBlock, f func(iff *ssa.If, succ int) bool) {
	for cur, n := at, 0; cur != nil && n < 64; n++ {
		if len(cur.Preds) == 1 {
			d := cur.Preds[0]
			if len(d.Instrs) > 0 {
				if iff, ok := d.Instrs[len(d.Instrs)-1].(*ssa.If); ok && d.Succs[0] != d.Succs[1] {
					k := 1
					if d.Succs[0] == cur {
						k = 0
					}
					if f(iff, k) {
						return
					}
				}
			}
			cur = d
			continue
		}
		cur = cur.Idom()
	}
}

// domNilTest: a dominating edge decided x == nil (isNil) or x != nil.
func domNilTest(x ssa.Value, b *ssa.BasicBlock, from int) (isNil, known bool) {
	edgesInto(b, from, func(iff *ssa.If, k int) bool {
		bo, ok := iff.Cond.(*ssa.BinOp)
		if !ok || (bo.Op != token.EQL && bo.Op != token.NEQ) {
			return false
		}
		if !(bo.X == x && isNilC(bo.Y)) && !(bo.Y == x && isNilC(bo.X)) {
			return false
		}
		// EQL: true edge (k==0) means nil
		isNil = (bo.Op == token.EQL) == (k == 0)
		known = true
		return true
	})
	return
}

// domTest: a dominating edge branched on exactly this boolean value.
func domTest(c ssa.Value, b *ssa.BasicBlock, from int) (val, known bool) {
	edgesInto(b, from, func(iff *ssa.If, k int) bool {
		cond, neg := iff.Cond, false
		for i := 0; i < 3; i++ {
			if u, ok := cond.(*ssa.UnOp); ok && u.Op == token.NOT {
				cond, neg = u.X, !neg
			}
		}
		if cond != c {
			return false
		}
		val = (k == 0) != neg
		known = true
		return true
	})
	return
}

// edgesInto: the conditional edges known to have been taken by a path that
// enters b from predecessor `from`: that predecessor's own branch (when it
// ends in one), then every edge dominating the predecessor.
func edgesInto(b *ssa.BasicBlock, from int, f func(iff *ssa.If, succ int) bool) {
	p := b.Preds[from]
	if len(p.Instrs) > 0 {
		if iff, ok := p.Instrs[len(p.Instrs)-1].(*ssa.If); ok && p.Succs[0] != p.Succs[1] {
			k := 1
			if p.Succs[0] == b {
				k = 0
			}
			if f(iff, k) {
				return
			}
		}
	}
	domEdges(p, f)
}

// FactsInto lists the atoms of the conditional edges a path entering b from
// predecessor `from` is known to have taken (innermost first).
func (fi *FuncInfo) FactsInto(b *ssa.BasicBlock, from int) []Atom {
	var out []Atom
	edgesInto(b, from, func(iff *ssa.If, k int) bool {
		if a, ok := fi.EdgeAtom(Edge{iff.Block(), k}); ok {
			out = append(out, a)
		}
		return false
	})
	return out
}

// FactsAt lists the atoms of the conditional edges that dominate in's block.
func (fi *FuncInfo) FactsAt(in ssa.Instruction) []Atom {
	var out []Atom
	domEdges(in.Block(), func(iff *ssa.If, k int) bool {
		if a, ok := fi.EdgeAtom(Edge{iff.Block(), k}); ok {
			out = append(out, a)
		}
		return false
	})
	return out
}

// DomEdges calls f for every conditional edge that dominates block b
// (innermost first) until f returns true.
func DomEdges(b *ssa.BasicBlock, f func(iff *ssa.If, succ int) bool) { domEdges(b, f) }

// ClosureOf: v is a function literal used as a callee — a MakeClosure, or the
// anonymous function itself when it captures nothing.
func ClosureOf(v ssa.Value) *ssa.Function {
	switch x := v.(type) {
	case *ssa.MakeClosure:
		f, _ := x.Fn.(*ssa.Function)
		return f
	case *ssa.Function:
		if x.Parent() != nil {
			return x
		}
	}
	return nil
}

// SymAt names v as read by instruction at (phi operands that cannot reach
// the reader are dropped; see livePhiEdges). Not cached.
func (fi *FuncInfo) SymAt(v ssa.Value, at ssa.Instruction) *Expr {
	return (&symCtx{fi: fi, at: at}).sym(v, 0)
}

// LivePhiEdges exposes livePhiEdges: which incoming values of ph a path
// reaching `at` can have merged (nil = all).
func (p *Program) LivePhiEdges(ph *ssa.Phi, at ssa.Instruction) []bool { return p.livePhiEdges(ph, at) }

// NilnessAt: what the conditional edges dominating instruction at say about
// v == nil (SSA values never change).
func NilnessAt(v ssa.Value, at ssa.Instruction) (isNil, known bool) {
	domEdges(at.Block(), func(iff *ssa.If, k int) bool {
		bo, ok := iff.Cond.(*ssa.BinOp)
		if !ok || (bo.Op != token.EQL && bo.Op != token.NEQ) {
			return false
		}
		if !(bo.X == v && isNilC(bo.Y)) && !(bo.Y == v && isNilC(bo.X)) {
			return false
		}
		isNil = (bo.Op == token.EQL) == (k == 0)
		known = true
		return true
	})
	return
}

// definedIn: v is computed by an instruction of block b (so every entry into
// b produces a new value of it).
func definedIn(v ssa.Value, b *ssa.BasicBlock) bool {
	in, ok := v.(ssa.Instruction)
	return ok && in.Block() == b
}

// SentinelNames lists the never-nil package-level variables of package raft
// (named as canonical forms name globals).
func (p *Program) SentinelNames() []string {
	p.sentinel(nil)
	var out []string
	for g, ok := range p.sentinels {
		if ok && g != nil && g.Pkg != nil && g.Pkg.Pkg.Path() == RaftPkg {
			out = append(out, g.Name())
		}
	}
	// a variable whose type has no nil (a string-typed error such as
	// plainError) is not nil either, in particular once boxed
	if sp := p.SSA[RaftPkg]; sp != nil {
		for _, m := range sp.Members {
			g, isG := m.(*ssa.Global)
			if !isG {
				continue
			}
			switch g.Type().(*types.Pointer).Elem().Underlying().(type) {
			case *types.Basic, *types.Struct, *types.Array:
				out = append(out, g.Name())
			}
		}
	}
	sort.Strings(out)
	return out
}

// atomOfN: the atom of a condition with tracked phis read as recorded.
func (fi *FuncInfo) atomOfN(v ssa.Value, n TNode, depth int) Atom {
	v = resolveN(v, n)
	if depth < 4 {
		switch x := v.(type) {
		case *ssa.BinOp:
			if op, ok := cmpOps[x.Op]; ok {
				lx, rx := resolveN(x.X, n), resolveN(x.Y, n)
				if lx != x.X || rx != x.Y {
					l, r := fi.Sym(lx), fi.Sym(rx)
					a := Atom{L: l.String(), R: r.String(), Op: op, LE: l, RE: r}
					return a.norm(isUnsigned(lx))
				}
			}
		case *ssa.UnOp:
			if x.Op == token.NOT {
				return fi.atomOfN(x.X, n, depth+1).Negate()
			}
		}
	}
	return fi.AtomOf(v)
}
