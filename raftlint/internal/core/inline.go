package core

// Helper normalisation. A function that is not in knownFuncs is new — a helper
// a refactoring extracted out of a function the rules know. Before the program
// is analysed, every call to such a helper that can be expanded without
// changing the meaning of the program is expanded in place, in an in-memory
// overlay of the caller's file, so that every rule sees "the function as it
// was before parts of it were extracted". The expansion is the textbook one:
//
//	x, err := h(a, b)            var r0 T0; var r1 T1
//	                      ==>    L: switch { default:
//	                                   p, q := a, b
//	                                   <body of h, `return e0, e1` -> `{ r0, r1 = e0, e1; break L }`>
//	                             }
//	                             x, err := r0, r1
//
// It is applied only where it is exact: same package, no defer/recover/labels
// in the helper, not variadic, the call is evaluated unconditionally and before
// every other call of its statement, and no identifier of the helper's body is
// captured by a different declaration at the call site. Anything else is left
// as a call, and the engines' fallback treatment of new helpers (IsNew, Scope,
// gate lifting) applies. Each round's output is type-checked; a round that
// does not type-check is discarded. /*line*/ directives keep every reported
// position pointing at the real source line. The tree on disk is never touched.

import (
	"bytes"
	"fmt"
	"go/ast"
	"go/parser"
	"go/token"
	"go/types"
	"os"
	"path/filepath"
	"regexp"
	"sort"
	"strings"

	"golang.org/x/tools/go/ast/astutil"
	"golang.org/x/tools/go/packages"
	"golang.org/x/tools/go/types/typeutil"
)

// Normalized records what the normaliser did (printed, and kept for evidence).
var Normalized []string

// NoInline switches the normaliser off (dev flag, to test the fallback).
var NoInline bool

var repoPkgs = map[string]bool{RaftPkg: true, LogPkg: true, MmapPkg: true}

// hasUnknownFuncs is a parse-only pre-check: does any non-test file declare a
// function whose short name is not among the known ones? It over-approximates
// (ignores build constraints); on the reference tree it is false and the
// normaliser costs nothing.
func hasUnknownFuncs(dir string, overlay map[string][]byte) bool {
	short := map[string]bool{}
	for k := range knownFuncs {
		// "(*pkg/path.T).m" | "(pkg/path.T).m" | "pkg/path.f" | "pkg/path.init#1"
		s := k
		if i := strings.LastIndex(s, "/"); i >= 0 {
			s = s[i+1:]
		}
		if i := strings.Index(s, "."); i >= 0 {
			s = s[i+1:]
		}
		s = strings.Replace(s, ")", "", 1)
		if i := strings.Index(s, "#"); i >= 0 {
			s = s[:i]
		}
		short[s] = true
	}
	found := false
	filepath.Walk(dir, func(path string, fi os.FileInfo, err error) error {
		if err != nil || found {
			return nil
		}
		if fi.IsDir() {
			n := fi.Name()
			if path != dir && (strings.HasPrefix(n, ".") || n == "testdata" || n == "vendor") {
				return filepath.SkipDir
			}
			return nil
		}
		if !strings.HasSuffix(path, ".go") || strings.HasSuffix(path, "_test.go") {
			return nil
		}
		var src interface{}
		if b, ok := overlay[path]; ok {
			src = b
		}
		f, err := parser.ParseFile(token.NewFileSet(), path, src, parser.SkipObjectResolution)
		if err != nil {
			return nil
		}
		for _, d := range f.Decls {
			fd, ok := d.(*ast.FuncDecl)
			if !ok {
				continue
			}
			name := fd.Name.Name
			if fd.Recv != nil && len(fd.Recv.List) == 1 {
				t := fd.Recv.List[0].Type
				if s, ok := t.(*ast.StarExpr); ok {
					t = s.X
				}
				if id, ok := t.(*ast.Ident); ok {
					name = id.Name + "." + name
				}
			}
			if !short[name] {
				found = true
			}
		}
		return nil
	})
	return found
}

type inlSite struct {
	kind   string // "": hoisted expansion; "literal": go/defer h(..) becomes go/defer func(..){body}(..); "tail": return h(..) of a helper with defers
	file   *ast.File
	path   string // file name
	pkg    *packages.Package
	stmt   ast.Stmt
	call   *ast.CallExpr
	callee *types.Func
	encl   *ast.FuncDecl
}

type textEdit struct {
	start, end int
	text       string
}

// normalizeHelpers returns the overlay to analyse: the given one plus the
// callers of new helpers with those calls expanded.
func normalizeHelpers(dir, tags string, base map[string][]byte) map[string][]byte {
	cur := map[string][]byte{}
	for k, v := range base {
		cur[k] = v
	}
	var curNotes, prevNotes []string
	var prev map[string][]byte
	havePrev := false
	counter := 0
	expandedAny := false
	for round := 0; round < 7; round++ {
		next, roundNotes, ok := inlineRound(dir, tags, cur, &counter, &expandedAny)
		if !ok {
			if !havePrev {
				return base // the tree itself does not type-check: Load reports it
			}
			Normalized = append(Normalized, prevNotes...)
			Normalized = append(Normalized, "normaliser: one round was discarded (its output did not type-check)")
			return prev
		}
		if next == nil {
			Normalized = append(Normalized, curNotes...)
			return cur
		}
		prev, prevNotes, havePrev = cur, curNotes, true
		cur = next
		curNotes = append(append([]string(nil), curNotes...), roundNotes...)
	}
	Normalized = append(Normalized, prevNotes...)
	return prev
}

// inlineRound loads the repository with the overlay; ok=false when it does not
// type-check. next==nil when nothing (more) can be expanded.
func inlineRound(dir, tags string, overlay map[string][]byte, counter *int, expandedAny *bool) (next map[string][]byte, notes []string, ok bool) {
	cfg := &packages.Config{
		Mode:    packages.LoadSyntax,
		Dir:     dir,
		Overlay: overlay,
		Env: append(os.Environ(), "GOFLAGS=-mod=mod", "GOPROXY=off", "GOSUMDB=off",
			"GOTOOLCHAIN=local", "GOWORK=off", "GOARCH=amd64", "GOOS=linux", "CGO_ENABLED=0"),
	}
	if tags != "" {
		cfg.BuildFlags = []string{"-tags=" + tags}
	}
	pkgs, err := packages.Load(cfg, "./...")
	if err != nil || len(pkgs) == 0 {
		return nil, nil, false
	}
	for _, pkg := range pkgs {
		if len(pkg.Errors) > 0 {
			return nil, nil, false
		}
	}
	fset := pkgs[0].Fset

	// new helpers and their declarations
	type helper struct {
		decl *ast.FuncDecl
		pkg  *packages.Package
		file *ast.File
		why  string // non-empty: cannot be expanded
	}
	helpers := map[*types.Func]*helper{}
	for _, pkg := range pkgs {
		if !repoPkgs[pkg.PkgPath] {
			continue
		}
		for _, f := range pkg.Syntax {
			if strings.HasSuffix(fset.Position(f.Package).Filename, "_test.go") {
				continue
			}
			for _, d := range f.Decls {
				fd, isFn := d.(*ast.FuncDecl)
				if !isFn || fd.Body == nil || fd.Name.Name == "init" || fd.Name.Name == "_" {
					continue
				}
				obj, _ := pkg.TypesInfo.Defs[fd.Name].(*types.Func)
				if obj == nil || knownFuncs[obj.FullName()] {
					continue
				}
				h := &helper{decl: fd, pkg: pkg, file: f}
				h.why = notExpandable(fd, obj)
				helpers[obj] = h
			}
		}
	}
	if len(helpers) == 0 {
		return nil, nil, true
	}

	// call sites
	var sites []*inlSite
	busy := map[*types.Func]bool{} // helpers that still contain an expandable call
	for _, pkg := range pkgs {
		if !repoPkgs[pkg.PkgPath] {
			continue
		}
		for _, f := range pkg.Syntax {
			fname := fset.Position(f.Package).Filename
			if strings.HasSuffix(fname, "_test.go") {
				continue
			}
			for _, d := range f.Decls {
				fd, isFn := d.(*ast.FuncDecl)
				if !isFn || fd.Body == nil {
					continue
				}
				ast.Inspect(fd.Body, func(n ast.Node) bool {
					call, isCall := n.(*ast.CallExpr)
					if !isCall {
						return true
					}
					callee, _ := typeutil.Callee(pkg.TypesInfo, call).(*types.Func)
					h := helpers[callee]
					if h == nil {
						return true
					}
					if h.pkg != pkg || strings.Contains(h.why, "variadic") || strings.Contains(h.why, "generic") {
						inlDebug(fset, call, callee, "helper not expandable: "+h.why)
						return true
					}
					kind := ""
					var stmt ast.Stmt
					if gs := goOrDeferOf(f, call); gs != nil {
						// `go h(a)` / `defer h(a)` is exactly `go func(p T){ body }(a)`
						kind, stmt = "literal", gs
					} else if h.why == "defer" {
						// a helper with defers can only be expanded where its return is the
						// caller's return: `return h(a)`
						if rs := tailReturnOf(f, call); rs != nil && tailResultsOK(h.decl, fd) {
							kind, stmt = "tail", rs
						}
					} else if h.why == "" {
						stmt = hoistable(f, call, pkg.TypesInfo)
					}
					if stmt == nil {
						inlDebug(fset, call, callee, "call cannot be expanded here (helper: "+h.why+")")
						return true
					}
					s := &inlSite{kind: kind, file: f, path: fname, pkg: pkg, stmt: stmt, call: call, callee: callee, encl: fd}
					if why := capturedAt(s, h.decl, h.pkg); why != "" {
						inlDebug(fset, call, callee, why)
						return true
					}
					sites = append(sites, s)
					if self, _ := pkg.TypesInfo.Defs[fd.Name].(*types.Func); self != nil && helpers[self] != nil {
						busy[self] = true
					}
					return true
				})
			}
		}
	}
	// expand only calls to helpers that are leaves this round; one per statement
	byFile := map[string][]textEdit{}
	usedStmt := map[ast.Stmt]bool{}
	sort.Slice(sites, func(i, j int) bool {
		if sites[i].path != sites[j].path {
			return sites[i].path < sites[j].path
		}
		return sites[i].call.Pos() < sites[j].call.Pos()
	})
	for _, s := range sites {
		if busy[s.callee] || usedStmt[s.stmt] {
			continue
		}
		h := helpers[s.callee]
		*counter++
		text, err := expand(fset, s, h.decl, h.file, overlay, *counter)
		if err != "" {
			inlDebug(fset, s.call, s.callee, err)
			continue
		}
		usedStmt[s.stmt] = true
		tf := fset.File(s.stmt.Pos())
		from, to := s.stmt.Pos(), s.call.End()
		switch s.kind {
		case "literal":
			from = s.call.Pos()
		case "tail":
			to = s.stmt.End()
		}
		byFile[s.path] = append(byFile[s.path], textEdit{tf.Offset(from), tf.Offset(to), text})
		p := fset.Position(s.call.Pos())
		notes = append(notes, fmt.Sprintf("expanded %s in %s at %s:%d", s.callee.FullName(), enclName(s), filepath.Base(p.Filename), p.Line))
	}
	if len(byFile) == 0 {
		// nothing (more) to expand: drop the helpers nothing refers to any more,
		// so that no rule meets their bodies a second time
		refs := map[*types.Func]int{}
		for _, pkg := range pkgs {
			if !repoPkgs[pkg.PkgPath] {
				continue
			}
			for _, obj := range pkg.TypesInfo.Uses {
				if fn, isFn := obj.(*types.Func); isFn && helpers[fn] != nil {
					refs[fn]++
				}
			}
		}
		for obj, h := range helpers {
			if refs[obj] > 0 || !*expandedAny {
				continue
			}
			start := h.decl.Pos()
			if h.decl.Doc != nil {
				start = h.decl.Doc.Pos()
			}
			tf := fset.File(start)
			path := fset.Position(h.file.Package).Filename
			src := fileBytes(path, overlay)
			blank := make([]byte, 0, int(h.decl.End()-start))
			for _, c := range src[tf.Offset(start):tf.Offset(h.decl.End())] {
				if c == '\n' {
					blank = append(blank, c)
				}
			}
			byFile[path] = append(byFile[path], textEdit{tf.Offset(start), tf.Offset(h.decl.End()), string(blank)})
			notes = append(notes, fmt.Sprintf("dropped %s (no reference left after expansion)", obj.FullName()))
		}
		if len(byFile) == 0 {
			return nil, nil, true
		}
	} else {
		*expandedAny = true
	}
	next = map[string][]byte{}
	for k, v := range overlay {
		next[k] = v
	}
	for path, edits := range byFile {
		src := fileBytes(path, overlay)
		sort.Slice(edits, func(i, j int) bool { return edits[i].start < edits[j].start })
		var out bytes.Buffer
		at := 0
		okEdits := true
		for _, e := range edits {
			if e.start < at {
				okEdits = false
				break
			}
			out.Write(src[at:e.start])
			out.WriteString(e.text)
			at = e.end
		}
		if !okEdits {
			continue
		}
		out.Write(src[at:])
		next[path] = out.Bytes()
	}
	return next, notes, true
}

func inlDebug(fset *token.FileSet, call *ast.CallExpr, callee *types.Func, why string) {
	if os.Getenv("RAFTLINT_INLINE_DEBUG") != "" {
		fmt.Printf("NOT-EXPANDED %s at %s: %s\n", callee.FullName(), fset.Position(call.Pos()), why)
	}
}

func enclName(s *inlSite) string {
	if obj, _ := s.pkg.TypesInfo.Defs[s.encl.Name].(*types.Func); obj != nil {
		return obj.FullName()
	}
	return s.encl.Name.Name
}

func fileBytes(path string, overlay map[string][]byte) []byte {
	if b, ok := overlay[path]; ok {
		return b
	}
	b, _ := os.ReadFile(path)
	return b
}

// notExpandable gives the reason a helper's body cannot be expanded in place.
func notExpandable(fd *ast.FuncDecl, obj *types.Func) string {
	sig := obj.Type().(*types.Signature)
	if sig.Variadic() {
		return "variadic"
	}
	if sig.TypeParams() != nil || sig.RecvTypeParams() != nil {
		return "generic"
	}
	reasons := map[string]bool{}
	var walk func(n ast.Node, inLit bool)
	walk = func(n ast.Node, inLit bool) {
		ast.Inspect(n, func(m ast.Node) bool {
			switch m := m.(type) {
			case *ast.FuncLit:
				if m != n {
					walk(m.Body, true)
					return false
				}
			case *ast.DeferStmt:
				if !inLit {
					reasons["defer"] = true
				}
			case *ast.LabeledStmt:
				if !inLit {
					reasons["label"] = true
				}
			case *ast.BranchStmt:
				if m.Tok == token.GOTO && !inLit {
					reasons["goto"] = true
				}
			case *ast.CallExpr:
				if id, ok := m.Fun.(*ast.Ident); ok && id.Name == "recover" {
					reasons["recover"] = true
				}
			}
			return true
		})
	}
	walk(fd.Body, false)
	var rs []string
	for r := range reasons {
		rs = append(rs, r)
	}
	sort.Strings(rs)
	return strings.Join(rs, ",")
}

// hoistable returns the statement in front of which the call's expansion may
// be placed: the call is evaluated whenever the statement is, exactly once,
// and before every other call or receive of the statement.
func hoistable(f *ast.File, call *ast.CallExpr, info *types.Info) ast.Stmt {
	path, _ := astutil.PathEnclosingInterval(f, call.Pos(), call.End())
	if len(path) == 0 || path[0] != ast.Node(call) {
		return nil
	}
	var stmt ast.Stmt
	var part ast.Node // the evaluated part of stmt that holds the call
	for i := 1; i < len(path); i++ {
		child := path[i-1]
		switch n := path[i].(type) {
		case *ast.FuncLit:
			return nil // reached a literal's signature/body boundary without a statement
		case *ast.BinaryExpr:
			if (n.Op == token.LAND || n.Op == token.LOR) && n.Y == child {
				return nil
			}
		case *ast.BlockStmt, *ast.CaseClause, *ast.CommClause:
			s, ok := child.(ast.Stmt)
			if !ok {
				return nil
			}
			if cc, isCase := n.(*ast.CaseClause); isCase {
				inBody := false
				for _, b := range cc.Body {
					if b == s {
						inBody = true
					}
				}
				if !inBody {
					return nil // the call is in a case expression
				}
			}
			if cc, isComm := n.(*ast.CommClause); isComm && cc.Comm == s {
				return nil
			}
			stmt = s
		case *ast.KeyValueExpr, *ast.CompositeLit, *ast.ParenExpr, *ast.UnaryExpr, *ast.StarExpr,
			*ast.SelectorExpr, *ast.IndexExpr, *ast.SliceExpr, *ast.TypeAssertExpr, *ast.CallExpr:
		case ast.Stmt:
		case *ast.ValueSpec, *ast.GenDecl:
		default:
			return nil
		}
		if stmt != nil {
			break
		}
	}
	if stmt == nil {
		return nil
	}
	within := func(n ast.Node) bool {
		return n != nil && n.Pos() <= call.Pos() && call.End() <= n.End()
	}
	switch s := stmt.(type) {
	case *ast.ExprStmt:
		part = s.X
	case *ast.AssignStmt:
		part = s
	case *ast.DeclStmt:
		gd, ok := s.Decl.(*ast.GenDecl)
		if !ok || gd.Tok != token.VAR || len(gd.Specs) != 1 {
			return nil
		}
		part = s
	case *ast.ReturnStmt:
		part = s
	case *ast.SendStmt:
		part = s
	case *ast.GoStmt:
		if s.Call == call {
			return nil
		}
		part = s.Call
	case *ast.DeferStmt:
		if s.Call == call {
			return nil
		}
		part = s.Call
	case *ast.IfStmt:
		switch {
		case within(s.Init):
			part = s.Init
		case s.Init == nil && within(s.Cond):
			part = s.Cond
		default:
			return nil
		}
	case *ast.SwitchStmt:
		switch {
		case within(s.Init):
			part = s.Init
		case s.Init == nil && within(s.Tag):
			part = s.Tag
		default:
			return nil
		}
	case *ast.RangeStmt:
		if !within(s.X) {
			return nil
		}
		part = s.X
	case *ast.ForStmt:
		if !within(s.Init) {
			return nil
		}
		part = s.Init
	default:
		return nil
	}
	// nothing with an effect may be evaluated before the call
	bad := false
	ast.Inspect(part, func(n ast.Node) bool {
		if n == nil || bad {
			return false
		}
		if n.Pos() >= call.Pos() {
			return false
		}
		switch m := n.(type) {
		case *ast.FuncLit:
			return false
		case *ast.CallExpr:
			if m == call || (m.Pos() <= call.Pos() && call.End() <= m.End() && !within(m.Fun)) {
				// an enclosing call is evaluated after its arguments — but its
				// function operand is evaluated first
				return true
			}
			if tv, ok := info.Types[m.Fun]; ok && tv.IsType() {
				return true // conversion
			}
			if id, ok := m.Fun.(*ast.Ident); ok {
				if _, isBuiltin := info.Uses[id].(*types.Builtin); isBuiltin && (id.Name == "len" || id.Name == "cap") {
					return true
				}
			}
			bad = true
		case *ast.UnaryExpr:
			if m.Op == token.ARROW {
				bad = true
			}
		}
		return true
	})
	if bad {
		return nil
	}
	return stmt
}

// capturedAt checks that every identifier of the helper's body that refers to
// something declared outside the helper means the same thing at the call site,
// and that the helper's file-level names (imports) are available there.
func capturedAt(s *inlSite, hd *ast.FuncDecl, hpkg *packages.Package) string {
	info := hpkg.TypesInfo
	scope := s.pkg.Types.Scope().Innermost(s.stmt.Pos())
	if scope == nil {
		return "no scope"
	}
	skip := map[*ast.Ident]bool{}
	ast.Inspect(hd.Body, func(n ast.Node) bool {
		switch m := n.(type) {
		case *ast.SelectorExpr:
			skip[m.Sel] = true // a member; for pkg.Name the package identifier itself is checked
		}
		return true
	})
	why := ""
	ast.Inspect(hd.Body, func(n ast.Node) bool {
		id, ok := n.(*ast.Ident)
		if !ok || why != "" || skip[id] || id.Name == "_" {
			return true
		}
		obj := info.Uses[id]
		if obj == nil {
			return true
		}
		if v, isVar := obj.(*types.Var); isVar && v.IsField() {
			return true // composite-literal key
		}
		if obj.Pos().IsValid() && hd.Pos() <= obj.Pos() && obj.Pos() < hd.End() {
			return true // declared by the helper itself (parameter, result, local)
		}
		_, at := scope.LookupParent(id.Name, s.stmt.Pos())
		if pn, isPkg := obj.(*types.PkgName); isPkg {
			apn, ok := at.(*types.PkgName)
			if !ok || apn.Imported() != pn.Imported() {
				why = "package name " + id.Name + " means something else at the call"
			}
			return true
		}
		if at != obj {
			why = "identifier " + id.Name + " means something else at the call"
		}
		return true
	})
	return why
}

func identOf(e ast.Expr) *ast.Ident {
	id, _ := e.(*ast.Ident)
	return id
}

// expand produces the replacement for the source text [stmt.Pos(), call.End()).
func expand(fset *token.FileSet, s *inlSite, hd *ast.FuncDecl, hfile *ast.File, overlay map[string][]byte, n int) (string, string) {
	if s.kind != "" {
		return expandWhole(fset, s, hd, hfile, overlay)
	}
	info := s.pkg.TypesInfo
	sig := s.callee.Type().(*types.Signature)
	csrc := fileBytes(s.path, overlay)
	hpath := fset.Position(hfile.Package).Filename
	hsrc := fileBytes(hpath, overlay)
	ctf := fset.File(s.stmt.Pos())
	htf := fset.File(hd.Pos())
	off := func(tf *token.File, p token.Pos) int { return tf.Offset(p) }

	// type printer relative to the caller's file
	imports := map[string]string{}
	for _, im := range s.file.Imports {
		pn, _ := info.Implicits[im].(*types.PkgName)
		if im.Name != nil {
			pn, _ = info.Defs[im.Name].(*types.PkgName)
		}
		if pn != nil && pn.Name() != "_" && pn.Name() != "." {
			imports[pn.Imported().Path()] = pn.Name()
		}
	}
	scope := s.pkg.Types.Scope().Innermost(s.stmt.Pos())
	fail := ""
	qual := func(p *types.Package) string {
		if p == s.pkg.Types {
			return ""
		}
		if name, ok := imports[p.Path()]; ok {
			if _, at := scope.LookupParent(name, s.stmt.Pos()); at != nil {
				if pn, ok := at.(*types.PkgName); ok && pn.Imported() == p {
					return name
				}
			}
		}
		fail = "type from a package the caller's file cannot name: " + p.Path()
		return p.Name()
	}
	typeStr := func(t types.Type) string {
		// named types of the caller's package must not be shadowed at the call
		var chk func(t types.Type, depth int)
		chk = func(t types.Type, depth int) {
			if depth > 6 || t == nil {
				return
			}
			switch u := t.(type) {
			case *types.Named:
				if u.Obj().Pkg() == s.pkg.Types {
					if _, at := scope.LookupParent(u.Obj().Name(), s.stmt.Pos()); at != u.Obj() {
						fail = "type name " + u.Obj().Name() + " is shadowed at the call"
					}
				} else if u.Obj().Pkg() == nil {
					if _, at := scope.LookupParent(u.Obj().Name(), s.stmt.Pos()); at != u.Obj() {
						fail = "type name " + u.Obj().Name() + " is shadowed at the call"
					}
				}
			case *types.Basic:
				if _, at := scope.LookupParent(u.Name(), s.stmt.Pos()); at != nil && at.Parent() != types.Universe {
					fail = "type name " + u.Name() + " is shadowed at the call"
				}
			case *types.Pointer:
				chk(u.Elem(), depth+1)
			case *types.Slice:
				chk(u.Elem(), depth+1)
			case *types.Array:
				chk(u.Elem(), depth+1)
			case *types.Map:
				chk(u.Key(), depth+1)
				chk(u.Elem(), depth+1)
			case *types.Chan:
				chk(u.Elem(), depth+1)
			case *types.Signature:
				for i := 0; i < u.Params().Len(); i++ {
					chk(u.Params().At(i).Type(), depth+1)
				}
				for i := 0; i < u.Results().Len(); i++ {
					chk(u.Results().At(i).Type(), depth+1)
				}
			}
		}
		chk(t, 0)
		return types.TypeString(t, qual)
	}

	pre := fmt.Sprintf("inl%d_", n)
	var b strings.Builder
	lineDir := func(tf *token.File, p token.Pos) string {
		pos := fset.Position(p) // honours earlier directives
		_ = tf
		return fmt.Sprintf("/*line %s:%d:%d*/", pos.Filename, pos.Line, pos.Column)
	}

	// result temporaries
	nres := sig.Results().Len()
	var rnames []string
	for i := 0; i < nres; i++ {
		rn := fmt.Sprintf("%sr%d", pre, i)
		rnames = append(rnames, rn)
		fmt.Fprintf(&b, "var %s %s; ", rn, typeStr(sig.Results().At(i).Type()))
	}
	label := pre + "L"

	// return statements of the helper (not those of nested literals)
	var rets []*ast.ReturnStmt
	var findRets func(n ast.Node)
	findRets = func(n ast.Node) {
		ast.Inspect(n, func(m ast.Node) bool {
			switch m := m.(type) {
			case *ast.FuncLit:
				return false
			case *ast.ReturnStmt:
				rets = append(rets, m)
			}
			return true
		})
	}
	findRets(hd.Body)

	if len(rets) > 0 {
		fmt.Fprintf(&b, "%s: ", label)
	}
	b.WriteString("switch { default: ")

	// parameters (receiver first)
	var lhs, rhs, uses []string
	bind := func(name string, ptype types.Type, arg ast.Expr, argText string) {
		if name == "" {
			name = "_"
		}
		lhs = append(lhs, name)
		if name != "_" {
			uses = append(uses, name)
		}
		tv := info.Types[arg]
		if arg != nil && tv.Value == nil && !tv.IsNil() && tv.Type != nil && types.Identical(tv.Type, ptype) {
			rhs = append(rhs, argText)
		} else {
			rhs = append(rhs, "("+typeStr(ptype)+")("+argText+")")
		}
	}
	text := func(e ast.Expr) string { return string(csrc[off(ctf, e.Pos()):off(ctf, e.End())]) }
	if recv := sig.Recv(); recv != nil {
		sel, ok := ast.Unparen(s.call.Fun).(*ast.SelectorExpr)
		if !ok {
			return "", "method call without selector"
		}
		selInfo := info.Selections[sel]
		if selInfo == nil || selInfo.Kind() != types.MethodVal || len(selInfo.Index()) != 1 {
			return "", "promoted or indirect method"
		}
		rname := ""
		if hd.Recv != nil && len(hd.Recv.List) == 1 && len(hd.Recv.List[0].Names) == 1 {
			rname = hd.Recv.List[0].Names[0].Name
		}
		at := info.Types[sel.X].Type
		_, argPtr := at.Underlying().(*types.Pointer)
		_, recvPtr := recv.Type().Underlying().(*types.Pointer)
		rt := text(sel.X)
		switch {
		case recvPtr && !argPtr:
			rt = "&(" + rt + ")"
		case !recvPtr && argPtr:
			rt = "*(" + rt + ")"
		}
		lhs = append(lhs, orBlank(rname))
		if rname != "" && rname != "_" {
			uses = append(uses, rname)
		}
		rhs = append(rhs, rt)
	}
	if len(s.call.Args) != sig.Params().Len() {
		return "", "argument count (tuple forwarding)"
	}
	pnames := paramNames(hd)
	if len(pnames) != sig.Params().Len() {
		return "", "parameter names"
	}
	for i, a := range s.call.Args {
		bind(pnames[i], sig.Params().At(i).Type(), a, text(a))
	}
	if len(lhs) > 0 {
		allBlank := true
		for _, l := range lhs {
			if l != "_" {
				allBlank = false
			}
		}
		op := ":="
		if allBlank {
			op = "="
		}
		fmt.Fprintf(&b, "%s %s %s; ", strings.Join(lhs, ", "), op, strings.Join(rhs, ", "))
		for _, u := range uses {
			fmt.Fprintf(&b, "_ = %s; ", u)
		}
	}
	// named results
	var named []string
	if hd.Type.Results != nil {
		k := 0
		for _, fld := range hd.Type.Results.List {
			for _, nm := range fld.Names {
				named = append(named, nm.Name)
				if nm.Name != "_" {
					fmt.Fprintf(&b, "var %s %s; _ = %s; ", nm.Name, typeStr(sig.Results().At(k).Type()), nm.Name)
				}
				k++
			}
			if len(fld.Names) == 0 {
				k++
			}
		}
	}
	for _, nm := range named {
		if nm == "_" {
			return "", "blank named result"
		}
	}
	if fail != "" {
		return "", fail
	}

	// body text with returns rewritten
	bodyStart, bodyEnd := hd.Body.Lbrace+1, hd.Body.Rbrace
	b.WriteString(lineDir(htf, bodyStart))
	at := off(htf, bodyStart)
	sort.Slice(rets, func(i, j int) bool { return rets[i].Pos() < rets[j].Pos() })
	for _, r := range rets {
		b.Write(hsrc[at:off(htf, r.Pos())])
		b.WriteString("{ ")
		switch {
		case nres == 0:
		case len(r.Results) == 0:
			if len(named) != nres {
				return "", "bare return without named results"
			}
			fmt.Fprintf(&b, "%s = %s; ", strings.Join(rnames, ", "), strings.Join(named, ", "))
		default:
			var es []string
			for _, e := range r.Results {
				es = append(es, string(hsrc[off(htf, e.Pos()):off(htf, e.End())]))
			}
			fmt.Fprintf(&b, "%s = %s; ", strings.Join(rnames, ", "), strings.Join(es, ", "))
		}
		fmt.Fprintf(&b, "break %s }", label)
		b.WriteString(lineDir(htf, r.End()))
		at = off(htf, r.End())
	}
	b.Write(hsrc[at:off(htf, bodyEnd)])
	b.WriteString("\n}\n")

	// the statement itself, with the call replaced by the temporaries
	b.WriteString(lineDir(ctf, s.stmt.Pos()))
	b.Write(csrc[off(ctf, s.stmt.Pos()):off(ctf, s.call.Pos())])
	if es, ok := s.stmt.(*ast.ExprStmt); ok && ast.Unparen(es.X) == ast.Expr(s.call) {
		if nres > 0 {
			blanks := make([]string, nres)
			for i := range blanks {
				blanks[i] = "_"
			}
			fmt.Fprintf(&b, "%s = %s", strings.Join(blanks, ", "), strings.Join(rnames, ", "))
		}
	} else {
		if nres == 0 {
			return "", "void call used as a value"
		}
		b.WriteString(strings.Join(rnames, ", "))
	}
	b.WriteString(lineDir(ctf, s.call.End()))
	return b.String(), ""
}

func orBlank(s string) string {
	if s == "" {
		return "_"
	}
	return s
}

func paramNames(fd *ast.FuncDecl) []string {
	var out []string
	if fd.Type.Params == nil {
		return out
	}
	for _, f := range fd.Type.Params.List {
		if len(f.Names) == 0 {
			out = append(out, "_")
		}
		for _, n := range f.Names {
			out = append(out, n.Name)
		}
	}
	return out
}

// goOrDeferOf: call is the call of a go or defer statement.
func goOrDeferOf(f *ast.File, call *ast.CallExpr) ast.Stmt {
	path, _ := astutil.PathEnclosingInterval(f, call.Pos(), call.End())
	if len(path) < 2 || path[0] != ast.Node(call) {
		return nil
	}
	switch p := path[1].(type) {
	case *ast.GoStmt:
		if p.Call == call {
			return p
		}
	case *ast.DeferStmt:
		if p.Call == call {
			return p
		}
	}
	return nil
}

// tailReturnOf: call is the only operand of a return statement.
func tailReturnOf(f *ast.File, call *ast.CallExpr) ast.Stmt {
	path, _ := astutil.PathEnclosingInterval(f, call.Pos(), call.End())
	if len(path) < 2 || path[0] != ast.Node(call) {
		return nil
	}
	if rs, ok := path[1].(*ast.ReturnStmt); ok && len(rs.Results) == 1 && rs.Results[0] == ast.Expr(call) {
		// not inside a function literal of the enclosing declaration: its
		// return would leave the literal, which is what we want as well, but
		// the result-name test below is made against the declaration
		for _, n := range path[2:] {
			if _, isLit := n.(*ast.FuncLit); isLit {
				return nil
			}
		}
		return rs
	}
	return nil
}

// tailResultsOK: the helper's results are unnamed, or named exactly like the
// caller's (so that its deferred functions and bare returns act on the
// caller's result variables).
func tailResultsOK(hd, caller *ast.FuncDecl) bool {
	names := func(fd *ast.FuncDecl) ([]string, bool) {
		var out []string
		named := false
		if fd.Type.Results == nil {
			return nil, false
		}
		for _, f := range fd.Type.Results.List {
			if len(f.Names) == 0 {
				out = append(out, "")
			}
			for _, n := range f.Names {
				out = append(out, n.Name)
				named = true
			}
		}
		return out, named
	}
	hn, hNamed := names(hd)
	if !hNamed {
		return true
	}
	cn, cNamed := names(caller)
	if !cNamed || len(hn) != len(cn) {
		return false
	}
	for i := range hn {
		if hn[i] != cn[i] || hn[i] == "_" || hn[i] == "" {
			return false
		}
	}
	// no parameter of the helper may be named like one of those results
	for _, p := range paramNames(hd) {
		for _, r := range hn {
			if p == r {
				return false
			}
		}
	}
	return true
}

// expandWhole produces the text for the "literal" and "tail" forms.
func expandWhole(fset *token.FileSet, s *inlSite, hd *ast.FuncDecl, hfile *ast.File, overlay map[string][]byte) (string, string) {
	info := s.pkg.TypesInfo
	sig := s.callee.Type().(*types.Signature)
	csrc := fileBytes(s.path, overlay)
	hpath := fset.Position(hfile.Package).Filename
	hsrc := fileBytes(hpath, overlay)
	ctf := fset.File(s.stmt.Pos())
	htf := fset.File(hd.Pos())
	text := func(e ast.Expr) string { return string(csrc[ctf.Offset(e.Pos()):ctf.Offset(e.End())]) }
	lineDir := func(p token.Pos) string {
		pos := fset.Position(p)
		return fmt.Sprintf("/*line %s:%d:%d*/", pos.Filename, pos.Line, pos.Column)
	}
	// types, spelled at the call site
	imports := map[string]string{}
	for _, im := range s.file.Imports {
		pn, _ := info.Implicits[im].(*types.PkgName)
		if im.Name != nil {
			pn, _ = info.Defs[im.Name].(*types.PkgName)
		}
		if pn != nil && pn.Name() != "_" && pn.Name() != "." {
			imports[pn.Imported().Path()] = pn.Name()
		}
	}
	scope := s.pkg.Types.Scope().Innermost(s.stmt.Pos())
	fail := ""
	qual := func(p *types.Package) string {
		if p == s.pkg.Types {
			return ""
		}
		if name, ok := imports[p.Path()]; ok {
			if _, at := scope.LookupParent(name, s.stmt.Pos()); at != nil {
				if pn, ok := at.(*types.PkgName); ok && pn.Imported() == p {
					return name
				}
			}
		}
		fail = "type from a package the caller's file cannot name: " + p.Path()
		return p.Name()
	}
	typeStr := func(t types.Type) string {
		var chk func(t types.Type, d int)
		chk = func(t types.Type, d int) {
			if d > 6 || t == nil {
				return
			}
			switch u := t.(type) {
			case *types.Named:
				if u.Obj().Pkg() == s.pkg.Types || u.Obj().Pkg() == nil {
					if _, at := scope.LookupParent(u.Obj().Name(), s.stmt.Pos()); at != u.Obj() {
						fail = "type name " + u.Obj().Name() + " is shadowed at the call"
					}
				}
			case *types.Basic:
				if _, at := scope.LookupParent(u.Name(), s.stmt.Pos()); at != nil && at.Parent() != types.Universe {
					fail = "type name " + u.Name() + " is shadowed at the call"
				}
			case *types.Pointer:
				chk(u.Elem(), d+1)
			case *types.Slice:
				chk(u.Elem(), d+1)
			case *types.Array:
				chk(u.Elem(), d+1)
			case *types.Map:
				chk(u.Key(), d+1)
				chk(u.Elem(), d+1)
			case *types.Chan:
				chk(u.Elem(), d+1)
			case *types.Signature:
				for i := 0; i < u.Params().Len(); i++ {
					chk(u.Params().At(i).Type(), d+1)
				}
				for i := 0; i < u.Results().Len(); i++ {
					chk(u.Results().At(i).Type(), d+1)
				}
			}
		}
		chk(t, 0)
		return types.TypeString(t, qual)
	}
	// receiver and arguments
	var binds []bindT
	if recv := sig.Recv(); recv != nil {
		sel, ok := ast.Unparen(s.call.Fun).(*ast.SelectorExpr)
		if !ok {
			return "", "method call without selector"
		}
		selInfo := info.Selections[sel]
		if selInfo == nil || selInfo.Kind() != types.MethodVal || len(selInfo.Index()) != 1 {
			return "", "promoted or indirect method"
		}
		rname := "_"
		if hd.Recv != nil && len(hd.Recv.List) == 1 && len(hd.Recv.List[0].Names) == 1 {
			rname = hd.Recv.List[0].Names[0].Name
		}
		at := info.Types[sel.X].Type
		_, argPtr := at.Underlying().(*types.Pointer)
		_, recvPtr := recv.Type().Underlying().(*types.Pointer)
		rt := text(sel.X)
		switch {
		case recvPtr && !argPtr:
			rt = "&(" + rt + ")"
		case !recvPtr && argPtr:
			rt = "*(" + rt + ")"
		}
		rty := recv.Type()
		binds = append(binds, bindT{rname, rt, func() string { return typeStr(rty) }, false})
	}
	if len(s.call.Args) != sig.Params().Len() {
		return "", "argument count (tuple forwarding)"
	}
	pn := paramNames(hd)
	if len(pn) != sig.Params().Len() {
		return "", "parameter names"
	}
	for i, a := range s.call.Args {
		tv := info.Types[a]
		conv := !(tv.Value == nil && !tv.IsNil() && tv.Type != nil && types.Identical(tv.Type, sig.Params().At(i).Type()))
		pty := sig.Params().At(i).Type()
		binds = append(binds, bindT{pn[i], text(a), func() string { return typeStr(pty) }, conv})
	}
	// results as declared by the helper
	var resDecl []string
	var resNames []string
	if hd.Type.Results != nil && s.kind == "tail" {
		for _, f := range hd.Type.Results.List {
			if len(f.Names) == 0 {
				resNames = append(resNames, "")
			}
			for _, nm := range f.Names {
				resNames = append(resNames, nm.Name)
			}
		}
	}
	if hd.Type.Results != nil && s.kind == "literal" {
		k := 0
		for _, f := range hd.Type.Results.List {
			if len(f.Names) == 0 {
				resDecl = append(resDecl, typeStr(sig.Results().At(k).Type()))
				resNames = append(resNames, "")
				k++
			}
			for _, nm := range f.Names {
				resDecl = append(resDecl, nm.Name+" "+typeStr(sig.Results().At(k).Type()))
				resNames = append(resNames, nm.Name)
				k++
			}
		}
	}
	if fail != "" {
		return "", fail
	}
	body := string(hsrc[htf.Offset(hd.Body.Lbrace)+1 : htf.Offset(hd.Body.Rbrace)])
	if s.kind == "literal" {
		// a parameter that is bound to `&x` (x a variable of the caller) and only
		// ever dereferenced is the caller's x itself: `defer h(f, &err)` with
		// `*errp = e` inside is the closure `defer func(){ err = e }()` — the
		// form every rule about deferred functions and named results reads
		body, binds = captureAddressed(body, binds, hd, s, info, htf)
	}
	var b strings.Builder
	switch s.kind {
	case "literal":
		b.WriteString("func(")
		for i, x := range binds {
			if i > 0 {
				b.WriteString(", ")
			}
			b.WriteString(x.name + " " + x.typ())
		}
		b.WriteString(")")
		if len(resDecl) > 0 {
			b.WriteString(" (" + strings.Join(resDecl, ", ") + ")")
		}
		b.WriteString(" {" + lineDir(hd.Body.Lbrace+1) + body + "\n}" + lineDir(s.call.Lparen) + "(")
		for i, x := range binds {
			if i > 0 {
				b.WriteString(", ")
			}
			b.WriteString(x.arg)
		}
		b.WriteString(")" + lineDir(s.call.End()))
	case "tail":
		b.WriteString("{ ")
		var lhs, rhs, uses []string
		for _, x := range binds {
			name := x.name
			if name == "" {
				name = "_"
			}
			lhs = append(lhs, name)
			if name != "_" {
				uses = append(uses, name)
			}
			if x.conv {
				rhs = append(rhs, "("+x.typ()+")("+x.arg+")")
			} else {
				rhs = append(rhs, x.arg)
			}
		}
		if len(lhs) > 0 {
			op := "="
			for _, l := range lhs {
				if l != "_" {
					op = ":="
				}
			}
			fmt.Fprintf(&b, "%s %s %s; ", strings.Join(lhs, ", "), op, strings.Join(rhs, ", "))
			for _, u := range uses {
				fmt.Fprintf(&b, "_ = %s; ", u)
			}
		}
		// the helper's named results start at their zero values
		for i, nm := range resNames {
			if nm != "" {
				fmt.Fprintf(&b, "%s = *new(%s); ", nm, typeStr(sig.Results().At(i).Type()))
			}
		}
		if fail != "" {
			return "", fail
		}
		b.WriteString(lineDir(hd.Body.Lbrace+1) + body + "\n}" + lineDir(s.stmt.End()))
	}
	return b.String(), ""
}

// bindT: one parameter (or the receiver) of an expanded helper with the
// argument text it is bound to at the call.
type bindT struct {
	name, arg string
	typ       func() string // spelled only where needed: a shadowed type name makes it unspellable
	conv      bool
}

var addrOfIdent = regexp.MustCompile(`^&[A-Za-z_][A-Za-z0-9_]*$`)

// captureAddressed rewrites, in the body text of helper hd, every `*p` of a
// parameter p bound to `&x` into `x` and drops the binding, when that is
// exactly what the call means: p is used only dereferenced, x is a variable
// in scope at the call and no declaration inside the helper shadows the name.
func captureAddressed(body string, binds []bindT, hd *ast.FuncDecl, s *inlSite, info *types.Info, htf *token.File) (string, []bindT) {
	type edit struct {
		from, to int
		text     string
	}
	base := htf.Offset(hd.Body.Lbrace) + 1
	var edits []edit
	var keep []bindT
	var hinfo *types.Info
	if s.callee.Pkg() == s.pkg.Types {
		hinfo = info // the helper is declared in the caller's package
	}
	for _, bd := range binds {
		if !addrOfIdent.MatchString(bd.arg) || bd.name == "" || bd.name == "_" || hinfo == nil {
			keep = append(keep, bd)
			continue
		}
		x := bd.arg[1:]
		// the parameter object
		var pobj types.Object
		for _, f := range hd.Type.Params.List {
			for _, nm := range f.Names {
				if nm.Name == bd.name {
					pobj = hinfo.Defs[nm]
				}
			}
		}
		if pobj == nil {
			keep = append(keep, bd)
			continue
		}
		ok := true
		var stars []*ast.StarExpr
		derefd := map[*ast.Ident]bool{}
		ast.Inspect(hd.Body, func(n ast.Node) bool {
			switch v := n.(type) {
			case *ast.StarExpr:
				if id, isId := ast.Unparen(v.X).(*ast.Ident); isId && hinfo.Uses[id] == pobj {
					stars = append(stars, v)
					derefd[id] = true
				}
			case *ast.Ident:
				if hinfo.Defs[v] != nil && v.Name == x {
					ok = false // a local of the helper would capture the name
				}
			case *ast.FuncLit:
				// nested literals are fine: they see the same variable
			}
			return true
		})
		ast.Inspect(hd.Body, func(n ast.Node) bool {
			if id, isId := n.(*ast.Ident); isId && hinfo.Uses[id] == pobj && !derefd[id] {
				ok = false // the pointer itself is used
			}
			return true
		})
		for _, other := range binds {
			if other.name == x && other.arg != bd.arg {
				ok = false // another parameter carries the name
			}
		}
		if !ok || len(stars) == 0 {
			keep = append(keep, bd)
			continue
		}
		for _, st := range stars {
			edits = append(edits, edit{htf.Offset(st.Pos()) - base, htf.Offset(st.End()) - base, x})
		}
	}
	if len(edits) == 0 {
		return body, binds
	}
	sort.Slice(edits, func(i, j int) bool { return edits[i].from > edits[j].from })
	for _, e := range edits {
		if e.from < 0 || e.to > len(body) || e.from > e.to {
			return body, binds
		}
		body = body[:e.from] + e.text + body[e.to:]
	}
	return body, keep
}
