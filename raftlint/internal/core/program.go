// Package core holds the repository-specific static-analysis engines used by
// raftcheck: program loading, anchor resolution, canonical expressions over
// SSA, CFG gate/dominance queries, store/call indexes and reporting.
package core

import (
	"fmt"
	"go/ast"
	"go/token"
	"go/types"
	"os"
	"sort"
	"strings"

	"golang.org/x/tools/go/callgraph"
	"golang.org/x/tools/go/callgraph/cha"
	"golang.org/x/tools/go/callgraph/vta"
	"golang.org/x/tools/go/packages"
	"golang.org/x/tools/go/ssa"
	"golang.org/x/tools/go/ssa/ssautil"
)

const (
	RaftPkg = "github.com/santhosh-tekuri/raft"
	LogPkg  = "github.com/santhosh-tekuri/raft/log"
	MmapPkg = "github.com/santhosh-tekuri/raft/mmap"
)

// Undecided is the panic payload used when the checker cannot see what it
// needs (unresolved anchor, load failure). It maps to exit code 2.
type Undecided struct{ Msg string }

func (u Undecided) Error() string { return "UNDECIDED " + u.Msg }

func undecided(format string, a ...interface{}) {
	panic(Undecided{fmt.Sprintf(format, a...)})
}

// Program is the loaded, type-checked, SSA-built repository.
type Program struct {
	Dir   string
	Tags  string
	Fset  *token.FileSet
	Pkgs  []*packages.Package // the three repo packages
	All   []*packages.Package
	Prog  *ssa.Program
	SSA   map[string]*ssa.Package // by import path
	Types map[string]*types.Package

	cg      *callgraph.Graph
	funcs   []*ssa.Function // all source functions of repo packages incl. closures
	parent  map[*ssa.Function]*ssa.Function
	infoMap map[*ssa.Function]*FuncInfo

	storeIdx   map[*types.Var][]Site // field -> stores
	storePaths map[ssa.Instruction]*Expr
	spills     map[*ssa.Alloc]*ssa.Parameter
	spillDone  map[*ssa.Function]bool
	modsets    map[*ssa.Function]map[*types.Var]bool
	astFuncs   map[*types.Func]*ast.FuncDecl
	sentinels  map[*ssa.Global]bool
	tracked    map[*ssa.Function]map[*ssa.Phi]bool

	// Normalized lists the calls to new helpers that were expanded in place
	// before analysis (inline.go); Source is the overlay actually analysed.
	Normalized []string
	Source     map[string][]byte
}

// Site is an instruction inside a function.
type Site struct {
	Fn    *ssa.Function
	Instr ssa.Instruction
}

func (s Site) Pos(p *Program) token.Position {
	return p.Position(s.Instr.Pos(), s.Fn)
}

// Overlay, when set before Load, substitutes file contents (absolute path ->
// source). Only the mutation sweep (cmd/mutsweep) uses it; registered checks
// always analyse the working tree as it is on disk.
var Overlay map[string][]byte

// Load loads /repo (dir) with the given build tags.
func Load(dir, tags string) *Program {
	os.Unsetenv("GOWORK")
	ov := Overlay
	Normalized = nil
	if !NoInline && hasUnknownFuncs(dir, Overlay) {
		ov = normalizeHelpers(dir, tags, Overlay)
		for _, n := range Normalized {
			fmt.Println("NORMALISED " + n)
		}
	}
	cfg := &packages.Config{
		Mode:    packages.LoadAllSyntax,
		Dir:     dir,
		Overlay: ov,
		Env: append(os.Environ(), "GOFLAGS=-mod=mod", "GOPROXY=off", "GOSUMDB=off",
			"GOTOOLCHAIN=local", "GOWORK=off", "GOARCH=amd64", "GOOS=linux", "CGO_ENABLED=0"),
		Tests: false,
	}
	if tags != "" {
		cfg.BuildFlags = []string{"-tags=" + tags}
	}
	pkgs, err := packages.Load(cfg, "./...")
	if err != nil {
		undecided("load: %v", err)
	}
	if len(pkgs) == 0 {
		undecided("load: zero packages")
	}
	p := &Program{Dir: dir, Tags: tags, SSA: map[string]*ssa.Package{}, Types: map[string]*types.Package{},
		parent: map[*ssa.Function]*ssa.Function{}, infoMap: map[*ssa.Function]*FuncInfo{},
		Normalized: Normalized, Source: ov}
	var errs []string
	packages.Visit(pkgs, nil, func(pkg *packages.Package) {
		for _, e := range pkg.Errors {
			errs = append(errs, pkg.PkgPath+": "+e.Error())
		}
		p.All = append(p.All, pkg)
	})
	if len(errs) > 0 {
		sort.Strings(errs)
		if len(errs) > 5 {
			errs = errs[:5]
		}
		undecided("type errors: %s", strings.Join(errs, "; "))
	}
	want := map[string]bool{RaftPkg: false, LogPkg: false, MmapPkg: false}
	for _, pkg := range pkgs {
		if _, ok := want[pkg.PkgPath]; ok {
			want[pkg.PkgPath] = true
			p.Pkgs = append(p.Pkgs, pkg)
			p.Types[pkg.PkgPath] = pkg.Types
		}
	}
	for k, v := range want {
		if !v {
			undecided("load: package %s not found", k)
		}
	}
	sort.Slice(p.Pkgs, func(i, j int) bool { return p.Pkgs[i].PkgPath < p.Pkgs[j].PkgPath })
	p.Fset = pkgs[0].Fset
	prog, _ := ssautil.AllPackages(pkgs, ssa.InstantiateGenerics)
	prog.Build()
	p.Prog = prog
	for _, pkg := range p.Pkgs {
		sp := prog.Package(pkg.Types)
		if sp == nil {
			undecided("ssa: package %s not built", pkg.PkgPath)
		}
		p.SSA[pkg.PkgPath] = sp
	}
	p.indexFuncs()
	return p
}

// InRepo reports whether fn belongs to one of the analysed repository packages.
func (p *Program) InRepo(fn *ssa.Function) bool { return p.inRepo(fn) }

func (p *Program) inRepo(fn *ssa.Function) bool {
	if fn == nil {
		return false
	}
	pk := fn.Package()
	if pk == nil {
		if fn.Parent() != nil {
			return p.inRepo(fn.Parent())
		}
		// wrappers / bound methods: look at object
		if o := fn.Object(); o != nil && o.Pkg() != nil {
			_, ok := p.SSA[o.Pkg().Path()]
			return ok
		}
		return false
	}
	_, ok := p.SSA[pk.Pkg.Path()]
	return ok
}

func (p *Program) indexFuncs() {
	p.astFuncs = map[*types.Func]*ast.FuncDecl{}
	for _, pkg := range p.Pkgs {
		for _, f := range pkg.Syntax {
			for _, d := range f.Decls {
				if fd, ok := d.(*ast.FuncDecl); ok {
					if o, ok := pkg.TypesInfo.Defs[fd.Name].(*types.Func); ok {
						p.astFuncs[o] = fd
					}
				}
			}
		}
	}
	seen := map[*ssa.Function]bool{}
	var add func(fn *ssa.Function)
	add = func(fn *ssa.Function) {
		if fn == nil || seen[fn] {
			return
		}
		seen[fn] = true
		if fn.Blocks != nil {
			p.funcs = append(p.funcs, fn)
		}
		for _, a := range fn.AnonFuncs {
			p.parent[a] = fn
			add(a)
		}
	}
	for fn := range ssautil.AllFunctions(p.Prog) {
		if fn.Synthetic != "" && fn.Parent() == nil {
			continue
		}
		if p.inRepo(fn) && fn.Parent() == nil {
			add(fn)
		}
	}
	sort.Slice(p.funcs, func(i, j int) bool {
		a, b := p.funcs[i], p.funcs[j]
		if a.String() != b.String() {
			return a.String() < b.String()
		}
		return a.Pos() < b.Pos()
	})
}

// Funcs returns every source-level function (including closures) of the repo.
func (p *Program) Funcs() []*ssa.Function { return p.funcs }

// Position renders a position; falls back to the function position.
func (p *Program) Position(pos token.Pos, fn *ssa.Function) token.Position {
	if !pos.IsValid() && fn != nil {
		pos = fn.Pos()
		for f := fn; !pos.IsValid() && f != nil; f = f.Parent() {
			pos = f.Pos()
		}
	}
	return p.Fset.Position(pos)
}

func (p *Program) PosStr(pos token.Pos, fn *ssa.Function) string {
	ps := p.Position(pos, fn)
	f := ps.Filename
	if strings.HasPrefix(f, p.Dir+"/") {
		f = f[len(p.Dir)+1:]
	}
	return fmt.Sprintf("%s:%d", f, ps.Line)
}

// CallGraph returns the VTA call graph (built lazily).
func (p *Program) CallGraph() *callgraph.Graph {
	if p.cg == nil {
		p.cg = vta.CallGraph(ssautil.AllFunctions(p.Prog), cha.CallGraph(p.Prog))
	}
	return p.cg
}

// ---------------------------------------------------------------- anchors

// Func resolves "pkg:Name" or "pkg:(*T).Name" / "pkg:(T).Name" / "pkg:T.Name"
// where pkg is "raft", "log" or "mmap". Unresolved => undecided.
func (p *Program) Func(spec string) *ssa.Function {
	fn := p.FuncOpt(spec)
	if fn == nil {
		undecided("anchor=func %s", spec)
	}
	return fn
}

func pkgPath(short string) string {
	switch short {
	case "raft":
		return RaftPkg
	case "log":
		return LogPkg
	case "mmap":
		return MmapPkg
	}
	return short
}

func (p *Program) FuncOpt(spec string) *ssa.Function {
	i := strings.Index(spec, ":")
	if i < 0 {
		undecided("bad func spec %q", spec)
	}
	pk := p.SSA[pkgPath(spec[:i])]
	if pk == nil {
		return nil
	}
	name := spec[i+1:]
	if j := strings.LastIndex(name, "."); j >= 0 {
		tn := strings.Trim(name[:j], "(*)")
		mn := name[j+1:]
		obj := pk.Pkg.Scope().Lookup(tn)
		if obj == nil {
			return nil
		}
		named, ok := obj.Type().(*types.Named)
		if !ok {
			return nil
		}
		for _, t := range []types.Type{named, types.NewPointer(named)} {
			ms := p.Prog.MethodSets.MethodSet(t)
			for k := 0; k < ms.Len(); k++ {
				sel := ms.At(k)
				if sel.Obj().Name() == mn && sel.Obj().Pkg() == pk.Pkg {
					// only methods declared directly on T (not promoted)
					f := sel.Obj().(*types.Func)
					recv := f.Type().(*types.Signature).Recv().Type()
					if pt, ok := recv.(*types.Pointer); ok {
						recv = pt.Elem()
					}
					if recv == types.Type(named) {
						return p.Prog.FuncValue(f)
					}
				}
			}
		}
		return nil
	}
	return pk.Func(name)
}

// Closures returns the anonymous functions directly or transitively nested in fn, in source order.
func (p *Program) Closures(fn *ssa.Function) []*ssa.Function {
	var out []*ssa.Function
	var rec func(f *ssa.Function)
	rec = func(f *ssa.Function) {
		for _, a := range f.AnonFuncs {
			out = append(out, a)
			rec(a)
		}
	}
	rec(fn)
	return out
}

// Root returns the outermost enclosing named function.
func Root(fn *ssa.Function) *ssa.Function {
	for fn.Parent() != nil {
		fn = fn.Parent()
	}
	return fn
}

// Named resolves a named type.
func (p *Program) Named(spec string) *types.Named {
	i := strings.Index(spec, ":")
	pk := p.Types[pkgPath(spec[:i])]
	if pk == nil {
		undecided("anchor=type %s", spec)
	}
	obj := pk.Scope().Lookup(spec[i+1:])
	if obj == nil {
		undecided("anchor=type %s", spec)
	}
	n, ok := obj.Type().(*types.Named)
	if !ok {
		undecided("anchor=type %s (not named)", spec)
	}
	return n
}

// Field resolves "pkg:Struct.field".
func (p *Program) Field(spec string) *types.Var {
	i := strings.Index(spec, ":")
	j := strings.LastIndex(spec, ".")
	if i < 0 || j < i {
		undecided("bad field spec %q", spec)
	}
	n := p.Named(spec[:j])
	st, ok := n.Underlying().(*types.Struct)
	if !ok {
		undecided("anchor=field %s (not a struct)", spec)
	}
	for k := 0; k < st.NumFields(); k++ {
		if st.Field(k).Name() == spec[j+1:] {
			return st.Field(k)
		}
	}
	undecided("anchor=field %s", spec)
	return nil
}

// Global resolves a package-level variable "pkg:name".
func (p *Program) Global(spec string) *ssa.Global {
	i := strings.Index(spec, ":")
	pk := p.SSA[pkgPath(spec[:i])]
	if pk == nil {
		undecided("anchor=global %s", spec)
	}
	g, ok := pk.Members[spec[i+1:]].(*ssa.Global)
	if !ok {
		undecided("anchor=global %s", spec)
	}
	return g
}

// Const resolves a package-level constant "pkg:name".
func (p *Program) Const(spec string) *types.Const {
	i := strings.Index(spec, ":")
	pk := p.Types[pkgPath(spec[:i])]
	if pk == nil {
		undecided("anchor=const %s", spec)
	}
	c, ok := pk.Scope().Lookup(spec[i+1:]).(*types.Const)
	if !ok {
		undecided("anchor=const %s", spec)
	}
	return c
}

// FuncName gives a short stable name for a function: "(*Raft).onVoteRequest",
// "log.(*Log).Append", closures as "<parent>$1".
func (p *Program) FuncName(fn *ssa.Function) string {
	if fn == nil {
		return "<nil>"
	}
	if par := fn.Parent(); par != nil {
		idx := 0
		for i, a := range par.AnonFuncs {
			if a == fn {
				idx = i + 1
			}
		}
		return fmt.Sprintf("%s$%d", p.FuncName(par), idx)
	}
	s := fn.String()
	s = strings.ReplaceAll(s, RaftPkg+"/log.", "log.")
	s = strings.ReplaceAll(s, RaftPkg+"/mmap.", "mmap.")
	s = strings.ReplaceAll(s, RaftPkg+".", "")
	return s
}

// ASTFunc returns the declaration of a named source function.
func (p *Program) ASTFunc(fn *ssa.Function) *ast.FuncDecl {
	if o, ok := fn.Object().(*types.Func); ok {
		return p.astFuncs[o]
	}
	return nil
}

// TypesInfo returns the types.Info of the package declaring fn.
func (p *Program) TypesInfo(pkgShort string) *types.Info {
	for _, pkg := range p.Pkgs {
		if pkg.PkgPath == pkgPath(pkgShort) {
			return pkg.TypesInfo
		}
	}
	undecided("no types info for %s", pkgShort)
	return nil
}

func (p *Program) Package(pkgShort string) *packages.Package {
	for _, pkg := range p.Pkgs {
		if pkg.PkgPath == pkgPath(pkgShort) {
			return pkg
		}
	}
	undecided("no package %s", pkgShort)
	return nil
}

// IsNew reports whether fn (or, for a closure, its enclosing top-level
// function) is a repository function the rules do not know by name (see
// knownFuncs): such helpers are transparent to every analysis.
func (p *Program) IsNew(fn *ssa.Function) bool {
	if fn == nil || !p.inRepo(fn) {
		return false
	}
	r := Root(fn)
	if r.Synthetic != "" {
		return false
	}
	return !knownFuncs[r.String()]
}

// Scope lists fn, its closures, and every new helper (IsNew) statically
// reachable from them, with their closures: "the function as it was before
// parts of it were extracted".
func (p *Program) Scope(fn *ssa.Function) []*ssa.Function {
	seen := map[*ssa.Function]bool{}
	var out []*ssa.Function
	var add func(f *ssa.Function, depth int)
	add = func(f *ssa.Function, depth int) {
		if f == nil || seen[f] || depth > 4 {
			return
		}
		seen[f] = true
		out = append(out, f)
		for _, c := range p.Closures(f) {
			add(c, depth)
		}
		for _, b := range f.Blocks {
			for _, in := range b.Instrs {
				if ci, ok := in.(ssa.CallInstruction); ok {
					if callee := ci.Common().StaticCallee(); callee != nil && p.IsNew(callee) && callee.Blocks != nil {
						add(callee, depth+1)
					}
				}
			}
		}
	}
	add(fn, 0)
	return out
}

// InstrsScope visits the instructions of every function in Scope(fn).
func (p *Program) InstrsScope(fn *ssa.Function, f func(ssa.Instruction)) {
	for _, g := range p.Scope(fn) {
		Instrs(g, f)
	}
}
