package core

import (
	"fmt"
	"go/constant"
	"go/token"
	"go/types"
	"sort"
	"strings"

	"golang.org/x/tools/go/ssa"
)

// Expr is a canonical, rename-proof rendering of an SSA value: access paths
// rooted at parameters (named by their type when that is unambiguous),
// globals and address-taken locals; pointer dereferences are transparent, so
// `r.term`, `r.storage.term` and `(*r.storage).term` all render as
// "Raft.storage.term".
type Expr struct {
	Op   string // leaf fld idx ok call bin not phi ext each conv opaque
	Name string
	Args []*Expr
	Var  *types.Var // for fld
	Val  ssa.Value  // originating value (may be nil after substitution)
}

func (e *Expr) String() string {
	if e == nil {
		return "<nil>"
	}
	switch e.Op {
	case "leaf", "opaque":
		return e.Name
	case "fld":
		return e.Args[0].String() + "." + e.Name
	case "idx":
		return e.Args[0].String() + "[" + e.Args[1].String() + "]"
	case "ok":
		return "ok(" + e.Args[0].String() + ")"
	case "bin":
		return "(" + e.Args[0].String() + " " + e.Name + " " + e.Args[1].String() + ")"
	case "not":
		return "!" + e.Args[0].String()
	case "ext":
		return e.Args[0].String() + "#" + e.Name
	case "each":
		return "each(" + e.Args[0].String() + ")." + e.Name
	case "conv":
		return e.Args[0].String()
	case "call", "phi":
		var a []string
		for _, x := range e.Args {
			a = append(a, x.String())
		}
		return e.Name + "(" + strings.Join(a, ", ") + ")"
	}
	return "?" + e.Op
}

// Fields returns the struct-field objects mentioned anywhere in e.
func (e *Expr) Fields() []*types.Var {
	var out []*types.Var
	var rec func(x *Expr)
	rec = func(x *Expr) {
		if x == nil {
			return
		}
		if x.Op == "fld" && x.Var != nil {
			out = append(out, x.Var)
		}
		for _, a := range x.Args {
			rec(a)
		}
	}
	rec(e)
	return out
}

// Contains reports whether sub's rendering occurs as a sub-expression of e.
func (e *Expr) Contains(sub string) bool {
	if e == nil {
		return false
	}
	if e.String() == sub {
		return true
	}
	for _, a := range e.Args {
		if a.Contains(sub) {
			return true
		}
	}
	return false
}

// Root returns the leaf at the bottom of an access path (through fld/idx/conv).
func (e *Expr) Root() *Expr {
	for e != nil {
		switch e.Op {
		case "fld", "idx", "conv", "ok", "each", "ext":
			e = e.Args[0]
		default:
			return e
		}
	}
	return nil
}

// ---------------------------------------------------------------------

// FuncInfo caches per-function derived facts.
type FuncInfo struct {
	P    *Program
	Fn   *ssa.Function
	syms map[ssa.Value]*Expr
	// for closures: bindings of free variables in the parent
	bind map[*ssa.FreeVar]ssa.Value
	par  *FuncInfo
}

func (p *Program) Info(fn *ssa.Function) *FuncInfo {
	if fi, ok := p.infoMap[fn]; ok {
		return fi
	}
	fi := &FuncInfo{P: p, Fn: fn, syms: map[ssa.Value]*Expr{}}
	p.infoMap[fn] = fi
	if par := fn.Parent(); par != nil {
		fi.par = p.Info(par)
		fi.bind = map[*ssa.FreeVar]ssa.Value{}
		for _, b := range par.Blocks {
			for _, in := range b.Instrs {
				if mc, ok := in.(*ssa.MakeClosure); ok && mc.Fn == fn {
					for i, fv := range fn.FreeVars {
						if i < len(mc.Bindings) {
							fi.bind[fv] = mc.Bindings[i]
						}
					}
				}
			}
		}
	}
	return fi
}

func namedOf(t types.Type) *types.Named {
	if pt, ok := t.(*types.Pointer); ok {
		t = pt.Elem()
	}
	n, _ := t.(*types.Named)
	return n
}

func (fi *FuncInfo) paramLeaf(prm *ssa.Parameter) string {
	fn := prm.Parent()
	idx := -1
	for i, q := range fn.Params {
		if q == prm {
			idx = i
		}
	}
	prefix := ""
	if fn.Parent() != nil {
		prefix = "λ"
		// `go func(r *Raft){…}(r)`: the literal's parameter is the parent's
		// (immutable) parameter under another name
		if idx >= 0 {
			if pp, ok := fi.P.spawnArg(fn, idx).(*ssa.Parameter); ok && pp.Parent() == fn.Parent() {
				return fi.P.Info(fn.Parent()).paramLeaf(pp)
			}
		}
	}
	if fn.Parent() != nil && idx >= 0 {
		// a literal that is invoked where it is written (`go func(ch …){…}(x)`):
		// the parameter is a name for the argument it is started with
		if arg := fi.P.spawnArg(fn, idx); arg != nil {
			if pe := fi.P.Info(fn.Parent()).Sym(arg); pe != nil && pe.Op != "opaque" {
				return "λ:" + pe.String()
			}
		}
	}
	if n := namedOf(prm.Type()); n != nil {
		if _, ok := n.Underlying().(*types.Struct); ok {
			cnt := 0
			for _, q := range fn.Params {
				if namedOf(q.Type()) == n {
					cnt++
				}
			}
			if cnt == 1 {
				return prefix + n.Obj().Name()
			}
		}
	}
	return fmt.Sprintf("%s$%d", prefix, idx)
}

// spawnArg: closure fn is used exactly once, as the function of a call, go or
// defer instruction of its parent; returns that call's idx-th argument.
func (p *Program) spawnArg(fn *ssa.Function, idx int) ssa.Value {
	par := fn.Parent()
	if par == nil {
		return nil
	}
	var site ssa.CallInstruction
	n := 0
	for _, b := range par.Blocks {
		for _, in := range b.Instrs {
			// every mention of fn in the parent
			for _, op := range in.Operands(nil) {
				if op == nil || *op == nil {
					continue
				}
				v := *op
				if mc, ok := v.(*ssa.MakeClosure); ok {
					_ = mc
					continue // counted at the MakeClosure's own users below
				}
				if f, ok := v.(*ssa.Function); ok && f == fn {
					n++
					if ci, isCall := in.(ssa.CallInstruction); isCall && ci.Common().Value == v {
						site = ci
					} else if _, isMC := in.(*ssa.MakeClosure); isMC {
						n-- // the closure object: look at its users
					}
				}
			}
			if mc, ok := in.(*ssa.MakeClosure); ok && mc.Fn == ssa.Value(fn) {
				for _, r := range *mc.Referrers() {
					if _, isDbg := r.(*ssa.DebugRef); isDbg {
						continue
					}
					n++
					if ci, isCall := r.(ssa.CallInstruction); isCall && ci.Common().Value == ssa.Value(mc) {
						site = ci
					}
				}
			}
		}
	}
	if n != 1 || site == nil || idx >= len(site.Common().Args) {
		return nil
	}
	return site.Common().Args[idx]
}

type symCtx struct {
	fi    *FuncInfo
	subst map[*ssa.Parameter]*Expr
	depth int
	at    ssa.Instruction // the instruction whose value is being named (position of the read)
	busy  map[*ssa.Alloc]bool
}

// Sym returns the canonical expression of v in the context of fi.Fn.
func (fi *FuncInfo) Sym(v ssa.Value) *Expr {
	if e, ok := fi.syms[v]; ok {
		return e
	}
	c := &symCtx{fi: fi}
	if in, ok := v.(ssa.Instruction); ok {
		c.at = in
	}
	e := c.sym(v, 0)
	fi.syms[v] = e
	return e
}

func constStr(c *ssa.Const) string {
	if c.Value == nil {
		return "nil"
	}
	s := c.Value.ExactString()
	if c.Value.Kind() == constant.String {
		s = c.Value.String()
	}
	if n, ok := c.Type().(*types.Named); ok {
		return n.Obj().Name() + "(" + s + ")"
	}
	return s
}

var cmpOps = map[token.Token]string{
	token.EQL: "==", token.NEQ: "!=", token.LSS: "<", token.LEQ: "<=", token.GTR: ">", token.GEQ: ">=",
}

func leaf(name string, v ssa.Value) *Expr { return &Expr{Op: "leaf", Name: name, Val: v} }

func (c *symCtx) sym(v ssa.Value, guard int) *Expr {
	if guard > 60 {
		return &Expr{Op: "opaque", Name: "deep", Val: v}
	}
	fi := c.fi
	switch v := v.(type) {
	case *ssa.Parameter:
		if c.subst != nil {
			if e, ok := c.subst[v]; ok {
				return e
			}
		}
		return leaf(fi.paramLeaf(v), v)
	case *ssa.FreeVar:
		if fi.bind != nil {
			if b, ok := fi.bind[v]; ok && fi.par != nil {
				if al, isCell := b.(*ssa.Alloc); isCell {
					// a captured cell is read after the closure was created
					if mc := fi.madeAt(); mc != nil {
						return (&symCtx{fi: fi.par, at: mc}).sym(al, guard+1)
					}
				}
				return fi.par.Sym(b)
			}
		}
		return leaf("free:"+v.Name(), v)
	case *ssa.Global:
		name := v.Name()
		if v.Pkg != nil && v.Pkg.Pkg.Path() != RaftPkg {
			name = v.Pkg.Pkg.Name() + "." + name
		}
		return leaf("global:"+name, v)
	case *ssa.Const:
		return leaf(constStr(v), v)
	case *ssa.Alloc:
		if prm := fi.P.spilledParam(v); prm != nil {
			return c.sym(prm, guard+1)
		}
		if src, ok := c.copyLocal(v); ok {
			if c.busy == nil {
				c.busy = map[*ssa.Alloc]bool{}
			}
			c.busy[v] = true
			e := c.sym(src, guard+1)
			delete(c.busy, v)
			return e
		}
		name := v.Comment
		if name == "" {
			name = v.Name()
		}
		if strings.HasPrefix(name, "complit") || name == "new" || strings.HasPrefix(name, "varargs") || strings.HasPrefix(name, "slicelit") {
			// name allocations by element type and ordinal in the function: new:entry#2
			tn := typeShort(v.Type().(*types.Pointer).Elem())
			ord := 0
			for _, b := range v.Parent().Blocks {
				for _, in := range b.Instrs {
					if a, ok := in.(*ssa.Alloc); ok && typeShort(a.Type().(*types.Pointer).Elem()) == tn {
						if c := a.Comment; strings.HasPrefix(c, "complit") || c == "new" || strings.HasPrefix(c, "varargs") || strings.HasPrefix(c, "slicelit") {
							ord++
							if a == v {
								return leaf(fmt.Sprintf("new:%s#%d", tn, ord), v)
							}
						}
					}
				}
			}
			name = name + "@" + v.Name()
		}
		return leaf("local:"+name, v)
	case *ssa.FieldAddr:
		st := structOf(v.X.Type())
		f := st.Field(v.Field)
		return &Expr{Op: "fld", Name: f.Name(), Var: f, Args: []*Expr{c.sym(v.X, guard+1)}, Val: v}
	case *ssa.Field:
		st := structOf(v.X.Type())
		f := st.Field(v.Field)
		return &Expr{Op: "fld", Name: f.Name(), Var: f, Args: []*Expr{c.sym(v.X, guard+1)}, Val: v}
	case *ssa.IndexAddr:
		return &Expr{Op: "idx", Args: []*Expr{c.sym(v.X, guard+1), c.sym(v.Index, guard+1)}, Val: v}
	case *ssa.Index:
		return &Expr{Op: "idx", Args: []*Expr{c.sym(v.X, guard+1), c.sym(v.Index, guard+1)}, Val: v}
	case *ssa.Lookup:
		e := &Expr{Op: "idx", Args: []*Expr{c.sym(v.X, guard+1), c.sym(v.Index, guard+1)}, Val: v}
		return e
	case *ssa.UnOp:
		switch v.Op {
		case token.MUL:
			// a local cell assigned several times (err = f(); if err != nil ...):
			// a read that directly follows an assignment in the same block is
			// named like the assigned value
			if al, ok := v.X.(*ssa.Alloc); ok {
				if src := blockForward(al, v); src != nil {
					if _, isLoad := src.(*ssa.UnOp); !isLoad {
						return c.sym(src, guard+1)
					}
				}
			}
			return c.sym(v.X, guard+1)
		case token.NOT:
			return &Expr{Op: "not", Args: []*Expr{c.sym(v.X, guard+1)}, Val: v}
		case token.ARROW:
			return &Expr{Op: "call", Name: "recv", Args: []*Expr{c.sym(v.X, guard+1)}, Val: v}
		default:
			return &Expr{Op: "call", Name: "unop" + v.Op.String(), Args: []*Expr{c.sym(v.X, guard+1)}, Val: v}
		}
	case *ssa.BinOp:
		return &Expr{Op: "bin", Name: v.Op.String(), Args: []*Expr{c.sym(v.X, guard+1), c.sym(v.Y, guard+1)}, Val: v}
	case *ssa.Convert:
		return &Expr{Op: "conv", Name: v.Type().String(), Args: []*Expr{c.sym(v.X, guard+1)}, Val: v}
	case *ssa.ChangeType:
		return &Expr{Op: "conv", Name: v.Type().String(), Args: []*Expr{c.sym(v.X, guard+1)}, Val: v}
	case *ssa.ChangeInterface:
		return &Expr{Op: "conv", Name: v.Type().String(), Args: []*Expr{c.sym(v.X, guard+1)}, Val: v}
	case *ssa.MakeInterface:
		return &Expr{Op: "conv", Name: v.Type().String(), Args: []*Expr{c.sym(v.X, guard+1)}, Val: v}
	case *ssa.TypeAssert:
		return &Expr{Op: "call", Name: "assert[" + typeShort(v.AssertedType) + "]", Args: []*Expr{c.sym(v.X, guard+1)}, Val: v}
	case *ssa.Extract:
		tup := v.Tuple
		switch t := tup.(type) {
		case *ssa.Lookup:
			if v.Index == 0 {
				return c.sym(t, guard+1)
			}
			return &Expr{Op: "ok", Args: []*Expr{c.sym(t, guard+1)}, Val: v}
		case *ssa.Next:
			if rg, ok := t.Iter.(*ssa.Range); ok {
				name := []string{"ok", "key", "val"}[v.Index]
				return &Expr{Op: "each", Name: name, Args: []*Expr{c.sym(rg.X, guard+1)}, Val: v}
			}
		case *ssa.TypeAssert:
			if v.Index == 0 {
				return c.sym(t, guard+1)
			}
			return &Expr{Op: "ok", Args: []*Expr{c.sym(t, guard+1)}, Val: v}
		}
		return &Expr{Op: "ext", Name: fmt.Sprint(v.Index), Args: []*Expr{c.sym(tup, guard+1)}, Val: v}
	case *ssa.Phi:
		// phi nodes are opaque but deterministic: list incoming values
		e := &Expr{Op: "phi", Name: "phi", Val: v}
		if guard > 8 {
			return &Expr{Op: "opaque", Name: "phi:" + v.Name(), Val: v}
		}
		live := fi.P.livePhiEdges(v, c.at)
		for i, x := range v.Edges {
			if live != nil && !live[i] {
				continue // the reader is not reachable on a path that merged this value (thread.go)
			}
			if x == ssa.Value(v) {
				e.Args = append(e.Args, leaf("self", v))
				continue
			}
			e.Args = append(e.Args, c.sym(x, guard+8))
		}
		if live != nil && len(e.Args) == 1 {
			return e.Args[0]
		}
		return e
	case *ssa.Call:
		return c.symCall(v, guard)
	case *ssa.MakeClosure:
		return leaf("closure:"+fi.P.FuncName(v.Fn.(*ssa.Function)), v)
	case *ssa.Function:
		return leaf("func:"+fi.P.FuncName(v), v)
	case *ssa.Builtin:
		return leaf("builtin:"+v.Name(), v)
	case *ssa.Slice:
		return &Expr{Op: "call", Name: "slice", Args: []*Expr{c.sym(v.X, guard+1)}, Val: v}
	case *ssa.MakeMap:
		return leaf("makemap@"+v.Name(), v)
	case *ssa.MakeChan:
		return leaf("makechan@"+v.Name(), v)
	case *ssa.MakeSlice:
		return leaf("makeslice@"+v.Name(), v)
	case *ssa.Range:
		return &Expr{Op: "call", Name: "range", Args: []*Expr{c.sym(v.X, guard+1)}, Val: v}
	case *ssa.Next:
		return &Expr{Op: "call", Name: "next", Args: []*Expr{c.sym(v.Iter, guard+1)}, Val: v}
	case *ssa.Select:
		return leaf("select@"+v.Name(), v)
	}
	return &Expr{Op: "opaque", Name: fmt.Sprintf("opaque:%T", v), Val: v}
}

func typeShort(t types.Type) string {
	s := types.TypeString(t, func(p *types.Package) string {
		if p.Path() == RaftPkg {
			return ""
		}
		return p.Name()
	})
	return s
}

func structOf(t types.Type) *types.Struct {
	if pt, ok := t.Underlying().(*types.Pointer); ok {
		t = pt.Elem()
	}
	st, _ := t.Underlying().(*types.Struct)
	return st
}

// pure single-block function bodies are inlined (getters, IsCommitted, inProgress...).
func inlinable(fn *ssa.Function) bool {
	if fn == nil || len(fn.Blocks) != 1 || fn.Signature.Results().Len() != 1 {
		return false
	}
	for _, in := range fn.Blocks[0].Instrs {
		switch x := in.(type) {
		case *ssa.FieldAddr, *ssa.Field, *ssa.BinOp, *ssa.Convert, *ssa.ChangeType, *ssa.Return, *ssa.Lookup, *ssa.Extract, *ssa.Index, *ssa.DebugRef:
		case *ssa.UnOp:
			if x.Op == token.ARROW {
				return false
			}
		case *ssa.Alloc:
			// spilled value receiver: allowed when only used by stores of params and loads
		case *ssa.Store:
			if _, ok := x.Addr.(*ssa.Alloc); !ok {
				return false
			}
			if _, ok := x.Val.(*ssa.Parameter); !ok {
				return false
			}
		case *ssa.Call:
			cal := x.Common().StaticCallee()
			if cal == nil || !inlinable(cal) || cal == fn {
				return false
			}
		default:
			return false
		}
	}
	return true
}

func (c *symCtx) symCall(v *ssa.Call, guard int) *Expr {
	fi := c.fi
	com := v.Common()
	var args []*Expr
	if com.IsInvoke() {
		args = append(args, c.sym(com.Value, guard+1))
		for _, a := range com.Args {
			args = append(args, c.sym(a, guard+1))
		}
		return &Expr{Op: "call", Name: "invoke:" + com.Method.Name(), Args: args, Val: v}
	}
	for _, a := range com.Args {
		args = append(args, c.sym(a, guard+1))
	}
	if b, ok := com.Value.(*ssa.Builtin); ok {
		return &Expr{Op: "call", Name: b.Name(), Args: args, Val: v}
	}
	callee := com.StaticCallee()
	if callee == nil {
		return &Expr{Op: "call", Name: "dyn:" + c.sym(com.Value, guard+1).String(), Args: args, Val: v}
	}
	if fi.P.inRepo(callee) && c.depth < 4 && inlinable(callee) {
		sub := map[*ssa.Parameter]*Expr{}
		for i, prm := range callee.Params {
			if i < len(args) {
				sub[prm] = args[i]
			}
		}
		// spilled value receivers: Alloc + Store(param) => treat alloc as param
		cc := &symCtx{fi: fi.P.Info(callee), subst: sub, depth: c.depth + 1}
		var ret *ssa.Return
		spill := map[*ssa.Alloc]*ssa.Parameter{}
		for _, in := range callee.Blocks[0].Instrs {
			switch x := in.(type) {
			case *ssa.Return:
				ret = x
			case *ssa.Store:
				if a, ok := x.Addr.(*ssa.Alloc); ok {
					if prm, ok := x.Val.(*ssa.Parameter); ok {
						spill[a] = prm
					}
				}
			}
		}
		if ret != nil && len(ret.Results) == 1 {
			e := cc.symSpill(ret.Results[0], spill, guard+1)
			return e
		}
	}
	return &Expr{Op: "call", Name: fi.P.FuncName(callee), Args: args, Val: v}
}

// symSpill is sym with spilled-parameter allocs replaced by the parameter's substitution.
func (c *symCtx) symSpill(v ssa.Value, spill map[*ssa.Alloc]*ssa.Parameter, guard int) *Expr {
	if len(spill) == 0 {
		return c.sym(v, guard)
	}
	e := c.sym(v, guard)
	var rec func(x *Expr) *Expr
	rec = func(x *Expr) *Expr {
		if x == nil {
			return nil
		}
		if a, ok := x.Val.(*ssa.Alloc); ok && x.Op == "leaf" {
			if prm, ok := spill[a]; ok {
				if s, ok := c.subst[prm]; ok {
					return s
				}
			}
		}
		if len(x.Args) == 0 {
			return x
		}
		n := *x
		n.Args = make([]*Expr, len(x.Args))
		for i, a := range x.Args {
			n.Args[i] = rec(a)
		}
		return &n
	}
	return rec(e)
}

// ---------------------------------------------------------------- atoms

// Atom is a normalised branch condition.
type Atom struct {
	L, R string // R empty for boolean atoms
	Op   string // == != < <= > >= true false
	LE   *Expr
	RE   *Expr
}

func (a Atom) String() string {
	if a.R == "" {
		if a.Op == "false" {
			return "!" + a.L
		}
		return a.L
	}
	return a.L + " " + a.Op + " " + a.R
}

var flipOp = map[string]string{"==": "==", "!=": "!=", "<": ">", "<=": ">=", ">": "<", ">=": "<="}
var negOp = map[string]string{"==": "!=", "!=": "==", "<": ">=", "<=": ">", ">": "<=", ">=": "<", "true": "false", "false": "true"}

func (a Atom) Negate() Atom {
	a.Op = negOp[a.Op]
	return a
}

func isUnsigned(v ssa.Value) bool {
	if v == nil {
		return false
	}
	b, ok := v.Type().Underlying().(*types.Basic)
	return ok && b.Info()&types.IsUnsigned != 0
}

// MkAtom builds a normalised comparison atom from strings.
func MkAtom(l, op, r string) Atom {
	a := Atom{L: l, Op: op, R: r}
	return a.norm(false)
}

// BoolAtom builds a boolean atom (expression is true / false).
func BoolAtom(e string, val bool) Atom {
	if val {
		return Atom{L: e, Op: "true"}
	}
	return Atom{L: e, Op: "false"}
}

func (a Atom) norm(unsigned bool) Atom {
	if a.R == "" {
		return a
	}
	// constants to the right
	lc, rc := isConstStr(a.L), isConstStr(a.R)
	swap := false
	if lc && !rc {
		swap = true
	} else if lc == rc && a.L > a.R {
		swap = true
	}
	if swap {
		a.L, a.R = a.R, a.L
		a.LE, a.RE = a.RE, a.LE
		a.Op = flipOp[a.Op]
	}
	if unsigned && a.R == "0" {
		switch a.Op {
		case ">":
			a.Op = "!="
		case "<=":
			a.Op = "=="
		}
	}
	return a
}

func isConstStr(s string) bool {
	if s == "" {
		return false
	}
	if s == "nil" || s == "true" || s == "false" {
		return true
	}
	c := s[0]
	if c >= '0' && c <= '9' || c == '-' || c == '"' {
		return true
	}
	if i := strings.Index(s, "("); i > 0 && strings.HasSuffix(s, ")") && !strings.Contains(s[:i], ".") && !strings.Contains(s[:i], " ") {
		inner := s[i+1 : len(s)-1]
		if inner != "" && (inner[0] >= '0' && inner[0] <= '9' || inner[0] == '-' || inner[0] == '"') {
			return true
		}
	}
	return false
}

// AtomOf converts a boolean SSA value into an atom.
func (fi *FuncInfo) AtomOf(v ssa.Value) Atom {
	switch x := v.(type) {
	case *ssa.BinOp:
		if op, ok := cmpOps[x.Op]; ok {
			l, r := fi.Sym(x.X), fi.Sym(x.Y)
			a := Atom{L: l.String(), R: r.String(), Op: op, LE: l, RE: r}
			return a.norm(isUnsigned(x.X))
		}
	case *ssa.UnOp:
		if x.Op == token.NOT {
			return fi.AtomOf(x.X).Negate()
		}
	case *ssa.Call:
		// inlined boolean helpers may expand to a comparison
		e := fi.Sym(v)
		if e.Op == "bin" {
			if _, ok := flipOp[e.Name]; ok {
				a := Atom{L: e.Args[0].String(), R: e.Args[1].String(), Op: e.Name, LE: e.Args[0], RE: e.Args[1]}
				var un bool
				if e.Args[0].Val != nil {
					un = isUnsigned(e.Args[0].Val)
				}
				return a.norm(un)
			}
		}
		if e.Op == "not" {
			return Atom{L: e.Args[0].String(), Op: "false", LE: e.Args[0]}
		}
	}
	e := fi.Sym(v)
	if e.Op == "not" {
		return Atom{L: e.Args[0].String(), Op: "false", LE: e.Args[0]}
	}
	return Atom{L: e.String(), Op: "true", LE: e}
}

var impliesTab = map[string][]string{
	"==": {"==", "<=", ">="}, "<": {"<", "<=", "!="}, ">": {">", ">=", "!="},
	"<=": {"<="}, ">=": {">="}, "!=": {"!="}, "true": {"true"}, "false": {"false"},
}

// Implies reports whether atom a (known true) implies want.
func (a Atom) Implies(want Atom) bool {
	if a.L != want.L || a.R != want.R {
		return false
	}
	for _, o := range impliesTab[a.Op] {
		if o == want.Op {
			return true
		}
	}
	return false
}

// Edge is a CFG edge leaving a block ending in If.
type Edge struct {
	From *ssa.BasicBlock
	Succ int // 0 = true, 1 = false
}

// EdgeAtom returns the atom that holds when the edge is taken.
func (fi *FuncInfo) EdgeAtom(e Edge) (Atom, bool) {
	if len(e.From.Instrs) == 0 {
		return Atom{}, false
	}
	iff, ok := e.From.Instrs[len(e.From.Instrs)-1].(*ssa.If)
	if !ok {
		return Atom{}, false
	}
	a := fi.AtomOf(iff.Cond)
	if e.Succ == 1 {
		a = a.Negate()
	}
	return a, true
}

// AllEdgeAtoms lists every conditional edge with its atom (sorted by block index).
func (fi *FuncInfo) AllEdgeAtoms() []struct {
	E Edge
	A Atom
} {
	var out []struct {
		E Edge
		A Atom
	}
	for _, b := range fi.Fn.Blocks {
		for s := 0; s < 2; s++ {
			if a, ok := fi.EdgeAtom(Edge{b, s}); ok {
				out = append(out, struct {
					E Edge
					A Atom
				}{Edge{b, s}, a})
			}
		}
	}
	return out
}

// sorted keys helper
func sortedKeys(m map[string]bool) []string {
	var out []string
	for k := range m {
		out = append(out, k)
	}
	sort.Strings(out)
	return out
}

// spilledParam: an Alloc that only ever receives one Store, of a Parameter of
// the same function, in the entry block (the SSA builder spills parameters that
// closures capture). It is rendered as the parameter itself.
func (p *Program) spilledParam(a *ssa.Alloc) *ssa.Parameter {
	if p.spills == nil {
		p.spills = map[*ssa.Alloc]*ssa.Parameter{}
		p.spillDone = map[*ssa.Function]bool{}
	}
	fn := a.Parent()
	if !p.spillDone[fn] {
		p.spillDone[fn] = true
		stores := map[*ssa.Alloc][]*ssa.Store{}
		var scan func(f *ssa.Function)
		var resolve func(f *ssa.Function, v ssa.Value) ssa.Value
		resolve = func(f *ssa.Function, v ssa.Value) ssa.Value {
			if fv, ok := v.(*ssa.FreeVar); ok {
				fi := p.Info(f)
				if b, ok := fi.bind[fv]; ok {
					return resolve(f.Parent(), b)
				}
			}
			return v
		}
		scan = func(f *ssa.Function) {
			for _, b := range f.Blocks {
				for _, in := range b.Instrs {
					if st, ok := in.(*ssa.Store); ok {
						if al, ok := resolve(f, st.Addr).(*ssa.Alloc); ok && al.Parent() == fn {
							stores[al] = append(stores[al], st)
						}
					}
				}
			}
			for _, an := range f.AnonFuncs {
				scan(an)
			}
		}
		scan(fn)
		for al, sts := range stores {
			if len(sts) == 1 && sts[0].Parent() == fn && sts[0].Block().Index == 0 {
				if prm, ok := sts[0].Val.(*ssa.Parameter); ok {
					p.spills[al] = prm
				}
			}
		}
	}
	return p.spills[a]
}

// LinNorm normalises integer expressions of the form floor((base + off)/den) + add
// built from +, - and / by constants, so that i/2+1-1, (i+2)/2-1 and i/2 agree.
func LinNorm(e *Expr) (base string, den, off, add int64, ok bool) {
	for e != nil && e.Op == "conv" {
		e = e.Args[0]
	}
	if e == nil {
		return "", 0, 0, 0, false
	}
	if e.Op == "leaf" {
		if v, isC := constVal(e.Name); isC && isConstStr(e.Name) {
			return "", 1, 0, v, true
		}
		return e.String(), 1, 0, 0, true
	}
	if e.Op == "bin" && (e.Name == "+" || e.Name == "-") {
		b1, d1, o1, a1, ok1 := LinNorm(e.Args[0])
		b2, d2, o2, a2, ok2 := LinNorm(e.Args[1])
		if ok1 && ok2 && b2 == "" && d2 == 1 && o2 == 0 {
			if e.Name == "-" {
				a2 = -a2
			}
			return b1, d1, o1, a1 + a2, true
		}
		if ok1 && ok2 && b1 == "" && d1 == 1 && o1 == 0 && e.Name == "+" {
			return b2, d2, o2, a1 + a2, true
		}
		return e.String(), 1, 0, 0, true
	}
	if e.Op == "bin" && e.Name == "/" {
		b1, d1, _, a1, ok1 := LinNorm(e.Args[0])
		b2, d2, o2, a2, ok2 := LinNorm(e.Args[1])
		if ok1 && ok2 && b2 == "" && d2 == 1 && o2 == 0 && a2 > 0 && d1 == 1 && a1 >= 0 {
			return b1, a2, a1 % a2, a1 / a2, true
		}
		return e.String(), 1, 0, 0, true
	}
	return e.String(), 1, 0, 0, true
}

// copyLocal recognises a local variable that is nothing but a name for a
// value computed once: the Alloc receives exactly one whole-value store, no
// field of it is written, its address does not escape into a closure that
// writes it, the store dominates the read being named, and — when the stored
// value is itself read from memory (`latest := l.configs.Latest`) — nothing on
// any path between the copy and the read may write that memory. Such a local
// is named like the value it holds, so that introducing or removing it does
// not change canonical forms.
func (c *symCtx) copyLocal(a *ssa.Alloc) (ssa.Value, bool) {
	if c.busy[a] || a.Heap && false {
		return nil, false
	}
	name := a.Comment
	if name == "" || strings.HasPrefix(name, "complit") || name == "new" || strings.HasPrefix(name, "varargs") || strings.HasPrefix(name, "slicelit") {
		return nil, false
	}
	refs := a.Referrers()
	if refs == nil {
		return nil, false
	}
	var st *ssa.Store
	for _, r := range *refs {
		switch u := r.(type) {
		case *ssa.Store:
			if u.Addr == ssa.Value(a) {
				if st != nil {
					return nil, false // assigned more than once
				}
				st = u
			} else {
				return nil, false // address stored somewhere
			}
		case *ssa.FieldAddr, *ssa.IndexAddr:
			for _, rr := range *r.(ssa.Value).Referrers() {
				if s2, ok := rr.(*ssa.Store); ok && s2.Addr == r.(ssa.Value) {
					return nil, false // a field / element is written
				}
				if _, ok := rr.(*ssa.MakeClosure); ok {
					return nil, false
				}
			}
		case *ssa.MakeClosure:
			// captured by reference: usable only if the closure never writes it
			fn, _ := u.Fn.(*ssa.Function)
			if fn == nil {
				return nil, false
			}
			for i, b := range u.Bindings {
				if b != ssa.Value(a) || i >= len(fn.FreeVars) {
					continue
				}
				for _, fr := range *fn.FreeVars[i].Referrers() {
					if s2, ok := fr.(*ssa.Store); ok && s2.Addr == ssa.Value(fn.FreeVars[i]) {
						return nil, false
					}
					if _, ok := fr.(*ssa.FieldAddr); ok {
						return nil, false
					}
				}
			}
		case *ssa.UnOp, *ssa.DebugRef:
		case ssa.CallInstruction:
			// passed by address to a call (method with pointer receiver etc.)
			return nil, false
		default:
			return nil, false
		}
	}
	if st == nil {
		return nil, false
	}
	// a closure that captures the cell must be created after the assignment
	for _, r := range *refs {
		if mc, ok := r.(*ssa.MakeClosure); ok && !Dominates(st, mc) {
			return nil, false
		}
	}
	switch st.Val.(type) {
	case *ssa.MakeChan, *ssa.MakeMap, *ssa.MakeSlice, *ssa.MakeClosure:
		// an object created here: the variable is its name
		return nil, false
	}
	at := c.at
	if at != nil && at.Parent() == a.Parent() {
		if !Dominates(st, at) {
			return nil, false
		}
	} else {
		at = nil
	}
	// stored value read from memory? then it must still be current at the read
	if ld, ok := st.Val.(*ssa.UnOp); ok && ld.Op == token.MUL {
		if _, isAlloc := ld.X.(*ssa.Alloc); !isAlloc {
			src := (&symCtx{fi: c.fi}).sym(ld, 0)
			if at == nil {
				return nil, false
			}
			if bad := c.fi.writeOnPaths(st.Block(), instrIndex(st)+1, at, nil, []*Expr{src}); bad != "" {
				return nil, false
			}
		}
	}
	return st.Val, true
}

// blockForward: the value last stored into the local cell al before the load
// ld in ld's block, provided nothing in between can write the cell (a store, a
// rundefers, or a call of a closure that captured it).
func blockForward(al *ssa.Alloc, ld *ssa.UnOp) ssa.Value {
	b := ld.Block()
	if b == nil {
		return nil
	}
	var last ssa.Value
	for _, in := range b.Instrs {
		if in == ssa.Instruction(ld) {
			return last
		}
		switch x := in.(type) {
		case *ssa.Store:
			if x.Addr == ssa.Value(al) {
				last = x.Val
			}
		case *ssa.RunDefers:
			last = nil
		case ssa.CallInstruction:
			if mc, ok := x.Common().Value.(*ssa.MakeClosure); ok {
				for _, bnd := range mc.Bindings {
					if bnd == ssa.Value(al) {
						last = nil
					}
				}
			}
			for _, a := range x.Common().Args {
				if a == ssa.Value(al) {
					last = nil // address handed to the callee
				}
			}
		}
	}
	return nil
}

// madeAt: the MakeClosure instruction (in the parent) that creates fi.Fn, when
// there is exactly one.
func (fi *FuncInfo) madeAt() ssa.Instruction {
	if fi.par == nil {
		return nil
	}
	var mc ssa.Instruction
	n := 0
	for _, b := range fi.par.Fn.Blocks {
		for _, in := range b.Instrs {
			if m, ok := in.(*ssa.MakeClosure); ok && m.Fn == ssa.Value(fi.Fn) {
				mc = in
				n++
			}
		}
	}
	if n != 1 {
		return nil
	}
	return mc
}
