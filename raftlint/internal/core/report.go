package core

import (
	"encoding/json"
	"fmt"
	"os"
	"path/filepath"
	"sort"
	"strings"
	"time"
)

// Obligation is one decided proof obligation.
type Obligation struct {
	Rule      string `json:"rule"`
	Construct string `json:"construct"`
	Verdict   string `json:"verdict"` // discharged | violated | known-finding | undecided | info
	Detail    string `json:"detail,omitempty"`
	Pos       string `json:"pos,omitempty"`
}

func (o Obligation) Key() string { return o.Rule + " @ " + o.Construct }

// Ctx collects the obligations of one property run.
type Ctx struct {
	P        *Program
	Prop     string
	Tier     string
	Obs      []Obligation
	Analysed map[string]bool // functions looked at
	Notes    []string
	Clauses  []string
	seen     map[string]bool
}

func NewCtx(p *Program, prop, tier string) *Ctx {
	c := &Ctx{P: p, Prop: prop, Tier: tier, Analysed: map[string]bool{}, seen: map[string]bool{}}
	for _, n := range p.Normalized {
		c.Note("helper normalisation (see DESIGN.md 10.7): " + n)
	}
	return c
}

func (c *Ctx) add(o Obligation) {
	k := o.Key()
	if c.seen[k] {
		// same rule+construct twice: keep the worst verdict, disambiguate by suffix
		n := 2
		for c.seen[fmt.Sprintf("%s#%d", k, n)] {
			n++
		}
		o.Construct = fmt.Sprintf("%s#%d", o.Construct, n)
		k = o.Key()
	}
	c.seen[k] = true
	c.Obs = append(c.Obs, o)
}

// Check records an obligation as discharged (ok) or violated.
func (c *Ctx) Check(rule, construct string, ok bool, pos, detail string) bool {
	v := "discharged"
	if !ok {
		v = "violated"
	}
	c.add(Obligation{Rule: rule, Construct: construct, Verdict: v, Detail: detail, Pos: pos})
	return ok
}

// Undecided records an obligation the engine could not decide (exit 2).
func (c *Ctx) Undecided(rule, construct, pos, detail string) {
	c.add(Obligation{Rule: rule, Construct: construct, Verdict: "undecided", Detail: detail, Pos: pos})
}

// Info records an informational observation (never affects the verdict).
func (c *Ctx) Info(rule, construct, pos, detail string) {
	c.add(Obligation{Rule: rule, Construct: construct, Verdict: "info", Detail: detail, Pos: pos})
}

// Floor enforces a vacuity guard: the rule matched at least n instances.
func (c *Ctx) Floor(rule string, got, want int) {
	if got < want {
		c.Undecided(rule, "instance-floor", "", fmt.Sprintf("rule matched %d instances, frozen floor is %d: the rule no longer sees the code it was written for", got, want))
	}
}

func (c *Ctx) Clause(s string) { c.Clauses = append(c.Clauses, s) }
func (c *Ctx) Note(s string)   { c.Notes = append(c.Notes, s) }
func (c *Ctx) Saw(fn string)   { c.Analysed[fn] = true }

// ---------------------------------------------------------------- known findings

type KnownFinding struct {
	Property  string `json:"property"`
	Rule      string `json:"rule"`
	Construct string `json:"construct"`
	What      string `json:"what"`
	Status    string `json:"status"` // "known" or "fixed"
	Commit    string `json:"commit,omitempty"`
}

// KnownPath: the known-findings file (set by the command line handling).
var KnownPath string

type KnownFile struct {
	Comment  string         `json:"comment"`
	Findings []KnownFinding `json:"findings"`
	Fixed    []string       `json:"fixed"`
}

func LoadKnown(path string) *KnownFile {
	kf := &KnownFile{}
	b, err := os.ReadFile(path)
	if err != nil {
		return kf
	}
	if err := json.Unmarshal(b, kf); err != nil {
		undecided("known findings file %s: %v", path, err)
	}
	return kf
}

// ---------------------------------------------------------------- finishing

type evidence struct {
	PropertyID  string                 `json:"property_id"`
	Tier        string                 `json:"tier"`
	Seed        int                    `json:"seed"`
	Level       string                 `json:"level"`
	Coverage    map[string]interface{} `json:"coverage"`
	Assumptions []string               `json:"assumptions"`
	WallS       float64                `json:"wall_s"`
	Violations  int                    `json:"violations"`
}

// Finish applies the known-findings list, prints the report, writes evidence
// and returns the process exit code.
func (c *Ctx) Finish(verifDir string, start time.Time, assumptions []string, explanation string) int {
	kp := KnownPath
	if kp == "" {
		kp = filepath.Join(verifDir, "known_findings.json")
	}
	kf := LoadKnown(kp)
	known := map[string]KnownFinding{}
	for _, k := range kf.Findings {
		if k.Status == "known" && k.Property == c.Prop {
			known[k.Rule+" @ "+k.Construct] = k
		}
	}
	sort.SliceStable(c.Obs, func(i, j int) bool { return c.Obs[i].Key() < c.Obs[j].Key() })
	nViol, nUndec, nKnown, nDis, nInfo := 0, 0, 0, 0, 0
	violDir := filepath.Join(verifDir, "evidence", c.Prop+".violations")
	os.RemoveAll(violDir)
	for i := range c.Obs {
		o := &c.Obs[i]
		switch o.Verdict {
		case "violated":
			// the same construct re-decided on another build configuration
			// (rule suffixed "[tags=…]") is the same finding
			rk := o.Rule
			if i := strings.Index(rk, "[tags="); i >= 0 {
				rk = rk[:i]
			}
			if k, ok := known[rk+" @ "+o.Construct]; ok {
				o.Verdict = "known-finding"
				nKnown++
				fmt.Printf("KNOWN-FINDING: property=%s %s %s: %s\n", c.Prop, o.Rule, o.Construct, k.What)
				continue
			}
			nViol++
			os.MkdirAll(violDir, 0o755)
			path := filepath.Join(violDir, fmt.Sprintf("%d.json", nViol))
			b, _ := json.MarshalIndent(o, "", "  ")
			os.WriteFile(path, append(b, '\n'), 0o644)
			fmt.Printf("%s: rule %s, construct %s: %s\n", o.Pos, o.Rule, o.Construct, o.Detail)
			fmt.Printf("VIOLATION property=%s replay=%s\n", c.Prop, path)
		case "undecided":
			nUndec++
			fmt.Printf("UNDECIDED property=%s rule %s, construct %s: %s %s\n", c.Prop, o.Rule, o.Construct, o.Pos, o.Detail)
		case "discharged":
			nDis++
		case "info":
			nInfo++
			fmt.Printf("INFO property=%s %s %s: %s %s\n", c.Prop, o.Rule, o.Construct, o.Pos, o.Detail)
		}
	}
	obligations := nViol + nUndec + nKnown + nDis
	var samples []Obligation
	// samples: every non-discharged obligation plus a spread of discharged ones
	for _, o := range c.Obs {
		if o.Verdict != "discharged" {
			samples = append(samples, o)
		}
	}
	step := 1
	if nDis > 40 {
		step = nDis / 40
	}
	k := 0
	for _, o := range c.Obs {
		if o.Verdict == "discharged" {
			if k%step == 0 {
				samples = append(samples, o)
			}
			k++
		}
	}
	rules := map[string]int{}
	for _, o := range c.Obs {
		if o.Verdict != "info" {
			rules[o.Rule]++
		}
	}
	var fns []string
	for f := range c.Analysed {
		fns = append(fns, f)
	}
	sort.Strings(fns)
	pkgs := []string{}
	for _, pk := range c.P.Pkgs {
		pkgs = append(pkgs, pk.PkgPath)
	}
	cov := map[string]interface{}{
		"explanation":            explanation,
		"clauses_decided":        c.Clauses,
		"obligations":            obligations,
		"discharged":             nDis,
		"known_findings":         nKnown,
		"undecided":              nUndec,
		"violated":               nViol,
		"informational":          nInfo,
		"rules":                  rules,
		"samples":                samples,
		"all_obligations":        c.Obs,
		"functions_anchored":     fns,
		"packages":               pkgs,
		"source_functions_total": len(c.P.funcs),
		"build_tags":             c.P.Tags,
		"checker_cmd":            "bin/raftcheck -prop " + c.Prop + " -tier " + c.Tier,
		"trusted_base":           []string{"go/types", "golang.org/x/tools/go/ssa v0.29.0", "golang.org/x/tools/go/callgraph/vta", "raftlint rule tables (DESIGN.md §3)"},
		"exhaustive":             true,
		"notes":                  c.Notes,
	}
	ev := evidence{PropertyID: c.Prop, Tier: c.Tier, Seed: 0, Level: "other", Coverage: cov,
		Assumptions: assumptions, WallS: time.Since(start).Seconds(), Violations: nViol}
	if s := os.Getenv("VERIF_SEED"); s != "" {
		fmt.Sscan(s, &ev.Seed)
	}
	b, _ := json.MarshalIndent(ev, "", " ")
	os.MkdirAll(filepath.Join(verifDir, "evidence"), 0o755)
	if err := os.WriteFile(filepath.Join(verifDir, "evidence", c.Prop+".json"), append(b, '\n'), 0o644); err != nil {
		fmt.Println("UNDECIDED cannot write evidence:", err)
		return 2
	}
	fmt.Printf("raftcheck property=%s tier=%s obligations=%d discharged=%d known=%d violated=%d undecided=%d info=%d functions=%d wall=%.1fs\n",
		c.Prop, c.Tier, obligations, nDis, nKnown, nViol, nUndec, nInfo, len(fns), time.Since(start).Seconds())
	if nViol > 0 {
		return 1
	}
	if nUndec > 0 {
		return 2
	}
	return 0
}

// Short trims long witness strings.
func Short(s string, n int) string {
	if len(s) <= n {
		return s
	}
	return s[:n] + "…"
}

func JoinNames(a []string) string { return strings.Join(a, ", ") }
