package core

import (
	"fmt"
	"go/constant"
	"go/token"
	"go/types"
	"sort"
	"strings"

	"golang.org/x/tools/go/ssa"
)

// E3 — finite ordering/equality dataflow with trace partitioning.
//
// The abstract state is (memory cells -> symbolic terms, order facts between
// terms, observed call events). States are not merged at joins; the functions
// analysed are loop-free in the analysed part (a back edge ends the trace and
// marks it truncated). The only reasoning is congruence/order closure over a
// handful of terms (order.go); no formula leaves the checker.

// Event is an observed call with symbolic arguments.
type Event struct {
	Callee  string
	Args    []string
	Results []string
	Pos     string
	Instr   ssa.Instruction
	Facts   []Rel // facts at the time of the call
}

// Trace is one abstract path through a function (including deferred closures).
type Trace struct {
	Facts     []Rel
	Events    []Event
	Ret       []string
	RetRel    *Rel   // for a single boolean result selected by the path: the comparison it denotes
	Exit      string // return | panic | truncated
	Decisions []string
	Unsigned  map[string]bool
	ExitPos   string
	mem       map[string]string
	memAt     map[string]int
	memFields map[string][]*types.Var
	havocAt   map[*types.Var]int
	epoch     int
	fresh     int
}

func (t *Trace) clone() *Trace {
	n := &Trace{Exit: t.Exit, epoch: t.epoch, fresh: t.fresh, ExitPos: t.ExitPos, RetRel: t.RetRel}
	n.Facts = append([]Rel{}, t.Facts...)
	n.Events = append([]Event{}, t.Events...)
	n.Ret = append([]string{}, t.Ret...)
	n.Decisions = append([]string{}, t.Decisions...)
	n.Unsigned = map[string]bool{}
	for k, v := range t.Unsigned {
		n.Unsigned[k] = v
	}
	n.mem = map[string]string{}
	for k, v := range t.mem {
		n.mem[k] = v
	}
	n.memAt = map[string]int{}
	for k, v := range t.memAt {
		n.memAt[k] = v
	}
	n.memFields = t.memFields // shared, append-only per key
	n.havocAt = map[*types.Var]int{}
	for k, v := range t.havocAt {
		n.havocAt[k] = v
	}
	return n
}

// Entails decides whether the trace's facts imply the goal.
func (t *Trace) Entails(a, op, b string) bool {
	return Entails(t.Facts, Rel{a, op, b}, t.Unsigned)
}

// EntailsAt decides with the facts known at an event.
func (t *Trace) EntailsAt(ev Event, a, op, b string) bool {
	return Entails(ev.Facts, Rel{a, op, b}, t.Unsigned)
}

// Mem returns the final symbolic value of a cell (by canonical key).
func (t *Trace) Mem(key string) string {
	if v, ok := t.mem[key]; ok {
		return v
	}
	return key
}

func (t *Trace) Describe() string {
	return strings.Join(t.Decisions, " ; ")
}

// Effect lets the caller model a callee: it may add events, facts, write cells
// and returns the symbolic results. Returning ok=false falls back to havoc.
type Effect func(t *Trace, args []string) (results []string, ok bool)

// Sim configures an abstract run.
type Sim struct {
	P       *Program
	Effects map[string]Effect // by FuncName
	// Record lists callees whose calls are recorded as events (by FuncName).
	Record map[string]bool
	// RecordStores records stores to struct fields (not locals) as events
	// with Callee "store", Args [cell key, value].
	RecordStores bool
	// Assume lists functions (by FuncName) whose single boolean argument is
	// assumed true afterwards (assert-style guards).
	Assume   map[string]bool
	MaxPaths int
	paths    int
	Trunc    bool
	// InlineDeep, when set, selects repository callees (any shape, with side
	// effects) that are simulated in place instead of being summarised by
	// their mod-set: their events and branch facts become part of the caller's
	// traces. Used where a rule must see through a helper that was extracted
	// from the function under analysis.
	InlineDeep func(callee *ssa.Function) bool
	depth      int
}

type frame struct {
	fn     *ssa.Function
	fi     *FuncInfo
	phiSel map[*ssa.Phi]ssa.Value
	rels   map[ssa.Value]Rel // comparison denoted by an inlined boolean call
	regs   map[ssa.Value]string
	// parameter substitution for inlined closures: free vars resolve through fi.bind in parent frame
	parent *frame
	defers []deferred
}

type deferred struct {
	fn   *ssa.Function
	call *ssa.Defer
	args []string // of a deferred literal: evaluated at the defer statement
}

// Run enumerates the abstract traces of fn from an unconstrained entry state.
func (s *Sim) Run(fn *ssa.Function) []*Trace {
	if s.MaxPaths == 0 {
		s.MaxPaths = 4096
	}
	t := &Trace{Unsigned: map[string]bool{}, mem: map[string]string{}, memAt: map[string]int{},
		memFields: map[string][]*types.Var{}, havocAt: map[*types.Var]int{}}
	fr := &frame{fn: fn, fi: s.P.Info(fn), regs: map[ssa.Value]string{}}
	// sentinel errors (package-level, assigned once by their initialiser) are never nil
	for _, name := range s.P.SentinelNames() {
		t.Facts = append(t.Facts, Rel{"global:" + name, "!=", "nil"})
	}
	var out []*Trace
	s.walk(fr, fn.Blocks[0], nil, t, map[*ssa.BasicBlock]bool{}, func(tr *Trace, ret []string) {
		tr.Ret = ret
		out = append(out, tr)
	})
	return out
}

func (s *Sim) walk(fr *frame, b *ssa.BasicBlock, prev *ssa.BasicBlock, t *Trace, onPath map[*ssa.BasicBlock]bool, done func(*Trace, []string)) {
	s.walkFrom(fr, b, prev, t, onPath, done, 0)
}

func (s *Sim) walkFrom(fr *frame, b *ssa.BasicBlock, prev *ssa.BasicBlock, t *Trace, onPath map[*ssa.BasicBlock]bool, done func(*Trace, []string), start int) {
	if s.paths > s.MaxPaths {
		s.Trunc = true
		return
	}
	if start == 0 && onPath[b] {
		t.Exit = "truncated"
		s.Trunc = true
		s.paths++
		done(t, nil)
		return
	}
	onPath[b] = true
	defer delete(onPath, b)
	// phis
	for _, in := range b.Instrs {
		phi, ok := in.(*ssa.Phi)
		if !ok || start > 0 {
			break
		}
		for i, pr := range b.Preds {
			if pr == prev {
				fr.regs[phi] = s.val(fr, t, phi.Edges[i])
				if fr.phiSel == nil {
					fr.phiSel = map[*ssa.Phi]ssa.Value{}
				}
				fr.phiSel[phi] = phi.Edges[i]
			}
		}
	}
	for idx, in := range b.Instrs {
		if idx < start {
			continue
		}
		switch x := in.(type) {
		case *ssa.Phi, *ssa.DebugRef:
		case *ssa.Store:
			key, fields := s.addr(fr, t, x.Addr)
			v := s.val(fr, t, x.Val)
			s.store(t, key, fields, v)
			if s.RecordStores && len(fields) > 0 {
				t.Events = append(t.Events, Event{Callee: "store", Args: []string{key, v}, Pos: s.P.PosStr(x.Pos(), fr.fn), Instr: x, Facts: append([]Rel{}, t.Facts...)})
			}
		case *ssa.MapUpdate:
			key, fields := s.addr(fr, t, x.Map)
			if s.RecordStores {
				t.Events = append(t.Events, Event{Callee: "mapupdate", Args: []string{key, s.val(fr, t, x.Key), s.val(fr, t, x.Value)}, Pos: s.P.PosStr(x.Pos(), fr.fn), Instr: x, Facts: append([]Rel{}, t.Facts...)})
			}
			s.havocKey(t, key, fields)
		case *ssa.Defer:
			if cf := ClosureOf(x.Call.Value); cf != nil {
				// arguments are evaluated when the defer statement executes
				d := deferred{fn: cf, call: x}
				for _, a := range x.Call.Args {
					d.args = append(d.args, s.val(fr, t, a))
				}
				fr.defers = append(fr.defers, d)
			} else {
				// deferred named call: record as event at rundefers time (approximated here)
				fr.defers = append(fr.defers, deferred{fn: nil, call: x})
			}
		case *ssa.Go:
			s.callEvent(fr, t, x, true)
		case *ssa.Call:
			if s.depth < 3 {
				// simulated in place: callees selected by the rule (InlineDeep) and
				// helpers no rule knows by name (IsNew: extracted by a refactoring)
				if callee := x.Common().StaticCallee(); callee != nil && s.P.inRepo(callee) && len(callee.Blocks) > 0 &&
					(s.P.IsNew(callee) || s.InlineDeep != nil && !s.Record[s.P.FuncName(callee)] && s.InlineDeep(callee)) {
					cfr := &frame{fn: callee, fi: s.P.Info(callee), regs: map[ssa.Value]string{}}
					for i, prm := range callee.Params {
						if i < len(x.Common().Args) {
							cfr.regs[prm] = s.val(fr, t, x.Common().Args[i])
						}
					}
					s.depth++
					next := idx + 1
					s.walk(cfr, callee.Blocks[0], nil, t, map[*ssa.BasicBlock]bool{}, func(t2 *Trace, ret []string) {
						if t2.Exit != "return" {
							done(t2, nil)
							return
						}
						t2.Exit, t2.ExitPos, t2.RetRel = "", "", nil
						fr2 := fr.cloneRegs()
						if len(ret) == 1 {
							fr2.regs[x] = ret[0]
							// a returned constant boolean is decided on this trace
						} else if len(ret) > 1 {
							fr2.regs[x] = "tuple:" + strings.Join(ret, "|")
						}
						d := s.depth
						s.depth = d - 1
						s.walkFrom(fr2, b, prev, t2, onPath, done, next)
						s.depth = d
					})
					s.depth--
					return
				}
			}
			res := s.call(fr, t, x)
			if len(res) == 1 {
				fr.regs[x] = res[0]
			} else if len(res) > 1 {
				fr.regs[x] = "tuple:" + strings.Join(res, "|")
			}
		case *ssa.RunDefers:
			// run deferred closures (LIFO) inline, splitting traces as needed
			defs := fr.defers
			rest := b.Instrs[idx+1:]
			s.runDefers(fr, defs, len(defs)-1, t, done, func(t2 *Trace) {
				s.finishBlock(fr, b, rest, t2, onPath, done)
			})
			return
		case *ssa.Return:
			var ret []string
			for _, r := range x.Results {
				ret = append(ret, s.val(fr, t, r))
			}
			if len(x.Results) == 1 {
				if b, ok := x.Results[0].Type().Underlying().(*types.Basic); ok && b.Info()&types.IsBoolean != 0 {
					v := x.Results[0]
					for k := 0; k < 8; k++ {
						ph, ok := v.(*ssa.Phi)
						if !ok {
							break
						}
						sel, ok := fr.phiSel[ph]
						if !ok {
							break
						}
						v = sel
					}
					if _, isConst := v.(*ssa.Const); !isConst {
						if _, isPhi := v.(*ssa.Phi); !isPhi {
							if r, ok := s.condRel(fr, t, v); ok {
								t.RetRel = &r
							}
						}
					}
				}
			}
			t.Exit = "return"
			t.ExitPos = s.P.PosStr(x.Pos(), fr.fn)
			s.paths++
			done(t, ret)
			return
		case *ssa.Panic:
			t.Exit = "panic"
			t.ExitPos = s.P.PosStr(x.Pos(), fr.fn)
			s.paths++
			done(t, nil)
			return
		case *ssa.If:
			s.branch(fr, b, x, t, onPath, done)
			return
		case *ssa.Jump:
			s.walk(fr, b.Succs[0], b, t, onPath, done)
			return
		case *ssa.Send:
			t.Events = append(t.Events, Event{Callee: "send", Args: []string{s.val(fr, t, x.Chan), s.val(fr, t, x.X)}, Pos: s.P.PosStr(x.Pos(), fr.fn), Instr: x, Facts: append([]Rel{}, t.Facts...)})
		default:
			// value-producing pure instruction: evaluated lazily by val()
		}
	}
}

func (s *Sim) finishBlock(fr *frame, b *ssa.BasicBlock, rest []ssa.Instruction, t *Trace, onPath map[*ssa.BasicBlock]bool, done func(*Trace, []string)) {
	for _, in := range rest {
		switch x := in.(type) {
		case *ssa.Return:
			var ret []string
			for _, r := range x.Results {
				ret = append(ret, s.val(fr, t, r))
			}
			t.Exit = "return"
			t.ExitPos = s.P.PosStr(x.Pos(), fr.fn)
			s.paths++
			done(t, ret)
			return
		case *ssa.Panic:
			t.Exit = "panic"
			s.paths++
			done(t, nil)
			return
		case *ssa.Jump:
			s.walk(fr, b.Succs[0], b, t, onPath, done)
			return
		case *ssa.If:
			s.branch(fr, b, x, t, onPath, done)
			return
		}
	}
}

func (s *Sim) runDefers(fr *frame, defs []deferred, i int, t *Trace, done func(*Trace, []string), cont func(*Trace)) {
	if i < 0 {
		cont(t)
		return
	}
	d := defs[i]
	if d.fn == nil {
		s.callEvent(fr, t, d.call, false)
		s.runDefers(fr, defs, i-1, t, done, cont)
		return
	}
	cfr := &frame{fn: d.fn, fi: s.P.Info(d.fn), regs: map[ssa.Value]string{}, parent: fr}
	for i, prm := range d.fn.Params {
		if i < len(d.args) {
			cfr.regs[prm] = d.args[i]
		}
	}
	s.walk(cfr, d.fn.Blocks[0], nil, t, map[*ssa.BasicBlock]bool{}, func(t2 *Trace, _ []string) {
		if t2.Exit == "panic" || t2.Exit == "truncated" {
			// a panicking deferred closure ends the trace
			t2.Decisions = append(t2.Decisions, "deferred closure: "+t2.Exit)
			done(t2, nil)
			return
		}
		t2.Exit = ""
		s.runDefers(fr, defs, i-1, t2, done, cont)
	})
}

func (s *Sim) branch(fr *frame, b *ssa.BasicBlock, iff *ssa.If, t *Trace, onPath map[*ssa.BasicBlock]bool, done func(*Trace, []string)) {
	rel, ok := s.condRel(fr, t, iff.Cond)
	for si := 0; si < 2; si++ {
		if !FeasibleSucc(b, si) {
			continue
		}
		t2 := t.clone()
		r := rel
		if si == 1 {
			r = rel.Negate()
		}
		if ok {
			t2.Facts = append(t2.Facts, r)
			if !Consistent(t2.Facts, t2.Unsigned) {
				continue // infeasible: same value tested twice etc.
			}
			t2.Decisions = append(t2.Decisions, r.String())
		} else {
			t2.Decisions = append(t2.Decisions, fmt.Sprintf("?%v", si == 0))
		}
		// registers are per-frame and path-local: copy
		fr2 := fr.cloneRegs()
		s.walk(fr2, b.Succs[si], b, t2, onPath, done)
	}
}

func (fr *frame) cloneRegs() *frame {
	n := *fr
	n.regs = map[ssa.Value]string{}
	for k, v := range fr.regs {
		n.regs[k] = v
	}
	n.phiSel = map[*ssa.Phi]ssa.Value{}
	for k, v := range fr.phiSel {
		n.phiSel[k] = v
	}
	n.rels = map[ssa.Value]Rel{}
	for k, v := range fr.rels {
		n.rels[k] = v
	}
	n.defers = append([]deferred{}, fr.defers...)
	return &n
}

func (s *Sim) condRel(fr *frame, t *Trace, v ssa.Value) (Rel, bool) {
	switch x := v.(type) {
	case *ssa.BinOp:
		if op, ok := cmpOps[x.Op]; ok {
			// a comparison of a never-nil value (boxed struct, constructed error,
			// sentinel) with nil is decided
			if x.Op == token.EQL || x.Op == token.NEQ {
				sel := func(v ssa.Value) ssa.Value {
					for k := 0; k < 8; k++ {
						ph, isPhi := v.(*ssa.Phi)
						if !isPhi {
							break
						}
						nv, has := fr.phiSel[ph]
						if !has || nv == v {
							break
						}
						v = nv
					}
					return v
				}
				l, r := sel(x.X), sel(x.Y)
				if (isNilC(r) && s.P.NeverNil(l, 0)) || (isNilC(l) && s.P.NeverNil(r, 0)) {
					if x.Op == token.NEQ {
						return Rel{"0", "==", "0"}, true
					}
					return Rel{"0", "==", "1"}, true
				}
			}
			a, b := s.val(fr, t, x.X), s.val(fr, t, x.Y)
			if isUnsigned(x.X) {
				t.Unsigned[a] = true
				t.Unsigned[b] = true
			}
			return Rel{a, op, b}, true
		}
	case *ssa.UnOp:
		if x.Op == token.NOT {
			r, ok := s.condRel(fr, t, x.X)
			return r.Negate(), ok
		}
	case *ssa.Call:
		if r, ok := fr.rels[x]; ok {
			return r, true
		}
	case *ssa.Phi:
		// a boolean built by && / || / switch-case expressions: along this
		// path it is the selected incoming value
		if sel, ok := fr.phiSel[x]; ok && sel != v {
			switch c := sel.(type) {
			case *ssa.Const:
				if c.Value != nil && c.Value.Kind() == constant.Bool {
					if constant.BoolVal(c.Value) {
						return Rel{"0", "==", "0"}, true
					}
					return Rel{"0", "==", "1"}, true
				}
			case *ssa.BinOp, *ssa.UnOp, *ssa.Phi:
				return s.condRel(fr, t, sel)
			}
		}
	}
	switch bv := s.val(fr, t, v); bv {
	case "true":
		return Rel{"0", "==", "0"}, true
	case "false":
		return Rel{"0", "==", "1"}, true
	default:
		return Rel{bv, "==", "true"}, true
	}
}

// val evaluates an SSA value to a symbolic term in the current trace.
func (s *Sim) val(fr *frame, t *Trace, v ssa.Value) string {
	if r, ok := fr.regs[v]; ok {
		return r
	}
	switch x := v.(type) {
	case *ssa.Const:
		return constStr(x)
	case *ssa.Parameter:
		return fr.fi.paramLeaf(x)
	case *ssa.FreeVar:
		if fr.parent != nil {
			if b, ok := fr.fi.bind[x]; ok {
				return s.val(fr.parent, t, b)
			}
		}
		return "free:" + x.Name()
	case *ssa.Global:
		return "global:" + x.Name()
	case *ssa.Alloc:
		return fr.fi.Sym(x).String()
	case *ssa.UnOp:
		switch x.Op {
		case token.MUL:
			key, fields := s.addr(fr, t, x.X)
			r := s.load(t, key, fields, x.X)
			if isUnsigned(x) {
				t.Unsigned[r] = true
			}
			fr.regs[v] = r
			return r
		case token.NOT:
			switch inner := s.val(fr, t, x.X); inner {
			case "true":
				return "false"
			case "false":
				return "true"
			default:
				return "!" + inner
			}
		}
		return "unop(" + s.val(fr, t, x.X) + ")"
	case *ssa.BinOp:
		r := "(" + s.val(fr, t, x.X) + " " + x.Op.String() + " " + s.val(fr, t, x.Y) + ")"
		if isUnsigned(x) {
			t.Unsigned[r] = true
		}
		fr.regs[v] = r
		return r
	case *ssa.FieldAddr, *ssa.IndexAddr:
		key, _ := s.addr(fr, t, v)
		return "&" + key
	case *ssa.Field:
		return s.val(fr, t, x.X) + "." + structOf(x.X.Type()).Field(x.Field).Name()
	case *ssa.Convert:
		return s.val(fr, t, x.X)
	case *ssa.ChangeType:
		return s.val(fr, t, x.X)
	case *ssa.MakeInterface:
		return s.val(fr, t, x.X)
	case *ssa.ChangeInterface:
		return s.val(fr, t, x.X)
	case *ssa.Extract:
		tv := s.val(fr, t, x.Tuple)
		if strings.HasPrefix(tv, "tuple:") {
			parts := strings.Split(tv[len("tuple:"):], "|")
			if x.Index < len(parts) {
				return parts[x.Index]
			}
		}
		return tv + "#" + fmt.Sprint(x.Index)
	case *ssa.Lookup:
		r := s.val(fr, t, x.X) + "[" + s.val(fr, t, x.Index) + "]"
		fr.regs[v] = r
		return r
	case *ssa.Phi:
		return "phi:" + x.Name()
	case *ssa.TypeAssert:
		r := "assert[" + typeShort(x.AssertedType) + "](" + s.val(fr, t, x.X) + ")"
		fr.regs[v] = r
		return r
	case *ssa.MakeClosure:
		return "closure:" + s.P.FuncName(x.Fn.(*ssa.Function))
	case *ssa.Function:
		return "func:" + s.P.FuncName(x)
	case *ssa.Call:
		// evaluated at its position in walk(); reaching here means use-before-eval
		return "call:" + x.Name()
	}
	t.fresh++
	r := fmt.Sprintf("opaque:%s#%d", v.Name(), t.fresh)
	fr.regs[v] = r
	return r
}

// addr computes the canonical cell key of an address value.
func (s *Sim) addr(fr *frame, t *Trace, v ssa.Value) (string, []*types.Var) {
	switch x := v.(type) {
	case *ssa.FieldAddr:
		base := s.val(fr, t, x.X)
		base = strings.TrimPrefix(base, "&")
		f := structOf(x.X.Type()).Field(x.Field)
		_, bf := s.addrFields(fr, t, x.X)
		return base + "." + f.Name(), append(append([]*types.Var{}, bf...), f)
	case *ssa.IndexAddr:
		base := strings.TrimPrefix(s.val(fr, t, x.X), "&")
		_, bf := s.addrFields(fr, t, x.X)
		return base + "[" + s.val(fr, t, x.Index) + "]", bf
	case *ssa.Alloc:
		return fr.fi.Sym(x).String(), nil
	case *ssa.FreeVar:
		if fr.parent != nil {
			if b, ok := fr.fi.bind[x]; ok {
				return s.addr(fr.parent, t, b)
			}
		}
	case *ssa.Global:
		return "global:" + x.Name(), nil
	}
	return strings.TrimPrefix(s.val(fr, t, v), "&"), nil
}

// addrFields returns the struct fields on the access path leading to pointer/struct value v.
func (s *Sim) addrFields(fr *frame, t *Trace, v ssa.Value) (string, []*types.Var) {
	switch x := v.(type) {
	case *ssa.UnOp:
		if x.Op == token.MUL {
			return s.addr(fr, t, x.X)
		}
	case *ssa.FieldAddr, *ssa.IndexAddr:
		return s.addr(fr, t, v)
	case *ssa.FreeVar:
		if fr.parent != nil {
			if b, ok := fr.fi.bind[x]; ok {
				return s.addrFields(fr.parent, t, b)
			}
		}
	}
	return "", nil
}

func zeroOf(tp types.Type) (string, bool) {
	switch u := tp.Underlying().(type) {
	case *types.Basic:
		switch {
		case u.Info()&types.IsBoolean != 0:
			return "false", true
		case u.Info()&types.IsNumeric != 0:
			if n, ok := tp.(*types.Named); ok {
				return n.Obj().Name() + "(0)", true
			}
			return "0", true
		case u.Info()&types.IsString != 0:
			return `""`, true
		}
	case *types.Pointer, *types.Interface, *types.Map, *types.Slice, *types.Chan, *types.Signature:
		return "nil", true
	}
	return "", false
}

func (s *Sim) load(t *Trace, key string, fields []*types.Var, addr ssa.Value) string {
	h := 0
	for _, f := range fields {
		if e := t.havocAt[f]; e > h {
			h = e
		}
	}
	// exact cell or nearest stored ancestor
	k := key
	suffix := ""
	for {
		if v, ok := t.mem[k]; ok && t.memAt[k] > h {
			return v + suffix
		}
		i := strings.LastIndexAny(k, ".[")
		if i <= 0 {
			break
		}
		suffix = k[i:] + suffix
		k = k[:i]
	}
	if h > 0 {
		return fmt.Sprintf("%s@%d", key, h)
	}
	// fresh local allocations are zero-initialised
	if strings.HasPrefix(key, "local:") || strings.HasPrefix(key, "new:") {
		if pt, ok := addr.Type().Underlying().(*types.Pointer); ok {
			if z, ok := zeroOf(pt.Elem()); ok {
				return z
			}
		}
	}
	return key
}

func (s *Sim) store(t *Trace, key string, fields []*types.Var, val string) {
	t.epoch++
	for k := range t.mem {
		if strings.HasPrefix(k, key+".") || strings.HasPrefix(k, key+"[") {
			delete(t.mem, k)
			delete(t.memAt, k)
		}
	}
	t.mem[key] = val
	t.memAt[key] = t.epoch
	t.memFields[key] = fields
}

func (s *Sim) havocKey(t *Trace, key string, fields []*types.Var) {
	t.epoch++
	t.fresh++
	s.store(t, key, fields, fmt.Sprintf("%s@m%d", key, t.epoch))
}

func (s *Sim) havoc(t *Trace, mod map[*types.Var]bool) {
	if len(mod) == 0 {
		return
	}
	t.epoch++
	for f := range mod {
		t.havocAt[f] = t.epoch
	}
}

func (s *Sim) callEvent(fr *frame, t *Trace, ci ssa.CallInstruction, isGo bool) {
	com := ci.Common()
	var args []string
	for _, a := range com.Args {
		args = append(args, s.val(fr, t, a))
	}
	name := "dynamic"
	if cs := s.P.CalleesOf(ci); len(cs) == 1 {
		name = s.P.FuncName(cs[0])
	} else if com.IsInvoke() {
		name = "invoke:" + com.Method.Name()
	}
	if isGo {
		name = "go " + name
	}
	t.Events = append(t.Events, Event{Callee: name, Args: args, Pos: s.P.PosStr(ci.Pos(), fr.fn), Instr: ci, Facts: append([]Rel{}, t.Facts...)})
}

func (s *Sim) call(fr *frame, t *Trace, x *ssa.Call) []string {
	com := x.Common()
	var args []string
	if com.IsInvoke() {
		args = append(args, s.val(fr, t, com.Value))
	}
	for _, a := range com.Args {
		args = append(args, s.val(fr, t, a))
	}
	nres := 0
	if tup, ok := x.Type().(*types.Tuple); ok {
		nres = tup.Len()
	} else if x.Type() != nil {
		nres = 1
	}
	if b, ok := com.Value.(*ssa.Builtin); ok {
		r := b.Name() + "(" + strings.Join(args, ", ") + ")"
		if b.Name() == "delete" && len(com.Args) > 0 {
			key, fields := s.addr(fr, t, com.Args[0])
			if s.RecordStores {
				t.Events = append(t.Events, Event{Callee: "delete", Args: []string{key, args[1]}, Pos: s.P.PosStr(x.Pos(), fr.fn), Instr: x, Facts: append([]Rel{}, t.Facts...)})
			}
			s.havocKey(t, key, fields)
		}
		if s.Record["*"] || s.Record[b.Name()] {
			if b.Name() == "close" || b.Name() == "recover" || b.Name() == "panic" {
				t.Events = append(t.Events, Event{Callee: b.Name(), Args: args, Results: []string{r}, Pos: s.P.PosStr(x.Pos(), fr.fn), Instr: x, Facts: append([]Rel{}, t.Facts...)})
			}
		}
		return []string{r}
	}
	callees := s.P.CalleesOf(x)
	name := "dynamic"
	if com.IsInvoke() {
		name = "invoke:" + com.Method.Name()
	} else if len(callees) == 1 {
		name = s.P.FuncName(callees[0])
	}
	if s.Assume[name] && len(com.Args) == 1 {
		if r, ok := s.condRel(fr, t, com.Args[0]); ok {
			t.Facts = append(t.Facts, r)
			t.Decisions = append(t.Decisions, "assume "+r.String())
		}
		return nil
	}
	evIdx := -1
	if s.Record[name] || s.Record["*"] {
		t.Events = append(t.Events, Event{Callee: name, Args: args, Pos: s.P.PosStr(x.Pos(), fr.fn), Instr: x, Facts: append([]Rel{}, t.Facts...)})
		evIdx = len(t.Events) - 1
	}
	setRes := func(res []string) []string {
		if evIdx >= 0 {
			t.Events[evIdx].Results = res
		}
		return res
	}
	if eff, ok := s.Effects[name]; ok {
		if res, ok := eff(t, args); ok {
			return setRes(res)
		}
	}
	// interface methods all of whose implementations are pure single-block
	// functions (rpcType(), getTerm(), getResult()) are deterministic in their receiver
	if com.IsInvoke() && len(callees) > 0 && nres == 1 {
		pure := true
		for _, c := range callees {
			if !s.P.inRepo(c) || !inlinable(c) {
				pure = false
			}
		}
		if pure {
			return setRes([]string{"invoke:" + com.Method.Name() + "(" + strings.Join(args, ", ") + ")"})
		}
	}
	// inline pure single-block helpers
	if len(callees) == 1 && s.P.inRepo(callees[0]) && inlinable(callees[0]) {
		callee := callees[0]
		cfr := &frame{fn: callee, fi: s.P.Info(callee), regs: map[ssa.Value]string{}}
		for i, prm := range callee.Params {
			if i < len(args) {
				cfr.regs[prm] = args[i]
			}
		}
		var res []string
		for _, in := range callee.Blocks[0].Instrs {
			switch y := in.(type) {
			case *ssa.Store:
				key, fields := s.addr(cfr, t, y.Addr)
				s.store(t, key, fields, s.val(cfr, t, y.Val))
			case *ssa.Call:
				r := s.call(cfr, t, y)
				if len(r) == 1 {
					cfr.regs[y] = r[0]
				}
			case *ssa.Return:
				for _, rv := range y.Results {
					res = append(res, s.val(cfr, t, rv))
				}
				if len(y.Results) == 1 {
					switch rv := y.Results[0].(type) {
					case *ssa.BinOp, *ssa.UnOp, *ssa.Call:
						if r, ok := s.condRel(cfr, t, rv); ok && !(r.Op == "==" && r.B == "true" && r.A == res[0]) {
							if fr.rels == nil {
								fr.rels = map[ssa.Value]Rel{}
							}
							fr.rels[x] = r
						}
					}
				}
			}
		}
		return setRes(res)
	}
	// default: havoc the callee's mod-set, fresh results
	mod := map[*types.Var]bool{}
	for _, c := range callees {
		if s.P.inRepo(c) {
			for f := range s.P.ModSet(c) {
				mod[f] = true
			}
		}
	}
	s.havoc(t, mod)
	var res []string
	for i := 0; i < nres; i++ {
		t.fresh++
		res = append(res, fmt.Sprintf("ret:%s#%d.%d", name, t.fresh, i))
	}
	// a constructor of errors never hands back nil (opError, errors.New, …)
	if nres == 1 && s.P.NeverNil(x, 0) {
		t.Facts = append(t.Facts, Rel{res[0], "!=", "nil"})
	}
	return setRes(res)
}

// SortTraces orders traces deterministically.
func SortTraces(ts []*Trace) {
	sort.SliceStable(ts, func(i, j int) bool { return ts[i].Describe() < ts[j].Describe() })
}

// TrueSummary returns, for a loop-free boolean function, one fact set per path
// on which the result may be true (path facts plus the returned comparison).
func (s *Sim) TrueSummary(fn *ssa.Function) (sums [][]Rel, unsigned map[string]bool, ok bool) {
	ts := s.Run(fn)
	if s.Trunc {
		return nil, nil, false
	}
	unsigned = map[string]bool{}
	for _, t := range ts {
		if t.Exit != "return" || len(t.Ret) != 1 {
			continue
		}
		for k := range t.Unsigned {
			unsigned[k] = true
		}
		if t.Ret[0] == "false" {
			continue
		}
		f := append([]Rel{}, t.Facts...)
		if t.Ret[0] != "true" {
			if t.RetRel == nil {
				return nil, nil, false
			}
			f = append(f, *t.RetRel)
		}
		sums = append(sums, f)
	}
	return sums, unsigned, true
}

// TermsWithPrefix lists the terms occurring in the facts known at an event that start with prefix.
func TermsWithPrefix(facts []Rel, prefix string) []string {
	m := map[string]bool{}
	for _, r := range facts {
		for _, x := range []string{r.A, r.B} {
			if strings.HasPrefix(x, prefix) {
				m[x] = true
			}
		}
	}
	return sortedKeys(m)
}
