package props

import (
	"fmt"
	"go/token"
	"sort"
	"strings"

	"golang.org/x/tools/go/ssa"

	"raftlint/internal/core"
)

// E7b — blocking channel operations of goroutines that a shutdown path waits
// for: each must sit in a select with a stop case, or be on a channel whose
// buffer provably never fills / whose peer provably answers.

// blockingAccepted: frozen table (function, channel expression) -> reason.
var blockingAccepted = map[string]string{
	"(*candidate).startElection$1|send|λ:candidate.respCh":                                           "vote reply channel has capacity len(Latest.Nodes) >= number of request goroutines + self vote",
	"(*leader).tryTransfer$1|send|λ:leader.transfer.respCh":                                                "transfer reply channel has capacity 1 and exactly one sender per channel",
	"(*Raft).onTakeSnapshot$1|send|Raft.snapTakenCh":                                  "snapTakenCh has capacity 1 and one snapshot goroutine per channel; Raft.release waits for it",
	"doTakeSnapshot|recv|fsmSnapReq.task.done":                                        "the FSM goroutine answers every fsmSnapReq (C15.4); it keeps running until Serve closes fsm.ch, which happens after Raft.release has waited for this goroutine",
	"(*safeTimer).stop|recv|safeTimer.C":                                              "only when Stop() reported that the timer already fired and its tick was not consumed yet (active): the tick is in the channel",
	"(*stateMachine).runLoop|send|assert[fsmRestoreReq](recv(stateMachine.ch)#0).err": "fsmRestoredCh has capacity 5; at most one restore request is outstanding per install/Serve",
	"(*stateMachine).runLoop|recv|stateMachine.ch":                                    "ends when Serve closes fsm.ch (deferred close, before wg.Wait)",
	"(*replication).replicate$3$1|send|local:drained":                                 "capacity 1, single sender",
	"(*replication).replicate$3|recv|local:drained":                                   "the drain goroutine always sends once (its reads fail after the connection is closed)",
	"(*replication).replicate|recv|local:resultCh":                                    "the pipeline writer closes resultCh on exit",
	"(*replication).replicate$2|recv|local:resultCh":                                  "range over resultCh, closed by the pipeline writer",
	"(*server).executeTask|recv|invoke:Done($1)":                                      "the raft goroutine answers every task it accepted (C15.4)",
	"(*Raft).runBatch|send|Raft.newEntryCh":                                           "only after <-r.close: Serve's epilogue is draining newEntryCh at that time",
	"(*Raft).lastApplied|recv|new:task#1.done":                                        "answered by the FSM goroutine (runLoop lastApplied case)",
	"(*Raft).lastApplied|send|Raft.fsm.ch":                                            "raft goroutine; fsm.ch is drained by the FSM goroutine until Serve closes it",
}

func (h H) blockingOps(rule string) {
	// goroutine roots that a shutdown path waits for
	goReach := h.goReachable()
	type op struct {
		fn   *ssa.Function
		in   ssa.Instruction
		kind string
		ch   string
	}
	var ops []op
	for fn := range goReach {
		if !h.P.InRepo(fn) || fn.Blocks == nil {
			continue
		}
		name := h.name(fn)
		if strings.HasPrefix(name, "init") || strings.HasSuffix(h.P.Position(fn.Pos(), fn).Filename, "/trace.go") {
			continue // debug tracing (build tag trace) is not part of the protocol goroutines
		}
		fi := h.P.Info(fn)
		core.Instrs(fn, func(in ssa.Instruction) {
			switch x := in.(type) {
			case *ssa.Send:
				ops = append(ops, op{fn, in, "send", fi.Sym(x.Chan).String()})
			case *ssa.UnOp:
				if x.Op == token.ARROW {
					ops = append(ops, op{fn, in, "recv", fi.Sym(x.X).String()})
				}
			case *ssa.Select:
				if !x.Blocking {
					return
				}
				stop := false
				var chans []string
				for _, st := range x.States {
					c := fi.Sym(st.Chan).String()
					chans = append(chans, c)
					if st.Dir == 2 /* RecvOnly */ && (strings.HasSuffix(c, "stopCh") || strings.HasSuffix(c, ".close") || strings.HasSuffix(c, "Closed(Raft)") || strings.Contains(c, "stopCh") || strings.HasSuffix(c, ".C") || strings.Contains(c, "time.After") || strings.HasPrefix(c, "$") || strings.HasPrefix(c, "λ")) {
						stop = true
					}
				}
				if !stop {
					sort.Strings(chans)
					ops = append(ops, op{fn, in, "select", strings.Join(chans, ",")})
				}
			case *ssa.Range:
				// range over channel handled through the Next/recv lowering: UnOp ARROW not generated; use type
			}
		})
	}
	sort.Slice(ops, func(i, j int) bool {
		a, b := h.name(ops[i].fn)+ops[i].kind+ops[i].ch, h.name(ops[j].fn)+ops[j].kind+ops[j].ch
		return a < b
	})
	n := 0
	for _, o := range ops {
		key := fmt.Sprintf("%s|%s|%s", h.name(o.fn), o.kind, o.ch)
		reason, ok := blockingAccepted[key]
		n++
		if ok {
			h.C.Check(rule, key, true, h.pos(o.in), "accepted: "+reason)
		} else {
			h.C.Check(rule, key, false, h.pos(o.in), "a goroutine that shutdown waits for blocks on a channel operation without a stop case and without a listed reason why it cannot block forever")
		}
	}
	h.C.Floor(rule+" (unguarded blocking operations)", n, 5)
}
