package props

import (
	"sort"
	"fmt"
	"go/constant"
	"go/token"
	"go/types"
	"strings"

	"golang.org/x/tools/go/ssa"

	"raftlint/internal/core"
)

// readerFuncs: every function of the raft package that decodes from a stream:
// it has an io.Reader / *bufio.Reader parameter or is a method named decode.
func (h H) readerFuncs() []*ssa.Function {
	var out []*ssa.Function
	for _, fn := range h.P.Funcs() {
		if fn.Pkg == nil || fn.Pkg.Pkg.Path() != core.RaftPkg || fn.Parent() != nil || fn.Synthetic != "" {
			continue
		}
		ok := fn.Name() == "decode"
		for _, p := range fn.Params {
			t := p.Type().String()
			if t == "io.Reader" || t == "*bufio.Reader" {
				ok = true
			}
		}
		if ok {
			out = append(out, fn)
		}
	}
	return out
}

func isErrorType(t types.Type) bool {
	return t.String() == "error"
}

// errValueOf returns the SSA value holding the error result of call (nil if
// the result is not bound at all) and whether the callee returns an error.
func errValueOf(c *ssa.Call) (ssa.Value, bool) {
	sig := c.Common().Signature()
	n := sig.Results().Len()
	if n == 0 || !isErrorType(sig.Results().At(n-1).Type()) {
		return nil, false
	}
	if n == 1 {
		if len(*c.Referrers()) == 0 {
			return nil, true // `_ = f()` or a bare call
		}
		return c, true
	}
	for _, r := range *c.Referrers() {
		if ex, ok := r.(*ssa.Extract); ok && ex.Index == n-1 {
			return ex, true
		}
	}
	return nil, true
}

func errDerived(v, e ssa.Value, depth int) bool {
	if v == e {
		return true
	}
	if depth > 6 {
		return false
	}
	switch x := v.(type) {
	case *ssa.Phi:
		for _, ed := range x.Edges {
			if errDerived(ed, e, depth+1) {
				return true
			}
		}
	case *ssa.UnOp:
		// load of a local cell: derived if some store into the cell is
		if al, ok := x.X.(*ssa.Alloc); ok && x.Op == token.MUL {
			for _, r := range *al.Referrers() {
				if st, ok := r.(*ssa.Store); ok && st.Addr == ssa.Value(al) && errDerived(st.Val, e, depth+1) {
					return true
				}
			}
		}
	case *ssa.MakeInterface:
		return errDerived(x.X, e, depth+1)
	case *ssa.ChangeInterface:
		return errDerived(x.X, e, depth+1)
	case *ssa.Call:
		for _, a := range x.Common().Args {
			if errDerived(a, e, depth+1) {
				return true
			}
		}
	}
	return false
}

// retOperand sees through defer-spilled results: `*t1 = v; rundefers; t9 = *t1;
// return t9` yields v (the last store to the result cell in the return block).
func retOperand(ret *ssa.Return, idx int) ssa.Value {
	v := ret.Results[idx]
	ld, ok := v.(*ssa.UnOp)
	if !ok || ld.Op != token.MUL {
		return v
	}
	al, ok := ld.X.(*ssa.Alloc)
	if !ok {
		return v
	}
	var last ssa.Value
	for _, in := range ret.Block().Instrs {
		if st, ok := in.(*ssa.Store); ok && st.Addr == ssa.Value(al) {
			last = st.Val
		}
	}
	if last != nil {
		return last
	}
	return v
}

func isNilConst(v ssa.Value) bool {
	c, ok := v.(*ssa.Const)
	return ok && c.Value == nil
}

// nilTest: cond is `x == nil` / `x != nil` with x derived from e. Returns
// (isTest, trueEdgeMeansError).
func nilTest(cond, e ssa.Value) (bool, bool) {
	b, ok := cond.(*ssa.BinOp)
	if !ok || (b.Op != token.EQL && b.Op != token.NEQ) {
		return false, false
	}
	var x ssa.Value
	switch {
	case isNilConst(b.Y):
		x = b.X
	case isNilConst(b.X):
		x = b.Y
	default:
		return false, false
	}
	if !errDerived(x, e, 0) {
		return false, false
	}
	return true, b.Op == token.NEQ
}

// errorDiscipline (C18.6): in every decoding function the error of each
// step is examined before the next step and handed to the caller: on the
// edge where the error is non-nil the function returns a non-nil error without
// reading further. With that, a truncated encoding (some read fails) surfaces
// as an error instead of a half-filled value.
func (h H) errorDiscipline(rule string) {
	fns := h.readerFuncs()
	set := map[*ssa.Function]bool{}
	for _, f := range fns {
		set[f] = true
	}
	nCalls := 0
	// decoders themselves and every function of the package that consumes one
	var all []*ssa.Function
	for _, fn := range h.P.Funcs() {
		if fn.Pkg == nil || fn.Pkg.Pkg.Path() != core.RaftPkg || fn.Synthetic != "" || strings.HasSuffix(h.P.Position(fn.Pos(), fn).Filename, "trace.go") {
			continue
		}
		all = append(all, fn)
	}
	for _, fn := range all {
		name := h.name(fn)
		errIdx := -1
		if res := fn.Signature.Results(); res.Len() > 0 && isErrorType(res.At(res.Len()-1).Type()) {
			errIdx = res.Len() - 1
		}
		k := 0
		core.Instrs(fn, func(in ssa.Instruction) {
			c, ok := in.(*ssa.Call)
			if !ok {
				return
			}
			e, returnsErr := errValueOf(c)
			if !returnsErr {
				return
			}
			if !h.isDecodeStep(c, set) {
				return
			}
			k++
			nCalls++
			site := fmt.Sprintf("%s step#%d %s", name, k, calleeLabel(c))
			if e == nil {
				h.C.Check(rule+" error-bound", site, false, h.pos(c), "the error result of this step is discarded")
				return
			}
			msg := h.errPaths(fn, c, e, errIdx, set)
			h.C.Check(rule+" error-returned", site, msg == "", h.pos(c), msg)
		})
	}
	h.C.Floor(rule+" (decoding functions)", len(fns), 18)
	h.C.Floor(rule+" (fallible steps)", nCalls, 60)
}

// isDecodeStep: the call consumes input: it is handed the stream, or it is a
// decode method / decoding function of the package.
func (h H) isDecodeStep(c *ssa.Call, set map[*ssa.Function]bool) bool {
	if f := c.Common().StaticCallee(); f != nil && (set[f] || f.Name() == "decode") {
		return true
	}
	vals := append([]ssa.Value{}, c.Common().Args...)
	if c.Common().IsInvoke() {
		vals = append(vals, c.Common().Value)
	}
	for _, v := range vals {
		switch v.Type().String() {
		case "io.Reader", "*bufio.Reader", "io.ByteReader":
			return true
		}
	}
	return false
}

func calleeLabel(c *ssa.Call) string {
	if f := c.Common().StaticCallee(); f != nil {
		return f.Name()
	}
	if c.Common().IsInvoke() {
		return "invoke:" + c.Common().Method.Name()
	}
	return "dynamic"
}

// errPaths explores the CFG after call c (error value e). Returns "" when on
// every path the error is examined before any other fallible step and, when
// non-nil, makes the function return a non-nil error.
func (h H) errPaths(fn *ssa.Function, c *ssa.Call, e ssa.Value, errIdx int, set map[*ssa.Function]bool) string {
	return h.errPathsMode(fn, c, e, errIdx, set, false)
}

// errPathsMode: lenient=true is the storage-layer variant: further steps may
// follow an unexamined error (first-error-wins accumulation, clean-up on the
// error edge); the error must still not be lost: it reaches a return, or its
// non-nil edge ends in a non-nil error return, or the function is already
// failing with an earlier error.
func (h H) errPathsMode(fn *ssa.Function, c *ssa.Call, e ssa.Value, errIdx int, set map[*ssa.Function]bool, lenient bool) string {
	var bad string
	fallible := func(in ssa.Instruction) bool {
		cc, ok := in.(*ssa.Call)
		if !ok {
			return false
		}
		if lenient {
			return false
		}
		_, re := errValueOf(cc)
		return re && h.isDecodeStep(cc, set)
	}
	// mode 0: error not examined yet; mode 1: on the error edge; mode 2
	// (lenient): on the failure edge of an earlier error. The walk is
	// path-sensitive for phis: env maps each phi met on the path to the value
	// it takes along this path, so that `if err == nil {err = g()}; if err !=
	// nil {return err}` is followed only along feasible branches.
	// env: value of each phi, of each local cell (Alloc) and of each load of
	// a local cell, along the path being walked
	type env map[ssa.Value]ssa.Value
	type facts map[ssa.Value]bool // nil-ness established by a branch taken earlier on the path: true = not nil
	withFact := func(nn facts, v ssa.Value, nonNil bool) facts {
		m := facts{}
		for k, x := range nn {
			m[k] = x
		}
		m[v] = nonNil
		return m
	}
	resolve := func(v ssa.Value, en env) ssa.Value {
		for i := 0; i < 8; i++ {
			nv, ok := en[v]
			if !ok || nv == v {
				return v
			}
			v = nv
		}
		return v
	}
	type key2 struct {
		b, from *ssa.BasicBlock
		mode    int
		facts   string
	}
	factKey := func(nn facts) string {
		var ks []string
		for v, nonNil := range nn {
			ks = append(ks, fmt.Sprintf("%s@%p=%v", v.Name(), v, nonNil))
		}
		sort.Strings(ks)
		return strings.Join(ks, ",")
	}
	seen2 := map[key2]bool{}
	var walk func(b *ssa.BasicBlock, start int, mode int, from *ssa.BasicBlock, en env, nn facts)
	enter := func(from, to *ssa.BasicBlock, mode int, en env, nn facts) {
		nn2 := facts{}
		for k, v := range nn {
			nn2[k] = v
		}
		ne := env{}
		for k, v := range en {
			ne[k] = v
		}
		for i, p := range to.Preds {
			if p != from {
				continue
			}
			for _, in := range to.Instrs {
				phi, ok := in.(*ssa.Phi)
				if !ok {
					break
				}
				ne[ssa.Value(phi)] = resolve(phi.Edges[i], en)
			}
			break
		}
		walk(to, 0, mode, from, ne, nn2)
	}
	walk = func(b *ssa.BasicBlock, start int, mode int, from *ssa.BasicBlock, en env, nn facts) {
		if bad != "" {
			return
		}
		if start == 0 {
			// entering b computes its values anew: what an earlier branch found
			// out about them (a previous loop iteration) no longer holds
			for v := range nn {
				if in, ok := v.(ssa.Instruction); ok && in.Block() == b {
					delete(nn, v)
				}
			}
			k := key2{b, from, mode, factKey(nn)}
			if seen2[k] {
				return
			}
			seen2[k] = true
		}
		for i := start; i < len(b.Instrs); i++ {
			in := b.Instrs[i]
			if fallible(in) {
				if mode == 0 {
					bad = fmt.Sprintf("next step at %s is issued before this step's error is examined", h.pos(in))
				} else {
					bad = fmt.Sprintf("decoding continues at %s although this step failed", h.pos(in))
				}
				return
			}
			switch x := in.(type) {
			case *ssa.Store:
				if al, ok := x.Addr.(*ssa.Alloc); ok {
					en[ssa.Value(al)] = resolve(x.Val, en)
				}
			case *ssa.UnOp:
				if al, ok := x.X.(*ssa.Alloc); ok && x.Op == token.MUL {
					if cur, had := en[ssa.Value(al)]; had {
						en[ssa.Value(x)] = cur
					}
				}
			case *ssa.Call:
				if f := x.Common().StaticCallee(); f != nil && f.Name() == "assert" && len(x.Common().Args) == 1 {
					if is, trueIsErr := nilTest(x.Common().Args[0], e); is && !trueIsErr {
						return // asserted nil
					}
				}
			case *ssa.Return:
				if errIdx < 0 {
					if mode == 0 {
						bad = fmt.Sprintf("function returns at %s without examining this step's error", h.pos(x))
					}
					return
				}
				r := resolve(retOperand(x, errIdx), en)
				if mode == 2 {
					if isNilConst(r) && !errDerived(r, e, 0) {
						bad = fmt.Sprintf("return at %s reports success although an earlier step failed", h.pos(x))
					}
					return
				}
				if mode == 0 {
					raw := retOperand(x, errIdx)
					_, known := en[raw]
					if (known && r != e && !errDerived(r, e, 0)) || (!known && !errDerived(r, e, 0)) {
						bad = fmt.Sprintf("return at %s does not hand on this step's unexamined error", h.pos(x))
					}
				} else if isNilConst(r) {
					bad = fmt.Sprintf("return at %s reports success although this step failed", h.pos(x))
				} else if lenient && !errDerived(r, e, 0) && isRawErrorResult(r) && !nn[r] {
					// some other operation's error result: it may well be nil
					bad = fmt.Sprintf("return at %s hands on another operation's error (possibly nil) although this step failed", h.pos(x))
				} else if !lenient && !errDerived(r, e, 0) && !h.P.NeverNil(r, 0) && !nn[r] {
					// a replacement error must be one that cannot be nil (a constructed
					// or sentinel error, or one a branch on this path found non-nil)
					bad = fmt.Sprintf("return at %s hands on something else than this step's error (possibly nil)", h.pos(x))
				}
				return
			case *ssa.Panic:
				return
			case *ssa.If:
				// a flag whose value along this path is known (`done, err := phase(); if done {…}`)
				{
					cv, neg := x.Cond, false
					for k := 0; k < 3; k++ {
						if u, ok := cv.(*ssa.UnOp); ok && u.Op == token.NOT {
							cv, neg = u.X, !neg
						}
					}
					if c, ok := resolve(cv, en).(*ssa.Const); ok && c.Value != nil && c.Value.Kind() == constant.Bool {
						if constant.BoolVal(c.Value) != neg {
							enter(b, b.Succs[0], mode, en, nn)
						} else {
							enter(b, b.Succs[1], mode, en, nn)
						}
						return
					}
				}
				// a nil test whose operand is, along this path, the error itself
				if bo, ok := x.Cond.(*ssa.BinOp); ok && (bo.Op == token.EQL || bo.Op == token.NEQ) && (isNilConst(bo.X) || isNilConst(bo.Y)) {
					opnd := bo.X
					if isNilConst(bo.X) {
						opnd = bo.Y
					}
					if rv := resolve(opnd, en); rv == e {
						errSucc := b.Succs[1]
						if bo.Op == token.NEQ {
							errSucc = b.Succs[0]
						}
						if mode == 0 {
							enter(b, errSucc, 1, en, nn)
						} else {
							// e is known non-nil here: only the failure edge is feasible
							enter(b, errSucc, mode, en, nn)
						}
						return
					} else if known, has := nn[rv]; has || isNilConst(rv) || h.P.NeverNil(rv, 0) {
						if has && !isNilConst(rv) && !h.P.NeverNil(rv, 0) {
							// the same value was tested before on this path
							nilSucc, nonNilSucc := b.Succs[0], b.Succs[1]
							if bo.Op == token.NEQ {
								nilSucc, nonNilSucc = nonNilSucc, nilSucc
							}
							if known {
								enter(b, nonNilSucc, mode, en, nn)
							} else {
								enter(b, nilSucc, mode, en, nn)
							}
							return
						}
						// along this path the tested value is fixed (a result merged by a phi,
						// a constructor's value): one side only is feasible
						nilSucc, nonNilSucc := b.Succs[0], b.Succs[1]
						if bo.Op == token.NEQ {
							nilSucc, nonNilSucc = nonNilSucc, nilSucc
						}
						if isNilConst(rv) {
							enter(b, nilSucc, mode, en, nn)
						} else {
							enter(b, nonNilSucc, mode, en, nn)
						}
						return
					}
				}
				if mode == 0 {
					known := false
					if bo, ok := x.Cond.(*ssa.BinOp); ok {
						for _, o := range []ssa.Value{bo.X, bo.Y} {
							if _, in := en[o]; in {
								known = true // the operand's value on this path is known, and it is not e
							}
						}
					}
					if is, trueIsErr := nilTest(x.Cond, e); is && !known {
						errSucc := b.Succs[1]
						if trueIsErr {
							errSucc = b.Succs[0]
						}
						enter(b, errSucc, 1, en, nn)
						return
					}
				}
				if mode == 0 {
					// `if os.IsNotExist(err)`: that one error is handled on the true edge
					if cc, ok := x.Cond.(*ssa.Call); ok {
						if f := cc.Common().StaticCallee(); f != nil && f.Pkg != nil && f.Pkg.Pkg.Path() == "os" && strings.HasPrefix(f.Name(), "Is") && len(cc.Common().Args) == 1 && errDerived(cc.Common().Args[0], e, 0) {
							enter(b, b.Succs[1], 0, en, nn)
							return
						}
					}
				}
				if lenient && mode == 0 {
					// the failure edge of another error: first error wins
					if bo, ok := x.Cond.(*ssa.BinOp); ok && (bo.Op == token.NEQ || bo.Op == token.EQL) && (isNilConst(bo.Y) && isErrorType(bo.X.Type()) || isNilConst(bo.X) && isErrorType(bo.Y.Type())) {
						errSucc, okSucc := b.Succs[0], b.Succs[1]
						if bo.Op == token.EQL {
							errSucc, okSucc = okSucc, errSucc
						}
						opnd := bo.X
						if isNilConst(bo.X) {
							opnd = bo.Y
						}
						rv := resolve(opnd, en)
						enter(b, errSucc, 2, en, withFact(nn, rv, true))
						enter(b, okSucc, 0, en, withFact(nn, rv, false))
						return
					}
				}
				// any other nil test: remember its outcome for later tests of the same value
				if bo, ok := x.Cond.(*ssa.BinOp); ok && (bo.Op == token.NEQ || bo.Op == token.EQL) && (isNilConst(bo.Y) || isNilConst(bo.X)) {
					opnd := bo.X
					if isNilConst(bo.X) {
						opnd = bo.Y
					}
					rv := resolve(opnd, en)
					nonNilSucc, nilSucc := b.Succs[0], b.Succs[1]
					if bo.Op == token.EQL {
						nonNilSucc, nilSucc = nilSucc, nonNilSucc
					}
					enter(b, nonNilSucc, mode, en, withFact(nn, rv, true))
					enter(b, nilSucc, mode, en, withFact(nn, rv, false))
					return
				}
				enter(b, b.Succs[0], mode, en, nn)
				enter(b, b.Succs[1], mode, en, nn)
				return
			case *ssa.Jump:
				enter(b, b.Succs[0], mode, en, nn)
				return
			}
		}
	}
	idx := -1
	for i, in := range c.Block().Instrs {
		if in == ssa.Instruction(c) {
			idx = i
		}
	}
	walk(c.Block(), idx+1, 0, nil, env{}, facts{})
	return bad
}

// boolWire (C18.7): writeBool writes a byte value on which readBool's
// predicate gives back the same boolean, for both values.
func (h H) boolWire(rule string) {
	wb := h.fn("raft:writeBool")
	rb := h.fn("raft:readBool")
	wfi := h.P.Info(wb)
	w8 := h.fn("raft:writeUint8")
	// value written under v / !v
	written := map[bool]int64{}
	found := map[bool]bool{}
	for _, c := range h.P.CallsTo(wb, w8) {
		arg, ok := c.Common().Args[1].(*ssa.Const)
		if !ok {
			continue
		}
		in := c.(ssa.Instruction)
		for _, pol := range []bool{true, false} {
			r := wfi.MustCross(in, func(a core.Atom) bool {
				return a.L == "$1" && ((a.Op == "true") == pol) && (a.Op == "true" || a.Op == "false")
			})
			if r.OK {
				written[pol] = arg.Int64()
				found[pol] = true
			}
		}
	}
	if !h.C.Check(rule+" write-values", "writeBool", found[true] && found[false], h.fpos(wb), fmt.Sprintf("cannot see which byte writeBool writes for true and for false (found %v)", found)) {
		return
	}
	// readBool predicate: BinOp(readUint8 value, const)
	var pred *ssa.BinOp
	core.Instrs(rb, func(in ssa.Instruction) {
		if b, ok := in.(*ssa.BinOp); ok {
			if _, isC := b.Y.(*ssa.Const); isC {
				pred = b
			}
		}
	})
	if pred == nil {
		h.C.Undecided(rule+" read-predicate", "readBool", h.fpos(rb), "cannot find readBool's byte predicate")
		return
	}
	k := pred.Y.(*ssa.Const)
	eval := func(v int64) bool {
		return constant.Compare(constant.MakeInt64(v), pred.Op, constant.ToInt(k.Value))
	}
	ok := eval(written[true]) && !eval(written[false])
	h.C.Check(rule+" round-trip", "writeBool/readBool", ok, h.pos(pred), fmt.Sprintf("writeBool writes %d for true and %d for false; readBool's predicate (b %s %s) maps them to %v and %v", written[true], written[false], pred.Op, k.Value, eval(written[true]), eval(written[false])))
	_ = strings.TrimSpace
}

// commaOkDiscipline (C15.8): the value of a two-result type assertion is a
// nil interface / nil pointer when the assertion failed; calling a method on
// it, or reading through it, is a self-inflicted nil dereference. Every such
// use must lie on the ok edge of a branch on the assertion's second result.
func (h H) commaOkDiscipline(rule string) {
	n := 0
	for _, fn := range h.P.Funcs() {
		if !h.P.InRepo(fn) || fn.Synthetic != "" || strings.HasSuffix(h.P.Position(fn.Pos(), fn).Filename, "trace.go") {
			continue
		}
		core.Instrs(fn, func(in ssa.Instruction) {
			ta, ok := in.(*ssa.TypeAssert)
			if !ok || !ta.CommaOk {
				return
			}
			// only reference-like results can be nil
			switch ta.AssertedType.Underlying().(type) {
			case *types.Interface, *types.Pointer:
			default:
				return
			}
			var val, okv ssa.Value
			for _, r := range *ta.Referrers() {
				if ex, isEx := r.(*ssa.Extract); isEx {
					if ex.Index == 0 {
						val = ex
					} else {
						okv = ex
					}
				}
			}
			if val == nil {
				return
			}
			n++
			// blocks entered only through the ok edge
			var okEntry []*ssa.BasicBlock
			if okv != nil {
				for _, r := range *okv.Referrers() {
					if iff, isIf := r.(*ssa.If); isIf && len(iff.Block().Succs[0].Preds) == 1 {
						okEntry = append(okEntry, iff.Block().Succs[0])
					}
				}
			}
			guarded := func(b *ssa.BasicBlock) bool {
				for _, e := range okEntry {
					if e.Dominates(b) {
						return true
					}
				}
				return false
			}
			site := fmt.Sprintf("%s %s.(%s)", h.name(fn), h.P.Info(fn).Sym(ta.X), types.TypeString(ta.AssertedType, func(p *types.Package) string { return p.Name() }))
			bad := ""
			for _, r := range *val.Referrers() {
				deref := false
				switch u := r.(type) {
				case ssa.CallInstruction:
					c := u.Common()
					if c.IsInvoke() && c.Value == val {
						deref = true
					}
					if !c.IsInvoke() && len(c.Args) > 0 && c.Args[0] == val && c.Signature().Recv() != nil {
						deref = true
					}
				case *ssa.FieldAddr:
					deref = u.X == val
				case *ssa.UnOp:
					deref = u.Op == token.MUL && u.X == val
				}
				if deref && !guarded(r.Block()) {
					bad = fmt.Sprintf("used at %s outside the branch where the assertion succeeded", h.pos(r))
				}
			}
			h.C.Check(rule+" value-used-only-if-ok", site, bad == "", h.pos(ta), bad)
		})
	}
	h.C.Floor(rule+" (two-result assertions to interface/pointer types)", n, 4)
}

// storageErrorsNotLost (C14.7): inside the log package no error of a file,
// mapping or segment operation is dropped: it is returned, or its failure edge
// ends in a non-nil error return. The one deliberate exception (closing the
// segments already opened while Open is failing with an earlier error) is
// listed by name.
func (h H) storageErrorsNotLost(rule string) {
	exempt := map[string]string{
		"log.Open (*log.segment).close": "clean-up while Open is already returning an earlier error",
	}
	n := 0
	for _, fn := range h.P.Funcs() {
		if fn.Pkg == nil || fn.Pkg.Pkg.Path() != core.LogPkg || fn.Synthetic != "" {
			continue
		}
		errIdx := -1
		if res := fn.Signature.Results(); res.Len() > 0 && isErrorType(res.At(res.Len()-1).Type()) {
			errIdx = res.Len() - 1
		}
		k := 0
		core.Instrs(fn, func(in ssa.Instruction) {
			c, ok := in.(*ssa.Call)
			if !ok {
				return
			}
			e, returnsErr := errValueOf(c)
			if !returnsErr {
				return
			}
			callee := calleeLabel(c)
			if f := c.Common().StaticCallee(); f != nil {
				callee = h.name(f)
				if f.Pkg != nil && (f.Pkg.Pkg.Path() == "fmt" || f.Pkg.Pkg.Path() == "errors") {
					return
				}
			}
			k++
			n++
			site := fmt.Sprintf("%s step#%d %s", h.name(fn), k, callee)
			if why, ok := exempt[h.name(fn)+" "+callee]; ok && e == nil {
				h.C.Check(rule+" error-not-lost", site+" (exempt)", true, h.pos(c), "exempt: "+why)
				return
			}
			if e == nil {
				h.C.Check(rule+" error-not-lost", site, false, h.pos(c), "the error result of this storage operation is discarded")
				return
			}
			if errIdx < 0 {
				// a deferred closure hands the error on through the enclosing
				// function's named result
				handed := false
				if fn.Parent() != nil {
					var visit func(v ssa.Value, d int)
					visit = func(v ssa.Value, d int) {
						if d > 4 || v.Referrers() == nil {
							return
						}
						for _, r := range *v.Referrers() {
							switch u := r.(type) {
							case *ssa.Store:
								if _, isFree := u.Addr.(*ssa.FreeVar); isFree && u.Val == v && isErrorType(v.Type()) {
									handed = true
								}
							case *ssa.Phi:
								visit(u, d+1)
							}
						}
					}
					visit(e, 0)
				}
				h.C.Check(rule+" error-not-lost", site, handed, h.pos(c), "a function without an error result performs a fallible storage operation and does not hand the error to its enclosing function's result")
				return
			}
			msg := h.errPathsMode(fn, c, e, errIdx, nil, true)
			h.C.Check(rule+" error-not-lost", site, msg == "", h.pos(c), msg)
		})
	}
	h.C.Floor(rule+" (fallible storage operations in package log)", n, 30)
}

// falseSummaries lists, for a boolean function, the fact sets under which it
// answers false (the negated result relation is added for paths returning a
// comparison).
func (h H) falseSummaries(fn *ssa.Function) ([][]core.Rel, map[string]bool, bool) {
	sim := h.simAll()
	ts := sim.Run(fn)
	if sim.Trunc {
		return nil, nil, false
	}
	uns := map[string]bool{}
	var out [][]core.Rel
	for _, t := range ts {
		if t.Exit != "return" || len(t.Ret) != 1 || t.Ret[0] == "true" {
			continue
		}
		for k := range t.Unsigned {
			uns[k] = true
		}
		f := append([]core.Rel{}, t.Facts...)
		if t.Ret[0] != "false" {
			if t.RetRel == nil {
				return nil, nil, false
			}
			f = append(f, t.RetRel.Negate())
		}
		out = append(out, f)
	}
	return out, uns, true
}

// replyRPCProtocol (C18.2d, C15.4c, C15.6b): replyRPC decodes the body of a
// leader-originated request before handing it to the handler and handles it
// only if decoding succeeded; whenever it signals completion (close(rpc.done))
// it has stored a response or a read error for the connection goroutine; an
// unexpected handler error (a recovered panic: failed assertion, storage
// error) stops the node instead of being answered and forgotten.
func (h H) replyRPCDecodes(rule string) {
	fn := h.fn("raft:(*Raft).replyRPC")
	fi := h.P.Info(fn)
	on := h.fn("raft:(*Raft).onRequest")
	for k, c := range h.P.CallsTo(fn, on) {
		r := fi.MustCross(c, func(a core.Atom) bool {
			if a.Op == "false" && strings.HasPrefix(a.L, "(rpcType).fromLeader(") {
				return true
			}
			return a.Op == "==" && a.R == "nil" && strings.Contains(a.L, "invoke:decode(rpc.req")
		})
		h.C.Check(rule, h.site(fn, on, k), r.OK, h.pos(c), "a leader-originated request can reach its handler without its body having been decoded successfully: "+r.Witness)
	}
	h.C.Floor(rule+" (onRequest calls)", len(h.P.CallsTo(fn, on)), 1)
}

func (h H) replyRPCCompletes(rule string) {
	fn := h.fn("raft:(*Raft).replyRPC")
	fi := h.P.Info(fn)
	n := 0
	core.Instrs(fn, func(in ssa.Instruction) {
		c, ok := in.(*ssa.Call)
		if !ok {
			return
		}
		b, isB := c.Common().Value.(*ssa.Builtin)
		if !isB || b.Name() != "close" || fi.Sym(c.Common().Args[0]).String() != "rpc.done" {
			return
		}
		n++
		r := fi.PrecededBy(c, func(x ssa.Instruction) bool {
			st, ok := x.(*ssa.Store)
			if !ok {
				return false
			}
			a := fi.Sym(st.Addr).String()
			return a == "rpc.resp" || a == "rpc.readErr"
		})
		h.C.Check(rule+" response-before-done", fmt.Sprintf("(*Raft).replyRPC close(rpc.done)#%d", n), r.OK, h.pos(c), "completion is signalled to the connection goroutine with neither a response nor a read error stored: "+r.Witness)
	})
	h.C.Floor(rule+" (close(rpc.done) sites)", n, 3)
}

func (h H) unexpectedErrStops(rule string) {
	fn := h.fn("raft:(*Raft).replyRPC")
	fi := h.P.Info(fn)
	unexp := h.constStr("raft:unexpectedErr")
	n := 0
	for k, r := range core.Returns(fn) {
		if len(h.P.CallsTo(fn, h.fn("raft:(*Raft).onRequest"))) == 0 {
			break
		}
		// returns after the handler ran
		on := h.P.CallsTo(fn, h.fn("raft:(*Raft).onRequest"))[0].(ssa.Instruction)
		if !core.Dominates(on, r) {
			continue
		}
		n++
		res := fi.MustCross(r, func(a core.Atom) bool {
			return a.Implies(core.MkAtom("(*Raft).onRequest(Raft, rpc.req, rpc.conn)#0", "!=", unexp))
		})
		h.C.Check(rule, fmt.Sprintf("(*Raft).replyRPC return#%d", k+1), res.OK, h.pos(r), "replyRPC returns normally although the handler reported unexpectedErr (a recovered panic): the node must stop, not carry on with state the handler left half-updated: "+res.Witness)
	}
	h.C.Floor(rule+" (returns after the handler)", n, 1)
}

// canCommitComplete (C17.6b): canCommit answers false only when the leader
// has not committed the index, the entry is not of the leader's term, or we
// have committed it already.
func (h H) canCommitComplete(rule string) {
	fn := h.fn("raft:(*Raft).canCommit")
	fs, uns, ok := h.falseSummaries(fn)
	if !ok || len(fs) == 0 {
		h.C.Undecided(rule, "(*Raft).canCommit", h.fpos(fn), "cannot summarise canCommit's false paths")
		return
	}
	for i, f := range fs {
		c1 := core.Entails(f, core.Rel{A: "appendReq.ldrCommitIndex", Op: "<", B: "$2"}, uns)
		c2 := core.Entails(f, core.Rel{A: "$3", Op: "!=", B: "appendReq.req.term"}, uns)
		c3 := core.Entails(f, core.Rel{A: "$2", Op: "<=", B: "Raft.commitIndex"}, uns)
		h.C.Check(rule, fmt.Sprintf("(*Raft).canCommit false-path#%d", i+1), c1 || c2 || c3, h.fpos(fn), "canCommit can answer false although the leader committed the index, the entry is of the leader's term and it is beyond our commit index: the follower's commit index (and state machine) would lag for ever when the cluster goes idle")
	}
}

// timeoutNowGrantsPermission (C16.5): a node told to time out now campaigns
// with the transfer permission set, otherwise every follower that still hears
// from the old leader refuses it and the transfer can only time out.
func (h H) timeoutNowGrantsPermission(rule string) {
	fn := h.fn("raft:(*Raft).onTimeoutNowRequest")
	fi := h.P.Info(fn)
	succ := h.constStr("raft:success")
	n := 0
	for k, r := range core.Returns(fn) {
		if fi.Sym(r.Results[0]).String() != succ {
			continue
		}
		n++
		p := fi.PrecededBy(r, func(x ssa.Instruction) bool {
			st, ok := x.(*ssa.Store)
			return ok && fi.Sym(st.Addr).String() == "Raft.cnd.transfer" && fi.Sym(st.Val).String() == "true"
		})
		h.C.Check(rule, fmt.Sprintf("(*Raft).onTimeoutNowRequest return#%d", k+1), p.OK, h.pos(r), "timeoutNow is accepted without giving the coming campaign the transfer permission: "+p.Witness)
	}
	h.C.Floor(rule+" (success returns of onTimeoutNowRequest)", n, 1)
}

// storageErrorsSurface (C06.5 / C05.4 / C10.8): in the raft package, an error
// coming out of the storage layer (segmented log, value files, snapshots, os
// file operations) is never dropped: it is returned, panicked (and converted
// by recoverErr), or its failure edge ends in a non-nil error return / panic.
// Otherwise an append, vote or snapshot could be acknowledged although it
// was never stored.
func (h H) storageErrorsSurface(rule string, exempt map[string]string) {
	isStorageCallee := func(c *ssa.Call) (string, bool) {
		f := c.Common().StaticCallee()
		if f == nil {
			if c.Common().IsInvoke() {
				return "", false
			}
			return "", false
		}
		name := h.name(f)
		if f.Pkg == nil {
			return name, false
		}
		switch f.Pkg.Pkg.Path() {
		case core.LogPkg, core.MmapPkg, "os", "io/ioutil":
			return name, true
		case core.RaftPkg:
			for _, p := range []string{"(*storage).", "(*value).", "(*snapshots).", "(*snapshotSink).", "openValue", "openStorage", "openSnapshots", "findSnapshots", "lockDir", "unlockDir", "(*Raft).compactLog"} {
				if strings.HasPrefix(name, p) {
					return name, true
				}
			}
		}
		return name, false
	}
	n := 0
	for _, fn := range h.P.Funcs() {
		if fn.Pkg == nil || fn.Pkg.Pkg.Path() != core.RaftPkg || fn.Synthetic != "" || strings.HasSuffix(h.P.Position(fn.Pos(), fn).Filename, "trace.go") {
			continue
		}
		errIdx := -1
		if res := fn.Signature.Results(); res.Len() > 0 && isErrorType(res.At(res.Len()-1).Type()) {
			errIdx = res.Len() - 1
		}
		k := 0
		core.Instrs(fn, func(in ssa.Instruction) {
			c, ok := in.(*ssa.Call)
			if !ok {
				return
			}
			e, returnsErr := errValueOf(c)
			if !returnsErr {
				return
			}
			callee, isSt := isStorageCallee(c)
			if !isSt {
				return
			}
			k++
			n++
			site := fmt.Sprintf("%s step#%d %s", h.name(fn), k, callee)
			if why, ok := exempt[h.name(fn)+" "+callee]; ok {
				h.C.Check(rule, site+" (exempt)", true, h.pos(c), "exempt: "+why)
				return
			}
			if e == nil {
				h.C.Check(rule, site, false, h.pos(c), "the error result of this storage operation is discarded")
				return
			}
			if errIdx < 0 && fn.Parent() != nil && storedToFreeErr(e) {
				h.C.Check(rule, site, true, h.pos(c), "handed to the enclosing function's error result")
				return
			}
			msg := h.errPathsMode(fn, c, e, errIdx, nil, true)
			h.C.Check(rule, site, msg == "", h.pos(c), msg)
		})
	}
	h.C.Floor(rule+" (fallible storage operations in package raft)", n, 40)
}

// storedToFreeErr: a deferred closure hands the error on through the
// enclosing function's named error result.
func storedToFreeErr(e ssa.Value) bool {
	handed := false
	var visit func(v ssa.Value, d int)
	visit = func(v ssa.Value, d int) {
		if d > 4 || v.Referrers() == nil {
			return
		}
		for _, r := range *v.Referrers() {
			switch u := r.(type) {
			case *ssa.Store:
				if _, isFree := u.Addr.(*ssa.FreeVar); isFree && u.Val == v && isErrorType(v.Type()) {
					handed = true
				}
			case *ssa.Phi:
				visit(u, d+1)
			}
		}
	}
	visit(e, 0)
	return handed
}

// isRawErrorResult: v is the error result of a call (direct or extracted)
// that is not an error constructor of the fmt / errors packages or of the
// repository (opError, ...): a value that may be nil.
func isRawErrorResult(v ssa.Value) bool {
	var c *ssa.Call
	switch x := v.(type) {
	case *ssa.Call:
		c = x
	case *ssa.Extract:
		c, _ = x.Tuple.(*ssa.Call)
	}
	if c == nil {
		return false
	}
	if f := c.Common().StaticCallee(); f != nil {
		if f.Pkg != nil && (f.Pkg.Pkg.Path() == "fmt" || f.Pkg.Pkg.Path() == "errors") {
			return false
		}
		switch f.Name() {
		case "opError", "recoverErr", "notLeaderError":
			return false
		}
	}
	return true
}

// syncDirSyncs (C05.2c): value.set's durability step. syncDir must fsync the
// directory it was given (the rename of the value file is durable only then)
// on every path that reports success, except on the platform where
// directories cannot be synced.
func (h H) syncDirSyncs(rule string) {
	fn := h.fn("raft:syncDir")
	fi := h.P.Info(fn)
	var sync ssa.Instruction
	core.Instrs(fn, func(in ssa.Instruction) {
		c, ok := in.(*ssa.Call)
		if !ok {
			return
		}
		if f := c.Common().StaticCallee(); f != nil && f.String() == "(*os.File).Sync" && strings.HasPrefix(fi.Sym(c.Common().Args[0]).String(), "os.Open($0)") {
			sync = in
		}
	})
	if !h.C.Check(rule+" fsync-present", "syncDir", sync != nil, h.fpos(fn), "syncDir does not call Sync on the directory it opened") {
		return
	}
	for k, r := range core.Returns(fn) {
		if core.Dominates(sync, r) {
			continue
		}
		// not preceded by the fsync: only the windows early return, or the
		// return of an error that is known to be non-nil on that path (the very
		// value that was tested: a named result that was never assigned is nil)
		rv := fi.Sym(retOperand(r, 0)).String()
		res := fi.MustCross(r, func(a core.Atom) bool {
			if a.Op == "==" && strings.Contains(a.L+a.R, "GOOS") && strings.Contains(a.L+a.R, "windows") {
				return true
			}
			return !isNilConst(retOperand(r, 0)) && a.Op == "!=" && (a.L == rv && a.R == "nil" || a.R == rv && a.L == "nil")
		})
		h.C.Check(rule+" success-implies-fsync", fmt.Sprintf("syncDir return#%d", k+1), res.OK, h.pos(r), "syncDir reports success without having synced the directory: "+res.Witness)
	}
}

// deferredResultOverwrite (C20.3c / C05.6b / C15.6c): a deferred closure that
// assigns to the enclosing function's named error result replaces whatever
// the function was about to return. It may do so only when there is nothing
// to replace (`if err == nil { err = … }`), when it converts a recovered
// panic, or when the new value is built from the old one. Otherwise a refusal
// or a failed write is reported as success (F14: SetIdentity's unlock).
func (h H) deferredResultOverwrite(rule string) {
	n := 0
	for _, fn := range h.P.Funcs() {
		if fn.Parent() != nil || fn.Signature.Results().Len() == 0 {
			continue
		}
		for _, cl := range h.P.DeferredClosures(fn) {
			for _, b := range cl.Blocks {
				for _, in := range b.Instrs {
					st, ok := in.(*ssa.Store)
					if !ok {
						continue
					}
					fv, ok := st.Addr.(*ssa.FreeVar)
					if !ok || !isErrorType(deref(fv.Type())) {
						continue
					}
					// the captured cell is a named result of fn
					if !h.isNamedResultCell(fn, cl, fv) {
						continue
					}
					n++
					okStore := false
					why := "unconditionally"
					// (a) guarded by the cell being nil
					core.DomEdges(b, func(iff *ssa.If, k int) bool {
						bo, isBin := iff.Cond.(*ssa.BinOp)
						if !isBin || (bo.Op != token.EQL && bo.Op != token.NEQ) {
							return false
						}
						var x ssa.Value
						switch {
						case isNilConst(bo.Y):
							x = bo.X
						case isNilConst(bo.X):
							x = bo.Y
						default:
							return false
						}
						if ld, isLd := x.(*ssa.UnOp); isLd && ld.Op == token.MUL && ld.X == ssa.Value(fv) {
							if (bo.Op == token.EQL) == (k == 0) {
								okStore = true
								return true
							}
						}
						// (b) inside `if r := recover(); r != nil`
						if c, isCall := unwrapIface(x).(*ssa.Call); isCall {
							if bi, isB := c.Common().Value.(*ssa.Builtin); isB && bi.Name() == "recover" && (bo.Op == token.NEQ) == (k == 0) {
								okStore = true
								return true
							}
						}
						return false
					})
					// (c) the new value is built from the old one
					if !okStore {
						var from func(v ssa.Value, d int) bool
						from = func(v ssa.Value, d int) bool {
							if d > 5 {
								return false
							}
							switch x := v.(type) {
							case *ssa.UnOp:
								return x.Op == token.MUL && x.X == ssa.Value(fv)
							case *ssa.Call:
								for _, a := range x.Common().Args {
									if from(a, d+1) {
										return true
									}
								}
							case *ssa.MakeInterface:
								return from(x.X, d+1)
							case *ssa.Phi:
								for _, e := range x.Edges {
									if from(e, d+1) {
										return true
									}
								}
							}
							return false
						}
						okStore = from(st.Val, 0)
					}
					h.C.Check(rule, fmt.Sprintf("%s deferred store to result %s", h.name(fn), fv.Name()), okStore, h.pos(st), "a deferred function assigns the named error result "+why+": the error (or refusal) the function was returning is replaced, possibly by nil")
				}
			}
		}
	}
	h.C.Floor(rule+" (deferred stores to named error results)", n, 1)
}

func deref(t types.Type) types.Type {
	if p, ok := t.Underlying().(*types.Pointer); ok {
		return p.Elem()
	}
	return t
}

func unwrapIface(v ssa.Value) ssa.Value {
	for i := 0; i < 4; i++ {
		switch x := v.(type) {
		case *ssa.MakeInterface:
			v = x.X
		case *ssa.ChangeInterface:
			v = x.X
		default:
			return v
		}
	}
	return v
}

// isNamedResultCell: free variable fv of closure cl (created in fn) is bound
// to the cell of one of fn's named results.
func (h H) isNamedResultCell(fn, cl *ssa.Function, fv *ssa.FreeVar) bool {
	idx := -1
	for i, f := range cl.FreeVars {
		if f == fv {
			idx = i
		}
	}
	if idx < 0 {
		return false
	}
	var cell ssa.Value
	core.Instrs(fn, func(in ssa.Instruction) {
		if mc, ok := in.(*ssa.MakeClosure); ok && mc.Fn == ssa.Value(cl) && idx < len(mc.Bindings) {
			cell = mc.Bindings[idx]
		}
	})
	al, ok := cell.(*ssa.Alloc)
	if !ok {
		return false
	}
	res := fn.Signature.Results()
	for i := 0; i < res.Len(); i++ {
		if res.At(i).Name() != "" && res.At(i).Name() == al.Comment {
			return true
		}
	}
	return false
}

// setIdentityRefusal (C20.3d): SetIdentity hands back ErrIdentityAlreadySet
// when a different identity is stored, and val.set's error when writing fails
// — as the value the caller receives, i.e. after the deferred functions ran.
func (h H) setIdentityRefusal(rule string) {
	fn := h.fn("raft:SetIdentity")
	fi := h.P.Info(fn)
	sawRefusal, sawSet := false, false
	for _, r := range core.Returns(fn) {
		v := fi.Sym(retOperand(r, 0)).String()
		if v == "global:ErrIdentityAlreadySet" {
			sawRefusal = true
		}
		if strings.HasPrefix(v, "(*value).set(") {
			sawSet = true
		}
	}
	h.C.Check(rule+" refusal-returned", "SetIdentity", sawRefusal, h.fpos(fn), "SetIdentity must return ErrIdentityAlreadySet when a different identity is stored")
	h.C.Check(rule+" write-error-returned", "SetIdentity", sawSet, h.fpos(fn), "SetIdentity must return the error of writing the identity")
}

// setTermPrecondition (C15.9 / C05.7): storage.setTerm asserts that the term
// grows. An assertion failure is not recovered anywhere — it terminates the
// process — so every call must lie behind a test that the new term exceeds
// the current one, whatever messages and tasks preceded it (F15: bootstrap
// called setTerm(1) on a node that had already adopted a higher term from a
// vote request).
func (h H) setTermPrecondition(rule string) {
	st := h.fn("raft:(*storage).setTerm")
	// a term reported by a replication goroutine: the comparison was made by
	// the peer (it answered staleTerm, which its handlers do only for
	// req.term < their term, C04.6/C17.1b), req.term is this leadership's term
	// and the update channel does not outlive the leadership (C15.4d)
	viaPeer := map[string]bool{"(*leader).checkReplUpdates": true}
	n := 0
	for _, fn := range h.P.Funcs() {
		for k, c := range h.P.CallsTo(fn, st) {
			if c.Parent() != fn {
				continue
			}
			n++
			fi := h.P.Info(fn)
			args := c.Common().Args
			if len(args) != 2 {
				continue
			}
			recv, arg := fi.Sym(args[0]).String(), fi.Sym(args[1]).String()
			want := core.MkAtom(arg, ">", recv+".term")
			r := fi.MustCross(c.(ssa.Instruction), func(a core.Atom) bool { return a.Implies(want) })
			if !r.OK && viaPeer[h.name(fn)] && strings.Contains(arg, "assert[newTerm]") {
				h.C.Check(rule, h.site(fn, st, k)+" (term reported by a peer)", true, h.pos(c.(ssa.Instruction)), "accepted: newTerm updates are produced only for staleTerm answers (checked below)")
				// the peer compared with this leadership's term, which the call
				// has just left behind: no second update may be consumed after it
				// (another follower's newTerm, possibly lower, is queued behind)
				more := consumesAfter(c.(ssa.Instruction))
				h.C.Check(rule+" nothing-consumed-after-stepping-down", h.site(fn, st, k), more == nil, h.pos(c.(ssa.Instruction)), "after adopting a term reported by a replication the function goes on consuming queued updates (a second newTerm with a lower term reaches setTerm's assertion; a match index is booked by an ex-leader)"+posOf(h, more))
				continue
			}
			h.C.Check(rule, h.site(fn, st, k), r.OK, h.pos(c.(ssa.Instruction)), "setTerm("+arg+") is reachable without "+want.String()+": its assertion would terminate the process: "+r.Witness)
		}
	}
	h.C.Floor(rule+" (calls of storage.setTerm)", n, 5)
	// producers of newTerm updates: only behind result == staleTerm, carrying the peer's term
	nl := h.fn("raft:(*replication).notifyLdr")
	stale := h.constStr("raft:staleTerm")
	m := 0
	for _, fn := range h.P.Funcs() {
		fi := h.P.Info(fn)
		for k, c := range h.P.CallsTo(fn, nl) {
			if c.Parent() != fn || len(c.Common().Args) != 2 || !strings.HasPrefix(fi.Sym(c.Common().Args[1]).String(), "new:newTerm") {
				continue
			}
			m++
			r := fi.MustCross(c.(ssa.Instruction), func(a core.Atom) bool {
				return a.Op == "==" && (a.R == stale && strings.HasSuffix(a.L, ".result") || a.L == stale && strings.HasSuffix(a.R, ".result"))
			})
			h.C.Check(rule+" newTerm-only-for-staleTerm", h.site(fn, nl, k), r.OK, h.pos(c.(ssa.Instruction)), "a newTerm update is sent to the leader for an answer that is not staleTerm: "+r.Witness)
		}
	}
	h.C.Floor(rule+" (newTerm producers)", m, 2)
}

// consumesAfter: a channel receive (plain or in a select) that can execute
// after instruction `from` in its function, or nil.
func consumesAfter(from ssa.Instruction) ssa.Instruction {
	b := from.Block()
	start := 0
	for i, in := range b.Instrs {
		if in == from {
			start = i + 1
		}
	}
	seen := map[*ssa.BasicBlock]bool{}
	var scan func(b *ssa.BasicBlock, i int) ssa.Instruction
	scan = func(b *ssa.BasicBlock, i int) ssa.Instruction {
		for ; i < len(b.Instrs); i++ {
			switch x := b.Instrs[i].(type) {
			case *ssa.Select:
				for _, st := range x.States {
					if st.Dir == types.RecvOnly {
						return x
					}
				}
			case *ssa.UnOp:
				if x.Op == token.ARROW {
					return x
				}
			case *ssa.Return, *ssa.Panic:
				return nil
			}
		}
		for _, s := range b.Succs {
			if !seen[s] {
				seen[s] = true
				if r := scan(s, 0); r != nil {
					return r
				}
			}
		}
		return nil
	}
	return scan(b, start)
}

func posOf(h H, in ssa.Instruction) string {
	if in == nil {
		return ""
	}
	return ": receive at " + h.pos(in)
}
