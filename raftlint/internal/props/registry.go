// Package props holds the per-property obligation sets (DESIGN.md §3).
package props

import (
	"sort"

	"raftlint/internal/core"
)

// Property is one registered check.
type Property struct {
	ID          string
	Run         func(c *core.Ctx)
	Explanation string
	Assumptions []string
}

var registry = map[string]*Property{}

func register(p *Property) { registry[p.ID] = p }

func Get(id string) *Property { return registry[id] }

func IDs() []string {
	var out []string
	for k := range registry {
		out = append(out, k)
	}
	sort.Strings(out)
	return out
}

var commonAssumptions = []string{
	"go/types, go/ssa and the VTA call graph of golang.org/x/tools v0.29.0 represent the program faithfully",
	"package raft uses neither unsafe nor reflect (checked on every run), so fields are only reached through named selectors",
	"function-valued test hooks (tracer.*, grantingVote) do not mutate protocol state",
	"64-bit unsigned overflow of terms and indices is not considered",
	"only the structural clauses listed under clauses_decided are decided; the behavioural property as a whole is not",
}
