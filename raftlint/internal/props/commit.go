package props

import (
	"fmt"
	"strings"

	"golang.org/x/tools/go/ssa"

	"raftlint/internal/core"
)

// Leader / follower commit rules shared by C02, C06, C11, C19.

// leaderCommitRule (C02.2): leader.setCommitIndex is called only from
// onMajorityCommit with the value of majorityMatchIndex(), under
// v > commitIndex && v >= startIndex; startIndex is lastLogIndex+1 taken in
// init before anything is appended.
func (h H) leaderCommitRule(rule string) {
	h.onlyCallers(rule+" who-may-call", "raft:(*leader).setCommitIndex", "(*leader).onMajorityCommit")
	h.onlyCallers(rule+" who-may-call", "raft:(*Raft).setCommitIndex", "(*leader).setCommitIndex", "(*Raft).onAppendEntriesRequest", "(*Raft).onInstallSnapRequest")
	h.installCommitsWhatItKeeps(rule + " install-commit")
	omc := h.fn("raft:(*leader).onMajorityCommit")
	lsc := h.fn("raft:(*leader).setCommitIndex")
	mmi := h.fn("raft:(*leader).majorityMatchIndex")
	calls := h.P.CallsTo(omc, lsc)
	for k, c := range calls {
		arg := h.arg(c, 1)
		site := h.site(omc, lsc, k)
		isMMI := false
		if call, ok := arg.Val.(*ssa.Call); ok && call.Common().StaticCallee() == mmi {
			isMMI = true
		}
		h.C.Check(rule+" value", site, isMMI, h.pos(c), "leader commit index must be the value returned by majorityMatchIndex(); found "+arg.String())
		if isMMI {
			h.gate(rule+" guard v>commitIndex", site, c, core.MkAtom(arg.String(), ">", "leader.Raft.commitIndex"))
			h.gate(rule+" guard v>=startIndex", site, c, core.MkAtom(arg.String(), ">=", "leader.startIndex"))
		}
	}
	h.C.Floor(rule+" (setCommitIndex calls in onMajorityCommit)", len(calls), 1)

	// startIndex: written only in init, as lastLogIndex+1, before anything can append
	init := h.fn("raft:(*leader).init")
	sites := h.onlyWriters(rule+" startIndex-writer", "raft:leader.startIndex", "(*leader).init")
	for _, s := range sites {
		fi := h.P.Info(s.Fn)
		val := fi.Sym(storeVal(s.Instr)).String()
		ok := val == "(leader.Raft.storage.lastLogIndex + 1)"
		h.C.Check(rule+" startIndex-value", "(*leader).init store startIndex", ok, h.pos(s.Instr), "startIndex must be lastLogIndex+1; found "+val)
		// nothing before the store may append (write lastLogIndex)
		lli := h.P.Field("raft:storage.lastLogIndex")
		pre := fi.PrecededBy(s.Instr, func(in ssa.Instruction) bool {
			if ci, ok := in.(ssa.CallInstruction); ok {
				for _, c := range h.P.CalleesOf(ci) {
					if h.P.ModSet(c)[lli] {
						return true
					}
				}
			}
			return false
		})
		// PrecededBy OK means an appending call dominates the store => bad; we want the opposite
		appendBefore := false
		core.Instrs(init, func(in ssa.Instruction) {
			if ci, ok := in.(ssa.CallInstruction); ok && core.Dominates(in, s.Instr) {
				for _, c := range h.P.CalleesOf(ci) {
					if h.P.ModSet(c)[lli] {
						appendBefore = true
					}
				}
			}
		})
		_ = pre
		h.C.Check(rule+" startIndex-before-append", "(*leader).init store startIndex", !appendBefore && s.Instr.Block().Index == 0, h.pos(s.Instr), "startIndex must be taken before the no-op entry (or anything else) is appended")
	}
}

// majorityOverVoters (C02.3 / C06.3 / C11.2): the match-index array only
// receives voters of the latest configuration, the leader's own last index
// only under n.ID == nid, the result is the (i/2)-th largest, and the
// single-voter shortcut requires numVoters == 1 && node.Voter.
func (h H) majorityOverVoters(rule string) {
	fn := h.fn("raft:(*leader).majorityMatchIndex")
	fi := h.P.Info(fn)
	const nodes = "leader.Raft.storage.configs.Latest.Nodes"
	// range variable (named like the range value when it is a plain copy of it)
	nVar := h.rangeVar(fn, nodes)
	var counter string
	nStores := 0
	var sliceName string
	core.Instrs(fn, func(in ssa.Instruction) {
		st, ok := in.(*ssa.Store)
		if !ok {
			return
		}
		ia, ok := st.Addr.(*ssa.IndexAddr)
		if !ok {
			return
		}
		if _, isMk := ia.X.(*ssa.MakeSlice); !isMk {
			return
		}
		nStores++
		sliceName = fi.Sym(ia.X).String()
		construct := fmt.Sprintf("(*leader).majorityMatchIndex matched[]-store#%d", nStores)
		h.gate(rule+" voters-only", construct, st, core.BoolAtom(nVar+".Voter", true))
		idx := fi.Sym(ia.Index).String()
		if counter == "" {
			counter = idx
		} else if counter != idx {
			h.C.Check(rule+" single-counter", construct, false, h.pos(st), "match indexes are stored under different counters: "+counter+" vs "+idx)
		}
		val := fi.Sym(st.Val).String()
		switch {
		case val == "leader.Raft.storage.lastLogIndex":
			h.gate(rule+" self-entry", construct, st, core.MkAtom("leader.Raft.storage.nid", "==", nVar+".ID"))
		case val == "leader.repls["+nVar+".ID].status.matchIndex":
			h.C.Check(rule+" follower-entry", construct, true, h.pos(st), "follower match index of the same node")
		default:
			h.C.Check(rule+" entry-source", construct, false, h.pos(st), "value counted towards the majority is neither the leader's last index nor the node's own match index: "+val)
		}
	})
	h.C.Floor(rule+" (stores into matched[])", nStores, 2)
	// counter increments by exactly one per stored voter: phi(0, self, counter+1)
	okCounter := strings.HasPrefix(counter, "phi(0, ")
	h.C.Check(rule+" counter", "(*leader).majorityMatchIndex counter", okCounter, h.fpos(fn), "voter counter must start at 0 and be advanced per voter; found "+counter)
	// returns
	nSort := 0
	core.Instrs(fn, func(in ssa.Instruction) {
		if c, ok := in.(*ssa.Call); ok {
			if f := c.Common().StaticCallee(); f != nil && f.String() == "sort.Sort" {
				nSort++
			}
		}
	})
	for k, r := range core.Returns(fn) {
		e := fi.Sym(r.Results[0])
		construct := fmt.Sprintf("(*leader).majorityMatchIndex return#%d", k+1)
		if e.String() == "leader.Raft.storage.lastLogIndex" {
			h.gate(rule+" shortcut numVoters==1", construct, r, core.MkAtom("leader.numVoters", "==", "1"))
			h.gate(rule+" shortcut leader-is-voter", construct, r, core.BoolAtom("leader.node.Voter", true))
			continue
		}
		if e.Op == "idx" && e.Args[0].String() == sliceName {
			base, den, off, add, ok := core.LinNorm(e.Args[1])
			good := ok && den == 2 && off == 0 && add == 0 && strings.HasPrefix(base, "phi(0, ")
			h.C.Check(rule+" quorum-index", construct, good, h.pos(r), fmt.Sprintf("majority index must be matched[i/2] of the descending order (i = number of voters); found index %s (normal form floor((%s+%d)/%d)%+d)", e.Args[1], base, off, den, add))
			// sorted before
			sorted := false
			core.Instrs(fn, func(in ssa.Instruction) {
				if c, ok := in.(*ssa.Call); ok {
					if f := c.Common().StaticCallee(); f != nil && f.String() == "sort.Sort" && core.Dominates(c, r) {
						sorted = true
					}
				}
			})
			h.C.Check(rule+" sorted", construct, sorted, h.pos(r), "match indexes must be sorted (descending) before the quorum element is taken")
			continue
		}
		h.C.Check(rule+" result", construct, false, h.pos(r), "unrecognised result of majorityMatchIndex: "+e.String())
	}
	// descending order: decrUint64Slice.Less is s[i] > s[j]
	less := h.fn("raft:(decrUint64Slice).Less")
	lfi := h.P.Info(less)
	okLess := false
	for _, r := range core.Returns(less) {
		if lfi.Sym(r.Results[0]).String() == "($0[$1] > $0[$2])" {
			okLess = true
		}
	}
	h.C.Check(rule+" descending-order", "(decrUint64Slice).Less", okLess, h.fpos(less), "decrUint64Slice.Less must be s[i] > s[j]")
	// the slice handed to sort is a decrUint64Slice (type of makeslice)
	core.Instrs(fn, func(in ssa.Instruction) {
		if mk, ok := in.(*ssa.MakeSlice); ok {
			h.C.Check(rule+" slice-type", "(*leader).majorityMatchIndex matched type", strings.HasSuffix(mk.Type().String(), "decrUint64Slice"), h.pos(mk), "matched must be a decrUint64Slice, found "+mk.Type().String())
		}
	})
}

// quorumArithmetic: Config.quorum() == numVoters()/2+1 and numVoters counts n.Voter.
func (h H) quorumArithmetic(rule string) {
	q := h.fn("raft:(Config).quorum")
	qi := h.P.Info(q)
	ok := false
	var found string
	for _, r := range core.Returns(q) {
		e := qi.Sym(r.Results[0])
		base, den, off, add, good := core.LinNorm(e)
		found = e.String()
		if good && den == 2 && off == 0 && add == 1 && strings.HasPrefix(base, "(Config).numVoters(") {
			ok = true
		}
	}
	h.C.Check(rule+" quorum", "(Config).quorum", ok, h.fpos(q), "quorum must be numVoters()/2+1; found "+found)
	nv := h.fn("raft:(Config).numVoters")
	ni := h.P.Info(nv)
	// the counter is incremented only under n.Voter of the ranged Nodes
	n := 0
	core.Instrs(nv, func(in ssa.Instruction) {
		if b, ok := in.(*ssa.BinOp); ok && b.Op.String() == "+" {
			n++
			nvar := h.rangeVar(nv, "Config.Nodes")
			r := ni.MustCross(b, func(a core.Atom) bool { return a.Op == "true" && a.L == nvar+".Voter" })
			h.C.Check(rule+" numVoters", "(Config).numVoters increment", r.OK, h.pos(b), "voter count incremented without testing n.Voter of Config.Nodes: "+r.Witness)
		}
	})
	h.C.Floor(rule+" (numVoters increments)", n, 1)
}

// canCommitSummary (C02.4): a true result of canCommit implies
// ldrCommitIndex >= index, term == req.term, index > commitIndex.
func (h H) canCommitSummary(rule string) {
	fn := h.fn("raft:(*Raft).canCommit")
	sim := h.simAll()
	sums, uns, ok := sim.TrueSummary(fn)
	if !ok || len(sums) == 0 {
		h.C.Undecided(rule, "(*Raft).canCommit", h.fpos(fn), "cannot summarise canCommit (not loop-free or no true path)")
		return
	}
	for i, f := range sums {
		c1 := core.Entails(f, core.Rel{A: "appendReq.ldrCommitIndex", Op: ">=", B: "$2"}, uns)
		c2 := core.Entails(f, core.Rel{A: "$3", Op: "==", B: "appendReq.req.term"}, uns)
		c3 := core.Entails(f, core.Rel{A: "$2", Op: ">", B: "Raft.commitIndex"}, uns)
		h.C.Check(rule, fmt.Sprintf("(*Raft).canCommit true-path#%d", i+1), c1 && c2 && c3, h.fpos(fn),
			fmt.Sprintf("canCommit may return true without: leader committed it (%v), entry term == leader term (%v), index > commitIndex (%v)", c1, c2, c3))
	}
}

// followerCommitSites (C02.4): both Raft.setCommitIndex calls in the append
// handler are guarded by canCommit(req, X, T) for the same X.
func (h H) followerCommitSites(rule string) {
	fn := h.fn("raft:(*Raft).onAppendEntriesRequest")
	sci := h.fn("raft:(*Raft).setCommitIndex")
	calls := h.callsDeep(fn, sci)
	for k, c := range calls {
		x := h.argStr(c, 1)
		site := h.site(fn, sci, k)
		fi := h.P.Info(c.Parent())
		// find a canCommit(Raft, appendReq, x, T) true edge on every path
		r := fi.MustCross(c, func(a core.Atom) bool {
			return a.Op == "true" && strings.HasPrefix(a.L, "(*Raft).canCommit(Raft, appendReq, "+x+", ")
		})
		h.C.Check(rule, site, r.OK, h.pos(c), "commit index advanced to "+x+" without canCommit(req, "+x+", term) on the path: "+r.Witness)
	}
	h.C.Floor(rule+" (setCommitIndex calls in append handler)", len(calls), 2)
}

// startIndexFirst (C08.2c): leader.init records startIndex (the first index
// of the new term) before anything that reads it runs: canChangeConfig's
// "an entry of this term is committed" test and the commit rule compare
// against it, and init itself re-evaluates pending configuration actions.
func (h H) startIndexFirst(rule string) {
	init := h.fn("raft:(*leader).init")
	readers := []*ssa.Function{h.fn("raft:(*leader).canChangeConfig"), h.fn("raft:(*leader).onMajorityCommit"), h.fn("raft:(*leader).setCommitIndex")}
	var store ssa.Instruction
	for _, s := range h.P.StoresTo(h.P.Field("raft:leader.startIndex")) {
		if core.Root(s.Fn) == init {
			store = s.Instr
		}
	}
	if !h.C.Check(rule+" startIndex-set", "(*leader).init", store != nil, h.fpos(init), "leader.init must record startIndex") {
		return
	}
	n := 0
	k := 0
	h.P.InstrsScope(init, func(in ssa.Instruction) {
		ci, ok := in.(ssa.CallInstruction)
		if !ok || in.Parent() != init {
			return
		}
		reads := false
		for _, c := range h.P.CalleesOf(ci) {
			reach := h.P.Reachable(c)
			for _, r := range readers {
				if reach[r] || c == r {
					reads = true
				}
			}
		}
		if !reads {
			return
		}
		n++
		k++
		h.C.Check(rule+" startIndex-before-readers", fmt.Sprintf("(*leader).init call#%d %s", k, calleeLabelOf(ci)), core.Dominates(store, in), h.pos(in), "runs before leader.startIndex is set for this term: the commit-ready test would use the previous leadership's value (0 for a first-time leader)")
	})
	h.C.Floor(rule+" (calls in init that read startIndex)", n, 1)
}

func calleeLabelOf(ci ssa.CallInstruction) string {
	if f := ci.Common().StaticCallee(); f != nil {
		return f.Name()
	}
	return "dynamic"
}

// installCommitsWhatItKeeps: the install handler is the third place that
// moves the commit index. Where it keeps its log (the log holds the snapshot's
// last entry with the same term) the entries up to the snapshot index are
// committed: it commits exactly that index — above the old commit index by
// the stale-snapshot guard — hands the entries to the state machine and waits
// for it, and only then compacts (F22). Whatever it does to the log (compact
// or discard) happens after a round trip through the state machine's queue,
// so that no queued apply request still reads the segments being closed (F20).
func (h H) installCommitsWhatItKeeps(rule string) {
	fn := h.fn("raft:(*Raft).onInstallSnapRequest")
	fi := h.P.Info(fn)
	sci := h.fn("raft:(*Raft).setCommitIndex")
	ac := h.fn("raft:(*Raft).applyCommitted")
	la := h.fn("raft:(*Raft).lastApplied")
	cl := h.fn("raft:(*Raft).compactLog")
	clr := h.fn("raft:(*storage).clearLog")
	isSnapIdx := func(s string) bool { return strings.Contains(s, "(*snapshotSink).done(") && strings.HasSuffix(s, "#0.index") }
	newer := core.MkAtom("installSnapReq.lastIndex", ">", "Raft.commitIndex")
	commits := h.P.CallsTo(fn, sci)
	for k, c := range commits {
		site := h.site(fn, sci, k)
		arg := h.argStr(c, 1)
		h.C.Check(rule+" commits-snapshot-index", site, isSnapIdx(arg), h.pos(c), "the install handler may commit only the published snapshot's index; found "+core.Short(arg, 160))
		h.gateLoose(rule+" only-forward", site, c, newer)
		r := fi.MustCross(c.(ssa.Instruction), func(a core.Atom) bool {
			return a.Op == "==" && (strings.HasSuffix(a.L, "#0.term") && strings.Contains(a.R, "(*storage).getEntryTerm(") || strings.HasSuffix(a.R, "#0.term") && strings.Contains(a.L, "(*storage).getEntryTerm("))
		})
		h.C.Check(rule+" only-when-log-matches", site, r.OK, h.pos(c), "the install handler commits the snapshot index although its own entry at that index may have another term: "+r.Witness)
	}
	// F22: compaction in the handler only after commit -> apply -> wait
	nC := 0
	for k, c := range h.P.CallsTo(fn, cl) {
		nC++
		site := h.site(fn, cl, k)
		ok := false
		for _, s := range commits {
			if h.argStr(s, 1) != h.argStr(c, 1) || !core.Dominates(s.(ssa.Instruction), c.(ssa.Instruction)) {
				continue
			}
			for _, a := range h.P.CallsTo(fn, ac) {
				if !core.Dominates(s.(ssa.Instruction), a.(ssa.Instruction)) {
					continue
				}
				for _, w := range h.P.CallsTo(fn, la) {
					if core.Dominates(a.(ssa.Instruction), w.(ssa.Instruction)) && core.Dominates(w.(ssa.Instruction), c.(ssa.Instruction)) {
						ok = true
					}
				}
			}
		}
		h.C.Check(rule+" applied-before-compacted", site, ok, h.pos(c), "the install handler compacts entries away that the state machine may not have applied: setCommitIndex(snapshot index), applyCommitted and a wait for the state machine (lastApplied) must precede compactLog of that index")
	}
	h.C.Floor(rule+" (compactLog in the install handler)", nC, 1)
	// F20: the state machine's queue is drained before segments are closed
	nB := 0
	for _, spec := range []*ssa.Function{cl, clr} {
		for k, c := range h.P.CallsTo(fn, spec) {
			nB++
			r := fi.PrecededBy(c.(ssa.Instruction), func(in ssa.Instruction) bool { return h.P.IsCallTo(in, la) })
			h.C.Check(rule+" state-machine-drained", h.site(fn, spec, k), r.OK, h.pos(c), "the log is reset or compacted while apply requests that read its segments may still be queued for the state machine: "+r.Witness)
		}
	}
	h.C.Floor(rule+" (log resets/compactions in the install handler)", nB, 2)
}
