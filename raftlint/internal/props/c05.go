package props

import (
	"fmt"

	"golang.org/x/tools/go/ssa"

	"raftlint/internal/core"
)

func init() {
	register(&Property{ID: "C05", Run: runC05, Assumptions: append([]string{
		"os.Rename is atomic and a synced directory survives a crash (file-system model, not decided)"}, commonAssumptions...),
		Explanation: "Structural necessary conditions of 'one durable vote per term; term never goes backwards': vote-handler post-conditions by path-sensitive ordering dataflow (E3), persist-then-publish order inside setTerm/setVotedFor/value.set, sole writers of term/vote, the reply being produced only after the deferred persist and a failed persist surfacing as unexpectedErr, candidate self-vote before any request is sent. What a crash does to the file system is not decided."})
}

func runC05(c *core.Ctx) {
	h := newH(c)
	h.assertIdiom("C05.idiom assert-panics")
	vt := h.runVoteHandler()
	if h.voteSanity("C05.vote-engine", vt) {
		c.Clause("C05.1 vote handler: success reply => (term,votedFor) persisted = (req.term, req.src); at most one vote per term; term monotone (E3)")
		h.voteGrantPost("C05.1a vote-grant-postcondition", vt)
		h.voteOncePerTerm("C05.1b one-vote-per-term", vt)
	}
	c.Clause("C05.2 persist-then-publish inside setTerm/setVotedFor/value.set, with monotone guard")
	h.setterPersistThenPublish("C05.2a persist-then-publish", "raft:(*storage).setTerm", ">")
	h.setterPersistThenPublish("C05.2a persist-then-publish", "raft:(*storage).setVotedFor", ">=")
	h.valueSetOrder("C05.2b value.set order")
	h.syncDirSyncs("C05.2c syncDir")
	c.Clause("C05.3 sole writers of storage.term/votedFor and sole callers of termVal.set")
	h.termVoteWriters("C05.3 sole-writers")
	c.Clause("C05.4 reply produced after the durable write; failed persist => unexpectedErr")
	h.replyAfterPersist("C05.4 reply-after-persist")
	c.Clause("C05.5 candidate persists term+1 and its self vote before any vote request is sent")
	h.selfVoteBeforeCampaign("C05.5 self-vote-first")
	h.storageErrorsSurface("C05.6 storage-errors-surface", storageErrExempt)
	h.openStorageLoads("C05.7 restart-loads", "term")
	h.settersSkipJustified("C05.8 setter-skip-justified")
	h.dirListingLiteral("C05.9 dir-listing")
	c.Clause("C05.10 every answer to a request is the answer of that request's handler (the dispatcher has no fast path)")
	h.dispatcherHandsOver("C05.10 dispatcher")
}

// setterPersistThenPublish: in setTerm / setVotedFor every store to
// storage.term/votedFor is preceded by a successful termVal.set with the same
// values, guarded by a monotonicity check; a failed persist never returns.
func (h H) setterPersistThenPublish(rule, spec, cmp string) {
	fn := h.fn(spec)
	name := h.name(fn)
	sim := h.simAll()
	ts := sim.Run(fn)
	if sim.Trunc {
		h.C.Undecided(rule, name, h.fpos(fn), "setter is not loop-free")
		return
	}
	nStore := 0
	for _, t := range ts {
		if t.Exit != "return" {
			continue
		}
		key := name + " path[" + t.Describe() + "]"
		iSet := evIndex(t, isCall("(*value).set"))
		iT := evIndex(t, isStoreTo("storage.term"))
		iV := evIndex(t, isStoreTo("storage.votedFor"))
		if iT < 0 && iV < 0 {
			// no publish on this path; a persist without publish would desynchronise the cache
			h.C.Check(rule, key, iSet < 0, t.ExitPos, "termVal.set succeeded on a returning path that does not update storage.term/votedFor (cache diverges from disk)")
			continue
		}
		nStore++
		if iSet < 0 || iT < 0 || iV < 0 || iSet > iT || iSet > iV {
			h.C.Check(rule, key, false, t.ExitPos, "storage.term/votedFor are updated without (or before) a preceding termVal.set on this path")
			continue
		}
		set := t.Events[iSet]
		okRecv := set.Args[0] == "storage.termVal"
		okNil := len(set.Results) == 1 && t.Entails(set.Results[0], "==", "nil")
		okVals := t.Events[iT].Args[1] == set.Args[1] && t.Events[iV].Args[1] == set.Args[2]
		okMono := t.EntailsAt(set, set.Args[1], cmp, "storage.term")
		h.C.Check(rule, key, okRecv && okNil && okVals && okMono, t.ExitPos,
			fmt.Sprintf("persist-then-publish broken: set on termVal=%v, set result proven nil=%v, published values equal persisted values=%v, monotone guard (new %s old) proven=%v", okRecv, okNil, okVals, cmp, okMono))
	}
	h.C.Floor(rule+" ("+name+" publishing paths)", nStore, 1)
}

// valueSetOrder: rename -> directory sync -> in-memory update -> return nil.
func (h H) valueSetOrder(rule string) {
	fn := h.fn("raft:(*value).set")
	sim := h.simAll()
	ts := sim.Run(fn)
	if sim.Trunc {
		h.C.Undecided(rule, "(*value).set", h.fpos(fn), "not loop-free")
		return
	}
	n := 0
	for _, t := range ts {
		if t.Exit != "return" || len(t.Ret) != 1 {
			continue
		}
		key := "(*value).set path[" + t.Describe() + "]"
		iR := evIndex(t, isCall("os.Rename"))
		iS := evIndex(t, isCall("syncDir"))
		i1 := evIndex(t, isStoreTo("value.v1"))
		i2 := evIndex(t, isStoreTo("value.v2"))
		if !t.Entails(t.Ret[0], "==", "nil") {
			// error return: the in-memory pair must be untouched
			h.C.Check(rule, key, i1 < 0 && i2 < 0, t.ExitPos, "value.set returns an error after updating v1/v2 in memory")
			continue
		}
		if iR < 0 {
			// success without rename: only legal when nothing changes
			ok := i1 < 0 && i2 < 0 && t.Entails("$1", "==", "value.v1") && t.Entails("$2", "==", "value.v2")
			h.C.Check(rule, key, ok, t.ExitPos, "value.set returns nil without renaming although the value may differ from the stored one")
			continue
		}
		n++
		ren := t.Events[iR]
		ok := iS > iR && i1 > iS && i2 > iS
		okRes := len(ren.Results) == 1 && t.Entails(ren.Results[0], "==", "nil") && iS >= 0 && len(t.Events[iS].Results) == 1 && t.Entails(t.Events[iS].Results[0], "==", "nil")
		okVals := i1 >= 0 && i2 >= 0 && t.Events[i1].Args[1] == "$1" && t.Events[i2].Args[1] == "$2"
		// rename arguments are valueFile(dir, ext, old pair) -> valueFile(dir, ext, new pair)
		okArgs := false
		var vf []core.Event
		for _, e := range t.Events[:iR] {
			if e.Callee == "valueFile" {
				vf = append(vf, e)
			}
		}
		if len(vf) == 2 && len(vf[0].Results) == 1 && len(vf[1].Results) == 1 {
			find := func(res string) *core.Event {
				for i := range vf {
					if vf[i].Results[0] == res {
						return &vf[i]
					}
				}
				return nil
			}
			from, to := find(ren.Args[0]), find(ren.Args[1])
			if from != nil && to != nil {
				okArgs = from.Args[2] == "value.v1" && from.Args[3] == "value.v2" && to.Args[2] == "$1" && to.Args[3] == "$2" &&
					from.Args[0] == to.Args[0] && from.Args[1] == to.Args[1]
			}
		}
		okDir := iS >= 0 && t.Events[iS].Args[0] == "value.dir"
		h.C.Check(rule, key, ok && okRes && okVals && okArgs && okDir, t.ExitPos,
			fmt.Sprintf("value.set success path must be rename(old->new) ; syncDir(dir) ; v1,v2 := new: order ok=%v, both results proven nil=%v, stored values are the arguments=%v, rename arguments are (current pair -> new pair)=%v, syncs the value's directory=%v", ok, okRes, okVals, okArgs, okDir))
	}
	h.C.Floor(rule+" (renaming paths)", n, 1)
}

func (h H) termVoteWriters(rule string) {
	h.onlyWriters(rule, "raft:storage.term", "(*storage).setTerm", "(*storage).setVotedFor", "openStorage")
	h.onlyWriters(rule, "raft:storage.votedFor", "(*storage).setTerm", "(*storage).setVotedFor", "openStorage")
	h.onlyWriters(rule, "raft:storage.termVal", "openStorage")
	h.onlyWriters(rule, "raft:value.v1", "(*value).set", "openValue")
	h.onlyWriters(rule, "raft:value.v2", "(*value).set", "openValue")
	// value.set on termVal only from the two setters; on idVal only from SetIdentity
	set := h.fn("raft:(*value).set")
	n := 0
	for _, s := range h.P.Callers(set) {
		n++
		root := h.name(core.Root(s.Fn))
		recv := h.argStr(s.Instr.(ssa.CallInstruction), 0)
		ok := (root == "(*storage).setTerm" || root == "(*storage).setVotedFor") && recv == "storage.termVal" || root == "SetIdentity"
		h.C.Check(rule, "call (*value).set in "+root, ok, h.pos(s.Instr), "value.set may only be called by setTerm/setVotedFor (on termVal) and SetIdentity; receiver here: "+recv)
	}
	h.C.Floor(rule+" (callers of value.set)", n, 3)
}

// replyAfterPersist: the reply object is created only after onRequest
// returned; a panic inside the handler is converted to unexpectedErr.
func (h H) replyAfterPersist(rule string) {
	// (that a success reply is preceded by exactly one persist, as the last effect, is decided by C05.1a on every path)
	// createResp for RPC replies is called in replyRPC only after onRequest returned
	reply := h.fn("raft:(*Raft).replyRPC")
	onReq := h.fn("raft:(*Raft).onRequest")
	create := h.fn("raft:(rpcType).createResp")
	reqCalls := h.P.CallsTo(reply, onReq)
	h.C.Check(rule, "(*Raft).replyRPC calls onRequest once", len(reqCalls) == 1, h.fpos(reply), fmt.Sprintf("found %d calls", len(reqCalls)))
	if len(reqCalls) == 1 {
		fi := h.P.Info(reply)
		for k, cc := range h.P.CallsTo(reply, create) {
			// the identity replies are built before; every other createResp must use onRequest's result
			resArg := fi.Sym(cc.Common().Args[2]).String()
			if !core.Dominates(reqCalls[0].(ssa.Instruction), cc.(ssa.Instruction)) {
				// must be an identity reply: constant result
				// (every value the result can take: the two constants, chosen directly or through a local)
				okc := true
				for _, lf := range h.leavesAt(cc.Common().Args[2], cc.(ssa.Instruction), 0) {
					v := fi.Sym(lf.V).String()
					if v != h.constStr("raft:identityMismatch") && v != h.constStr("raft:success") {
						okc = false
					}
				}
				recv := fi.Sym(cc.Common().Args[0]).String()
				h.C.Check(rule, fmt.Sprintf("(*Raft).replyRPC createResp#%d", k+1), okc && recv == h.constStr("raft:rpcIdentity"), h.pos(cc), "a reply is created before onRequest returned and is not an identity reply")
				continue
			}
			onReqRes := fi.Sym(reqCalls[0].(*ssa.Call)).String() + "#0"
			h.C.Check(rule, fmt.Sprintf("(*Raft).replyRPC createResp#%d", k+1), resArg == onReqRes, h.pos(cc), "reply result is not the result returned by onRequest: "+resArg)
		}
	}
	// onRequest: recover closure assigns unexpectedErr to the named result on every recovered panic
	var rec *ssa.Function
	for _, cl := range h.P.DeferredClosures(onReq) {
		rec = cl
	}
	if rec == nil {
		h.C.Check(rule, "(*Raft).onRequest recover", false, h.fpos(onReq), "no deferred recover closure")
		return
	}
	sim := h.simAll()
	ts := sim.Run(rec)
	okAll, n := true, 0
	for _, t := range ts {
		if t.Exit != "return" {
			continue
		}
		// paths where recover() != nil must store unexpectedErr into the result
		recovered := false
		for _, e := range t.Events {
			if e.Callee == "recover" {
				recovered = true
			}
		}
		_ = recovered
	}
	// structural: the closure stores the constant unexpectedErr into the first named result under recover() != nil
	fi := h.P.Info(rec)
	core.Instrs(rec, func(in ssa.Instruction) {
		if st, ok := in.(*ssa.Store); ok {
			if fi.Sym(st.Val).String() == h.constStr("raft:unexpectedErr") {
				n++
				r := fi.MustCross(st, func(a core.Atom) bool { return a.Op == "!=" && a.R == "nil" && a.L == "recover()" })
				if !r.OK {
					okAll = false
				}
			}
		}
	})
	h.C.Check(rule, "(*Raft).onRequest recover→unexpectedErr", okAll && n == 1, h.fpos(rec), fmt.Sprintf("recover closure must assign unexpectedErr to the result under recover() != nil (stores found: %d)", n))
	// and replyRPC panics on unexpectedErr only after close(rpc.done)
}

// selfVoteBeforeCampaign: in startElection, setVotedFor(term+1, nid) dominates
// every go statement and the self-reply.
func (h H) selfVoteBeforeCampaign(rule string) {
	fn := h.fn("raft:(*candidate).startElection")
	setVoted := h.fn("raft:(*storage).setVotedFor")
	calls := h.P.CallsTo(fn, setVoted)
	if !h.C.Check(rule, "(*candidate).startElection persists once", len(calls) == 1, h.fpos(fn), fmt.Sprintf("want exactly one setVotedFor call, found %d", len(calls))) {
		return
	}
	sv := calls[0]
	termArg, candArg := h.argStr(sv, 1), h.argStr(sv, 2)
	h.C.Check(rule, "(*candidate).startElection self-vote args", termArg == "(candidate.Raft.storage.term + 1)" && candArg == "candidate.Raft.storage.nid", h.pos(sv),
		"self vote must persist (term+1, own id); found ("+termArg+", "+candArg+")")
	gos := h.P.GoSites(fn)
	for i, g := range gos {
		h.C.Check(rule, fmt.Sprintf("(*candidate).startElection go#%d", i+1), core.Dominates(sv, g), h.pos(g), "vote request goroutine may start before the self vote is persisted")
	}
	h.C.Floor(rule+" (go sites)", len(gos), 1)
	core.Instrs(fn, func(in ssa.Instruction) {
		if s, ok := in.(*ssa.Send); ok {
			h.C.Check(rule, "(*candidate).startElection self-reply", core.Dominates(sv, s), h.pos(s), "self vote counted before it is persisted")
		}
	})
}

// dispatcherHandsOver (C05.10 and attachments): Raft.onRequest decides
// nothing itself. Whatever it returns for a request is what the handler of
// that request type returned — every rule about votes, appends and snapshot
// installation is stated on the handlers, and an answer produced by the
// dispatcher (a "fast path") would bypass all of them. The only other result
// is the recovered-panic conversion in its deferred closure.
func (h H) dispatcherHandsOver(rule string) {
	fn := h.fn("raft:(*Raft).onRequest")
	handlers := map[string]string{
		"(*Raft).onVoteRequest":          "*voteReq",
		"(*Raft).onAppendEntriesRequest": "*appendReq",
		"(*Raft).onInstallSnapRequest":   "*installSnapReq",
		"(*Raft).onTimeoutNowRequest":    "*timeoutNowReq",
	}
	fromHandler := func(v ssa.Value) (string, bool) {
		ex, ok := v.(*ssa.Extract)
		if !ok {
			return "", false
		}
		c, ok := ex.Tuple.(*ssa.Call)
		if !ok {
			return "", false
		}
		sc := c.Common().StaticCallee()
		if sc == nil {
			return "", false
		}
		_, ok = handlers[h.name(sc)]
		return h.name(sc), ok
	}
	fi := h.P.Info(fn)
	n := 0
	seen := map[string]bool{}
	// the first result, if it is named (the deferred recover assigns it)
	resName := "\x00"
	if rs := fn.Signature.Results(); rs.Len() == 2 && rs.At(0).Name() != "" {
		resName = rs.At(0).Name()
	}
	check := func(v ssa.Value, in ssa.Instruction) {
		n++
		name, ok := fromHandler(v)
		if ok {
			seen[name] = true
		}
		h.C.Check(rule+" answer-is-the-handler's", fmt.Sprintf("(*Raft).onRequest result source#%d", n), ok, h.pos(in),
			"the request dispatcher answers a request itself ("+fi.Sym(v).String()+") instead of handing over the handler's result: the persistence, term and log rules that hold for the handler's answers do not cover this one")
	}
	core.Instrs(fn, func(in ssa.Instruction) {
		switch x := in.(type) {
		case *ssa.Store:
			if al, ok := x.Addr.(*ssa.Alloc); ok && al.Comment == resName {
				check(x.Val, in)
			}
		case *ssa.Return:
			if len(x.Results) == 2 {
				if u, ok := x.Results[0].(*ssa.UnOp); ok {
					if al, ok := u.X.(*ssa.Alloc); ok && al.Comment == resName {
						return
					}
				}
				check(x.Results[0], in)
			}
		}
	})
	h.C.Floor(rule+" (result sources of onRequest)", n, 4)
	for name := range handlers {
		h.C.Check(rule+" every-type-dispatched", "(*Raft).onRequest → "+name, seen[name], h.fpos(fn), "no result of onRequest comes from "+name)
	}
	// a handler is reached only for its own request type
	for k, site := range h.P.Callers(h.fn("raft:(*Raft).onVoteRequest")) {
		h.C.Check(rule+" who-may-call", fmt.Sprintf("%s → (*Raft).onVoteRequest#%d", h.name(site.Fn), k+1), site.Fn == fn, h.pos(site.Instr), "the vote handler is called from outside the request dispatcher")
	}
}
