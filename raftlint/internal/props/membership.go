package props

import (
	"fmt"
	"strings"

	"golang.org/x/tools/go/ssa"

	"raftlint/internal/core"
)

// Membership-change obligations shared by C02.6, C08, C11, C16.

const (
	aIsCommitted = "leader.Raft.storage.configs.Committed.Index"
	aLatestIdx   = "leader.Raft.storage.configs.Latest.Index"
)

func isCommittedAtom() core.Atom { return core.MkAtom(aIsCommitted, "==", aLatestIdx) }

// configChangeGates (C02.6, C08.1): user requests reach checkConfigActions /
// doChangeConfig only behind the validation gates.
func (h H) configChangeGates(rule string) {
	fn := h.fn("raft:(*leader).onChangeConfig")
	fi := h.P.Info(fn)
	cca := h.fn("raft:(*leader).checkConfigActions")
	dcc := h.fn("raft:(*leader).doChangeConfig")
	var targets []ssa.CallInstruction
	var names []string
	for k, c := range h.P.CallsTo(fn, cca) {
		targets = append(targets, c)
		names = append(names, h.site(fn, cca, k))
	}
	for k, c := range h.P.CallsTo(fn, dcc) {
		targets = append(targets, c)
		names = append(names, h.site(fn, dcc, k))
	}
	h.C.Floor(rule+" (config-changing calls in onChangeConfig)", len(targets), 2)
	direct := 0
	for i, t := range targets {
		h.gate(rule+" previous-config-committed", names[i], t, isCommittedAtom())
		// the remaining gates validate the request when it is accepted; the commit index
		// only grows and an action started in between makes IsCommitted() false, so they
		// are required on every path but not re-validated after checkConfigActions
		h.gateLoose(rule+" own-term-commit", names[i], t, core.MkAtom("leader.Raft.commitIndex", ">=", "leader.startIndex"))
		h.gateLoose(rule+" not-stale", names[i], t, core.MkAtom("changeConfig.newConf.Index", "==", aLatestIdx))
		h.gateLoose(rule+" validated", names[i], t, core.MkAtom("(Config).validate(changeConfig.newConf)", "==", "nil"))
		// a voter without pending action remains
		r := fi.MustCross(t, func(a core.Atom) bool {
			return a.Op == "!=" && ((a.L == "0" && strings.HasPrefix(a.R, "phi(0, ")) || (a.R == "0" && strings.HasPrefix(a.L, "phi(0, ")))
		})
		if !r.OK {
			// direct form (a flag set, or an early exit taken, where the node is
			// found): every path to the site crosses, for an element of the new
			// configuration, the edges n.Voter and n.Action == None
			nv := h.holderOf(fn, "each(changeConfig.newConf.Nodes).val")
			d1 := fi.MustCrossAtom(t, core.BoolAtom(nv+".Voter", true))
			d2 := fi.MustCrossAtom(t, core.MkAtom(nv+".Action", "==", h.constStr("raft:None")))
			if nv != "" && d1.OK && d2.OK {
				r.OK = true
				direct++
			}
		}
		h.C.Check(rule+" voter-remains", names[i], r.OK, h.pos(t), "request accepted without checking that a voter without pending action remains: "+r.Witness)
	}
	// the voter witness is only assigned under n.Voter && n.Action == None of the new configuration
	nAssign := 0
	for _, b := range fn.Blocks {
		for _, in := range b.Instrs {
			phi, ok := in.(*ssa.Phi)
			if !ok {
				continue
			}
			if !strings.HasPrefix(fi.Sym(phi).String(), "phi(0, ") {
				continue
			}
			for i, e := range phi.Edges {
				s := fi.Sym(e).String()
				if s == "each(changeConfig.newConf.Nodes).key" {
					nAssign++
					pred := b.Preds[i]
					last := pred.Instrs[len(pred.Instrs)-1]
					nv := h.holderOf(fn, "each(changeConfig.newConf.Nodes).val")
					r1 := fi.MustCrossAtom(last, core.BoolAtom(nv+".Voter", true))
					r2 := fi.MustCrossAtom(last, core.MkAtom(nv+".Action", "==", h.constStr("raft:None")))
					h.C.Check(rule+" voter-witness", "(*leader).onChangeConfig voter-witness", r1.OK && r2.OK, h.pos(last), "the remaining-voter witness is assigned without n.Voter && n.Action == None: "+r1.Witness+r2.Witness)
				}
			}
		}
	}
	if direct == len(targets) && direct > 0 && nAssign == 0 {
		nAssign = 1 // no witness variable: the test itself lies on every path
	}
	h.C.Floor(rule+" (voter witness assignments)", nAssign, 1)
	// loop invariants: nothing removed, no voting right changed, new nodes are non-voters
	const latestNodes = "leader.Raft.storage.configs.Latest.Nodes"
	hd := fi.RangeHeader(latestNodes, 0)
	if hd == nil {
		h.C.Check(rule+" loop present", "(*leader).onChangeConfig range Latest.Nodes", false, h.fpos(fn), "validation loop over the current configuration not found")
	} else {
		n := h.holderOf(fn, "each("+latestNodes+").val")
		nn := h.holderOf(fn, "changeConfig.newConf.Nodes[each("+latestNodes+").key]")
		if nn == "changeConfig.newConf.Nodes[each("+latestNodes+").key]" {
			nn = h.holderOf(fn, "changeConfig.newConf.Nodes[each("+latestNodes+").key]#0")
		}
		nn = strings.TrimSuffix(nn, "#0") // field reads of a comma-ok lookup's value are named without the tuple index
		r := fi.LoopBodyMustCross(hd, func(a core.Atom) bool {
			return a.Op == "true" && a.L == "ok(changeConfig.newConf.Nodes[each("+latestNodes+").key])"
		})
		h.C.Check(rule+" no-node-removed", "(*leader).onChangeConfig range Latest.Nodes", r.OK, h.pos(hd.Instrs[len(hd.Instrs)-1]), "a node of the current configuration may be missing from the request: "+r.Witness)
		want := core.MkAtom(n+".Voter", "==", nn+".Voter")
		r = fi.LoopBodyMustCross(hd, func(a core.Atom) bool { return n != "" && nn != "" && a.Implies(want) })
		h.C.Check(rule+" voting-right-unchanged", "(*leader).onChangeConfig range Latest.Nodes", r.OK, h.pos(hd.Instrs[len(hd.Instrs)-1]), "a request may change a node's voting right directly (looked for "+want.String()+"): "+r.Witness)
	}
	hd = fi.RangeHeader("changeConfig.newConf.Nodes", 0)
	if hd == nil {
		h.C.Check(rule+" loop present", "(*leader).onChangeConfig range newConf.Nodes", false, h.fpos(fn), "validation loop over the requested configuration not found")
	} else {
		n := h.holderOf(fn, "each(changeConfig.newConf.Nodes).val")
		r := fi.LoopBodyMustCross(hd, func(a core.Atom) bool {
			return (a.Op == "true" && a.L == "ok("+latestNodes+"[each(changeConfig.newConf.Nodes).key])") ||
				(a.Op == "false" && a.L == n+".Voter")
		})
		h.C.Check(rule+" new-nodes-nonvoters", "(*leader).onChangeConfig range newConf.Nodes", r.OK, h.pos(hd.Instrs[len(hd.Instrs)-1]), "a new node may join directly as voter: "+r.Witness)
	}
	// every rejecting branch replies (typestate side is C15); here: doChangeConfig only via storeEntry
	h.onlyCallers(rule+" who-may-call", "raft:(*leader).doChangeConfig", "(*leader).onChangeConfig", "(*leader).checkConfigActions", "(*leader).checkConfigAction")
}

// oneActionPerEntry (C08.2): doChangeConfig in checkConfigActions/-Action only
// under canChangeConfig(); at most one mutation of a cloned configuration per
// entry; the mutation is a single voter flip or a delete.
func (h H) oneActionPerEntry(rule string) {
	// canChangeConfig summary
	ccc := h.fn("raft:(*leader).canChangeConfig")
	sums, uns, ok := h.simAll().TrueSummary(ccc)
	if !ok || len(sums) == 0 {
		h.C.Undecided(rule+" canChangeConfig-summary", "(*leader).canChangeConfig", h.fpos(ccc), "cannot summarise")
	}
	for i, f := range sums {
		c1 := core.Entails(f, core.Rel{A: aIsCommitted, Op: "==", B: aLatestIdx}, uns)
		c2 := core.Entails(f, core.Rel{A: "leader.transfer.timer.active", Op: "!=", B: "true"}, uns)
		h.C.Check(rule+" canChangeConfig-summary", fmt.Sprintf("(*leader).canChangeConfig true-path#%d", i+1), c1 && c2, h.fpos(ccc),
			fmt.Sprintf("canChangeConfig may be true without: latest configuration committed (%v), no transfer in progress (%v)", c1, c2))
		// the leader's own (automatic) actions need the same own-term commit as user requests
		c3 := core.Entails(f, core.Rel{A: "leader.Raft.commitIndex", Op: ">=", B: "leader.startIndex"}, uns)
		h.C.Check(rule+" own-term-commit", fmt.Sprintf("(*leader).canChangeConfig true-path#%d", i+1), c3, h.fpos(ccc),
			"membership actions started by the leader itself (init, match-index updates, transfer end) are allowed before the leader has committed an entry of its own term: two leaders of different terms can then append different configurations on top of the same committed one")
	}
	dcc := h.fn("raft:(*leader).doChangeConfig")
	for _, spec := range []string{"raft:(*leader).checkConfigActions", "raft:(*leader).checkConfigAction"} {
		fn := h.fn(spec)
		calls := h.P.CallsTo(fn, dcc)
		for k, c := range calls {
			h.gate(rule+" canChangeConfig-gate", h.site(fn, dcc, k), c, core.BoolAtom("(*leader).canChangeConfig(leader)", true))
		}
		h.C.Floor(rule+" (doChangeConfig calls in "+h.name(fn)+")", len(calls), 1)
		sim := h.simAll()
		ts := sim.Run(fn)
		nEv := 0
		for _, t := range ts {
			muts, cloned := 0, false
			for _, e := range t.Events {
				switch {
				case e.Callee == "(Config).clone":
					// result must be stored back into the local config before mutating
					cloned = true
				case e.Callee == "mapupdate" || e.Callee == "delete":
					if !strings.HasSuffix(e.Args[0], ".Nodes") {
						continue
					}
					key := h.name(fn) + " path[" + t.Describe() + "]"
					h.C.Check(rule+" clone-before-mutate", key, cloned && strings.HasPrefix(e.Args[0], "ret:(Config).clone"), e.Pos, "a configuration map is mutated without being cloned first (the live configuration shares it)")
					muts++
				case e.Callee == "(*leader).doChangeConfig":
					nEv++
					key := h.name(fn) + " path[" + t.Describe() + "]"
					h.C.Check(rule+" at-most-one-action", key, muts <= 1, e.Pos, fmt.Sprintf("%d mutations of the configuration before one doChangeConfig (one action per entry)", muts))
					muts, cloned = 0, false
				}
			}
		}
		h.C.Floor(rule+" (doChangeConfig events simulated in "+h.name(fn)+")", nEv, 1)
	}
	// voter flips: the only stores to a Node's Voter field in these functions are constants,
	// true only on the promote path
	h.voterFlips(rule + " voter-flips")
}

// voterFlips: in checkConfigAction, Voter := true only when action == Promote.
func (h H) voterFlips(rule string) {
	fn := h.fn("raft:(*leader).checkConfigAction")
	fi := h.P.Info(fn)
	voter := h.P.Field("raft:Node.Voter")
	n := 0
	for _, s := range h.P.StoresTo(voter) {
		// (stores in a new helper count for the known functions calling it)
		rn := ""
		for _, r := range h.effectiveRoots(s.Fn) {
			if r == "(*leader).checkConfigAction" || r == "(*leader).checkConfigActions" {
				if rn == "" || r == "(*leader).checkConfigAction" {
					rn = r
				}
			}
		}
		if rn == "" {
			continue
		}
		// a store shared through a new helper stands for one store in each known caller
		for _, r := range h.effectiveRoots(s.Fn) {
			if r != rn && (r == "(*leader).checkConfigAction" || r == "(*leader).checkConfigActions") {
				n++
			}
		}
		n++
		v := h.P.Info(s.Fn).Sym(storeVal(s.Instr)).String()
		construct := fmt.Sprintf("%s store Node.Voter#%d", rn, n)
		if v == "true" {
			ok := rn == "(*leader).checkConfigAction"
			if ok {
				r := h.P.Info(s.Fn).MustCross(s.Instr, func(a core.Atom) bool {
					return a.Op == "==" && a.R == h.constStr("raft:Promote") && strings.HasPrefix(a.L, "(Node).nextAction(")
				})
				_ = fi
				ok = r.OK
			}
			h.C.Check(rule, construct, ok, h.pos(s.Instr), "a node is made voter outside the promote action")
		} else {
			h.C.Check(rule, construct, v == "false", h.pos(s.Instr), "Node.Voter assigned a non-constant value: "+v)
		}
	}
	h.C.Floor(rule+" (Voter stores)", n, 3)
}

// adoptAndRevert (C08.3): configuration entries are adopted where appended and
// reverted where truncated; sole writers of configs.Latest/Committed.
func (h H) adoptAndRevert(rule string) {
	h.onlyWriters(rule+" who-may-write", "raft:Configs.Latest", "(*Raft).setLatest", "openStorage", "(Configs).clone")
	h.onlyWriters(rule+" who-may-write", "raft:Configs.Committed", "(*Raft).changeConfig", "(*Raft).commitConfig", "openStorage", "(Configs).clone")
	h.onlyCallers(rule+" who-may-call", "raft:(*Raft).setLatest", "(*Raft).changeConfig", "(*Raft).revertConfig")
	h.onlyCallers(rule+" who-may-call", "raft:(*Raft).revertConfig", "(*Raft).onAppendEntriesRequest")
	h.onlyCallers(rule+" who-may-call", "raft:(*Raft).changeConfig", "(*Raft).onAppendEntriesRequest", "(*Raft).onInstallSnapRequest", "(*leader).changeConfig", "(*Raft).bootstrap")
	h.onlyCallers(rule+" who-may-call", "raft:(*leader).changeConfig", "(*leader).storeEntry")
	// Raft.changeConfig: Committed := Latest ; setLatest(config)
	cc := h.fn("raft:(*Raft).changeConfig")
	ts := h.simAll().Run(cc)
	n := 0
	for _, t := range ts {
		if t.Exit != "return" {
			continue
		}
		n++
		iC := evIndex(t, isStoreTo("Raft.storage.configs.Committed"))
		iL := evIndex(t, isCall("(*Raft).setLatest"))
		ok := iC >= 0 && iL > iC && t.Events[iC].Args[1] == "Raft.storage.configs.Latest" && t.Events[iL].Args[1] == "Config"
		h.C.Check(rule+" changeConfig-shape", "(*Raft).changeConfig path["+t.Describe()+"]", ok, t.ExitPos, "changeConfig must save Latest as Committed and then install the new configuration as Latest")
	}
	h.C.Floor(rule+" (changeConfig paths)", n, 1)
	// revertConfig: setLatest(configs.Committed)
	rc := h.fn("raft:(*Raft).revertConfig")
	sl := h.fn("raft:(*Raft).setLatest")
	for k, c := range h.P.CallsTo(rc, sl) {
		h.C.Check(rule+" revert-shape", h.site(rc, sl, k), h.argStr(c, 1) == "Raft.storage.configs.Committed", h.pos(c), "revertConfig must reinstall the committed configuration; found "+h.argStr(c, 1))
	}
	// setLatest stores its argument
	for _, s := range h.storesIn(sl, "raft:Configs.Latest") {
		h.C.Check(rule+" setLatest-shape", "(*Raft).setLatest store", h.P.Info(s.Fn).Sym(storeVal(s.Instr)).String() == "Config", h.pos(s.Instr), "setLatest must store its argument")
	}
	// commitConfig: Committed := Latest
	cm := h.fn("raft:(*Raft).commitConfig")
	for _, s := range h.storesIn(cm, "raft:Configs.Committed") {
		h.C.Check(rule+" commitConfig-shape", "(*Raft).commitConfig store", h.P.Info(s.Fn).Sym(storeVal(s.Instr)).String() == "Raft.storage.configs.Latest", h.pos(s.Instr), "commitConfig must set Committed := Latest")
	}
	// adoption after append (follower)
	fn := h.fn(appendFn)
	fi := h.P.Info(fn)
	ae := h.fn("raft:(*storage).appendEntry")
	rcc := h.fn("raft:(*Raft).changeConfig")
	cfgT := h.constStr("raft:entryConfig")
	dec := h.fn("raft:(*Config).decode")
	for k, c := range h.P.CallsTo(fn, ae) {
		e := h.argStr(c, 1)
		r := fi.AlwaysFollowedByE(c, func(in ssa.Instruction) bool {
			if !h.P.IsCallTo(in, rcc) {
				return false
			}
			// the configuration adopted was decoded from the same entry
			cfg := h.argStr(in.(ssa.CallInstruction), 1)
			for _, d := range h.P.CallsTo(fn, dec) {
				if h.argStr(d, 0) == cfg && h.argStr(d, 1) == e && core.Dominates(d.(ssa.Instruction), in) {
					return true
				}
			}
			return false
		}, func(a core.Atom) bool {
			return a.Implies(core.MkAtom(e+".typ", "!=", cfgT)) || (a.Op == "!=" && a.R == "nil" && strings.HasPrefix(a.L, "(*Config).decode("))
		})
		h.C.Check(rule+" adopt-on-append", h.site(fn, ae, k), r.OK, h.pos(c), "a configuration entry can be appended without being adopted as the latest configuration: "+r.Witness)
	}
	// revert after truncation
	rg := h.fn("raft:(*storage).removeGTE")
	rv := h.fn("raft:(*Raft).revertConfig")
	for k, c := range h.P.CallsTo(fn, rg) {
		idx := h.argStr(c, 1)
		r := fi.AlwaysFollowedByE(c, func(in ssa.Instruction) bool { return h.P.IsCallTo(in, rv) },
			func(a core.Atom) bool { return a.Implies(core.MkAtom(idx, ">", "Raft.storage.configs.Latest.Index")) })
		h.C.Check(rule+" revert-on-truncate", h.site(fn, rg, k), r.OK, h.pos(c), "the log can be truncated at or below the latest configuration entry without reverting the configuration: "+r.Witness)
	}
	// adoption after append (leader)
	se := h.fn("raft:(*leader).storeEntry")
	sfi := h.P.Info(se)
	lcc := h.fn("raft:(*leader).changeConfig")
	for k, c := range h.P.CallsTo(se, ae) {
		e := h.argStr(c, 1)
		r := sfi.AlwaysFollowedByE(c, func(in ssa.Instruction) bool {
			if !h.P.IsCallTo(in, lcc) {
				return false
			}
			cfg := h.argStr(in.(ssa.CallInstruction), 1)
			for _, d := range h.P.CallsTo(se, dec) {
				if h.argStr(d, 0) == cfg && h.argStr(d, 1) == e && core.Dominates(d.(ssa.Instruction), in) {
					return true
				}
			}
			return false
		}, func(a core.Atom) bool { return a.Implies(core.MkAtom(e+".typ", "!=", cfgT)) })
		h.C.Check(rule+" adopt-on-append", h.site(se, ae, k), r.OK, h.pos(c), "the leader can append a configuration entry without adopting it: "+r.Witness)
	}
	// leader.changeConfig hands the same configuration to Raft.changeConfig
	for k, c := range h.P.CallsTo(lcc, rcc) {
		h.C.Check(rule+" leader-adopts-same", h.site(lcc, rcc, k), h.argStr(c, 1) == "Config", h.pos(c), "leader.changeConfig must install the configuration it was given")
	}
}

// commitConfigTied (C08.4): commitConfig only when the latest configuration is
// uncommitted and covered by the commit index.
func (h H) commitConfigTied(rule string) {
	h.onlyCallers(rule+" who-may-call", "raft:(*Raft).commitConfig", "(*Raft).setCommitIndex", "(*Raft).onInstallSnapRequest")
	fn := h.fn("raft:(*Raft).setCommitIndex")
	cm := h.fn("raft:(*Raft).commitConfig")
	for k, c := range h.P.CallsTo(fn, cm) {
		site := h.site(fn, cm, k)
		h.gate(rule+" uncommitted", site, c, core.MkAtom("Raft.storage.configs.Committed.Index", "!=", "Raft.storage.configs.Latest.Index"))
		h.gate(rule+" covered", site, c, core.MkAtom("Raft.storage.configs.Latest.Index", "<=", "Raft.commitIndex"))
		// the commit index read by the guard is the new one: the store precedes
		st := h.storesIn(fn, "raft:Raft.commitIndex")
		ok := len(st) == 1 && core.Dominates(st[0].Instr, c.(ssa.Instruction)) && h.P.Info(fn).Sym(storeVal(st[0].Instr)).String() == "$1"
		h.C.Check(rule+" uses-new-index", site, ok, h.pos(c), "setCommitIndex must store the new index before testing the configuration against it")
	}
	h.C.Floor(rule+" (commitConfig calls)", len(h.P.CallsTo(fn, cm)), 1)
}
