package props

import (
	"fmt"
	"go/token"
	"strings"

	"golang.org/x/tools/go/ssa"

	"raftlint/internal/core"
)

// Election obligations shared by C01, C11, C16, C17.

// setStateSites: call sites of Raft.setState by constant target state.
func (h H) setStateSites(state string) []core.Site {
	ss := h.fn("raft:(*Raft).setState")
	want := "State(" + h.P.Const("raft:"+state).Val().ExactString() + ")"
	var out []core.Site
	for _, s := range h.P.Callers(ss) {
		if h.argStr(s.Instr.(ssa.CallInstruction), 1) == want {
			out = append(out, s)
		}
	}
	return out
}

// leaderOnlyByMajority (C01.3).
func (h H) leaderOnlyByMajority(rule string) {
	h.onlyWriters(rule+" who-may-write", "raft:Raft.state", "(*Raft).setState", "New")
	// every setState call passes a constant state
	ss := h.fn("raft:(*Raft).setState")
	for _, s := range h.P.Callers(ss) {
		a := h.argStr(s.Instr.(ssa.CallInstruction), 1)
		h.C.Check(rule+" constant-state", "setState in "+h.name(core.Root(s.Fn)), strings.HasPrefix(a, "State("), h.pos(s.Instr), "setState called with a non-constant state: "+a)
	}
	sites := h.setStateSites("Leader")
	for _, s := range sites {
		h.C.Check(rule+" who-becomes-leader", "setState(Leader) in "+h.name(core.Root(s.Fn)), h.name(s.Fn) == "(*candidate).onVoteResult", h.pos(s.Instr), "only candidate.onVoteResult may switch to Leader")
	}
	h.C.Floor(rule+" (setState(Leader) sites)", len(sites), 1)
	fn := h.fn("raft:(*candidate).onVoteResult")
	fi := h.P.Info(fn)
	succ := h.constStr("raft:success")
	decs := h.storesIn(fn, "raft:candidate.votesNeeded")
	if !h.C.Check(rule+" single-decrement", "(*candidate).onVoteResult votesNeeded", len(decs) == 1, h.fpos(fn), fmt.Sprintf("want one store to votesNeeded, found %d", len(decs))) {
		return
	}
	dec := decs[0].Instr
	v := fi.Sym(storeVal(dec)).String()
	h.C.Check(rule+" decrement-by-one", "(*candidate).onVoteResult votesNeeded", v == "(candidate.votesNeeded - 1)", h.pos(dec), "votesNeeded must be decremented by one per granted vote; found "+v)
	h.gate(rule+" counted-only-on-success", "(*candidate).onVoteResult votesNeeded", dec, core.MkAtom("invoke:getResult(rpcResponse.response)", "==", succ))
	h.gate(rule+" counted-only-without-error", "(*candidate).onVoteResult votesNeeded", dec, core.MkAtom("rpcResponse.err", "==", "nil"))
	h.gate(rule+" counted-only-if-term-not-higher", "(*candidate).onVoteResult votesNeeded", dec, core.MkAtom("invoke:getTerm(rpcResponse.response)", "<=", "candidate.Raft.storage.term"))
	for _, s := range sites {
		if s.Fn != fn {
			continue
		}
		h.C.Check(rule+" leader-after-count", "(*candidate).onVoteResult setState(Leader)", core.Dominates(dec, s.Instr), h.pos(s.Instr), "becomes leader without counting a vote first")
		h.gate(rule+" leader-only-at-zero", "(*candidate).onVoteResult setState(Leader)", s.Instr, core.MkAtom("candidate.votesNeeded", "==", "0"))
	}
	// votesNeeded is (re)initialised only in startElection from quorum() of the latest configuration
	se := h.fn("raft:(*candidate).startElection")
	sfi := h.P.Info(se)
	h.onlyWriters(rule+" who-may-write", "raft:candidate.votesNeeded", "(*candidate).startElection", "(*candidate).onVoteResult")
	var vnInit ssa.Instruction
	for _, s := range h.storesIn(se, "raft:candidate.votesNeeded") {
		val := sfi.Sym(storeVal(s.Instr)).String()
		h.C.Check(rule+" quorum-of-latest", "(*candidate).startElection votesNeeded", val == "(Config).quorum(candidate.Raft.storage.configs.Latest)", h.pos(s.Instr), "votesNeeded must be quorum() of the latest configuration; found "+val)
		vnInit = s.Instr
	}
	// ... and every election starts its own count: without the store the
	// remainder of an earlier election's count (0 after a win) is reused
	if h.C.Check(rule+" count-reset-per-election", "(*candidate).startElection votesNeeded", vnInit != nil, h.fpos(se), "startElection does not (re)initialise votesNeeded: votes of an earlier election stay counted") {
		core.Instrs(se, func(in ssa.Instruction) {
			switch in.(type) {
			case *ssa.Send, *ssa.Go:
				h.C.Check(rule+" count-reset-before-replies", "(*candidate).startElection "+strings.TrimPrefix(fmt.Sprintf("%T", in), "*ssa."), core.Dominates(vnInit, in), h.pos(in), "a vote reply can be produced before votesNeeded is initialised for this election")
			}
		})
	}
	// a fresh reply channel per election; request goroutines send on the channel they were given
	h.onlyWriters(rule+" who-may-write", "raft:candidate.respCh", "(*candidate).startElection", "(*candidate).release")
	var mk ssa.Instruction
	for _, s := range h.storesIn(se, "raft:candidate.respCh") {
		_, isMk := storeVal(s.Instr).(*ssa.MakeChan)
		h.C.Check(rule+" fresh-reply-channel", "(*candidate).startElection respCh", isMk, h.pos(s.Instr), "each election must create a fresh reply channel (replies of an earlier election would be counted)")
		mk = s.Instr
	}
	h.C.Check(rule+" fresh-reply-channel", "(*candidate).startElection respCh (exists)", mk != nil, h.fpos(se), "startElection does not create the election's reply channel")
	gos := h.P.GoSites(se)
	for i, g := range gos {
		site := fmt.Sprintf("(*candidate).startElection go#%d", i+1)
		if mk != nil {
			h.C.Check(rule+" channel-before-requests", site, core.Dominates(mk, g), h.pos(g), "request goroutine started before the election's reply channel exists")
		}
		args := g.Call.Args
		okArg := false
		for _, a := range args {
			if sfi.Sym(a).String() == "candidate.respCh" {
				okArg = true
			}
		}
		h.C.Check(rule+" goroutine-gets-channel", site, okArg, h.pos(g), "the reply channel must be passed to the goroutine by value at start")
		if cl := core.ClosureOf(g.Call.Value); cl != nil {
			cfi := h.P.Info(cl)
			n := 0
			core.Instrs(cl, func(in ssa.Instruction) {
				if snd, ok := in.(*ssa.Send); ok {
					n++
					h.C.Check(rule+" reply-on-own-channel", site+" send", cfi.Sym(snd.Chan).String() == "λ:candidate.respCh", h.pos(snd), "vote reply is sent on "+cfi.Sym(snd.Chan).String()+" instead of the channel captured at start")
				}
			})
			h.C.Floor(rule+" (sends in request goroutine)", n, 1)
		}
		// only voters other than self are asked (and so can reply)
		nv := h.rangeVar(se, "candidate.Raft.storage.configs.Latest.Nodes")
		h.gate(rule+" ask-voters-only", site, g, core.BoolAtom(nv+".Voter", true))
		// never itself: it already counted its own vote, and its handler
		// would grant the same vote a second time (votedFor == self)
		h.gate(rule+" ask-others-only", site, g, core.MkAtom(nv+".ID", "!=", "candidate.Raft.storage.nid"))
	}
	h.C.Floor(rule+" (vote request goroutines)", len(gos), 1)
	// the self vote is the only reply produced locally, and it is a vote reply with result success for own id
	nSend := 0
	core.Instrs(se, func(in ssa.Instruction) {
		if snd, ok := in.(*ssa.Send); ok {
			nSend++
			h.C.Check(rule+" single-self-vote", "(*candidate).startElection self-reply", nSend == 1 && snd.Block().Index == 0, h.pos(snd), "the candidate may count exactly one vote of its own per election")
		}
	})
	// stale replies: stateLoop reads the candidate's current respCh
	h.quorumArithmetic(rule + " quorum-arith")
}

// stepDownOnHigherTerm (C01.5).
func (h H) stepDownOnHigherTerm(rule string) {
	setTerm := h.fn("raft:(*storage).setTerm")
	setState := h.fn("raft:(*Raft).setState")
	follower := "State(" + h.P.Const("raft:Follower").Val().ExactString() + ")"
	check := func(spec, lhs, rhs, termArg string) {
		fn := h.fn(spec)
		fi := h.P.Info(fn)
		want := core.MkAtom(lhs, "<", rhs)
		n := 0
		for _, ea := range fi.AllEdgeAtoms() {
			if !ea.A.Implies(want) || ea.A.Op == "!=" {
				continue
			}
			n++
			site := h.name(fn) + " higher-term-branch"
			b := ea.E.From.Succs[ea.E.Succ]
			r1 := fi.AlwaysFollowedFrom(b, 0, func(in ssa.Instruction) bool {
				return h.P.IsCallTo(in, setTerm) && h.argStr(in.(ssa.CallInstruction), 1) == termArg
			}, nil)
			r2 := fi.AlwaysFollowedFrom(b, 0, func(in ssa.Instruction) bool {
				return h.P.IsCallTo(in, setState) && h.argStr(in.(ssa.CallInstruction), 1) == follower
			}, nil)
			h.C.Check(rule+" adopt-term", site, r1.OK, h.pos(b.Instrs[0]), "a higher term is observed but not adopted with setTerm("+termArg+"): "+r1.Witness)
			h.C.Check(rule+" become-follower", site, r2.OK, h.pos(b.Instrs[0]), "a higher term is observed without stepping down to follower: "+r2.Witness)
		}
		if !strings.Contains(spec, "onAppendEntriesRequest") && !strings.Contains(spec, "onInstallSnapRequest") {
			h.C.Floor(rule+" (higher-term test in "+h.name(fn)+")", n, 1)
		}
	}
	check(appendFn, "Raft.storage.term", "appendReq.req.term", "appendReq.req.term")
	check("raft:(*Raft).onInstallSnapRequest", "Raft.storage.term", "installSnapReq.req.term", "installSnapReq.req.term")
	// a leader is accepted (setLeader(req.src)) only once the node's term equals the request's term
	setLeader := h.fn("raft:(*Raft).setLeader")
	for _, x := range []struct{ spec, req string }{{appendFn, "appendReq"}, {"raft:(*Raft).onInstallSnapRequest", "installSnapReq"}} {
		fn := h.fn(x.spec)
		fi := h.P.Info(fn)
		n := 0
		for k, c := range h.P.CallsTo(fn, setLeader) {
			if h.argStr(c, 1) != x.req+".req.src" {
				continue
			}
			n++
			site := h.site(fn, setLeader, k)
			notLower := fi.MustCrossOrPass(c, func(a core.Atom) bool {
				return a.Implies(core.MkAtom("Raft.storage.term", ">=", x.req+".req.term"))
			}, nil, func(in ssa.Instruction) bool {
				return h.P.IsCallTo(in, setTerm) && h.argStr(in.(ssa.CallInstruction), 1) == x.req+".req.term"
			})
			notHigher := fi.MustCrossAtom(c, core.MkAtom("Raft.storage.term", "<=", x.req+".req.term"))
			h.C.Check(rule+" leader-accepted-at-equal-term", site, notLower.OK && notHigher.OK, h.pos(c),
				"a request is accepted as coming from the leader although the node's term may differ from the request's (higher term not adopted: "+notLower.Witness+"; stale term not refused: "+notHigher.Witness+")")
		}
		h.C.Floor(rule+" (setLeader(req.src) in "+h.name(fn)+")", n, 1)
	}
	check("raft:(*candidate).onVoteResult", "candidate.Raft.storage.term", "invoke:getTerm(rpcResponse.response)", "invoke:getTerm(rpcResponse.response)")
	// leader: a newTerm update from a replication goroutine makes it step down and adopt the term
	cru := h.fn("raft:(*leader).checkReplUpdates")
	cfi := h.P.Info(cru)
	nt := 0
	for _, c := range h.P.CallsTo(cru, setTerm) {
		nt++
		arg := h.argStr(c, 1)
		okArg := strings.HasSuffix(arg, ".val")
		r := cfi.MustCross(c, func(a core.Atom) bool { return a.Op == "true" && strings.HasPrefix(a.L, "ok(assert[newTerm](") })
		pre := cfi.PrecededBy(c, func(in ssa.Instruction) bool {
			return h.P.IsCallTo(in, setState) && h.argStr(in.(ssa.CallInstruction), 1) == follower && in.Block() == c.Block()
		})
		h.C.Check(rule+" leader-steps-down", "(*leader).checkReplUpdates newTerm", okArg && r.OK && pre.OK, h.pos(c), "newTerm update must lead to setState(Follower) and setTerm(update value)")
	}
	h.C.Floor(rule+" (newTerm handling in checkReplUpdates)", nt, 1)
	// replication goroutines forward a staleTerm reply as newTerm{resp.term}
	notify := h.fn("raft:(*replication).notifyLdr")
	stale := h.constStr("raft:staleTerm")
	for _, spec := range []string{"raft:(*replication).onAppendEntriesResp", "raft:(*replication).sendInstallSnapReq"} {
		fn := h.fn(spec)
		fi := h.P.Info(fn)
		n := 0
		for _, ea := range fi.AllEdgeAtoms() {
			if ea.A.Op != "==" || ea.A.R != stale {
				continue
			}
			n++
			b := ea.E.From.Succs[ea.E.Succ]
			r := fi.AlwaysFollowedFrom(b, 0, func(in ssa.Instruction) bool {
				if !h.P.IsCallTo(in, notify) {
					return false
				}
				a := h.arg(in.(ssa.CallInstruction), 1)
				return strings.Contains(a.String(), "new:newTerm")
			}, nil)
			h.C.Check(rule+" forward-new-term", h.name(fn)+" staleTerm-branch", r.OK, h.pos(b.Instrs[0]), "a staleTerm reply is not reported to the leader as newTerm: "+r.Witness)
			// and the function returns errStop on that branch: no success bookkeeping
		}
		h.C.Floor(rule+" (staleTerm test in "+h.name(fn)+")", n, 1)
		// the newTerm value carries the reply's term
		core.Instrs(fn, func(in ssa.Instruction) {
			if st, ok := in.(*ssa.Store); ok && strings.HasPrefix(fi.Sym(st.Addr).String(), "new:newTerm") {
				v := fi.Sym(st.Val).String()
				h.C.Check(rule+" new-term-value", h.name(fn)+" newTerm.val", strings.HasSuffix(v, "resp.term"), h.pos(st), "newTerm must carry the term of the reply; found "+v)
			}
		})
	}
}

// voteStepDown: on vote-handler paths where the request's term is higher (and
// the leader-known refusal does not apply) the node becomes follower and the
// persisted term is the request's.
func (h H) voteStepDown(rule string, vt voteTraces) {
	n := 0
	lk := h.constStr("raft:leaderKnown")
	for _, t := range vt.traces {
		if t.Exit != "return" || len(t.Ret) == 0 || t.Ret[0] == lk {
			continue
		}
		if !t.Entails(vReqTerm, ">", vTerm) {
			continue
		}
		n++
		ev, k := persisted(t)
		stepped := false
		for _, e := range t.Events {
			if e.Callee == "(*Raft).setState" && e.Args[1] == "State("+h.P.Const("raft:Follower").Val().ExactString()+")" {
				stepped = true
			}
		}
		ok := k == 1 && t.EntailsAt(ev, ev.Args[1], "==", vReqTerm) && stepped
		h.C.Check(rule, pathKey(t), ok, t.ExitPos, "request with a higher term handled without adopting the term and stepping down")
	}
	h.C.Floor(rule+" (higher-term paths)", n, 1)
}

// candidateGates (C11.1): every way into Candidate is voter-gated.
func (h H) candidateGates(rule string) {
	sites := h.setStateSites("Candidate")
	allowed := map[string]bool{"(*follower).onTimeout": true, "(*Raft).onTimeoutNowRequest": true, "(*Raft).bootstrap": true}
	for _, s := range sites {
		name := h.name(s.Fn)
		if !h.C.Check(rule+" who-becomes-candidate", "setState(Candidate) in "+name, allowed[name], h.pos(s.Instr), "unexpected way into the candidate state") {
			continue
		}
		switch name {
		case "(*follower).onTimeout":
			h.gate(rule+" voter-gate", "setState(Candidate) in "+name, s.Instr, core.BoolAtom("(*follower).canStartElection(follower)#0", true))
		case "(*Raft).onTimeoutNowRequest":
			h.gate(rule+" voter-gate", "setState(Candidate) in "+name, s.Instr, core.BoolAtom("(Config).isVoter(Raft.storage.configs.Latest, Raft.storage.nid)", true))
		case "(*Raft).bootstrap":
			// self := t.newConf.Nodes[r.nid]; ok && self.Voter; and that configuration becomes Latest before
			fi := h.P.Info(s.Fn)
			r1 := fi.MustCross(s.Instr, func(a core.Atom) bool {
				return a.Op == "true" && a.L == "ok(changeConfig.newConf.Nodes[Raft.storage.nid])"
			})
			r2 := fi.MustCross(s.Instr, func(a core.Atom) bool {
				return a.Op == "true" && strings.HasSuffix(a.L, ".Voter") && (strings.HasPrefix(a.L, "local:") || strings.HasPrefix(a.L, "changeConfig.newConf.Nodes[Raft.storage.nid]"))
			})
			cc := h.fn("raft:(*Raft).changeConfig")
			adopted := false
			for _, c := range h.P.CallsTo(s.Fn, cc) {
				if h.argStr(c, 1) == "changeConfig.newConf" && core.Dominates(c.(ssa.Instruction), s.Instr) {
					adopted = true
				}
			}
			h.C.Check(rule+" voter-gate", "setState(Candidate) in "+name, r1.OK && r2.OK && adopted, h.pos(s.Instr), "bootstrap campaigns without checking that self is a voter of the configuration it adopts")
		}
	}
	h.C.Floor(rule+" (setState(Candidate) sites)", len(sites), 3)
	// canStartElection true => bootstrapped, member, voter
	cse := h.fn("raft:(*follower).canStartElection")
	fi := h.P.Info(cse)
	n := 0
	for _, r := range core.Returns(cse) {
		if fi.Sym(r.Results[0]).String() != "true" {
			continue
		}
		n++
		nvar := h.holderOf(cse, "follower.Raft.storage.configs.Latest.Nodes[follower.Raft.storage.nid]")
		if nvar == "follower.Raft.storage.configs.Latest.Nodes[follower.Raft.storage.nid]" {
			if alt := h.holderOf(cse, nvar+"#0"); alt != nvar+"#0" {
				nvar = alt
			}
		}
		h.gate(rule+" canStartElection member", "(*follower).canStartElection return-true", r, core.BoolAtom("ok(follower.Raft.storage.configs.Latest.Nodes[follower.Raft.storage.nid])", true))
		h.gate(rule+" canStartElection voter", "(*follower).canStartElection return-true", r, core.BoolAtom(nvar+".Voter", true))
	}
	h.C.Floor(rule+" (true returns of canStartElection)", n, 1)
	// isVoter(id) == exists && Voter
	iv := h.fn("raft:(Config).isVoter")
	sums, uns, ok := h.simAll().TrueSummary(iv)
	if !ok || len(sums) == 0 {
		h.C.Undecided(rule+" isVoter-summary", "(Config).isVoter", h.fpos(iv), "cannot summarise isVoter")
	}
	for i, f := range sums {
		c1 := core.Entails(f, core.Rel{A: "Config.Nodes[$1]#1", Op: "==", B: "true"}, uns)
		c2 := core.Entails(f, core.Rel{A: "Config.Nodes[$1]#0.Voter", Op: "==", B: "true"}, uns)
		h.C.Check(rule+" isVoter-summary", fmt.Sprintf("(Config).isVoter true-path#%d", i+1), c1 && c2, h.fpos(iv), fmt.Sprintf("isVoter(id) may be true without: node exists (%v), node is voter (%v)", c1, c2))
	}
	// startElection re-checks
	se := h.fn("raft:(*candidate).startElection")
	sv := h.fn("raft:(*storage).setVotedFor")
	for k, c := range h.P.CallsTo(se, sv) {
		h.gate(rule+" startElection-asserts-voter", h.site(se, sv, k), c, core.BoolAtom("(Config).isVoter(candidate.Raft.storage.configs.Latest, candidate.Raft.storage.nid)", true))
	}
}

// resetTimerOnlyOnGrant (C17.2): replyRPC reports resetTimer for a vote request only when result == success.
func (h H) resetTimerOnlyOnGrant(rule string) {
	fn := h.fn("raft:(*Raft).replyRPC")
	sim := h.simAll()
	ts := sim.Run(fn)
	if sim.Trunc {
		h.C.Undecided(rule, "(*Raft).replyRPC", h.fpos(fn), "not loop-free")
		return
	}
	n := 0
	vote, succ := h.constStr("raft:rpcVote"), h.constStr("raft:success")
	for _, t := range ts {
		if t.Exit != "return" || len(t.Ret) != 1 || t.Ret[0] == "false" {
			continue
		}
		iReq := evIndex(t, isCall("(*Raft).onRequest"))
		if iReq < 0 {
			continue // identity / read-error paths
		}
		n++
		facts := append([]core.Rel{}, t.Facts...)
		if t.RetRel != nil {
			facts = append(facts, *t.RetRel)
		}
		res := t.Events[iReq].Results
		notVote := core.Entails(facts, core.Rel{A: "invoke:rpcType(rpc.req)", Op: "!=", B: vote}, t.Unsigned)
		granted := len(res) == 2 && core.Entails(facts, core.Rel{A: res[0], Op: "==", B: succ}, t.Unsigned)
		h.C.Check(rule, "(*Raft).replyRPC path["+t.Describe()+"]", notVote || granted, t.ExitPos, "the election timer may be reset by a vote request that was not granted")
	}
	h.C.Floor(rule+" (timer-resetting paths)", n, 1)
	// conversely, hearing from the leader always resets the timer: every
	// handled request that is not a vote request (append, installSnap,
	// timeoutNow come only from a leader) reports resetTimer, whatever its
	// result; otherwise a follower that is being repaired campaigns against a
	// live leader
	m := 0
	for _, t := range ts {
		if t.Exit != "return" || len(t.Ret) != 1 {
			continue
		}
		if evIndex(t, isCall("(*Raft).onRequest")) < 0 {
			continue
		}
		// every path that a request other than a vote request can take (the path's facts do not make it a vote request)
		if !core.Entails(t.Facts, core.Rel{A: "invoke:rpcType(rpc.req)", Op: "==", B: vote}, t.Unsigned) {
			m++
			h.C.Check(rule+" leader-contact-resets", "(*Raft).replyRPC path["+t.Describe()+"]", t.Ret[0] == "true", t.ExitPos, "a handled request from the leader may leave the election timer running (result "+t.Ret[0]+")")
		}
	}
	h.C.Floor(rule+" (non-vote request paths)", m, 1)
	// stateLoop resets the follower timer only when replyRPC said so
	sl := h.fn("raft:(*Raft).stateLoop")
	rt := h.fn("raft:(*follower).resetTimer")
	for k, c := range h.P.CallsTo(sl, rt) {
		fi := h.P.Info(sl)
		r1 := fi.MustCross(c, func(a core.Atom) bool {
			return a.Op == "true" && a.L == "(*Raft).replyRPC(Raft, select@"+selName(a.L)+")"
		})
		_ = r1
		ok := false
		res := fi.MustCross(c, func(a core.Atom) bool {
			return a.Op == "true" && (strings.HasPrefix(a.L, "(*Raft).replyRPC(") || strings.HasSuffix(a.L, ".electionAborted"))
		})
		ok = res.OK
		h.C.Check(rule+" stateLoop", h.site(sl, rt, k), ok, h.pos(c), "follower timer reset without replyRPC's consent: "+res.Witness)
	}
}

func selName(string) string { return "" }

// setTermOnlyOnHigherTerm: setTerm clears the recorded vote, so every call site
// must be behind "the observed term is strictly higher than ours".
func (h H) setTermOnlyOnHigherTerm(rule string) {
	st := h.fn("raft:(*storage).setTerm")
	n := 0
	for _, s := range h.P.Callers(st) {
		root := h.name(core.Root(s.Fn))
		if root == "(*storage).bootstrap" {
			continue // term 1 on an empty storage
		}
		n++
		ci := s.Instr.(ssa.CallInstruction)
		recv, arg := h.argStr(ci, 0), h.argStr(ci, 1)
		termExpr := recv + ".term"
		fi := h.P.Info(s.Fn)
		r := fi.MustCrossAtom(s.Instr, core.MkAtom(arg, ">", termExpr))
		if !r.OK && root == "(*leader).checkReplUpdates" {
			// the newTerm update is produced by a replication goroutine only for a staleTerm reply (checked by C01.5 forward-new-term)
			r.OK = strings.HasSuffix(arg, ".val")
		}
		h.C.Check(rule, "setTerm in "+root, r.OK, h.pos(s.Instr), "setTerm("+arg+") (which clears the recorded vote) is reachable without the term being strictly higher than the node's: "+r.Witness)
	}
	h.C.Floor(rule+" (setTerm call sites)", n, 4)
}

// campaignProgress (C17.5): structural necessary conditions for "a healthy
// majority elects a leader": entering or timing out in the candidate state
// starts an election; every election counts the candidate's own vote, re-arms
// the (randomised) election timer; and leaving the candidate state clears the
// leadership-transfer permission so that an ordinary later campaign cannot
// disturb a stable leader.
func (h H) campaignProgress(rule string) {
	se := h.fn("raft:(*candidate).startElection")
	for _, name := range []string{"raft:(*candidate).init", "raft:(*candidate).onTimeout"} {
		fn := h.fn(name)
		ok := len(h.P.CallsTo(fn, se)) > 0
		for _, c := range h.P.CallsTo(fn, se) {
			for _, r := range core.Returns(fn) {
				if !core.Dominates(c.(ssa.Instruction), r) {
					ok = false
				}
			}
		}
		h.C.Check(rule+" campaign-starts-election", h.name(fn), ok, h.fpos(fn), "entering / timing out in the candidate state must start an election on every path")
	}
	// own vote
	n := 0
	core.Instrs(se, func(in ssa.Instruction) {
		if _, ok := in.(*ssa.Send); ok {
			n++
		}
	})
	h.C.Check(rule+" own-vote-counted", "(*candidate).startElection self-reply", n >= 1, h.fpos(se), "the candidate does not deliver its own vote: a single voter can never win, others need one more vote than a majority")
	// election timer re-armed with a randomised duration on every path
	sfi := h.P.Info(se)
	reset := h.fn("raft:(*safeTimer).reset")
	calls := h.P.CallsTo(se, reset)
	ok := len(calls) > 0
	for _, c := range calls {
		for _, r := range core.Returns(se) {
			if !core.Dominates(c.(ssa.Instruction), r) {
				ok = false
			}
		}
		arg := sfi.Sym(c.Common().Args[len(c.Common().Args)-1]).String()
		h.C.Check(rule+" election-timeout-randomised", "(*candidate).startElection timer.reset", strings.Contains(arg, "(randTime).duration("), h.pos(c.(ssa.Instruction)), "the election timeout must come from randTime.duration (split votes would repeat forever); found "+arg)
	}
	h.C.Check(rule+" election-timer-rearmed", "(*candidate).startElection", ok, h.fpos(se), "startElection must re-arm the election timer on every path")
	// the follower's election timer is randomised too
	for _, spec := range []string{"raft:(*follower).resetTimer"} {
		fn := h.fn(spec)
		fi := h.P.Info(fn)
		cs := h.P.CallsTo(fn, reset)
		for _, c := range cs {
			arg := fi.Sym(c.Common().Args[len(c.Common().Args)-1]).String()
			h.C.Check(rule+" election-timeout-randomised", h.name(fn)+" timer.reset", strings.Contains(arg, "(randTime).duration("), h.pos(c.(ssa.Instruction)), "the election timeout must come from randTime.duration; found "+arg)
		}
		h.C.Floor(rule+" (timer.reset in "+h.name(fn)+")", len(cs), 1)
	}
	// duration(min) lies in [min, 2*min) and is drawn from the random source
	du := h.fn("raft:(randTime).duration")
	dfi := h.P.Info(du)
	for _, r := range core.Returns(du) {
		v := dfi.Sym(r.Results[0]).String()
		ok := strings.HasPrefix(v, "($1 + (") && strings.HasSuffix(v, " % $1))") && strings.Contains(v, "math/rand")
		h.C.Check(rule+" random-duration-shape", "(randTime).duration return", ok, h.pos(r), "duration(min) must be min + random % min; found "+v)
	}
	// transfer permission cleared on leaving the candidate state
	rel := h.fn("raft:(*candidate).release")
	rfi := h.P.Info(rel)
	cleared := false
	for _, s := range h.storesIn(rel, "raft:candidate.transfer") {
		if rfi.Sym(storeVal(s.Instr)).String() == "false" {
			cleared = true
			for _, r := range core.Returns(rel) {
				if !core.Dominates(s.Instr, r) {
					cleared = false
				}
			}
		}
	}
	h.C.Check(rule+" transfer-permission-cleared", "(*candidate).release", cleared, h.fpos(rel), "leaving the candidate state must clear candidate.transfer: a later ordinary campaign would carry the leadership-transfer permission and depose a live leader")
	h.onlyWriters(rule+" who-may-write", "raft:candidate.transfer", "(*candidate).release", "(*Raft).onTimeoutNowRequest")
}

// stepDownOnlyWithoutQuorum (C17.7): the leader gives up leadership in
// checkQuorum only when fewer than floor(voters/2)+1 voters are reachable,
// where it counts itself and every voter whose replication has contact, over
// the voters of the latest configuration. A leader that steps down with an
// exact majority reachable makes a cluster with one node down unavailable.
func (h H) stepDownOnlyWithoutQuorum(rule string) {
	fn := h.fn("raft:(*leader).checkQuorum")
	fi := h.P.Info(fn)
	setState := h.fn("raft:(*Raft).setState")
	// the quorum comparison
	var votersPhi, reachPhi *core.Expr
	isNoQuorum := func(a core.Atom) bool {
		// majority > reachable   or   reachable < majority
		var maj, rch *core.Expr
		switch a.Op {
		case ">":
			maj, rch = a.LE, a.RE
		case "<":
			maj, rch = a.RE, a.LE
		case "<=", ">=":
			// reachable <= voters/2  (add == 0)
			if a.Op == "<=" {
				maj, rch = a.RE, a.LE
			} else {
				maj, rch = a.LE, a.RE
			}
			_, den, off, add, ok := core.LinNorm(maj)
			if ok && den == 2 && off == 0 && add == 0 && rch != nil && rch.Op == "phi" {
				votersPhi, reachPhi = maj, rch
				return true
			}
			return false
		default:
			return false
		}
		if maj == nil || rch == nil || rch.Op != "phi" {
			return false
		}
		_, den, off, add, ok := core.LinNorm(maj)
		if ok && den == 2 && off == 0 && add == 1 {
			votersPhi, reachPhi = maj, rch
			return true
		}
		return false
	}
	n := 0
	for k, c := range h.P.CallsTo(fn, setState) {
		if h.argStr(c, 1) != h.constStr("raft:Follower") {
			continue
		}
		n++
		r := fi.MustCross(c, isNoQuorum)
		h.C.Check(rule+" step-down-gate", h.site(fn, setState, k), r.OK, h.pos(c), "the leader can step down although floor(voters/2)+1 voters are reachable: "+r.Witness)
	}
	h.C.Floor(rule+" (step-down sites in checkQuorum)", n, 1)
	if votersPhi == nil || reachPhi == nil {
		return
	}
	// the two counters: every increment of `voters` is under n.Voter of the
	// latest configuration; `reachable` is incremented for self and for every
	// voter with contact, i.e. on the edges (key == nid) and IsZero(noContact)
	nv := h.rangeVar(fn, "leader.Raft.storage.configs.Latest.Nodes")
	h.C.Check(rule+" counts-latest-config", "(*leader).checkQuorum range", nv != "", h.fpos(fn), "checkQuorum must count over the nodes of the latest configuration")
	incs := 0
	core.Instrs(fn, func(in ssa.Instruction) {
		b, ok := in.(*ssa.BinOp)
		if !ok || b.Op != token.ADD {
			return
		}
		if c, isC := b.Y.(*ssa.Const); !isC || c.Int64() != 1 {
			return
		}
		if _, isPhi := b.X.(*ssa.Phi); !isPhi {
			return
		}
		incs++
		r := fi.MustCross(b, func(a core.Atom) bool { return a.Op == "true" && a.L == nv+".Voter" })
		h.C.Check(rule+" counts-voters-only", fmt.Sprintf("(*leader).checkQuorum increment#%d", incs), r.OK, h.pos(b), "a node that is not a voter is counted: "+r.Witness)
	})
	h.C.Check(rule+" two-counters", "(*leader).checkQuorum", incs == 2, h.fpos(fn), fmt.Sprintf("expected the voters and reachable counters, found %d increments", incs))
	// self and contacted voters count as reachable: the block reached by
	// (key == nid) true and by IsZero(noContact) true increments a counter
	okSelf, okContact := false, false
	for _, ea := range fi.AllEdgeAtoms() {
		if ea.A.Op == "==" && strings.HasSuffix(ea.A.L, ".key") && ea.A.R == "leader.Raft.storage.nid" || ea.A.Op == "==" && strings.HasSuffix(ea.A.R, ".key") && ea.A.L == "leader.Raft.storage.nid" {
			okSelf = okSelf || blockIncrements(ea.E.From.Succs[ea.E.Succ])
		}
		if ea.A.Op == "true" && strings.HasPrefix(ea.A.L, "(time.Time).IsZero(") && strings.HasSuffix(ea.A.L, ".status.noContact)") {
			okContact = okContact || blockIncrements(ea.E.From.Succs[ea.E.Succ])
		}
	}
	h.C.Check(rule+" self-and-contacted-are-reachable", "(*leader).checkQuorum", okSelf && okContact, h.fpos(fn), fmt.Sprintf("the leader itself (%v) and every voter with contact (%v) must count as reachable", okSelf, okContact))
}

func blockIncrements(b *ssa.BasicBlock) bool {
	for _, in := range b.Instrs {
		if bo, ok := in.(*ssa.BinOp); ok && bo.Op == token.ADD {
			if c, isC := bo.Y.(*ssa.Const); isC && c.Int64() == 1 {
				return true
			}
		}
	}
	return false
}
