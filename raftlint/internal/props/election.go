package props

import (
	"fmt"
	"strings"

	"golang.org/x/tools/go/ssa"

	"raftlint/internal/core"
)

// Election obligations shared by C01, C11, C16, C17.

// setStateSites: call sites of Raft.setState by constant target state.
func (h H) setStateSites(state string) []core.Site {
	ss := h.fn("raft:(*Raft).setState")
	want := "State(" + h.P.Const("raft:"+state).Val().ExactString() + ")"
	var out []core.Site
	for _, s := range h.P.Callers(ss) {
		if h.argStr(s.Instr.(ssa.CallInstruction), 1) == want {
			out = append(out, s)
		}
	}
	return out
}

// leaderOnlyByMajority (C01.3).
func (h H) leaderOnlyByMajority(rule string) {
	h.onlyWriters(rule+" who-may-write", "raft:Raft.state", "(*Raft).setState", "New")
	// every setState call passes a constant state
	ss := h.fn("raft:(*Raft).setState")
	for _, s := range h.P.Callers(ss) {
		a := h.argStr(s.Instr.(ssa.CallInstruction), 1)
		h.C.Check(rule+" constant-state", "setState in "+h.name(core.Root(s.Fn)), strings.HasPrefix(a, "State("), h.pos(s.Instr), "setState called with a non-constant state: "+a)
	}
	sites := h.setStateSites("Leader")
	for _, s := range sites {
		h.C.Check(rule+" who-becomes-leader", "setState(Leader) in "+h.name(core.Root(s.Fn)), h.name(s.Fn) == "(*candidate).onVoteResult", h.pos(s.Instr), "only candidate.onVoteResult may switch to Leader")
	}
	h.C.Floor(rule+" (setState(Leader) sites)", len(sites), 1)
	fn := h.fn("raft:(*candidate).onVoteResult")
	fi := h.P.Info(fn)
	succ := h.constStr("raft:success")
	decs := h.storesIn(fn, "raft:candidate.votesNeeded")
	if !h.C.Check(rule+" single-decrement", "(*candidate).onVoteResult votesNeeded", len(decs) == 1, h.fpos(fn), fmt.Sprintf("want one store to votesNeeded, found %d", len(decs))) {
		return
	}
	dec := decs[0].Instr
	v := fi.Sym(storeVal(dec)).String()
	h.C.Check(rule+" decrement-by-one", "(*candidate).onVoteResult votesNeeded", v == "(candidate.votesNeeded - 1)", h.pos(dec), "votesNeeded must be decremented by one per granted vote; found "+v)
	h.gate(rule+" counted-only-on-success", "(*candidate).onVoteResult votesNeeded", dec, core.MkAtom("invoke:getResult(rpcResponse.response)", "==", succ))
	h.gate(rule+" counted-only-without-error", "(*candidate).onVoteResult votesNeeded", dec, core.MkAtom("rpcResponse.err", "==", "nil"))
	h.gate(rule+" counted-only-if-term-not-higher", "(*candidate).onVoteResult votesNeeded", dec, core.MkAtom("invoke:getTerm(rpcResponse.response)", "<=", "candidate.Raft.storage.term"))
	for _, s := range sites {
		if s.Fn != fn {
			continue
		}
		h.C.Check(rule+" leader-after-count", "(*candidate).onVoteResult setState(Leader)", core.Dominates(dec, s.Instr), h.pos(s.Instr), "becomes leader without counting a vote first")
		h.gate(rule+" leader-only-at-zero", "(*candidate).onVoteResult setState(Leader)", s.Instr, core.MkAtom("candidate.votesNeeded", "==", "0"))
	}
	// votesNeeded is (re)initialised only in startElection from quorum() of the latest configuration
	se := h.fn("raft:(*candidate).startElection")
	sfi := h.P.Info(se)
	h.onlyWriters(rule+" who-may-write", "raft:candidate.votesNeeded", "(*candidate).startElection", "(*candidate).onVoteResult")
	for _, s := range h.storesIn(se, "raft:candidate.votesNeeded") {
		val := sfi.Sym(storeVal(s.Instr)).String()
		h.C.Check(rule+" quorum-of-latest", "(*candidate).startElection votesNeeded", val == "(Config).quorum(candidate.Raft.storage.configs.Latest)", h.pos(s.Instr), "votesNeeded must be quorum() of the latest configuration; found "+val)
	}
	// a fresh reply channel per election; request goroutines send on the channel they were given
	h.onlyWriters(rule+" who-may-write", "raft:candidate.respCh", "(*candidate).startElection", "(*candidate).release")
	var mk ssa.Instruction
	for _, s := range h.storesIn(se, "raft:candidate.respCh") {
		_, isMk := storeVal(s.Instr).(*ssa.MakeChan)
		h.C.Check(rule+" fresh-reply-channel", "(*candidate).startElection respCh", isMk, h.pos(s.Instr), "each election must create a fresh reply channel (replies of an earlier election would be counted)")
		mk = s.Instr
	}
	gos := h.P.GoSites(se)
	for i, g := range gos {
		site := fmt.Sprintf("(*candidate).startElection go#%d", i+1)
		if mk != nil {
			h.C.Check(rule+" channel-before-requests", site, core.Dominates(mk, g), h.pos(g), "request goroutine started before the election's reply channel exists")
		}
		args := g.Call.Args
		okArg := len(args) == 1 && sfi.Sym(args[0]).String() == "candidate.respCh"
		h.C.Check(rule+" goroutine-gets-channel", site, okArg, h.pos(g), "the reply channel must be passed to the goroutine by value at start")
		if mc, ok := g.Call.Value.(*ssa.MakeClosure); ok {
			cl := mc.Fn.(*ssa.Function)
			cfi := h.P.Info(cl)
			n := 0
			core.Instrs(cl, func(in ssa.Instruction) {
				if snd, ok := in.(*ssa.Send); ok {
					n++
					h.C.Check(rule+" reply-on-own-channel", site+" send", cfi.Sym(snd.Chan).String() == "λ$0", h.pos(snd), "vote reply is sent on "+cfi.Sym(snd.Chan).String()+" instead of the channel captured at start")
				}
			})
			h.C.Floor(rule+" (sends in request goroutine)", n, 1)
		}
		// only voters other than self are asked (and so can reply)
		nv := h.rangeVar(se, "candidate.Raft.storage.configs.Latest.Nodes")
		h.gate(rule+" ask-voters-only", site, g, core.BoolAtom(nv+".Voter", true))
	}
	h.C.Floor(rule+" (vote request goroutines)", len(gos), 1)
	// the self vote is the only reply produced locally, and it is a vote reply with result success for own id
	nSend := 0
	core.Instrs(se, func(in ssa.Instruction) {
		if snd, ok := in.(*ssa.Send); ok {
			nSend++
			h.C.Check(rule+" single-self-vote", "(*candidate).startElection self-reply", nSend == 1 && snd.Block().Index == 0, h.pos(snd), "the candidate may count exactly one vote of its own per election")
		}
	})
	// stale replies: stateLoop reads the candidate's current respCh
	h.quorumArithmetic(rule + " quorum-arith")
}

// stepDownOnHigherTerm (C01.5).
func (h H) stepDownOnHigherTerm(rule string) {
	setTerm := h.fn("raft:(*storage).setTerm")
	setState := h.fn("raft:(*Raft).setState")
	follower := "State(" + h.P.Const("raft:Follower").Val().ExactString() + ")"
	check := func(spec, lhs, rhs, termArg string) {
		fn := h.fn(spec)
		fi := h.P.Info(fn)
		want := core.MkAtom(lhs, "<", rhs)
		n := 0
		for _, ea := range fi.AllEdgeAtoms() {
			if !ea.A.Implies(want) || ea.A.Op == "!=" {
				continue
			}
			n++
			site := h.name(fn) + " higher-term-branch"
			b := ea.E.From.Succs[ea.E.Succ]
			r1 := fi.AlwaysFollowedFrom(b, 0, func(in ssa.Instruction) bool {
				return h.P.IsCallTo(in, setTerm) && h.argStr(in.(ssa.CallInstruction), 1) == termArg
			}, nil)
			r2 := fi.AlwaysFollowedFrom(b, 0, func(in ssa.Instruction) bool {
				return h.P.IsCallTo(in, setState) && h.argStr(in.(ssa.CallInstruction), 1) == follower
			}, nil)
			h.C.Check(rule+" adopt-term", site, r1.OK, h.pos(b.Instrs[0]), "a higher term is observed but not adopted with setTerm("+termArg+"): "+r1.Witness)
			h.C.Check(rule+" become-follower", site, r2.OK, h.pos(b.Instrs[0]), "a higher term is observed without stepping down to follower: "+r2.Witness)
		}
		if !strings.Contains(spec, "onAppendEntriesRequest") && !strings.Contains(spec, "onInstallSnapRequest") {
			h.C.Floor(rule+" (higher-term test in "+h.name(fn)+")", n, 1)
		}
	}
	check(appendFn, "Raft.storage.term", "appendReq.req.term", "appendReq.req.term")
	check("raft:(*Raft).onInstallSnapRequest", "Raft.storage.term", "installSnapReq.req.term", "installSnapReq.req.term")
	// a leader is accepted (setLeader(req.src)) only once the node's term equals the request's term
	setLeader := h.fn("raft:(*Raft).setLeader")
	for _, x := range []struct{ spec, req string }{{appendFn, "appendReq"}, {"raft:(*Raft).onInstallSnapRequest", "installSnapReq"}} {
		fn := h.fn(x.spec)
		fi := h.P.Info(fn)
		n := 0
		for k, c := range h.P.CallsTo(fn, setLeader) {
			if h.argStr(c, 1) != x.req+".req.src" {
				continue
			}
			n++
			site := h.site(fn, setLeader, k)
			notLower := fi.MustCrossOrPass(c, func(a core.Atom) bool {
				return a.Implies(core.MkAtom("Raft.storage.term", ">=", x.req+".req.term"))
			}, nil, func(in ssa.Instruction) bool {
				return h.P.IsCallTo(in, setTerm) && h.argStr(in.(ssa.CallInstruction), 1) == x.req+".req.term"
			})
			notHigher := fi.MustCrossAtom(c, core.MkAtom("Raft.storage.term", "<=", x.req+".req.term"))
			h.C.Check(rule+" leader-accepted-at-equal-term", site, notLower.OK && notHigher.OK, h.pos(c),
				"a request is accepted as coming from the leader although the node's term may differ from the request's (higher term not adopted: "+notLower.Witness+"; stale term not refused: "+notHigher.Witness+")")
		}
		h.C.Floor(rule+" (setLeader(req.src) in "+h.name(fn)+")", n, 1)
	}
	check("raft:(*candidate).onVoteResult", "candidate.Raft.storage.term", "invoke:getTerm(rpcResponse.response)", "invoke:getTerm(rpcResponse.response)")
	// leader: a newTerm update from a replication goroutine makes it step down and adopt the term
	cru := h.fn("raft:(*leader).checkReplUpdates")
	cfi := h.P.Info(cru)
	nt := 0
	for _, c := range h.P.CallsTo(cru, setTerm) {
		nt++
		arg := h.argStr(c, 1)
		okArg := strings.HasSuffix(arg, ".val")
		r := cfi.MustCross(c, func(a core.Atom) bool { return a.Op == "true" && strings.HasPrefix(a.L, "ok(assert[newTerm](") })
		pre := cfi.PrecededBy(c, func(in ssa.Instruction) bool {
			return h.P.IsCallTo(in, setState) && h.argStr(in.(ssa.CallInstruction), 1) == follower && in.Block() == c.Block()
		})
		h.C.Check(rule+" leader-steps-down", "(*leader).checkReplUpdates newTerm", okArg && r.OK && pre.OK, h.pos(c), "newTerm update must lead to setState(Follower) and setTerm(update value)")
	}
	h.C.Floor(rule+" (newTerm handling in checkReplUpdates)", nt, 1)
	// replication goroutines forward a staleTerm reply as newTerm{resp.term}
	notify := h.fn("raft:(*replication).notifyLdr")
	stale := h.constStr("raft:staleTerm")
	for _, spec := range []string{"raft:(*replication).onAppendEntriesResp", "raft:(*replication).sendInstallSnapReq"} {
		fn := h.fn(spec)
		fi := h.P.Info(fn)
		n := 0
		for _, ea := range fi.AllEdgeAtoms() {
			if ea.A.Op != "==" || ea.A.R != stale {
				continue
			}
			n++
			b := ea.E.From.Succs[ea.E.Succ]
			r := fi.AlwaysFollowedFrom(b, 0, func(in ssa.Instruction) bool {
				if !h.P.IsCallTo(in, notify) {
					return false
				}
				a := h.arg(in.(ssa.CallInstruction), 1)
				return strings.Contains(a.String(), "new:newTerm")
			}, nil)
			h.C.Check(rule+" forward-new-term", h.name(fn)+" staleTerm-branch", r.OK, h.pos(b.Instrs[0]), "a staleTerm reply is not reported to the leader as newTerm: "+r.Witness)
			// and the function returns errStop on that branch: no success bookkeeping
		}
		h.C.Floor(rule+" (staleTerm test in "+h.name(fn)+")", n, 1)
		// the newTerm value carries the reply's term
		core.Instrs(fn, func(in ssa.Instruction) {
			if st, ok := in.(*ssa.Store); ok && strings.HasPrefix(fi.Sym(st.Addr).String(), "new:newTerm") {
				v := fi.Sym(st.Val).String()
				h.C.Check(rule+" new-term-value", h.name(fn)+" newTerm.val", strings.HasSuffix(v, "resp.term"), h.pos(st), "newTerm must carry the term of the reply; found "+v)
			}
		})
	}
}

// voteStepDown: on vote-handler paths where the request's term is higher (and
// the leader-known refusal does not apply) the node becomes follower and the
// persisted term is the request's.
func (h H) voteStepDown(rule string, vt voteTraces) {
	n := 0
	lk := h.constStr("raft:leaderKnown")
	for _, t := range vt.traces {
		if t.Exit != "return" || len(t.Ret) == 0 || t.Ret[0] == lk {
			continue
		}
		if !t.Entails(vReqTerm, ">", vTerm) {
			continue
		}
		n++
		ev, k := persisted(t)
		stepped := false
		for _, e := range t.Events {
			if e.Callee == "(*Raft).setState" && e.Args[1] == "State("+h.P.Const("raft:Follower").Val().ExactString()+")" {
				stepped = true
			}
		}
		ok := k == 1 && t.EntailsAt(ev, ev.Args[1], "==", vReqTerm) && stepped
		h.C.Check(rule, pathKey(t), ok, t.ExitPos, "request with a higher term handled without adopting the term and stepping down")
	}
	h.C.Floor(rule+" (higher-term paths)", n, 1)
}

// candidateGates (C11.1): every way into Candidate is voter-gated.
func (h H) candidateGates(rule string) {
	sites := h.setStateSites("Candidate")
	allowed := map[string]bool{"(*follower).onTimeout": true, "(*Raft).onTimeoutNowRequest": true, "(*Raft).bootstrap": true}
	for _, s := range sites {
		name := h.name(s.Fn)
		if !h.C.Check(rule+" who-becomes-candidate", "setState(Candidate) in "+name, allowed[name], h.pos(s.Instr), "unexpected way into the candidate state") {
			continue
		}
		switch name {
		case "(*follower).onTimeout":
			h.gate(rule+" voter-gate", "setState(Candidate) in "+name, s.Instr, core.BoolAtom("(*follower).canStartElection(follower)#0", true))
		case "(*Raft).onTimeoutNowRequest":
			h.gate(rule+" voter-gate", "setState(Candidate) in "+name, s.Instr, core.BoolAtom("(Config).isVoter(Raft.storage.configs.Latest, Raft.storage.nid)", true))
		case "(*Raft).bootstrap":
			// self := t.newConf.Nodes[r.nid]; ok && self.Voter; and that configuration becomes Latest before
			fi := h.P.Info(s.Fn)
			r1 := fi.MustCross(s.Instr, func(a core.Atom) bool {
				return a.Op == "true" && a.L == "ok(changeConfig.newConf.Nodes[Raft.storage.nid])"
			})
			r2 := fi.MustCross(s.Instr, func(a core.Atom) bool {
				return a.Op == "true" && strings.HasSuffix(a.L, ".Voter") && strings.HasPrefix(a.L, "local:")
			})
			cc := h.fn("raft:(*Raft).changeConfig")
			adopted := false
			for _, c := range h.P.CallsTo(s.Fn, cc) {
				if h.argStr(c, 1) == "changeConfig.newConf" && core.Dominates(c.(ssa.Instruction), s.Instr) {
					adopted = true
				}
			}
			h.C.Check(rule+" voter-gate", "setState(Candidate) in "+name, r1.OK && r2.OK && adopted, h.pos(s.Instr), "bootstrap campaigns without checking that self is a voter of the configuration it adopts")
		}
	}
	h.C.Floor(rule+" (setState(Candidate) sites)", len(sites), 3)
	// canStartElection true => bootstrapped, member, voter
	cse := h.fn("raft:(*follower).canStartElection")
	fi := h.P.Info(cse)
	n := 0
	for _, r := range core.Returns(cse) {
		if fi.Sym(r.Results[0]).String() != "true" {
			continue
		}
		n++
		nvar := ""
		core.Instrs(cse, func(in ssa.Instruction) {
			if st, ok := in.(*ssa.Store); ok && fi.Sym(st.Val).String() == "follower.Raft.storage.configs.Latest.Nodes[follower.Raft.storage.nid]" {
				nvar = fi.Sym(st.Addr).String()
			}
		})
		if nvar == "" {
			nvar = "follower.Raft.storage.configs.Latest.Nodes[follower.Raft.storage.nid]"
		}
		h.gate(rule+" canStartElection member", "(*follower).canStartElection return-true", r, core.BoolAtom("ok(follower.Raft.storage.configs.Latest.Nodes[follower.Raft.storage.nid])", true))
		h.gate(rule+" canStartElection voter", "(*follower).canStartElection return-true", r, core.BoolAtom(nvar+".Voter", true))
	}
	h.C.Floor(rule+" (true returns of canStartElection)", n, 1)
	// isVoter(id) == exists && Voter
	iv := h.fn("raft:(Config).isVoter")
	sums, uns, ok := h.simAll().TrueSummary(iv)
	if !ok || len(sums) == 0 {
		h.C.Undecided(rule+" isVoter-summary", "(Config).isVoter", h.fpos(iv), "cannot summarise isVoter")
	}
	for i, f := range sums {
		c1 := core.Entails(f, core.Rel{A: "Config.Nodes[$1]#1", Op: "==", B: "true"}, uns)
		c2 := core.Entails(f, core.Rel{A: "Config.Nodes[$1]#0.Voter", Op: "==", B: "true"}, uns)
		h.C.Check(rule+" isVoter-summary", fmt.Sprintf("(Config).isVoter true-path#%d", i+1), c1 && c2, h.fpos(iv), fmt.Sprintf("isVoter(id) may be true without: node exists (%v), node is voter (%v)", c1, c2))
	}
	// startElection re-checks
	se := h.fn("raft:(*candidate).startElection")
	sv := h.fn("raft:(*storage).setVotedFor")
	for k, c := range h.P.CallsTo(se, sv) {
		h.gate(rule+" startElection-asserts-voter", h.site(se, sv, k), c, core.BoolAtom("(Config).isVoter(candidate.Raft.storage.configs.Latest, candidate.Raft.storage.nid)", true))
	}
}

// resetTimerOnlyOnGrant (C17.2): replyRPC reports resetTimer for a vote request only when result == success.
func (h H) resetTimerOnlyOnGrant(rule string) {
	fn := h.fn("raft:(*Raft).replyRPC")
	sim := h.simAll()
	ts := sim.Run(fn)
	if sim.Trunc {
		h.C.Undecided(rule, "(*Raft).replyRPC", h.fpos(fn), "not loop-free")
		return
	}
	n := 0
	vote, succ := h.constStr("raft:rpcVote"), h.constStr("raft:success")
	for _, t := range ts {
		if t.Exit != "return" || len(t.Ret) != 1 || t.Ret[0] == "false" {
			continue
		}
		iReq := evIndex(t, isCall("(*Raft).onRequest"))
		if iReq < 0 {
			continue // identity / read-error paths
		}
		n++
		facts := append([]core.Rel{}, t.Facts...)
		if t.RetRel != nil {
			facts = append(facts, *t.RetRel)
		}
		res := t.Events[iReq].Results
		notVote := core.Entails(facts, core.Rel{A: "invoke:rpcType(rpc.req)", Op: "!=", B: vote}, t.Unsigned)
		granted := len(res) == 2 && core.Entails(facts, core.Rel{A: res[0], Op: "==", B: succ}, t.Unsigned)
		h.C.Check(rule, "(*Raft).replyRPC path["+t.Describe()+"]", notVote || granted, t.ExitPos, "the election timer may be reset by a vote request that was not granted")
	}
	h.C.Floor(rule+" (timer-resetting paths)", n, 1)
	// stateLoop resets the follower timer only when replyRPC said so
	sl := h.fn("raft:(*Raft).stateLoop")
	rt := h.fn("raft:(*follower).resetTimer")
	for k, c := range h.P.CallsTo(sl, rt) {
		fi := h.P.Info(sl)
		r1 := fi.MustCross(c, func(a core.Atom) bool {
			return a.Op == "true" && a.L == "(*Raft).replyRPC(Raft, select@"+selName(a.L)+")"
		})
		_ = r1
		ok := false
		res := fi.MustCross(c, func(a core.Atom) bool {
			return a.Op == "true" && (strings.HasPrefix(a.L, "(*Raft).replyRPC(") || strings.HasSuffix(a.L, ".electionAborted"))
		})
		ok = res.OK
		h.C.Check(rule+" stateLoop", h.site(sl, rt, k), ok, h.pos(c), "follower timer reset without replyRPC's consent: "+res.Witness)
	}
}

func selName(string) string { return "" }

// setTermOnlyOnHigherTerm: setTerm clears the recorded vote, so every call site
// must be behind "the observed term is strictly higher than ours".
func (h H) setTermOnlyOnHigherTerm(rule string) {
	st := h.fn("raft:(*storage).setTerm")
	n := 0
	for _, s := range h.P.Callers(st) {
		root := h.name(core.Root(s.Fn))
		if root == "(*storage).bootstrap" {
			continue // term 1 on an empty storage
		}
		n++
		ci := s.Instr.(ssa.CallInstruction)
		recv, arg := h.argStr(ci, 0), h.argStr(ci, 1)
		termExpr := recv + ".term"
		fi := h.P.Info(s.Fn)
		r := fi.MustCrossAtom(s.Instr, core.MkAtom(arg, ">", termExpr))
		if !r.OK && root == "(*leader).checkReplUpdates" {
			// the newTerm update is produced by a replication goroutine only for a staleTerm reply (checked by C01.5 forward-new-term)
			r.OK = strings.HasSuffix(arg, ".val")
		}
		h.C.Check(rule, "setTerm in "+root, r.OK, h.pos(s.Instr), "setTerm("+arg+") (which clears the recorded vote) is reachable without the term being strictly higher than the node's: "+r.Witness)
	}
	h.C.Floor(rule+" (setTerm call sites)", n, 4)
}
