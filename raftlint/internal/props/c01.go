package props

import "raftlint/internal/core"

func init() {
	register(&Property{ID: "C01", Run: runC01, Assumptions: commonAssumptions,
		Explanation: "Structural necessary conditions of election safety: vote-handler post-conditions on every path (E3), a node becomes leader only in candidate.onVoteResult after counting a quorum of success replies of the current election (fresh reply channel, replies sent on the channel captured at start, quorum = voters/2+1 of the latest configuration), the candidate's self vote is persisted before any request, and every site that observes a higher term adopts it and steps down. That two majorities intersect across schedules, crashes and reconfigurations is a history property and is not decided."})
	register(&Property{ID: "C17", Run: runC17, Assumptions: commonAssumptions,
		Explanation: "Only the leader-stability clause of C17 is decided, plus two structural necessary conditions of catch-up (a rejected probe strictly lowers nextIndex; a compacted entry leads to snapshot installation); availability/liveness itself is not applicable to static analysis: on every path of the vote handler with no transfer flag, a known leader and a requester that is not that leader, the result is not success and the persisted (term, vote) pair is unchanged; a vote reply resets the election timer only when it granted the vote; Raft.leader is written only by setLeader."})
}

func runC01(c *core.Ctx) {
	h := newH(c)
	h.assertIdiom("C01.idiom assert-panics")
	vt := h.runVoteHandler()
	if h.voteSanity("C01.vote-engine", vt) {
		c.Clause("C01.1 success vote reply => persisted pair = (req.term, req.src) (E3)")
		h.voteGrantPost("C01.1a vote-grant-postcondition", vt)
		c.Clause("C01.2 at most one vote per term at every exit of the vote handler (E3)")
		h.voteOncePerTerm("C01.2 one-vote-per-term", vt)
		h.voteStepDown("C01.5a vote-handler-steps-down", vt)
	}
	h.setterPersistThenPublish("C01.1b persist-then-publish", "raft:(*storage).setVotedFor", ">=")
	c.Clause("C01.2b the recorded vote is cleared only when the term strictly increases")
	h.setterPersistThenPublish("C01.2b vote-cleared-only-on-higher-term", "raft:(*storage).setTerm", ">")
	h.setTermOnlyOnHigherTerm("C01.2c setTerm-call-sites")
	c.Clause("C01.3 only a counted quorum of success replies of the current election makes a leader")
	h.leaderOnlyByMajority("C01.3 leader-by-majority")
	h.candidateReleaseRetiresChannel("C01.3b stale-replies-not-counted")
	h.failedConnNotReused("C01.3c failed-conn-not-reused")
	h.pipelineRequestsAccounted("C01.3d pipeline-accounting")
	c.Clause("C01.4 candidate persists (term+1, self) before requesting votes")
	h.selfVoteBeforeCampaign("C01.4 self-vote-first")
	c.Clause("C01.5 every site observing a higher term adopts it and steps down")
	h.stepDownOnHigherTerm("C01.5 step-down")
	h.leaderReleaseCleansUp("C01.6 ex-leader-stops-acting", "update-channel")
	h.stateDriver("C01.7 state-driver")
	c.Clause("C01.8 the quorum a candidate counts is that of the configuration of its log: configs.Latest follows every adoption and falls back, when an entry is cut off, to the configuration saved at that adoption")
	h.adoptAndRevert("C01.8 adopt-revert")
	h.configSetters("C01.8b config-setters")
	c.Clause("C01.9 a vote is counted for the voter that was asked: the handshake on every new connection compares cluster id and node id")
	h.listenerRefusesMismatch("C01.9 listener")
	h.dispatcherHandsOver("C01.10 dispatcher")
	h.voteResultsUnderCurrentState("C01.11 vote-results-under-current-state")
}

func runC17(c *core.Ctx) {
	h := newH(c)
	vt := h.runVoteHandler()
	if h.voteSanity("C17.vote-engine", vt) {
		c.Clause("C17.1 leader-known refusal: no transfer flag, leader known, requester is not the leader => no vote, no term change (E3)")
		h.voteStability("C17.1 leader-known-refusal", vt)
		h.voteRefusalJustified("C17.1b refusal-justified", vt)
	}
	c.Clause("C17.2 a vote reply resets the election timer only when the vote was granted")
	h.resetTimerOnlyOnGrant("C17.2 reset-timer")
	h.followerTimerProtocol("C17.2b timer-protocol")
	c.Clause("C17.3 Raft.leader is written only through setLeader")
	h.onlyWriters("C17.3 who-may-write", "raft:Raft.leader", "(*Raft).setLeader")
	h.leaderHintProtection("C17.3b leader-hint")
	c.Clause("C17.4 (necessary condition of catch-up only, not liveness) a rejected probe strictly lowers nextIndex; a compacted entry leads to snapshot installation")
	h.probeBackoffProgress("C17.4 probe-backoff")
	h.snapshotFallback("C17.4b snapshot-fallback")
	h.requestsFromOwnLog("C17.4d requests-at-snapshot-boundary")
	h.campaignProgress("C17.5 campaign-progress")
	h.appendRefusalJustified("C17.4c append-refusal-justified")
	h.commitThenApply("C17.6 commit-then-apply")
	h.canCommitComplete("C17.6b canCommit-complete")
	h.stepDownOnlyWithoutQuorum("C17.7 step-down-only-without-quorum")
	h.leaderInitEstablishes("C17.8 leadership-start", "leader.node", "leader.startIndex", "leader.replUpdateCh", "noop")
	h.leaderReleaseCleansUp("C17.8b leadership-end", "leader-hint")
	h.leaderCommitSkipJustified("C17.6c leader-commit-skip-justified")
	h.configActionProgress("C17.9 membership-progress", "progress")
	h.commitReadyReevaluates("C17.9b commit-ready-reevaluates")
	h.replicationLearnsConfig("C17.11 replication-learns-config")
	h.transferReplyMeaning("C17.9c transfer-end-reevaluates")
	c.Clause("C17.12 a node dropped from the configuration cannot depose the leader through what its replication had already queued")
	h.removedReplicationMuted("C17.12 removed-muted")
	c.Clause("C17.13 a failing replication retries within the follower's election timeout")
	h.backOffCapped("C17.13 backoff-capped")
	h.stepDownOnCommitOnlyWhenNotVoter("C17.7b step-down-on-commit-only-when-not-voter")
}
