package props

import (
	"fmt"
	"strings"

	"golang.org/x/tools/go/ssa"

	"raftlint/internal/core"
)

func init() {
	register(&Property{ID: "C08", Run: runC08, Assumptions: commonAssumptions,
		Explanation: "Structural necessary conditions of safe membership change: user requests reach the configuration-changing code only behind the validation gates (previous configuration committed, own-term entry committed, not stale, valid, nothing removed, no voting right changed directly, new nodes non-voters, a voter without action remains); every doChangeConfig in checkConfigActions/-Action is behind canChangeConfig() (summary: committed and no transfer), mutates a cloned configuration at most once, and makes a voter only on the promote action; configuration entries are adopted where appended and reverted where truncated; commitConfig is tied to the commit index; sole writers of configs.Latest/Committed. That C01/C02 hold under reconfiguration histories and that a voter remains at run time are not decided."})
	register(&Property{ID: "C11", Run: runC11, Assumptions: commonAssumptions,
		Explanation: "Structural necessary conditions of 'non-voters and removed nodes hold no authority': every way into the candidate state is voter-gated (canStartElection, timeout-now refusal, bootstrap self-voter check, startElection assertion); acknowledgements of non-voters never enter the majority and the voter cache is fresh; promotion happens only after a finished round that was fast enough (or left nothing new), rounds finish only when matchIndex reached the round's target; removal of a non-voter waits for it to learn the configuration; a leader that is no longer voter in a committed configuration steps down, and doClose(ErrNodeRemoved) has one site on that committed path. Schedules of configuration learning vs. timeouts are not decided."})
}

func runC08(c *core.Ctx) {
	h := newH(c)
	h.assertIdiom("C08.idiom assert-panics")
	c.Clause("C08.1 request validation gates in leader.onChangeConfig")
	h.configChangeGates("C08.1 validation")
	c.Clause("C08.2 one action per entry, only under canChangeConfig(), on a cloned configuration")
	h.oneActionPerEntry("C08.2 one-action")
	h.startIndexFirst("C08.2c commit-ready-marker")
	c.Clause("C08.3 configuration adopted where appended, reverted where truncated; sole writers")
	h.adoptAndRevert("C08.3 adopt-revert")
	c.Clause("C08.4 commitConfig tied to the commit index")
	h.commitConfigTied("C08.4 commit-config")
	c.Clause("C08.5 voter cache of the leader follows the configuration (E4)")
	h.voterCacheFreshness("C08.5 voter-cache")
	h.leaderInitEstablishes("C08.5b voter-cache", "leader.numVoters")
	h.configActionProgress("C08.7 membership-effect", "effect")
	h.nextActionTable("C08.8 next-action-table")
	h.configSetters("C08.9 config-setters")
	h.labelCoherence("C08.10 label-coherence")
	c.Clause("C08.6 configurations rebuilt on restart: newest configuration entry above the snapshot is Latest, next is Committed, snapshot label as fallback")
	h.openStorageRebuild("C08.6 restart-rebuild")
}

func runC11(c *core.Ctx) {
	h := newH(c)
	h.assertIdiom("C11.idiom assert-panics")
	c.Clause("C11.1 every way into Candidate is voter-gated")
	h.candidateGates("C11.1 candidate-gates")
	c.Clause("C11.2 acknowledgements of non-voters never count; non-voting leader excluded; voter cache fresh")
	h.majorityOverVoters("C11.2a majority")
	h.voterCacheFreshness("C11.2b voter-cache")
	h.leaderInitEstablishes("C11.2c voter-cache", "leader.numVoters")
	h.configSetters("C11.2d config-setters")
	h.configActionProgress("C11.3b promotion-rounds", "rounds")
	c.Clause("C11.3 promotion only after a finished, fast-enough round; rounds finish only at their target")
	h.promotionGate("C11.3 promotion")
	// a promotion computed on the live configuration map would also rewrite
	// the committed configuration the node falls back to
	h.oneActionPerEntry("C11.3c one-action")
	c.Clause("C11.4 leader yields when a committed configuration no longer lists it as voter; shutdown-on-remove only after commit")
	h.leaderYields("C11.4 leader-yields")
}

// promotionGate (C11.3, C11.5) by E3 over checkConfigAction.
func (h H) promotionGate(rule string) {
	fn := h.fn("raft:(*leader).checkConfigAction")
	sim := h.simAll()
	ts := sim.Run(fn)
	if sim.Trunc {
		h.C.Undecided(rule, h.name(fn), h.fpos(fn), "not loop-free")
		return
	}
	nProm, nRem, nFin := 0, 0, 0
	promote, remove := h.constStr("raft:Promote"), h.constStr("raft:Remove")
	for _, t := range ts {
		key := h.name(fn) + " path[" + t.Describe() + "]"
		// round.finish only when matchIndex >= round.LastIndex
		for _, e := range t.Events {
			if e.Callee == "(*round).finish" {
				nFin++
				ok := false
				for _, term := range core.TermsWithPrefix(e.Facts, e.Args[0]+".LastIndex") {
					if t.EntailsAt(e, "replicationStatus.matchIndex", ">=", term) {
						ok = true
					}
				}
				h.C.Check(rule+" round-finish", key, ok, e.Pos, "a promotion round is marked finished although the node's match index has not reached the round's target")
			}
		}
		// promotion: a mapupdate after Voter := true
		iV := evIndex(t, func(e core.Event) bool {
			return e.Callee == "store" && strings.HasSuffix(e.Args[0], ".Voter") && e.Args[1] == "true"
		})
		if iV >= 0 {
			nProm++
			ev := t.Events[iV]
			// action is Promote
			okAct := false
			for _, e := range t.Events[:iV] {
				if e.Callee == "(Node).nextAction" && len(e.Results) == 1 && t.EntailsAt(ev, e.Results[0], "==", promote) {
					okAct = true
				}
			}
			// a finished() == true observation after which no begin() happens
			okFin := false
			for i, e := range t.Events[:iV] {
				if e.Callee == "(*round).finished" && len(e.Results) == 1 && t.EntailsAt(ev, e.Results[0], "==", "true") {
					clean := true
					for _, e2 := range t.Events[i+1 : iV] {
						if e2.Callee == "(*round).begin" {
							clean = false
						}
					}
					if clean {
						okFin = true
					}
				}
			}
			// not (new entries and slow round)
			okFast := t.EntailsAt(ev, "leader.Raft.storage.lastLogIndex", "<=", "replicationStatus.matchIndex")
			if !okFast {
				for _, e := range t.Events[:iV] {
					if e.Callee == "(round).Duration" && len(e.Results) == 1 && t.EntailsAt(ev, e.Results[0], "<=", "leader.Raft.promoteThreshold") {
						okFast = true
					}
				}
			}
			okCan := false
			for _, e := range t.Events[:iV] {
				if e.Callee == "(*leader).canChangeConfig" && len(e.Results) == 1 && t.EntailsAt(ev, e.Results[0], "==", "true") {
					okCan = true
				}
			}
			h.C.Check(rule+" promote", key, okAct && okFin && okFast && okCan, ev.Pos,
				fmt.Sprintf("a non-voter is promoted without: promote action (%v), a finished round (%v), caught-up or fast-enough round (%v), canChangeConfig (%v)", okAct, okFin, okFast, okCan))
		}
		// removal of a non-voter (Remove action): waits for matchIndex >= Latest.Index
		for _, e := range t.Events {
			if e.Callee != "delete" {
				continue
			}
			isRemove := false
			for _, e2 := range t.Events {
				if e2.Callee == "(Node).nextAction" && len(e2.Results) == 1 && t.EntailsAt(e, e2.Results[0], "==", remove) {
					isRemove = true
				}
			}
			if isRemove {
				nRem++
				ok := t.EntailsAt(e, "replicationStatus.matchIndex", ">=", "leader.Raft.storage.configs.Latest.Index")
				h.C.Check(rule+" remove-waits", key, ok, e.Pos, "a non-voter is removed before it has learnt the configuration that made it a non-voter")
			}
		}
	}
	// a restarted round is unfinished: begin() must clear what finished() tests
	bg := h.fn("raft:(*round).begin")
	fin := h.fn("raft:(*round).finished")
	tested := map[string]bool{}
	core.Instrs(fin, func(in ssa.Instruction) {
		if fa, ok := in.(*ssa.FieldAddr); ok {
			tested[structOfT(fa.X.Type()).Field(fa.Field).Name()] = true
		}
	})
	cleared := map[string]bool{}
	bfi := h.P.Info(bg)
	core.Instrs(bg, func(in ssa.Instruction) {
		if st, ok := in.(*ssa.Store); ok {
			if fa, ok := st.Addr.(*ssa.FieldAddr); ok {
				if c, isC := st.Val.(*ssa.Const); isC && c.Value == nil {
					cleared[structOfT(fa.X.Type()).Field(fa.Field).Name()] = true
				}
				_ = bfi
			}
		}
	})
	okReset := len(tested) > 0
	for f := range tested {
		if !cleared[f] {
			okReset = false
		}
	}
	h.C.Check(rule+" round-restart", "(*round).begin", okReset, h.fpos(bg), fmt.Sprintf("begin() starts a new round but leaves the fields finished() tests untouched (%v): a restarted round counts as finished at once, so the promotion gate passes without the node catching up again", keys(tested)))
	// every round aims at the leader's last log index as it is when the round
	// begins (a round that aims at the commit index is over at once while the
	// node is still behind the leader's log)
	nBeg := 0
	for _, f := range h.P.Funcs() {
		if f.Pkg == nil || f.Pkg.Pkg.Name() != "raft" {
			continue
		}
		for k, c := range h.P.CallsTo(f, bg) {
			if c.Parent() != f {
				continue
			}
			nBeg++
			arg := h.argStr(c, 1)
			h.C.Check(rule+" round-target", h.site(f, bg, k), strings.HasSuffix(arg, ".storage.lastLogIndex"), h.pos(c.(ssa.Instruction)), "a catch-up round begins with target "+arg+" instead of the leader's last log index")
		}
	}
	h.C.Floor(rule+" (round starts)", nBeg, 2)
	h.C.Floor(rule+" (promotion paths)", nProm, 1)
	h.C.Floor(rule+" (remove paths)", nRem, 1)
	h.C.Floor(rule+" (round.finish sites)", nFin, 1)
	// nextAction: a voter is never promoted/removed directly; remove of a voter first demotes
	na := h.fn("raft:(Node).nextAction")
	nts := h.simAll().Run(na)
	for _, t := range nts {
		if t.Exit != "return" || len(t.Ret) != 1 {
			continue
		}
		key := "(Node).nextAction path[" + t.Describe() + "]"
		if t.Ret[0] == promote || (t.Ret[0] == "Node.Action" && core.Consistent(append(append([]core.Rel{}, t.Facts...), core.Rel{A: "Node.Action", Op: "==", B: promote}), t.Unsigned)) {
			ok := t.Entails("Node.Voter", "!=", "true")
			h.C.Check(rule+" nextAction-promote-nonvoter", key, ok, t.ExitPos, "nextAction may yield Promote for a node that is already a voter")
		}
	}
}

// leaderYields (C11.4).
func (h H) leaderYields(rule string) {
	fn := h.fn("raft:(*Raft).setCommitIndex")
	fi := h.P.Info(fn)
	cm := h.fn("raft:(*Raft).commitConfig")
	ss := h.fn("raft:(*Raft).setState")
	follower := "State(" + h.P.Const("raft:Follower").Val().ExactString() + ")"
	leader := "State(" + h.P.Const("raft:Leader").Val().ExactString() + ")"
	calls := h.P.CallsTo(fn, cm)
	for k, c := range calls {
		// after commitConfig: on every path where state == Leader && !isVoter(nid) => setState(Follower)
		r := fi.AlwaysFollowedByE(c, func(in ssa.Instruction) bool {
			return h.P.IsCallTo(in, ss) && h.argStr(in.(ssa.CallInstruction), 1) == follower
		}, func(a core.Atom) bool {
			return a.Implies(core.MkAtom("Raft.state", "!=", leader)) || (a.Op == "true" && a.L == "(Config).isVoter(Raft.storage.configs.Latest, Raft.storage.nid)")
		})
		h.C.Check(rule+" step-down", h.site(fn, cm, k), r.OK, h.pos(c), "after a configuration commits, a leader that is not a voter of it can keep leading: "+r.Witness)
	}
	h.C.Floor(rule+" (commitConfig in setCommitIndex)", len(calls), 1)
	dc := h.fn("raft:(*Raft).doClose")
	n := 0
	for _, s := range h.P.Callers(dc) {
		arg := h.argStr(s.Instr.(ssa.CallInstruction), 1)
		if arg != "global:ErrNodeRemoved" {
			continue
		}
		n++
		site := "doClose(ErrNodeRemoved) in " + h.name(s.Fn)
		if !h.C.Check(rule+" shutdown-site", site, h.name(s.Fn) == "(*Raft).setCommitIndex", h.pos(s.Instr), "shutdown-on-removal outside the commit path") {
			continue
		}
		h.gate(rule+" shutdown-only-if-absent", site, s.Instr, core.BoolAtom("ok(Raft.storage.configs.Latest.Nodes[Raft.storage.nid])", false))
		h.gate(rule+" shutdown-only-if-enabled", site, s.Instr, core.BoolAtom("Raft.shutdownOnRemove", true))
		h.dominatedByCall(rule+" shutdown-after-commit", site, s.Instr, cm)
		// …and only a node that was a member of the configuration the
		// committed one replaces: a node that is being added reads, while it
		// catches up, configurations that precede its addition (F30). The
		// membership test reads configs.Committed before commitConfig
		// overwrites it
		sfi := h.P.Info(s.Fn)
		was := sfi.MustCross(s.Instr, func(a core.Atom) bool {
			return a.Implies(core.BoolAtom("ok(Raft.storage.configs.Committed.Nodes[Raft.storage.nid])", true))
		})
		before := false
		core.Instrs(s.Fn, func(in ssa.Instruction) {
			lk, ok := in.(*ssa.Lookup)
			if !ok || !lk.CommaOk || sfi.Sym(lk.X).String() != "Raft.storage.configs.Committed.Nodes" {
				return
			}
			for _, c := range h.P.CallsTo(s.Fn, cm) {
				if core.Dominates(in, c.(ssa.Instruction)) {
					before = true
				}
			}
		})
		h.C.Check(rule+" shutdown-only-former-member", site, was.OK && before, h.pos(s.Instr), fmt.Sprintf("the node shuts itself down as removed without having been a member of the configuration that the committed one replaces (membership in configs.Committed tested on every path: %v, read before commitConfig overwrites it: %v): a node that is being added commits, while catching up, a configuration that precedes its addition and stops: %s", was.OK, before, was.Witness))
	}
	h.C.Floor(rule+" (doClose(ErrNodeRemoved) sites)", n, 1)
	// timeout-now is refused by non-voters before any effect
	tn := h.fn("raft:(*Raft).onTimeoutNowRequest")
	nEff := 0
	core.Instrs(tn, func(in ssa.Instruction) {
		if _, ok := in.(*ssa.Store); ok {
			nEff++
			h.gate(rule+" timeout-now-voter-only", fmt.Sprintf("(*Raft).onTimeoutNowRequest effect#%d", nEff), in, core.BoolAtom("(Config).isVoter(Raft.storage.configs.Latest, Raft.storage.nid)", true))
		}
		if c, ok := in.(*ssa.Call); ok && c.Common().StaticCallee() != nil && h.P.ModSet(c.Common().StaticCallee()) != nil && len(h.P.ModSet(c.Common().StaticCallee())) > 0 {
			nEff++
			h.gate(rule+" timeout-now-voter-only", fmt.Sprintf("(*Raft).onTimeoutNowRequest effect#%d", nEff), in, core.BoolAtom("(Config).isVoter(Raft.storage.configs.Latest, Raft.storage.nid)", true))
		}
	})
	h.C.Floor(rule+" (effects of onTimeoutNowRequest)", nEff, 2)
}

func keys(m map[string]bool) []string {
	var out []string
	for k := range m {
		out = append(out, k)
	}
	sortStrings(out)
	return out
}
