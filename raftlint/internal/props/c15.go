package props

import (
	"fmt"
	"go/types"
	"sort"
	"strings"

	"golang.org/x/tools/go/ssa"

	"raftlint/internal/core"
)

func init() {
	register(&Property{ID: "C15", Run: runC15, Assumptions: append([]string{
		"goroutine roots are the targets of go statements; Raft.stateLoop (called by Serve) is the raft goroutine",
		"constructors (openStorage, openSnapshots, New, getConnPool literal) run before the object is shared"}, commonAssumptions...),
		Explanation: "Structural necessary conditions of 'no self-inflicted failure; every task completes; shutdown terminates': (E5) every access to a lock-guarded field (snapshots.used/usedMu, snapshots.index,term/mu, connPool.conns/mu, resolver.addrs/mu, the connection set of server.serve) happens with the lock held, locally or at every call site; (E6) raft-, fsm- and replication-owned fields are accessed only by functions their owner goroutine can reach, and no address of raft-owned mutable state is stored into a value handed to another goroutine; (E4) the nil-able log view (C09.3); (E7) every function receiving a task answers it or hands it on along every non-panicking path, release paths drain the holders, replyRPC closes rpc.done on every path before it may panic; panics of the raft, replication and bootstrap code are routed through recoverErr. Absence of assertion failures and deadlocks in general, and exactly-once completion, are value- and schedule-dependent and not decided."})
}

func runC15(c *core.Ctx) {
	h := newH(c)
	c.Clause("C15.1 lock discipline (E5)")
	h.lockDiscipline("C15.1 lockset")
	c.Clause("C15.2 goroutine confinement and escape (E6)")
	h.confinement("C15.2 confinement")
	c.Clause("C15.3 nil-able log views: leader.removeLTE never falls behind PrevIndex (E4)")
	h.viewLowerBound("C15.3 view-lower-bound")
	h.leaderInitEstablishes("C15.3b view-lower-bound", "leader.removeLTE")
	c.Clause("C15.4 every task is answered or handed to a holder that is drained (E7)")
	h.taskTypestate("C15.4 task-typestate")
	h.transferReplyMeaning("C15.4b transfer-state")
	h.replyRPCCompletes("C15.4c rpc-completion")
	h.leaderReleaseCleansUp("C15.4d leadership-end", "queue", "closed-error", "update-channel")
	h.queueDiscipline("C15.4e client-queue")
	h.oneSnapshotAtATime("C15.4f one-snapshot-at-a-time")
	h.transferTimeoutAnswers("C15.4g transfer-timeout-answers")
	// a task answered at the end of a leadership is not kept: the long-lived leader object would answer it again
	h.releaseEmptiesHolders("C15.4h release-empties-holders")
	h.taskReplyPublishes("C15.4i task-reply")
	c.Clause("C15.5 shutdown can make progress: ordering of Serve's epilogue, single closer of Raft.close")
	h.shutdownOrder("C15.5 shutdown")
	h.stateDriver("C15.5b state-driver")
	h.batchHandedOverAtClose("C15.5c batch-handed-over-at-close")
	c.Clause("C15.6 panic conversion routes through recoverErr")
	h.panicConversion("C15.6 panic-conversion")
	h.unexpectedErrStops("C15.6b unexpected-error-stops")
	c.Clause("C15.7 blocking channel operations of goroutines outside a select with a stop/timer case are the frozen, individually justified set (E7b)")
	h.blockingOps("C15.7 blocking-ops")
	c.Clause("C15.8 values of two-result type assertions are dereferenced only where the assertion succeeded")
	h.commaOkDiscipline("C15.8 comma-ok")
	c.Clause("C15.9 assertions that guard persisted state cannot be reached with their condition false: every storage.setTerm(t) lies behind t > term")
	h.setTermPrecondition("C15.9 setTerm-precondition")
	c.Clause("C15.10 segments are closed only when no apply request can still read them; entries are compacted away only once applied")
	h.installCommitsWhatItKeeps("C15.10 install-commit")
	h.whoMayCompact("C15.10b who-may-compact")
	c.Clause("C15.11 opening the latest snapshot cannot fail on healthy storage because a newer one was published meanwhile")
	h.snapshotOpenPinned("C15.11 open-pinned")
	c.Clause("C15.12 a request handler clears or compacts the log only after the replications of an ended leadership were stopped and waited for")
	h.logChangedOnlyWithoutReaders("C15.12 log-readers")
	c.Clause("C15.13 what bounds log compaction counts every goroutine that can still read the log, also the replication of a node that has just been dropped")
	h.logReadersComplete("C15.13 reader-set")
	c.Clause("C15.14 a transfer target is taken from the latest configuration, the one leader.repls follows (a node of another configuration has no replication: nil dereference)")
	h.transferTargetEligibility("C15.14 transfer-target")
	h.barrierRoundTrips("C15.10c barrier-round-trips")
}

type guardSpec struct{ field, mu, reason string }

var guardTable = []guardSpec{
	{"raft:snapshots.used", "usedMu", "use counts of open snapshots, touched by replication, FSM and snapshot goroutines"},
	{"raft:snapshots.index", "mu", "latest snapshot index, published by the snapshot goroutine / install handler"},
	{"raft:snapshots.term", "mu", "latest snapshot term"},
	{"raft:connPool.conns", "mu", "pooled connections, used by replication, vote and transfer goroutines"},
	{"raft:resolver.addrs", "mu", "address book, updated by the raft goroutine, read by dialling goroutines"},
}

// constructorPhase: functions that only run while the object is not yet shared.
var constructorPhase = map[string]string{
	"openSnapshots": "builds the snapshots object before anyone else can see it",
	"openStorage":   "runs inside New/bootstrapStorage before the Raft value exists",
	"New":           "builds the resolver before the Raft value is returned",
}

func (h H) lockDiscipline(rule string) {
	type need struct {
		acc  core.GuardedAccess
		lock string
	}
	// lockset cache per function (entry: nothing held)
	lsCache := map[*ssa.Function]map[ssa.Instruction]core.LockState{}
	locks := func(fn *ssa.Function) map[ssa.Instruction]core.LockState {
		if m, ok := lsCache[fn]; ok {
			return m
		}
		m := h.P.Info(fn).Locksets(core.LockState{})
		lsCache[fn] = m
		return m
	}
	held := func(fn *ssa.Function, in ssa.Instruction, lock string, write bool) bool {
		st := locks(fn)[in]
		m, ok := st[lock]
		if !ok {
			return false
		}
		return !write || m == "W"
	}
	total := 0
	for _, gs := range guardTable {
		f := h.P.Field(gs.field)
		short := gs.field[len("raft:"):]
		n := 0
		for _, fn := range h.P.Funcs() {
			fi := h.P.Info(fn)
			for _, a := range fi.AccessesOf(f) {
				n++
				root := h.name(core.Root(fn))
				lock := a.Base + "." + gs.mu
				construct := fmt.Sprintf("%s in %s", short, h.name(fn))
				kind := "read"
				if a.Write {
					kind = "write"
				}
				if held(fn, a.Instr, lock, a.Write) {
					h.C.Check(rule+" guarded-by "+gs.mu, construct+" ("+kind+")", true, h.pos(a.Instr), "lock held")
					continue
				}
				if why, ok := constructorPhase[root]; ok {
					h.C.Check(rule+" guarded-by "+gs.mu, construct+" ("+kind+", constructor)", true, h.pos(a.Instr), "exempt: "+why)
					continue
				}
				// the object is freshly allocated in this function
				if strings.HasPrefix(a.Base, "new:") {
					h.C.Check(rule+" guarded-by "+gs.mu, construct+" ("+kind+", fresh object)", true, h.pos(a.Instr), "exempt: object allocated in this function")
					continue
				}
				// interprocedural: every caller holds the lock of the object it passes as receiver
				okCallers := false
				if fn.Parent() == nil && len(fn.Params) > 0 && a.Base == fi.Sym(fn.Params[0]).String() {
					callers := h.P.Callers(fn)
					okCallers = len(callers) > 0
					for _, cs := range callers {
						cfi := h.P.Info(cs.Fn)
						recv := cfi.Sym(cs.Instr.(ssa.CallInstruction).Common().Args[0]).String()
						if !held(cs.Fn, cs.Instr, recv+"."+gs.mu, a.Write) {
							if _, isCtor := constructorPhase[h.name(core.Root(cs.Fn))]; !isCtor {
								okCallers = false
							}
						}
					}
				}
				if okCallers {
					h.C.Check(rule+" guarded-by "+gs.mu, construct+" ("+kind+", via callers)", true, h.pos(a.Instr), "every caller holds the lock")
					continue
				}
				// Serve prologue: before stateLoop starts no goroutine that writes the field can exist
				if h.beforeWriters(fn, a.Instr, f) {
					h.C.Check(rule+" guarded-by "+gs.mu, construct+" ("+kind+", before writers exist)", true, h.pos(a.Instr), "exempt: this read happens in Serve before the state loop starts; every writer of the field is reachable only from the state loop")
					continue
				}
				h.C.Check(rule+" guarded-by "+gs.mu, construct+" ("+kind+")", false, h.pos(a.Instr),
					fmt.Sprintf("%s of %s without holding %s (%s): data race with the goroutine that updates it under the lock", kind, short, lock, gs.reason))
			}
		}
		total += n
		h.C.Floor(rule+" (accesses to "+short+")", n, 2)
	}
	h.C.Floor(rule+" (guarded accesses)", total, 20)
	// lock/unlock pairing: every Lock has an Unlock (possibly deferred) on every path to return
	for _, fn := range h.P.Funcs() {
		fi := h.P.Info(fn)
		core.Instrs(fn, func(in ssa.Instruction) {
			c, ok := in.(*ssa.Call)
			if !ok || c.Common().StaticCallee() == nil || c.Common().StaticCallee().Pkg == nil || c.Common().StaticCallee().Pkg.Pkg.Path() != "sync" {
				return
			}
			name := c.Common().StaticCallee().Name()
			if name != "Lock" && name != "RLock" {
				return
			}
			mu := fi.Sym(c.Common().Args[0]).String()
			un := "Unlock"
			if name == "RLock" {
				un = "RUnlock"
			}
			isUnlock := func(x ssa.Instruction) bool {
				var com *ssa.CallCommon
				switch y := x.(type) {
				case *ssa.Call:
					com = y.Common()
				case *ssa.Defer:
					com = y.Common()
				}
				if com == nil || com.StaticCallee() == nil || com.StaticCallee().Name() != un || len(com.Args) == 0 {
					return false
				}
				return fi.Sym(com.Args[0]).String() == mu
			}
			r := fi.AlwaysFollowedBy(in, isUnlock)
			h.C.Check(rule+" lock-released", fmt.Sprintf("%s.%s in %s", mu, name, h.name(fn)), r.OK, h.pos(in), "a path returns with "+mu+" still locked: "+r.Witness)
		})
	}
	// server.serve: the connection set is only touched under its mutex
	sv := h.fn("raft:(*server).serve")
	fns := append([]*ssa.Function{sv}, h.P.Closures(sv)...)
	nConn := 0
	for _, fn := range fns {
		fi := h.P.Info(fn)
		ls := locks(fn)
		core.Instrs(fn, func(in ssa.Instruction) {
			var m ssa.Value
			write := false
			switch x := in.(type) {
			case *ssa.MapUpdate:
				m, write = x.Map, true
			case *ssa.Range:
				m = x.X
			case *ssa.Call:
				if bi, ok := x.Call.Value.(*ssa.Builtin); ok && bi.Name() == "delete" {
					m, write = x.Call.Args[0], true
				}
			}
			if m == nil || !strings.HasPrefix(m.Type().String(), "map[net.Conn]") {
				return
			}
			nConn++
			// the mutex is the RWMutex local of serve
			ok := false
			for k, mode := range ls[in] {
				// serve's own mutex, directly or handed to the connection goroutine by address
				if (strings.HasPrefix(k, "local:") || strings.HasPrefix(k, "λ:local:")) && (!write || mode == "W") {
					ok = true
				}
			}
			_ = fi
			h.C.Check(rule+" serve-connection-set", fmt.Sprintf("conns access#%d in %s", nConn, h.name(fn)), ok, h.pos(in), "the set of open connections is accessed without its mutex")
		})
	}
	h.C.Floor(rule+" (connection-set accesses in serve)", nConn, 3)
}

// beforeWriters: the access is in Serve at a point dominating the stateLoop call,
// and every writer of the field runs in a function reachable only via stateLoop.
func (h H) beforeWriters(fn *ssa.Function, at ssa.Instruction, f *types.Var) bool {
	if h.name(fn) != "(*Raft).Serve" {
		return false
	}
	sl := h.fn("raft:(*Raft).stateLoop")
	calls := h.P.CallsTo(fn, sl)
	if len(calls) != 1 || !(at.Block().Dominates(calls[0].Block())) {
		return false
	}
	// writers
	reachSL := h.P.Reachable(sl)
	goReach := h.goReachable()
	for _, s := range h.P.StoresTo(f) {
		root := core.Root(s.Fn)
		if _, ok := constructorPhase[h.name(root)]; ok {
			continue
		}
		if reachSL[s.Fn] {
			continue
		}
		if _, ok := goReach[s.Fn]; ok {
			// a goroutine: it must be started from stateLoop-reachable code only
			okStart := true
			for _, g := range h.P.Funcs() {
				for _, gs := range h.P.GoSites(g) {
					for _, tgt := range h.P.CalleesOf(gs) {
						if h.P.Reachable(tgt)[s.Fn] && !reachSL[g] {
							okStart = false
						}
					}
				}
			}
			if okStart {
				continue
			}
		}
		return false
	}
	return true
}

// ---------------------------------------------------------------- E6

var raftOnly = []string{
	"raft:Raft.state", "raft:Raft.leader", "raft:Raft.commitIndex", "raft:Raft.connPools",
	"raft:storage.term", "raft:storage.votedFor", "raft:storage.lastLogIndex", "raft:storage.lastLogTerm",
	"raft:Configs.Latest", "raft:Configs.Committed",
	"raft:leader.node", "raft:leader.numVoters", "raft:leader.startIndex", "raft:leader.neHead", "raft:leader.neTail",
	"raft:leader.repls", "raft:leader.removeLTE", "raft:leader.waitStable", "raft:leader.transfer",
	"raft:candidate.votesNeeded", "raft:candidate.respCh", "raft:candidate.transfer",
	"raft:replicationStatus.matchIndex", "raft:replicationStatus.noContact", "raft:replicationStatus.err", "raft:replicationStatus.node",
	"raft:replicationStatus.round", "raft:replicationStatus.removeLTE", "raft:replicationStatus.removed",
}

var replOnly = []string{"raft:replication.matchIndex", "raft:replication.nextIndex", "raft:replication.log", "raft:replication.ldrLastIndex", "raft:replication.node", "raft:replication.noContact"}

func (h H) confinement(rule string) {
	goReach := h.goReachable()
	total := 0
	// (a) raft-only fields are never touched by code a non-raft goroutine can run
	for _, spec := range raftOnly {
		f := h.P.Field(spec)
		short := spec[len("raft:"):]
		for _, fn := range h.P.Funcs() {
			desc, inGo := goReach[fn]
			if !inGo {
				continue
			}
			fi := h.P.Info(fn)
			core.Instrs(fn, func(in ssa.Instruction) {
				fa, ok := in.(*ssa.FieldAddr)
				if !ok {
					return
				}
				st := structOfT(fa.X.Type())
				if st == nil || st.Field(fa.Field) != f {
					return
				}
				// only taking the address without using it here is not an access
				used := false
				for _, r := range *fa.Referrers() {
					switch r.(type) {
					case *ssa.UnOp, *ssa.Store, *ssa.FieldAddr, *ssa.IndexAddr:
						used = true
					}
				}
				if !used {
					return
				}
				// a locally allocated object of that type (e.g. a fresh Configs copy) or a value
				// parameter (Info carries its own copy of Configs) is not the shared state
				rootE := fi.Sym(fa.X).Root()
				if strings.HasPrefix(rootE.String(), "new:") || strings.HasPrefix(rootE.String(), "local:") {
					return
				}
				if rootE.Val != nil {
					if _, isPtr := rootE.Val.Type().Underlying().(*types.Pointer); !isPtr {
						if _, isParam := rootE.Val.(*ssa.Parameter); isParam {
							return
						}
					}
				}
				total++
				h.C.Check(rule+" raft-only", fmt.Sprintf("%s in %s", short, h.name(fn)), false, h.pos(in),
					"field owned by the raft goroutine is accessed by code that another goroutine runs ("+desc+"): data race")
			})
		}
	}
	h.C.Check(rule+" raft-only", "summary", true, "", fmt.Sprintf("%d raft-owned fields checked against %d goroutine-reachable functions", len(raftOnly), len(goReach)))
	// (c) fsm-only / (d) repl-only: accessor functions belong to the owner
	for _, spec := range []string{"raft:stateMachine.index", "raft:stateMachine.term"} {
		f := h.P.Field(spec)
		for _, fn := range h.P.Funcs() {
			fi := h.P.Info(fn)
			if len(fi.AccessesOf(f)) == 0 {
				continue
			}
			root := h.name(core.Root(fn))
			ok := strings.HasPrefix(root, "(*stateMachine).") || root == "New"
			h.C.Check(rule+" fsm-only", spec[len("raft:"):]+" in "+root, ok, h.fpos(fn), "the applied index/term belong to the FSM goroutine")
		}
	}
	for _, spec := range replOnly {
		f := h.P.Field(spec)
		for _, fn := range h.P.Funcs() {
			fi := h.P.Info(fn)
			if len(fi.AccessesOf(f)) == 0 {
				continue
			}
			root := h.name(core.Root(fn))
			ok := strings.HasPrefix(root, "(*replication).") || root == "(*leader).addReplication"
			h.C.Check(rule+" repl-only", spec[len("raft:"):]+" in "+root, ok, h.fpos(fn), "replication progress fields belong to that replication's goroutine")
		}
	}
	// replication goroutines may read only the immutable id of their status
	rs := h.P.Named("raft:replicationStatus").Underlying().(*types.Struct)
	for _, fn := range h.P.Funcs() {
		root := h.name(core.Root(fn))
		if !strings.HasPrefix(root, "(*replication).") {
			continue
		}
		core.Instrs(fn, func(in ssa.Instruction) {
			fa, ok := in.(*ssa.FieldAddr)
			if !ok || structOfT(fa.X.Type()) != rs {
				return
			}
			name := rs.Field(fa.Field).Name()
			h.C.Check(rule+" status-handle", "replicationStatus."+name+" in "+h.name(fn), name == "id", h.pos(in), "a replication goroutine touches leader-owned status field "+name)
		})
	}
	// (b) escape: no address of raft-owned mutable state is stored into a value that leaves the goroutine
	protected := map[*types.Var]string{}
	for _, spec := range []string{"raft:Configs.Latest", "raft:Configs.Committed", "raft:replicationStatus.noContact", "raft:replicationStatus.matchIndex",
		"raft:replicationStatus.node", "raft:replicationStatus.err", "raft:leader.node", "raft:storage.configs", "raft:Raft.commitIndex"} {
		protected[h.P.Field(spec)] = spec[len("raft:"):]
	}
	nAddr := 0
	for _, fn := range h.P.Funcs() {
		core.Instrs(fn, func(in ssa.Instruction) {
			fa, ok := in.(*ssa.FieldAddr)
			if !ok {
				return
			}
			st := structOfT(fa.X.Type())
			if st == nil {
				return
			}
			name, isProt := protected[st.Field(fa.Field)]
			if !isProt {
				return
			}
			nAddr++
			if site := escapes(fa); site != nil {
				h.C.Check(rule+" no-escape", "&"+name+" in "+h.name(fn), false, h.pos(site),
					"the address of raft-owned state ("+name+") is stored into a value that is handed to another goroutine; it is later overwritten by the raft goroutine while the other side reads through the pointer (copy the value instead)")
			}
		})
	}
	h.C.Floor(rule+" (protected field address computations)", nAddr, 10)
}

func structOfT(t types.Type) *types.Struct {
	if pt, ok := t.Underlying().(*types.Pointer); ok {
		t = pt.Elem()
	}
	s, _ := t.Underlying().(*types.Struct)
	return s
}

// escapes: the address value (not what it points to) is stored somewhere, sent, or returned.
func escapes(addr ssa.Value) ssa.Instruction {
	seen := map[ssa.Value]bool{}
	var res ssa.Instruction
	var rec func(v ssa.Value)
	rec = func(v ssa.Value) {
		if seen[v] || res != nil || v.Referrers() == nil {
			return
		}
		seen[v] = true
		for _, r := range *v.Referrers() {
			switch x := r.(type) {
			case *ssa.Store:
				if x.Val == v {
					res = x
				}
			case *ssa.Send:
				if x.X == v {
					res = x
				}
			case *ssa.Return:
				res = x
			case *ssa.Phi:
				rec(x)
			case *ssa.MakeInterface:
				rec(x)
			case *ssa.ChangeType:
				rec(x)
			case *ssa.MakeClosure:
				res = x
			}
		}
	}
	rec(addr)
	return res
}

// ---------------------------------------------------------------- E7

// taskTypestate: reply-or-hand-off on every non-panicking path.
func (h H) taskTypestate(rule string) {
	specs := []struct {
		fn    string
		param int
	}{
		{"raft:(*Raft).executeTask", 1}, {"raft:(*leader).executeTask", 1}, {"raft:(*Raft).bootstrap", 1},
		{"raft:(*leader).onChangeConfig", 1}, {"raft:(*leader).onWaitForStableConfig", 1}, {"raft:(*leader).onTransfer", 1},
		{"raft:(*Raft).onTakeSnapshot", 1}, {"raft:(*Raft).onSnapshotTaken", 1}, {"raft:(*stateMachine).onSnapReq", 1},
		{"raft:(*leader).doChangeConfig", 1}, {"raft:(*server).executeTask", 1},
	}
	for _, s := range specs {
		fn := h.fn(s.fn)
		fi := h.P.Info(fn)
		if s.param >= len(fn.Params) {
			h.C.Undecided(rule, h.name(fn), h.fpos(fn), "task parameter not found")
			continue
		}
		consume := h.consumePred(fn, fn.Params[s.param], 0)
		r := fi.AlwaysFollowedFrom(fn.Blocks[0], 0, consume, nil)
		h.C.Check(rule+" reply-or-hand-off", h.name(fn), r.OK, h.fpos(fn), "a path returns without answering the task or handing it on (the submitter would wait forever): "+r.Witness)
	}
	h.C.Floor(rule+" (task-receiving functions)", len(specs), 10)
	// ... and answers it at most once: no direct reply is reachable from
	// another direct reply to the same task (task.reply closes the task's
	// channel; a second reply panics the goroutine that sends it)
	for _, s := range specs {
		fn := h.fn(s.fn)
		if s.param >= len(fn.Params) {
			continue
		}
		derived := derivedFrom(fn, fn.Params[s.param])
		var replies []ssa.Instruction
		core.Instrs(fn, func(in ssa.Instruction) {
			c, ok := in.(*ssa.Call)
			if !ok {
				return
			}
			com := c.Common()
			if com.IsInvoke() && derived[com.Value] && com.Method.Name() == "reply" {
				replies = append(replies, in)
				return
			}
			if callee := com.StaticCallee(); callee != nil && callee.Name() == "reply" && len(com.Args) > 0 && derived[com.Args[0]] {
				replies = append(replies, in)
			}
		})
		bad := ""
		for _, a := range replies {
			// blocks reachable after a
			seen := map[*ssa.BasicBlock]bool{}
			var stack []*ssa.BasicBlock
			for i := range a.Block().Succs {
				if core.FeasibleSucc(a.Block(), i) {
					stack = append(stack, a.Block().Succs[i])
				}
			}
			later := false
			for _, in := range a.Block().Instrs {
				if in == a {
					later = true
					continue
				}
				if later {
					for _, b := range replies {
						if b == in {
							bad = fmt.Sprintf("%s and again %s", h.pos(a), h.pos(b))
						}
					}
				}
			}
			for len(stack) > 0 {
				b := stack[len(stack)-1]
				stack = stack[:len(stack)-1]
				if seen[b] {
					continue
				}
				seen[b] = true
				for i := range b.Succs {
					if core.FeasibleSucc(b, i) {
						stack = append(stack, b.Succs[i])
					}
				}
			}
			for _, b := range replies {
				if seen[b.Block()] {
					bad = fmt.Sprintf("%s and again %s", h.pos(a), h.pos(b))
				}
			}
		}
		h.C.Check(rule+" answered-at-most-once", h.name(fn), bad == "", h.fpos(fn), "a task can be answered twice on one path: "+bad)
	}
	// replyRPC: rpc.done is closed on every path, before a possible panic
	rr := h.fn("raft:(*Raft).replyRPC")
	rfi := h.P.Info(rr)
	isClose := func(in ssa.Instruction) bool {
		c, ok := in.(*ssa.Call)
		if !ok {
			return false
		}
		b, ok := c.Call.Value.(*ssa.Builtin)
		return ok && b.Name() == "close" && rfi.Sym(c.Call.Args[0]).String() == "rpc.done"
	}
	for k, r := range core.Returns(rr) {
		p := rfi.PrecededBy(r, isClose)
		h.C.Check(rule+" rpc-done-closed", fmt.Sprintf("(*Raft).replyRPC return#%d", k+1), p.OK, h.pos(r), "replyRPC returns without closing rpc.done (the connection handler would wait until shutdown): "+p.Witness)
	}
	core.Instrs(rr, func(in ssa.Instruction) {
		if pn, ok := in.(*ssa.Panic); ok {
			p := rfi.PrecededBy(pn, isClose)
			h.C.Check(rule+" rpc-done-closed", "(*Raft).replyRPC panic", p.OK, h.pos(pn), "replyRPC panics before closing rpc.done")
		}
	})
	// every rpc taken from rpcCh is answered through replyRPC
	sl := h.fn("raft:(*Raft).stateLoop")
	h.C.Check(rule+" rpc-answered", "(*Raft).stateLoop rpcCh", len(h.P.CallsTo(sl, rr)) == 1, h.fpos(sl), "stateLoop must hand every received rpc to replyRPC")
	// drains: leader.release answers queued entries, stable-config waiters and a pending transfer
	rel := h.fn("raft:(*leader).release")
	reply := h.fn("raft:(*task).reply")
	tr := h.fn("raft:(*transfer).reply")
	relfi := h.P.Info(rel)
	var targets []string
	for _, c := range h.P.CallsTo(rel, reply) {
		targets = append(targets, relfi.Sym(c.Common().Args[0]).String())
	}
	sort.Strings(targets)
	hasQueue, hasWait := false, false
	for _, t := range targets {
		if strings.Contains(t, "neHead") {
			hasQueue = strings.Contains(t, ".next)")
		}
		if strings.Contains(t, "waitStable") {
			hasWait = true
		}
	}
	h.C.Check(rule+" release-drains", "(*leader).release", hasQueue && hasWait && len(h.P.CallsTo(rel, tr)) == 1, h.fpos(rel), fmt.Sprintf("leader.release must answer queued entries, stable-config waiters and a pending transfer; replies to: %v", targets))
	// they are in loops that visit every element: the queue loop advances by .next until nil
	// Serve drains newEntryCh after the state loop; Raft.release waits for a running snapshot
	sv := h.fn("raft:(*Raft).Serve")
	svfi := h.P.Info(sv)
	drain := false
	for _, c := range h.P.CallsTo(sv, reply) {
		recv := svfi.Sym(c.Common().Args[0]).String()
		h.C.Check(rule+" drain-walks-batch", "(*Raft).Serve drain receiver", strings.Contains(recv, ".next)"), h.pos(c), "Serve's drain answers only the head of each batch: the entries linked behind it are never completed; receiver: "+recv)
		if svfi.Sym(c.Common().Args[1]).String() == "global:ErrServerClosed" {
			calls := h.P.CallsTo(sv, sl)
			if len(calls) == 1 && calls[0].Block().Dominates(c.Block()) {
				drain = true
			}
		}
	}
	h.C.Check(rule+" serve-drains-entries", "(*Raft).Serve", drain, h.fpos(sv), "after the state loop ended, Serve must fail the entries still queued with ErrServerClosed")
	rrel := h.fn("raft:(*Raft).release")
	ost := h.fn("raft:(*Raft).onSnapshotTaken")
	h.C.Check(rule+" release-waits-snapshot", "(*Raft).release", len(h.P.CallsTo(rrel, ost)) == 1, h.fpos(rrel), "Raft.release must wait for a running snapshot and answer its task")
	// ... on every path on which a snapshot is in progress (a select with a
	// default case leaves a path around the wait: the task is never answered
	// and the snapshot goroutine outlives Serve)
	rfi2 := h.P.Info(rrel)
	for k, r := range core.Returns(rrel) {
		res := rfi2.MustCrossOrPass(r, func(a core.Atom) bool {
			return a.Implies(core.MkAtom("Raft.snapTakenCh", "==", "nil"))
		}, nil, func(in ssa.Instruction) bool { return h.P.IsCallTo(in, ost) })
		h.C.Check(rule+" release-waits-snapshot", fmt.Sprintf("(*Raft).release return#%d", k+1), res.OK, h.pos(r), "Raft.release can return while a snapshot is in progress without waiting for it: "+res.Witness)
	}
	// task.reply closes done at most once
	ts := h.simAll().Run(reply)
	for _, t := range ts {
		n := 0
		for _, e := range t.Events {
			if e.Callee == "close" {
				n++
				ok := t.EntailsAt(e, "task", "!=", "nil")
				closedChecked := false
				for _, e2 := range t.Events {
					if e2.Callee == "isClosed" && len(e2.Results) == 1 && t.EntailsAt(e, e2.Results[0], "!=", "true") {
						closedChecked = true
					}
				}
				h.C.Check(rule+" reply-closes-once", "(*task).reply path["+t.Describe()+"]", ok && closedChecked, e.Pos, "task.reply closes the done channel without checking that it is still open (double reply would panic)")
			}
		}
		h.C.Check(rule+" reply-closes-once", "(*task).reply closes#["+t.Describe()+"]", n <= 1, t.ExitPos, "done closed twice on one path")
	}
}

// consumePred: instructions of fn that answer the task carried by param p or hand
// it on: a reply on it, a store into a holder, a channel send, capture by a started
// closure, or passing it to a callee that itself may consume it (transitively).
func (h H) consumePred(fn *ssa.Function, p *ssa.Parameter, depth int) func(ssa.Instruction) bool {
	derived := derivedFrom(fn, p)
	return func(in ssa.Instruction) bool {
		switch x := in.(type) {
		case ssa.CallInstruction:
			com := x.Common()
			if com.IsInvoke() && derived[com.Value] {
				return com.Method.Name() == "reply"
			}
			if mc, ok := com.Value.(*ssa.MakeClosure); ok {
				for _, b := range mc.Bindings {
					if derived[b] {
						return true
					}
				}
			}
			callee := com.StaticCallee()
			for i, a := range com.Args {
				if !derived[a] {
					continue
				}
				if callee == nil {
					return true // dynamic call: assume it takes responsibility
				}
				if callee.Name() == "reply" {
					return true
				}
				if !h.P.InRepo(callee) || depth > 5 {
					continue
				}
				if i < len(callee.Params) && h.mayConsume(callee, callee.Params[i], depth+1) {
					return true
				}
			}
		case *ssa.Send:
			return derived[x.X]
		case *ssa.Select:
			for _, st := range x.States {
				if st.Send != nil && derived[st.Send] {
					return true
				}
			}
		case *ssa.Store:
			if derived[x.Val] {
				if _, isAlloc := x.Addr.(*ssa.Alloc); !isAlloc {
					return true
				}
			}
		case *ssa.MakeClosure:
			for _, b := range x.Bindings {
				if derived[b] {
					for _, r := range *x.Referrers() {
						if _, ok := r.(ssa.CallInstruction); ok {
							return true
						}
					}
				}
			}
		}
		return false
	}
}

// mayConsume: fn contains, on some path, a consume of its parameter p.
func (h H) mayConsume(fn *ssa.Function, p *ssa.Parameter, depth int) bool {
	pred := h.consumePred(fn, p, depth)
	found := false
	core.Instrs(fn, func(in ssa.Instruction) {
		if !found && pred(in) {
			found = true
		}
	})
	return found
}

// derivedFrom: values that carry the parameter: spills, loads, fields, interface conversions.
func derivedFrom(fn *ssa.Function, p *ssa.Parameter) map[ssa.Value]bool {
	d := map[ssa.Value]bool{p: true}
	changed := true
	for changed {
		changed = false
		for _, b := range fn.Blocks {
			for _, in := range b.Instrs {
				add := func(v ssa.Value) {
					if !d[v] {
						d[v] = true
						changed = true
					}
				}
				switch x := in.(type) {
				case *ssa.Store:
					if d[x.Val] {
						if a, ok := x.Addr.(*ssa.Alloc); ok {
							add(a)
						}
					}
				case *ssa.UnOp:
					if d[x.X] {
						add(x)
					}
				case *ssa.FieldAddr:
					if d[x.X] {
						add(x)
					}
				case *ssa.Field:
					if d[x.X] {
						add(x)
					}
				case *ssa.MakeInterface:
					if d[x.X] {
						add(x)
					}
				case *ssa.ChangeInterface:
					if d[x.X] {
						add(x)
					}
				case *ssa.TypeAssert:
					if d[x.X] {
						add(x)
					}
				case *ssa.Extract:
					if d[x.Tuple] {
						add(x)
					}
				case *ssa.Phi:
					for _, e := range x.Edges {
						if d[e] {
							add(x)
						}
					}
				}
			}
		}
	}
	return d
}

// shutdownOrder (C15.5).
func (h H) shutdownOrder(rule string) {
	sv := h.fn("raft:(*Raft).Serve")
	fi := h.P.Info(sv)
	// order of deferred actions (LIFO at exit): registered order must be
	// safeClose(closed) < unlockDir < wg.Wait < close(fsm.ch) < s.shutdown
	var order []string
	var defs []*ssa.Defer
	core.Instrs(sv, func(in ssa.Instruction) {
		if d, ok := in.(*ssa.Defer); ok {
			name := ""
			if f := d.Call.StaticCallee(); f != nil {
				name = h.name(f)
			} else if b, ok := d.Call.Value.(*ssa.Builtin); ok {
				name = b.Name() + "(" + fi.Sym(d.Call.Args[0]).String() + ")"
			}
			order = append(order, name)
			defs = append(defs, d)
		}
	})
	idx := func(s string) int {
		for i, o := range order {
			if strings.Contains(o, s) {
				return i
			}
		}
		return -1
	}
	a, b, c, d, e := idx("safeClose"), idx("unlockDir"), idx("WaitGroup).Wait"), idx("close(Raft.fsm.ch)"), idx("(*server).shutdown")
	okOrder := a >= 0 && a < b && b < c && c < d && d < e
	// and the defers dominate one another in that order (so LIFO execution is shutdown, close fsm, wait, unlock, closed)
	if okOrder {
		for _, p := range [][2]int{{a, b}, {b, c}, {c, d}, {d, e}} {
			if !core.Dominates(defs[p[0]], defs[p[1]]) {
				okOrder = false
			}
		}
	}
	h.C.Check(rule+" serve-epilogue", "(*Raft).Serve defers", okOrder, h.fpos(sv), fmt.Sprintf("Serve's epilogue must be: stop the server, close the FSM queue, wait for the goroutines, unlock the directory, signal closed; registered defers: %v", order))
	// Raft.close is closed only inside doClose's once
	cl := h.P.Field("raft:Raft.close")
	n := 0
	for _, fn := range h.P.Funcs() {
		ffi := h.P.Info(fn)
		core.Instrs(fn, func(in ssa.Instruction) {
			c, ok := in.(*ssa.Call)
			if !ok {
				return
			}
			bi, ok := c.Call.Value.(*ssa.Builtin)
			if !ok || bi.Name() != "close" {
				return
			}
			e := ffi.Sym(c.Call.Args[0])
			if e.Op == "fld" && e.Var == cl {
				n++
				root := h.name(core.Root(fn))
				h.C.Check(rule+" single-closer", "close(Raft.close) in "+h.name(fn), root == "(*Raft).doClose" && fn.Parent() != nil, h.pos(in), "Raft.close must be closed only inside doClose's sync.Once")
			}
		})
	}
	h.C.Floor(rule+" (close(Raft.close) sites)", n, 1)
	// the closure is run through closeOnce.Do
	dc := h.fn("raft:(*Raft).doClose")
	once := false
	core.Instrs(dc, func(in ssa.Instruction) {
		if c, ok := in.(*ssa.Call); ok && c.Common().StaticCallee() != nil && c.Common().StaticCallee().String() == "(*sync.Once).Do" {
			once = h.P.Info(dc).Sym(c.Common().Args[0]).String() == "Raft.closeOnce"
		}
	})
	h.C.Check(rule+" single-closer", "(*Raft).doClose once", once, h.fpos(dc), "doClose must be guarded by closeOnce")
	// stateLoop leaves on <-r.close; runBatch closes newEntryCh on <-r.close
	rb := h.fn("raft:(*Raft).runBatch")
	closes := false
	core.Instrs(rb, func(in ssa.Instruction) {
		if c, ok := in.(*ssa.Call); ok {
			if bi, ok := c.Call.Value.(*ssa.Builtin); ok && bi.Name() == "close" && h.P.Info(rb).Sym(c.Call.Args[0]).String() == "Raft.newEntryCh" {
				closes = true
			}
		}
	})
	h.C.Check(rule+" runBatch-closes-queue", "(*Raft).runBatch", closes, h.fpos(rb), "runBatch must close newEntryCh on shutdown so that Serve's drain loop ends")
}

// panicConversion (C15.6).
func (h H) panicConversion(rule string) {
	rec := h.fn("raft:recoverErr")
	for _, spec := range []string{"raft:(*Raft).stateLoop", "raft:(*Raft).onRequest", "raft:(*replication).runLoop", "raft:(*storage).bootstrap"} {
		fn := h.fn(spec)
		ok := false
		for _, cl := range h.P.DeferredClosures(fn) {
			hasRecover := false
			core.Instrs(cl, func(in ssa.Instruction) {
				if c, isC := in.(*ssa.Call); isC {
					if bi, isB := c.Call.Value.(*ssa.Builtin); isB && bi.Name() == "recover" {
						hasRecover = true
					}
				}
			})
			if hasRecover && len(h.P.CallsTo(cl, rec)) >= 1 {
				ok = true
			}
		}
		h.C.Check(rule, h.name(fn), ok, h.fpos(fn), "panics raised in this goroutine/handler are not routed through recoverErr")
	}
	// the pipeline writer goroutine in replicate
	rep := h.fn("raft:(*replication).replicate")
	ok := false
	for _, cl := range h.P.Closures(rep) {
		if len(h.P.CallsTo(cl, rec)) >= 1 {
			ok = true
		}
	}
	h.C.Check(rule, "(*replication).replicate pipeline writer", ok, h.fpos(rep), "the pipeline writer goroutine has no panic conversion")
	// recoverErr re-panics assertion failures, bugs and runtime errors (they must not be masked as I/O errors)
	ts := h.simAll().Run(rec)
	nPanic := 0
	for _, t := range ts {
		if t.Exit == "panic" {
			nPanic++
		}
	}
	h.C.Check(rule+" recoverErr-repanics", "recoverErr", nPanic >= 2, h.fpos(rec), "recoverErr must re-panic assertion failures and runtime errors")
	// the FSM goroutine has no recover (todo in the source): informational, state-machine errors are excluded by the property
	run := h.fn("raft:(*stateMachine).runLoop")
	if len(h.P.DeferredClosures(run)) == 0 {
		h.C.Info(rule+" fsm-goroutine", "(*stateMachine).runLoop", h.fpos(run), "the FSM goroutine has no recover: a panicking user state machine terminates the process (the property excludes state-machine errors)")
	}
}
