package props

import (
	"golang.org/x/tools/go/ssa"

	"raftlint/internal/core"
)

func init() {
	register(&Property{ID: "C04", Run: runC04, Assumptions: commonAssumptions,
		Explanation: "Structural necessary conditions of log matching: every append, truncation, commit and success reply of the append handler lies behind the prevLogIndex/prevLogTerm consistency check (whose local term has exactly the two sound reaching definitions) or a prevLogIndex covered by the snapshot; entries at or below the snapshot index are skipped, same-term entries kept, a conflicting entry truncates from exactly its index; storage.appendEntry appends contiguously and keeps the lastLogIndex/lastLogTerm cache coherent with every log mutation; append requests are built from the sender's own log view; a leader never truncates. The inductive property over pairs of nodes is not decided."})
	register(&Property{ID: "C06", Run: runC06, Assumptions: append([]string{"msync/fsync make flushed data durable (model)"}, commonAssumptions...),
		Explanation: "Structural necessary conditions of 'acknowledged entries are durable on a majority of voters': the leader flushes its log up to the new commit index before advancing it; the follower registers the flushing defer before the first append on every feasible path, marks every append for flushing, flushes lastLogIndex before advancing its commit index, and success is returned only after the defers ran; the majority is computed over voters of the latest configuration with a fresh voter cache; matchIndex is raised only by a success reply for the request it belongs to. How many nodes hold an entry at run time is not decided."})
}

func runC04(c *core.Ctx) {
	h := newH(c)
	h.assertIdiom("C04.idiom assert-panics")
	c.Clause("C04.1 consistency check (prevLogIndex/prevLogTerm or snapshot-covered) gates every append, truncation, commit and success reply")
	h.consistencyCheck("C04.1 consistency-check")
	c.Clause("C04.2 entries <= snapshot index skipped, same-term entries kept, contiguous append, lastLogIndex/lastLogTerm cache coherent")
	h.entrySkipAndKeep("C04.2a skip-and-keep")
	h.storageCacheCoherence("C04.2b storage-cache")
	h.entryTermFromLog("C04.2c entry-term")
	// an installed snapshot stands for the log prefix: its label is the (index, term) the follower compares with
	h.snapshotFallback("C04.2d snapshot-fallback")
	// …whose term is the applied term kept by the state machine goroutine
	h.applyInOrder("C04.2e applied-position")
	c.Clause("C04.3/5 truncation only from the first conflicting index, never by a leader")
	h.truncationOnlyAtConflict("C04.3 truncation")
	// truncate-then-append relies on the segment's write position following a back removal
	h.layoutAgreement("C04.3b log-layout")
	c.Clause("C04.4 append requests are built from the sender's own log view")
	h.requestsFromOwnLog("C04.4 requests-from-own-log")
	c.Clause("C04.6 requests of a stale term have no effect")
	h.staleTermNoEffect("C04.6 stale-term")
	c.Clause("C04.7 (index, term) names one entry because a term has one leader: only replies of the current election are counted")
	h.leaderOnlyByMajority("C04.7 votes-of-this-election")
	h.candidateReleaseRetiresChannel("C04.7b stale-replies-not-counted")
	c.Clause("C04.8 the term a leader quotes for the entry at its snapshot index is the snapshot's own term, also after a restart")
	h.snapshotOrder("C04.8 snapshot-order")
	c.Clause("C04.9 a log kept across a restart agrees with the latest snapshot at the snapshot's index")
	h.openStorageRebuild("C04.9 restart-rebuild")
	h.clearLogResets("C04.10 clearLog-resets")
}

// staleTermNoEffect: in both leader-originated handlers every state-changing
// call lies behind req.term >= r.term.
func (h H) staleTermNoEffect(rule string) {
	for _, x := range []struct{ spec, req string }{{appendFn, "appendReq"}, {"raft:(*Raft).onInstallSnapRequest", "installSnapReq"}} {
		fn := h.fn(x.spec)
		n := 0
		for _, spec := range []string{"raft:(*storage).appendEntry", "raft:(*storage).removeGTE", "raft:(*Raft).setCommitIndex", "raft:(*Raft).setLeader", "raft:(*Raft).setState", "raft:(*storage).clearLog", "raft:(*snapshots).new", "raft:(*Raft).compactLog", "raft:(*Raft).changeConfig"} {
			cal := h.fn(spec)
			for k, c := range h.P.CallsTo(fn, cal) {
				n++
				h.gateLoose(rule, h.site(fn, cal, k), c.(ssa.Instruction), core.MkAtom("Raft.storage.term", "<=", x.req+".req.term"))
			}
		}
		h.C.Floor(rule+" (effects in "+h.name(fn)+")", n, 4)
	}
}

func runC06(c *core.Ctx) {
	h := newH(c)
	h.assertIdiom("C06.idiom assert-panics")
	c.Clause("C06.1 leader flushes its log up to the new commit index before advancing it")
	h.leaderFlushBeforeAdvance("C06.1 leader-flush")
	h.leaderCommitRule("C06.1b leader-commit")
	c.Clause("C06.2 follower flushes appended entries before the success reply and before advancing its commit index")
	h.followerFlushBeforeAck("C06.2 follower-flush")
	// commitLog(n) is only as good as the segmented log's CommitN / sync / walks
	h.commitBeforeStructureChange("C06.2b log-commit")
	h.segmentSyncProtocol("C06.2c log-sync-protocol")
	h.segmentWalks("C06.2d log-segment-walks")
	c.Clause("C06.3 majority over voters of the latest configuration; voter cache fresh when the configuration changes")
	h.majorityOverVoters("C06.3a majority")
	h.voterCacheFreshness("C06.3b voter-cache")
	c.Clause("C06.4 matchIndex raised only by a success reply for the acknowledged request")
	h.matchIndexOnlyOnSuccess("C06.4 matchIndex")
	h.pipelineRequestsAccounted("C06.4c pipeline-accounting")
	h.acknowledgedIndexIsTheRequests("C06.4d acknowledged-index")
	h.storageErrorsSurface("C06.5 storage-errors-surface", storageErrExempt)
	h.leaderInitEstablishes("C06.3c voter-cache", "leader.numVoters")
	h.configSetters("C06.3d config-setters")
	c.Clause("C06.6 an acknowledgement is booked for the node that was asked: the handshake on every new connection compares cluster id and node id")
	h.listenerRefusesMismatch("C06.6 listener")
}

// storageErrExempt: storage-layer errors that are deliberately not handed on,
// one named site each.
var storageErrExempt = map[string]string{
	"(*Raft).onSnapshotTaken (*Raft).compactLog":    "compaction after a snapshot is best effort (source: 'todo: log error'); the snapshot itself is already published",
	"(*leader).checkLogCompact (*Raft).compactLog":  "retrying compaction once a lagging follower caught up is best effort",
	"(*snapshot).release (*os.File).Close":          "closing a snapshot file opened read-only",
	"(*snapshotSink).done (*os.File).Close":         "sink is being abandoned because the caller reported an error, which is returned",
	"(*snapshotSink).done os.Remove":                "sink is being abandoned because the caller reported an error, which is returned",
	"(*snapshotSink).done (*snapshots).applyRetain": "pruning old snapshots is best effort (source: 'todo: trace error'); the new snapshot is already published",
	"(*snapshotSink).done$1 os.Remove":              "clean-up of the temporary file while done is returning an earlier error",
	"(*snapshotSink).done$2 (*os.File).Close":       "clean-up of the meta file while done is returning an earlier error",
	"(*snapshotSink).done$2 os.RemoveAll":           "clean-up of the meta file while done is returning an earlier error",
	"lockDir$1 (*os.File).Close":                    "clean-up of the temporary lock file; the lock itself is the hard link",
	"lockDir$1 os.Remove":                           "clean-up of the temporary lock file; the lock itself is the hard link",
	"openStorage$1 (*log.Log).Close":                "clean-up of what was opened while openStorage is returning an earlier error",
}
