package props

import (
	"fmt"
	"go/constant"
	"go/types"
	"syscall"
	"strings"

	"golang.org/x/tools/go/ssa"

	"raftlint/internal/core"
)

// Segmented-log obligations (C13 clauses, C14).

// segmentSyncProtocol (C14.1, C14.2).
func (h H) segmentSyncProtocol(rule string) {
	fn := h.fn("log:(*segment).sync")
	sim := h.simAll()
	ts := sim.Run(fn)
	if sim.Trunc {
		h.C.Undecided(rule, h.name(fn), h.fpos(fn), "not loop-free")
		return
	}
	nFull := 0
	for _, t := range ts {
		if t.Exit != "return" || len(t.Ret) != 1 {
			continue
		}
		key := h.name(fn) + " path[" + t.Describe() + "]"
		var syncs []int
		iHdr, iSynced := -1, -1
		for i, e := range t.Events {
			switch {
			case e.Callee == "(*mmap.File).Sync":
				syncs = append(syncs, i)
			case e.Callee == "(*log.segment).setOffset":
				iHdr = i
			case e.Callee == "store" && e.Args[0] == "segment.synced":
				iSynced = i
			}
		}
		okRet := t.Entails(t.Ret[0], "==", "nil")
		if okRet && len(syncs) == 0 && iHdr < 0 && iSynced < 0 {
			h.C.Check(rule+" clean-noop", key, t.Entails("segment.n", "<=", "segment.synced"), t.ExitPos, "sync returns nil without flushing although the segment may be dirty")
			continue
		}
		if !okRet {
			// error return: header must not have been written after a failed first flush; synced unchanged
			bad := iSynced >= 0
			if iHdr >= 0 {
				first := len(syncs) > 0 && syncs[0] < iHdr && len(t.Events[syncs[0]].Results) == 1 && core.Entails(t.Events[iHdr].Facts, core.Rel{A: t.Events[syncs[0]].Results[0], Op: "==", B: "nil"}, t.Unsigned)
				if !first {
					bad = true
				}
			}
			h.C.Check(rule+" error-path", key, !bad, t.ExitPos, "on a failed flush the header is written or the segment is marked synced")
			continue
		}
		nFull++
		ok := len(syncs) == 2 && syncs[0] < iHdr && iHdr < syncs[1] && syncs[1] < iSynced
		vals := ok && t.Events[iHdr].Args[1] == "segment.n" && t.Events[iHdr].Args[2] == "0" && t.Events[iSynced].Args[1] == "segment.n"
		nils := ok
		if ok {
			for _, i := range syncs {
				if len(t.Events[i].Results) != 1 || !t.Entails(t.Events[i].Results[0], "==", "nil") {
					nils = false
				}
			}
		}
		h.C.Check(rule+" flush-header-flush", key, ok && vals && nils, t.ExitPos,
			fmt.Sprintf("segment.sync must be: flush data+offsets ; write entry count into the header ; flush ; mark synced (order=%v values=%v both flushes proven successful=%v)", ok, vals, nils))
	}
	h.C.Floor(rule+" (full flush paths)", nFull, 1)
	// header slot 0 is written only by sync and removeGTE; append writes slot n+2
	so := h.fn("log:(*segment).setOffset")
	for _, s := range h.P.Callers(so) {
		name := h.name(core.Root(s.Fn))
		slot := h.argStr(s.Instr.(ssa.CallInstruction), 2)
		switch name {
		case "(*log.segment).sync", "(*log.segment).removeGTE":
			h.C.Check(rule+" header-writers", "setOffset in "+name, slot == "0", h.pos(s.Instr), "unexpected slot "+slot)
		case "(*log.segment).append":
			h.C.Check(rule+" append-never-touches-header", "setOffset in "+name, slot == "(segment.n + 2)", h.pos(s.Instr), "append must only write the offset slot of the new entry (n+2); found slot "+slot)
		default:
			h.C.Check(rule+" header-writers", "setOffset in "+name, false, h.pos(s.Instr), "offsets may only be written by append, sync and removeGTE")
		}
	}
	h.onlyWriters(rule+" who-may-write", "log:segment.synced", "(*log.segment).sync", "(*log.segment).removeGTE", "log.openSegment")
	// removeGTE
	rg := h.fn("log:(*segment).removeGTE")
	ts = h.simAll().Run(rg)
	n := 0
	for _, t := range ts {
		if t.Exit != "return" || len(t.Ret) != 1 {
			continue
		}
		n++
		key := h.name(rg) + " path[" + t.Describe() + "]"
		iSync := evIndex(t, isCall("(*log.segment).sync"))
		iHdr := evIndex(t, isCall("(*log.segment).setOffset"))
		iSynced := evIndex(t, isStoreTo("segment.synced"))
		iN := evIndex(t, isStoreTo("segment.n"))
		ok := iSync >= 0 && len(t.Events[iSync].Results) == 1 && t.Ret[0] == t.Events[iSync].Results[0]
		if iN >= 0 {
			ok = ok && iHdr >= 0 && iHdr < iSync && iSynced >= 0 && iSynced < iSync && iN < iSync &&
				t.Events[iHdr].Args[2] == "0" && t.Events[iHdr].Args[1] == t.Events[iN].Args[1] && t.Events[iSynced].Args[1] == "-1"
		} else {
			ok = ok && iHdr < 0
		}
		h.C.Check(rule+" removeGTE", key, ok, t.ExitPos, "back-removal must lower the header and mark the segment unsynced before flushing, flush on every path and return the flush error")
	}
	h.C.Floor(rule+" (removeGTE paths)", n, 2)
}

// commitBeforeStructureChange (C14.3).
func (h H) commitBeforeStructureChange(rule string) {
	commit := h.fn("log:(*Log).Commit")
	ap := h.fn("log:(*Log).Append")
	afi := h.P.Info(ap)
	openSeg := h.fn("log:openSegment")
	for k, c := range h.P.CallsTo(ap, openSeg) {
		site := h.site(ap, openSeg, k)
		r := afi.MustCross(c, func(a core.Atom) bool { return a.Op == "==" && a.R == "nil" && a.L == "(*log.Log).Commit(Log)" })
		h.C.Check(rule+" commit-before-rollover", site, r.OK, h.pos(c), "a new segment is created before the previous one is committed successfully: "+r.Witness)
		h.C.Check(rule+" rollover-name", site, h.argStr(c, 1) == "(*log.Log).LastIndex(Log)", h.pos(c), "the new segment must be named after the last index; found "+h.argStr(c, 1))
	}
	h.C.Floor(rule+" (openSegment in Append)", len(h.P.CallsTo(ap, openSeg)), 1)
	for _, w := range []struct{ spec, link string }{
		{"log:(*Log).RemoveLTE", "prev"}, // the new first segment must forget its predecessor
		{"log:(*Log).RemoveGTE", "next"}, // the new last segment must forget its successor
	} {
		spec := w.spec
		fn := h.fn(spec)
		fi := h.P.Info(fn)
		car := h.fn("log:(*segment).closeAndRemove")
		srg := h.fn("log:(*segment).removeGTE")
		for _, cal := range []*ssa.Function{car, srg} {
			for k, c := range h.P.CallsTo(fn, cal) {
				r := fi.MustCross(c, func(a core.Atom) bool { return a.Op == "==" && a.R == "nil" && a.L == "(*log.Log).Commit(Log)" })
				h.C.Check(rule+" commit-before-removal", h.site(fn, cal, k), r.OK, h.pos(c), "entries are removed before the log is committed: "+r.Witness)
			}
		}
	}
	cl := h.fn("log:(*Log).Close")
	sc := h.fn("log:(*segment).close")
	for k, c := range h.P.CallsTo(cl, sc) {
		h.dominatedByCall(rule+" commit-before-close", h.site(cl, sc, k), c, commit)
	}
	// CommitN(n): every dirty segment holding entries <= n is synced, errors returned
	cn := h.fn("log:(*Log).CommitN")
	cfi := h.P.Info(cn)
	ssync := h.fn("log:(*segment).sync")
	calls := h.P.CallsTo(cn, ssync)
	h.C.Check(rule+" CommitN-syncs", "(*log.Log).CommitN", len(calls) == 1, h.fpos(cn), "CommitN must sync segments")
	for _, c := range calls {
		// skipping a segment is allowed only when it is clean (then stop) or starts at/after n
		hd := core.LoopHeaders(cn)
		ok := len(hd) == 1
		if ok {
			// inside the loop the only ways around the sync are: the segment is clean (loop ends)
			// or it starts at or after n
			r := cfi.LoopBodyMustCrossOrPass(hd[0], func(a core.Atom) bool {
				return a.Op == ">=" && strings.HasSuffix(a.L, ".prevIndex") && a.R == "$1" || a.Op == "<=" && a.L == "$1" && strings.HasSuffix(a.R, ".prevIndex")
			}, func(in ssa.Instruction) bool { return in == c.(ssa.Instruction) })
			ok = r.OK
		}
		h.C.Check(rule+" CommitN-covers", "(*log.Log).CommitN loop", ok, h.pos(c), "CommitN(n) can skip a dirty segment that holds entries <= n")
	}
}

// createSegmentProtocol (C14.4).
func (h H) createSegmentProtocol(rule string) {
	fn := h.fn("log:createSegment")
	sim := h.simAll()
	ts := sim.Run(fn)
	if sim.Trunc {
		h.C.Undecided(rule, h.name(fn), h.fpos(fn), "not loop-free")
		return
	}
	nOK := 0
	for _, t := range ts {
		if t.Exit != "return" || len(t.Ret) != 1 {
			continue
		}
		key := h.name(fn) + " path[" + t.Describe() + "]"
		iT := evIndex(t, isCall("(*os.File).Truncate"))
		iW := evIndex(t, isCall("(*os.File).WriteAt"))
		iS := evIndex(t, isCall("(*os.File).Sync"))
		iC := evIndex(t, isCall("(*os.File).Close"))
		iR := evIndex(t, isCall("os.Remove"))
		iO := evIndex(t, isCall("os.OpenFile"))
		if t.Entails(t.Ret[0], "==", "nil") {
			nOK++
			ok := iT >= 0 && iW > iT && iS > iW && iC > iS && iR < 0
			if ok {
				for _, i := range []int{iT, iS, iC} {
					if len(t.Events[i].Results) != 1 || !t.Entails(t.Events[i].Results[0], "==", "nil") {
						ok = false
					}
				}
				if len(t.Events[iW].Results) != 2 || !t.Entails(t.Events[iW].Results[1], "==", "nil") {
					ok = false
				}
				ok = ok && t.Events[iT].Args[1] == "Options.SegmentSize" && t.Events[iW].Args[2] == "(Options.SegmentSize - 16)"
			}
			h.C.Check(rule+" create-order", key, ok, t.ExitPos, "a segment file must be truncated to size, get a zeroed header (count and first offset), be synced and closed, each step successful, before it is used")
			continue
		}
		// failure after the file was created: it must be removed
		if iO >= 0 && len(t.Events[iO].Results) == 2 && t.Entails(t.Events[iO].Results[1], "==", "nil") {
			h.C.Check(rule+" remove-on-failure", key, iR >= 0 && t.Events[iR].Args[0] == "$0" && iC >= 0 && iC < iR, t.ExitPos, "a half-initialised segment file is left behind on failure")
		}
	}
	h.C.Floor(rule+" (success paths)", nOK, 1)
}

// openHandlesEveryFile (C14.5).
func (h H) openHandlesEveryFile(rule string) {
	fn := h.fn("log:openSegments")
	fi := h.P.Info(fn)
	hds := core.LoopHeaders(fn)
	if !h.C.Check(rule+" loop", "log.openSegments range offs", len(hds) == 1, h.fpos(fn), fmt.Sprintf("expected one loop over discovered segment files, found %d", len(hds))) {
		return
	}
	hd := hds[0]
	connect := h.fn("log:connect")
	// every iteration connects the segment or removes the file
	r := fi.LoopBodyMustPass(hd, func(in ssa.Instruction) bool {
		if h.P.IsCallTo(in, connect) {
			return true
		}
		if c, ok := in.(*ssa.Call); ok && c.Common().StaticCallee() != nil && c.Common().StaticCallee().String() == "os.Remove" {
			return true
		}
		return false
	})
	h.C.Check(rule+" every-file-handled", "log.openSegments loop-body", r.OK, h.pos(hd.Instrs[0]), "a discovered segment file can be skipped without being connected or removed: "+r.Witness)
	// the only exits from inside the loop are on a non-nil error
	n := 0
	for k, ret := range core.Returns(fn) {
		if !hd.Succs[0].Dominates(ret.Block()) {
			continue
		}
		n++
		res := fi.MustCrossInLoop(hd, ret, func(a core.Atom) bool { return a.Op == "!=" && a.R == "nil" })
		h.C.Check(rule+" exit-only-on-error", fmt.Sprintf("log.openSegments in-loop return#%d", k+1), res.OK, h.pos(ret), "the loop over segment files is left although no error occurred (remaining files are neither connected nor removed): "+res.Witness)
	}
	// the same for every other way out of the loop (break, goto): only the
	// exhausted range or a non-nil error ends it
	isErr := func(a core.Atom) bool { return a.Op == "!=" && a.R == "nil" }
	for k, ex := range fi.LoopExits(hd) {
		if ex.From == hd || ex.To == nil {
			continue
		}
		ok := ex.Has && isErr(ex.Atom)
		var wit string
		if !ok {
			res := fi.MustCrossInLoop(hd, ex.From.Instrs[len(ex.From.Instrs)-1], isErr)
			ok, wit = res.OK, res.Witness
			if ex.Has {
				wit += " ; [" + ex.Atom.String() + "]"
			}
		}
		n++
		h.C.Check(rule+" exit-only-on-error", fmt.Sprintf("log.openSegments loop-exit#%d", k+1), ok, h.pos(ex.From.Instrs[len(ex.From.Instrs)-1]), "the loop over segment files is left although no error occurred (remaining files are neither connected nor removed): "+wit)
	}
	h.C.Floor(rule+" (in-loop returns)", n, 1)
	// a connected segment continues the chain: off == last.lastIndex() && last.n > 0
	os := h.fn("log:openSegment")
	for k, c := range h.P.CallsTo(fn, os) {
		if !hd.Succs[0].Dominates(c.Block()) {
			continue
		}
		r1 := fi.MustCross(c, func(a core.Atom) bool {
			return a.Op == "!=" && a.R == "0" && strings.HasSuffix(a.L, ".n") || a.Op == ">" && a.R == "0" && strings.HasSuffix(a.L, ".n")
		})
		r2 := fi.MustCross(c, func(a core.Atom) bool {
			return a.Op == "==" && (strings.Contains(a.L, ".prevIndex + ") || strings.Contains(a.R, ".prevIndex + ") || strings.Contains(a.L, "lastIndex(") || strings.Contains(a.R, "lastIndex("))
		})
		h.C.Check(rule+" chain-contiguous", h.site(fn, os, k), r1.OK && r2.OK, h.pos(c), "a segment is chained although it does not start where the previous non-empty segment ends")
	}
}

// frontRemovalWholeSegments (C13.1): RemoveLTE and CanLTE agree.
func (h H) frontRemovalWholeSegments(rule string) {
	fn := h.fn("log:(*Log).RemoveLTE")
	fi := h.P.Info(fn)
	car := h.fn("log:(*segment).closeAndRemove")
	for k, c := range h.P.CallsTo(fn, car) {
		site := h.site(fn, car, k)
		h.gateFresh(rule+" never-the-last-segment", site, c, core.MkAtom("Log.first", "!=", "Log.last"), core.MkAtom("Log.first.next", "!=", "nil"))
		h.gateFresh(rule+" only-non-empty", site, c, core.MkAtom("Log.first.n", ">", "0"))
		h.gateFresh(rule+" not-beyond-request", site, c, core.MkAtom("$1", ">=", "(Log.first.prevIndex + Log.first.n)"))
		// the segment removed is the one tested: loaded before the list head moves, and the head
		// is advanced and unlinked before the file goes away
		arg := c.Common().Args[0]
		var st ssa.Instruction
		for _, s := range h.storesIn(fn, "log:Log.first") {
			if s.Instr.Block() == c.Block() {
				st = s.Instr
			}
		}
		ld, isLoad := arg.(*ssa.UnOp)
		ok := st != nil && isLoad && ld.Block() == c.Block() && core.Dominates(ld, st) && core.Dominates(st, c.(ssa.Instruction)) && fi.Sym(arg).String() == "Log.first"
		h.C.Check(rule+" unlink-before-remove", site, ok, h.pos(c), "the removed segment must be the old head, taken before the head is advanced, and the head must be advanced before the file is removed")
		disc := h.fn("log:disconnect")
		pre := fi.PrecededBy(c, func(in ssa.Instruction) bool { return h.P.IsCallTo(in, disc) && in.Block() == c.Block() })
		h.C.Check(rule+" disconnect-before-remove", site, pre.OK, h.pos(c), "the removed segment stays linked to the list")
	}
	h.C.Floor(rule+" (closeAndRemove in RemoveLTE)", len(h.P.CallsTo(fn, car)), 1)
	// CanLTE advances under the same three conditions and returns prevIndex of where it stops
	cl := h.fn("log:(*Log).CanLTE")
	cfi := h.P.Info(cl)
	hds := core.LoopHeaders(cl)
	if h.C.Check(rule+" CanLTE loop", "(*log.Log).CanLTE", len(hds) == 1, h.fpos(cl), "expected one loop") {
		hd := hds[0]
		// the header test is s != last; body continues only under n > 0 and lastIndex <= i
		a, ok := cfi.EdgeAtom(core.Edge{From: hd, Succ: 0})
		h.C.Check(rule+" CanLTE never-the-last-segment", "(*log.Log).CanLTE loop-header", ok && a.Op == "!=" && (a.L == "Log.last" || a.R == "Log.last" || a.R == "nil" && strings.HasSuffix(a.L, ".next")), h.pos(hd.Instrs[len(hd.Instrs)-1]), "CanLTE must stop at the last segment; header test: "+a.String())
		r1 := cfi.LoopBodyMustCross(hd, func(a core.Atom) bool {
			return (a.Op == ">" || a.Op == "!=") && a.R == "0" && strings.HasSuffix(a.L, ".n")
		})
		r2 := cfi.LoopBodyMustCross(hd, func(a core.Atom) bool { return a.Op == ">=" && a.L == "$1" && strings.Contains(a.R, ".prevIndex + ") })
		h.C.Check(rule+" CanLTE same-conditions", "(*log.Log).CanLTE loop-body", r1.OK && r2.OK, h.pos(hd.Instrs[0]), "CanLTE skips a segment under weaker conditions than RemoveLTE removes one (non-empty, lastIndex <= i)")
	}
	for _, r := range core.Returns(cl) {
		v := cfi.Sym(r.Results[0]).String()
		h.C.Check(rule+" CanLTE result", "(*log.Log).CanLTE return", strings.HasSuffix(v, ".prevIndex"), h.pos(r), "CanLTE must return the prevIndex of the first segment that stays; found "+v)
	}
}

// viewsAreReadOnly (C13.2).
func (h H) viewsAreReadOnly(rule string) {
	readOnly := map[string]bool{"Get": true, "GetN": true, "Contains": true, "PrevIndex": true, "LastIndex": true, "Count": true}
	logT := h.P.Named("log:Log")
	n := 0
	for _, fn := range h.P.Funcs() {
		if fn.Pkg == nil && fn.Parent() == nil {
			continue
		}
		root := core.Root(fn)
		if root.Pkg == nil || root.Pkg.Pkg.Path() != core.RaftPkg {
			continue
		}
		fi := h.P.Info(fn)
		core.Instrs(fn, func(in ssa.Instruction) {
			ci, ok := in.(ssa.CallInstruction)
			if !ok {
				return
			}
			cal := ci.Common().StaticCallee()
			if cal == nil || cal.Signature.Recv() == nil {
				return
			}
			if namedOfType(cal.Signature.Recv().Type()) != logT {
				return
			}
			re := fi.Sym(ci.Common().Args[0])
			recv := re.String()
			if re.Op == "fld" && re.Var == h.P.Field("raft:storage.log") {
				return // the owner's own log
			}
			n++
			h.C.Check(rule+" view-api", fmt.Sprintf("%s.%s in %s", recv, cal.Name(), h.name(root)), readOnly[cal.Name()], h.pos(in), "a log view (held by a replication / apply request / leader update) is used through a mutating method")
		})
	}
	h.C.Floor(rule+" (method calls on views)", n, 6)
	// the read-only methods write nothing
	for m := range readOnly {
		f := h.fn("log:(*Log)." + m)
		ms := h.P.ModSet(f)
		var bad []string
		for v := range ms {
			bad = append(bad, v.Name())
		}
		sortStrings(bad)
		h.C.Check(rule+" read-only-methods", "(*log.Log)."+m, len(bad) == 0, h.fpos(f), "a reading method of Log writes fields: "+strings.Join(bad, ", "))
	}
	// ViewAt itself creates a new Log value and does not mutate the receiver
	va := h.fn("log:(*Log).ViewAt")
	ms := h.P.ModSet(va)
	ok := true
	for v := range ms {
		_ = v
	}
	core.Instrs(va, func(in ssa.Instruction) {
		if st, ok2 := in.(*ssa.Store); ok2 {
			s := h.P.Info(va).Sym(st.Addr).String()
			if strings.HasPrefix(s, "Log.") {
				ok = false
			}
		}
	})
	h.C.Check(rule+" ViewAt-pure", "(*log.Log).ViewAt", ok, h.fpos(va), "ViewAt mutates the log it views")
	// the view's first segment is the last one that starts at or before the
	// view's prevIndex (prevIndex >= s.prevIndex): the entry prevIndex+1 lies in
	// it also when prevIndex+1 is the last entry of that segment
	vfi := h.P.Info(va)
	nFirst := 0
	core.Instrs(va, func(in ssa.Instruction) {
		st, isSt := in.(*ssa.Store)
		if !isSt || !strings.HasPrefix(vfi.Sym(st.Addr).String(), "new:log.Log") || !strings.HasSuffix(vfi.Sym(st.Addr).String(), ".first") {
			return
		}
		nFirst++
		seg := vfi.Sym(st.Val).String()
		r := vfi.MustCross(in, func(a core.Atom) bool {
			return a.Implies(core.MkAtom("$1", ">=", seg+".prevIndex"))
		})
		h.C.Check(rule+" view-first-segment", "(*log.Log).ViewAt store first", r.OK, h.pos(in), "the first segment of a view is not the one that starts at or before the view's prevIndex (a view that begins one entry before a segment boundary misses that entry): "+r.Witness)
	})
	h.C.Floor(rule+" (first segment of a view)", nFirst, 1)
}

// segmentWalks (C14.6): the loops that walk the segment chain to make the
// log durable or to dispose of it visit every segment they are responsible
// for: they start at the right end, step along the chain, and leave only for
// the listed reasons. A walk that ends early (or never starts) leaves dirty
// segments unflushed — invisible to any test that does not crash the process.
func (h H) segmentWalks(rule string) {
	type walk struct {
		fn       string
		start    string // the cursor's first value
		step     string // field followed to the next segment
		mustPass string // callee executed for every visited segment ("" = none)
		exits    []core.Atom
		exitCall string // an exit is also allowed when this call's error is non-nil
	}
	cursorOK := func(l string, w walk) bool {
		return strings.Contains(l, w.start) && (strings.Contains(l, "."+w.step) || w.step == "")
	}
	walks := []walk{
		{fn: "log:(*Log).CommitN", start: "Log.last", step: "prev", mustPass: "",
			exits: []core.Atom{core.MkAtom("CUR", "==", "nil"), core.MkAtom("CUR.n", "<=", "CUR.synced")}, exitCall: "(*log.segment).sync("},
		{fn: "log:(*Log).Close", start: "Log.last", step: "prev", mustPass: "log:(*segment).close",
			exits: []core.Atom{core.MkAtom("CUR", "==", "nil")}},
		{fn: "log:(*Log).Reset", start: "Log.first", step: "", mustPass: "log:(*segment).closeAndRemove",
			exits: []core.Atom{core.MkAtom("CUR", "==", "nil")}, exitCall: "(*log.segment).closeAndRemove("},
	}
	for _, w := range walks {
		fn := h.fn(w.fn)
		fi := h.P.Info(fn)
		hd := core.LoopHeaders(fn)
		if !h.C.Check(rule+" single-walk", h.name(fn), len(hd) == 1, h.fpos(fn), fmt.Sprintf("expected one loop over the segment chain, found %d", len(hd))) {
			continue
		}
		// the cursor: what the loop condition tests against nil
		cur := ""
		for _, ex := range fi.LoopExits(hd[0]) {
			if ex.Has && ex.Atom.Op == "==" && ex.Atom.R == "nil" && cursorOK(ex.Atom.L, w) {
				cur = ex.Atom.L
			}
		}
		if !h.C.Check(rule+" cursor", h.name(fn), cur != "", h.fpos(fn), fmt.Sprintf("the walk must start at %s, follow .%s and end when the chain is exhausted (no exit of the form <cursor> == nil found)", w.start, w.step)) {
			continue
		}
		for k, ex := range fi.LoopExits(hd[0]) {
			site := fmt.Sprintf("%s exit#%d", h.name(fn), k+1)
			pos := h.fpos(fn)
			if len(ex.From.Instrs) > 0 {
				pos = h.pos(ex.From.Instrs[len(ex.From.Instrs)-1])
			}
			ok := false
			why := "unconditional exit"
			if ex.Has {
				why = "exit taken when " + ex.Atom.String()
				for _, a := range w.exits {
					want := core.MkAtom(strings.ReplaceAll(a.L, "CUR", cur), a.Op, strings.ReplaceAll(a.R, "CUR", cur))
					if ex.Atom.Implies(want) {
						ok = true
					}
				}
				if w.exitCall != "" && ex.Atom.Op == "!=" && ex.Atom.R == "nil" && strings.HasPrefix(ex.Atom.L, w.exitCall) {
					ok = true
				}
			} else if ex.Term != nil {
				if _, isPanic := ex.Term.(*ssa.Panic); isPanic {
					ok = true
				}
				why = "return inside the walk"
			}
			h.C.Check(rule+" exits", site, ok, pos, "the walk over the segment chain can stop early: "+why)
		}
		if w.mustPass != "" {
			callee := h.fn(w.mustPass)
			r := fi.LoopBodyMustPass(hd[0], func(in ssa.Instruction) bool { return h.P.IsCallTo(in, callee) })
			h.C.Check(rule+" visits-every-segment", h.name(fn), r.OK, h.fpos(fn), "an iteration can complete without "+h.name(callee)+": "+r.Witness)
		}
	}
	// Reset's walk advances by storing first.next into first in every iteration
	rs := h.fn("log:(*Log).Reset")
	rfi := h.P.Info(rs)
	if hd := core.LoopHeaders(rs); len(hd) == 1 {
		r := rfi.LoopBodyMustPass(hd[0], func(in ssa.Instruction) bool {
			st, ok := in.(*ssa.Store)
			return ok && rfi.Sym(st.Addr).String() == "Log.first" && rfi.Sym(st.Val).String() == "Log.first.next"
		})
		h.C.Check(rule+" visits-every-segment", "(*log.Log).Reset step", r.OK, h.fpos(rs), "an iteration of Reset's walk can complete without advancing to first.next: "+r.Witness)
	}
	// Reset creates the new segment only after every old one is gone:
	// openSegment adopts an existing file of that name, so opening first maps
	// the old, populated segment when the reset index is one of the old
	// segments' boundaries
	if hd := core.LoopHeaders(rs); len(hd) == 1 {
		osg := h.fn("log:openSegment")
		car := h.fn("log:(*segment).closeAndRemove")
		for k, c := range h.P.CallsTo(rs, osg) {
			in := c.(ssa.Instruction)
			after := !core.InLoop(hd[0], in.Block()) && in.Block() != hd[0] && hd[0].Dominates(in.Block())
			// no removal reachable after it
			reach := false
			seen := map[*ssa.BasicBlock]bool{}
			stack := append([]*ssa.BasicBlock{}, in.Block().Succs...)
			for len(stack) > 0 {
				b := stack[len(stack)-1]
				stack = stack[:len(stack)-1]
				if seen[b] {
					continue
				}
				seen[b] = true
				for _, x := range b.Instrs {
					if h.P.IsCallTo(x, car) {
						reach = true
					}
				}
				stack = append(stack, b.Succs...)
			}
			h.C.Check(rule+" reset-removes-before-create", h.site(rs, osg, k), after && !reach, h.pos(in), "Reset opens the new segment before all old segments are removed (an old segment with the same name would be adopted, then unlinked)")
		}
	}
	// Commit() is CommitN(everything)
	cm := h.fn("log:(*Log).Commit")
	cn := h.fn("log:(*Log).CommitN")
	calls := h.P.CallsTo(cm, cn)
	ok := len(calls) == 1 && h.argStr(calls[0], 1) == "(*log.Log).LastIndex(Log)"
	if ok {
		for _, r := range core.Returns(cm) {
			if v, isCall := r.Results[0].(*ssa.Call); !isCall || ssa.CallInstruction(v) != calls[0] {
				ok = false
			}
		}
	}
	h.C.Check(rule+" Commit-is-CommitN(LastIndex)", "(*log.Log).Commit", ok, h.fpos(cm), "Commit must return CommitN(LastIndex())")
}

// observers (C13.5): Contains(i) is *exactly* PrevIndex < i <= LastIndex. The
// layout rule (C13.3 accessors) shows true => in range; here the converse:
// whenever Contains answers false, i is outside the range.
func (h H) observers(rule string) {
	cf := h.fn("log:(*Log).Contains")
	sim := h.simAll()
	ts := sim.Run(cf)
	if sim.Trunc {
		h.C.Undecided(rule+" Contains-complete", "(*log.Log).Contains", h.fpos(cf), "cannot summarise Contains")
		return
	}
	n := 0
	for _, t := range ts {
		if t.Exit != "return" || len(t.Ret) != 1 || t.Ret[0] == "true" {
			continue
		}
		f := append([]core.Rel{}, t.Facts...)
		if t.Ret[0] != "false" {
			if t.RetRel == nil {
				h.C.Undecided(rule+" Contains-complete", "(*log.Log).Contains", h.fpos(cf), "unrecognised result "+t.Ret[0])
				continue
			}
			f = append(f, t.RetRel.Negate())
		}
		n++
		var prev, last string
		for _, r := range f {
			for _, x := range []string{r.A, r.B} {
				if strings.HasPrefix(x, "ret:(*log.Log).PrevIndex") {
					prev = x
				}
				if strings.HasPrefix(x, "ret:(*log.Log).LastIndex") {
					last = x
				}
			}
		}
		c1 := prev != "" && core.Entails(f, core.Rel{A: "$1", Op: "<=", B: prev}, t.Unsigned)
		c2 := last != "" && core.Entails(f, core.Rel{A: "$1", Op: ">", B: last}, t.Unsigned)
		h.C.Check(rule+" Contains-complete", fmt.Sprintf("(*log.Log).Contains false-path#%d", n), c1 || c2, h.fpos(cf), "Contains(i) can answer false for PrevIndex < i <= LastIndex")
	}
	h.C.Floor(rule+" (false paths of Contains)", n, 2)
}

// unlinkBeforeRemove (C13.7 / C14.7): Log.RemoveLTE and Log.RemoveGTE drop a
// segment at one end of the chain and keep the rest. In the iteration that
// closes and deletes a segment, the neighbour that stays must first be
// unlinked from it (disconnect, or its next/prev set to nil), unless there is
// no neighbour. A stale link is followed later by Reset, Close and the
// chain walks: a second close/unmap of a deleted segment.
func (h H) unlinkBeforeRemove(rule string) {
	car := h.fn("log:(*segment).closeAndRemove")
	disc := h.fn("log:disconnect")
	n := 0
	for _, w := range []struct{ spec, link string }{
		{"log:(*Log).RemoveLTE", "prev"}, // the new first segment must forget its predecessor
		{"log:(*Log).RemoveGTE", "next"}, // the new last segment must forget its successor
	} {
		spec := w.spec
		fn := h.fn(spec)
		fi := h.P.Info(fn)
		hds := core.LoopHeaders(fn)
		for k, c := range h.P.CallsTo(fn, car) {
			in := c.(ssa.Instruction)
			var hd *ssa.BasicBlock
			for _, x := range hds {
				if x == in.Block() || core.InLoop(x, in.Block()) {
					hd = x
				}
			}
			site := h.site(fn, car, k)
			if !h.C.Check(rule+" in-loop", site, hd != nil, h.pos(in), "segment removal outside the removal loop") {
				continue
			}
			n++
			hit := func(x ssa.Instruction) bool {
				if h.P.IsCallTo(x, disc) {
					return true
				}
				if st, ok := x.(*ssa.Store); ok && isNilConst(st.Val) {
					if fa, ok := st.Addr.(*ssa.FieldAddr); ok {
						return fieldName(fa) == w.link
					}
				}
				return false
			}
			res := fi.MustCrossOrPassInLoop(hd, in, func(a core.Atom) bool {
				return a.Op == "==" && (a.R == "nil" && strings.HasPrefix(a.L, "Log.") || a.L == "nil" && strings.HasPrefix(a.R, "Log."))
			}, hit)
			h.C.Check(rule+" unlinked-first", site, res.OK, h.pos(in), "a segment is closed and deleted while the segment that stays still links to it: "+res.Witness)
		}
	}
	h.C.Floor(rule+" (segment removals in RemoveLTE/RemoveGTE)", n, 2)
	// the helpers do what their callers rely on: connect links both ways,
	// disconnect clears both links (RemoveLTE needs s2.prev, RemoveGTE s1.next)
	for _, w := range []struct {
		spec  string
		wants map[string]string
	}{
		{"log:connect", map[string]string{"$0.next": "$1", "$1.prev": "$0"}},
		{"log:disconnect", map[string]string{"$0.next": "nil", "$1.prev": "nil"}},
	} {
		fn := h.fn(w.spec)
		if fn == nil {
			continue
		}
		for addr, val := range w.wants {
			addr, val := addr, val
			ok, why := h.storesOnEveryPath(fn, addr, func(v string, _ *ssa.Store) bool { return v == val })
			h.C.Check(rule+" link-helpers", h.name(fn)+" "+addr+" := "+val, ok, h.fpos(fn), "a chain helper does not set "+addr+" := "+val+" on every path (the caller that removes the other end keeps a link to a closed, deleted segment): "+why)
		}
	}
}

func fieldName(fa *ssa.FieldAddr) string {
	t := fa.X.Type().Underlying()
	if p, ok := t.(*types.Pointer); ok {
		t = p.Elem().Underlying()
	}
	if st, ok := t.(*types.Struct); ok && fa.Field < st.NumFields() {
		return st.Field(fa.Field).Name()
	}
	return ""
}

// initialisedFileOnly (C14.4b): createSegment creates the file and sizes it
// in two steps; a process killed in between leaves a file shorter than the
// 16-byte segment header under the name that continues the chain. Open must
// not map such a file: openSegment maps a file only after createSegment made
// it on this path, or after fileExists vouched for it — and fileExists says
// true only for a file at least as long as the header (F17).
func (h H) initialisedFileOnly(rule string) {
	fe := h.fn("log:fileExists")
	ffi := h.P.Info(fe)
	n := 0
	for k, r := range core.Returns(fe) {
		if len(r.Results) != 2 {
			continue
		}
		c, ok := r.Results[0].(*ssa.Const)
		if !ok || c.Value == nil || c.Value.String() != "true" {
			continue
		}
		n++
		res := ffi.MustCross(r, func(a core.Atom) bool {
			sz := func(s string) bool { return strings.HasPrefix(s, "invoke:Size(") || strings.Contains(s, ").Size(") }
			num := func(s string) (int, bool) {
				v := 0
				_, err := fmt.Sscanf(s, "%d", &v)
				return v, err == nil
			}
			if sz(a.L) {
				if v, ok := num(a.R); ok {
					return a.Op == ">=" && v >= 16 || a.Op == ">" && v >= 15
				}
			}
			if sz(a.R) {
				if v, ok := num(a.L); ok {
					return a.Op == "<=" && v >= 16 || a.Op == "<" && v >= 15
				}
			}
			return false
		})
		h.C.Check(rule+" header-sized", fmt.Sprintf("log.fileExists true-return#%d", k+1), res.OK, h.pos(r), "fileExists vouches for a file that may be shorter than the 16-byte segment header (createSegment interrupted before sizing it): openSegment would map it and Open fail: "+res.Witness)
	}
	h.C.Floor(rule+" (true returns of fileExists)", n, 1)
	os := h.fn("log:openSegment")
	ofi := h.P.Info(os)
	cs := h.fn("log:createSegment")
	m := 0
	core.Instrs(os, func(in ssa.Instruction) {
		c, ok := in.(*ssa.Call)
		if !ok || c.Common().StaticCallee() == nil || c.Common().StaticCallee().String() != "github.com/santhosh-tekuri/raft/mmap.OpenFile" {
			return
		}
		m++
		res := ofi.MustCrossOrPass(in, func(a core.Atom) bool {
			return a.Op == "true" && strings.HasPrefix(a.L, "log.fileExists(") && strings.HasSuffix(a.L, "#0")
		}, nil, func(x ssa.Instruction) bool { return h.P.IsCallTo(x, cs) })
		h.C.Check(rule+" map-only-vouched", "log.openSegment → mmap.OpenFile", res.OK, h.pos(in), "a segment file is mapped that neither createSegment initialised on this path nor fileExists vouched for: "+res.Witness)
	})
	h.C.Floor(rule+" (mmap.OpenFile in openSegment)", m, 1)
	// the file fileExists reported as missing may exist (shorter than its
	// header): createSegment must be able to take it over — it opens without
	// O_EXCL
	cfi := h.P.Info(cs)
	nOpen := 0
	core.Instrs(cs, func(in ssa.Instruction) {
		c, ok := in.(*ssa.Call)
		if !ok || c.Common().StaticCallee() == nil || c.Common().StaticCallee().String() != "os.OpenFile" {
			return
		}
		nOpen++
		okFlags := false
		if k, isC := c.Common().Args[1].(*ssa.Const); isC && k.Value != nil {
			if v, exact := constant.Int64Val(k.Value); exact {
				okFlags = v&int64(syscall.O_EXCL) == 0 && v&int64(syscall.O_CREAT) != 0
			}
		}
		h.C.Check(rule+" create-takes-over", "log.createSegment os.OpenFile", okFlags, h.pos(in), "createSegment cannot take over a file left by an interrupted creation (flags "+cfi.Sym(c.Common().Args[1]).String()+" must create without O_EXCL): reopening the log fails with EEXIST")
	})
	h.C.Floor(rule+" (os.OpenFile in createSegment)", nOpen, 1)
	// closing and deleting a segment does not touch the chain: the walks that
	// remove several segments (Reset, RemoveLTE, RemoveGTE) read the successor
	// after closeAndRemove returned
	for _, spec := range []string{"log:(*segment).closeAndRemove", "log:(*segment).close", "log:(*segment).remove"} {
		f := h.fn(spec)
		bad := ""
		for v := range h.P.ModSet(f) {
			if v.Name() == "next" || v.Name() == "prev" {
				bad = v.Name()
			}
		}
		h.C.Check(rule+" remove-keeps-links", h.name(f), bad == "", h.fpos(f), "closing/deleting a segment rewrites its chain link "+bad+": a walk that removes segments one after the other (Log.Reset) ends after the first one, the remaining files stay and are the log again after a reopen")
	}
}

// rollOverFits (C13.4c): when Append rolls over, the new segment is created
// with the configured size, or — for an entry that does not fit a segment of
// that size — with a size raised to hold it. The comparison must be made
// against the configured size (what createSegment will use), not against the
// current file: a log reopened with its original options behind an enlarged
// segment would otherwise create a normal-sized segment for an entry that
// overflows it (append copies silently short and overwrites the offsets).
func (h H) rollOverFits(rule string) {
	fn := h.fn("log:(*Log).Append")
	fi := h.P.Info(fn)
	os := h.fn("log:openSegment")
	fits := core.MkAtom("len($1)", "<=", "(Log.opt.SegmentSize - 24)")
	n := 0
	for k, c := range h.P.CallsTo(fn, os) {
		n++
		r := fi.MustCrossOrPass(c.(ssa.Instruction), func(a core.Atom) bool { return a.Implies(fits) }, nil, func(in ssa.Instruction) bool {
			st, ok := in.(*ssa.Store)
			return ok && fi.Sym(st.Addr).String() == "Log.opt.SegmentSize" && fi.Sym(st.Val).String() == "(len($1) + 24)"
		})
		h.C.Check(rule+" new-segment-holds-entry", h.site(fn, os, k), r.OK, h.pos(c.(ssa.Instruction)), "the segment created at roll-over may be too small for the entry about to be appended (neither len(b) <= opt.SegmentSize-24 nor opt.SegmentSize raised to len(b)+24): "+r.Witness)
		// it is created with the log's options
		h.C.Check(rule+" created-with-options", h.site(fn, os, k), h.argStr(c, 2) == "Log.opt", h.pos(c.(ssa.Instruction)), "the new segment must be created with the log's options; found "+h.argStr(c, 2))
	}
	h.C.Floor(rule+" (roll-over sites)", n, 1)
}

// dirListingLiteral (C10.8 / C14.7 / C05.6): the files of a storage directory
// (log segments, term/vote and identity values, snapshot labels) are found by
// reading the directory and filtering names. A pattern match over a path that
// contains the directory (filepath.Glob(filepath.Join(dir, "*.log"))) reads
// the directory's own name as a pattern: under a path with a glob
// metacharacter it matches nothing, and a reopen silently starts from an
// empty log, term 0 and no snapshot.
func (h H) dirListingLiteral(rule string) {
	nList := 0
	for _, fn := range h.P.Funcs() {
		if fn.Pkg == nil || strings.HasSuffix(fn.Pkg.Pkg.Path(), "/cmd/raftctl") || strings.Contains(fn.Pkg.Pkg.Path(), "/example/") {
			continue
		}
		core.Instrs(fn, func(in ssa.Instruction) {
			c, ok := in.(ssa.CallInstruction)
			if !ok {
				return
			}
			sc := c.Common().StaticCallee()
			if sc == nil || sc.Pkg == nil {
				return
			}
			pkg, name := sc.Pkg.Pkg.Path(), sc.Name()
			if (pkg == "path/filepath" || pkg == "path") && (name == "Glob" || name == "Match") {
				_, isConst := c.Common().Args[0].(*ssa.Const)
				h.C.Check(rule+" no-pattern-over-the-directory", h.name(fn)+" "+pkg+"."+name, isConst, h.pos(in),
					"a storage directory is listed by matching a pattern built at run time: the directory's own path is read as part of the pattern (a path like node[1] matches nothing; on reopen the log, term/vote or snapshots are silently not found)")
			}
			if (pkg == "io/ioutil" || pkg == "os") && (name == "ReadDir" || name == "Readdir" || name == "Readdirnames") {
				nList++
			}
		})
	}
	h.C.Floor(rule+" (directory reads)", nList, 2)
	// the three listers reach a directory read
	for _, f := range []string{"log:segments", "raft:openValue", "raft:findSnapshots"} {
		fn := h.fn(f)
		reads := false
		for g := range h.P.Reachable(fn) {
			core.Instrs(g, func(in ssa.Instruction) {
				if c, ok := in.(ssa.CallInstruction); ok {
					if sc := c.Common().StaticCallee(); sc != nil && sc.Pkg != nil && (sc.Name() == "ReadDir" || sc.Name() == "Readdir" || sc.Name() == "Readdirnames") {
						reads = true
					}
				}
			})
		}
		h.C.Check(rule+" lists-by-reading", h.name(fn), reads, h.fpos(fn), "the function that finds the stored files does not read the directory")
	}
}

// lockReleasedByDeath (C10.11): C10 promises a restart after the process died
// at any instant. The storage-directory lock must therefore not outlive its
// owner: either it is an OS lock that dies with the process (flock/fcntl), or
// every refusal (ErrLockExists) is preceded by an examination of the existing
// lock's owner (the lock file is read). A plain file that only unlockDir
// removes refuses every restart after a crash.
func (h H) lockReleasedByDeath(rule string) {
	fn := h.fn("raft:lockDir")
	fi := h.P.Info(fn)
	osLock := false
	for g := range h.P.Reachable(fn) {
		core.Instrs(g, func(in ssa.Instruction) {
			if c, ok := in.(ssa.CallInstruction); ok {
				if sc := c.Common().StaticCallee(); sc != nil && sc.Pkg != nil {
					p, n := sc.Pkg.Pkg.Path(), sc.Name()
					if (p == "syscall" || strings.HasSuffix(p, "/unix") || strings.HasSuffix(p, "/windows")) && (n == "Flock" || n == "FcntlFlock" || n == "LockFileEx") {
						osLock = true
					}
				}
			}
		})
	}
	readsLock := func(in ssa.Instruction) bool {
		c, ok := in.(ssa.CallInstruction)
		if !ok {
			return false
		}
		sc := c.Common().StaticCallee()
		if sc == nil || sc.Pkg == nil {
			return false
		}
		p, n := sc.Pkg.Pkg.Path(), sc.Name()
		return (p == "os" || p == "io/ioutil") && (n == "ReadFile" || n == "Open" || n == "OpenFile") && len(c.Common().Args) > 0 && strings.Contains(fi.Sym(c.Common().Args[0]).String(), "lock")
	}
	nRefuse, examined := 0, true
	core.Instrs(fn, func(in ssa.Instruction) {
		st, ok := in.(*ssa.Store)
		if !ok || !strings.Contains(fi.Sym(st.Val).String(), "ErrLockExists") {
			return
		}
		nRefuse++
		if !fi.PrecededBy(in, readsLock).OK {
			examined = false
		}
	})
	if nRefuse == 0 {
		for _, r := range core.Returns(fn) {
			if len(r.Results) == 1 && strings.Contains(fi.Sym(r.Results[0]).String(), "ErrLockExists") {
				nRefuse++
				if !fi.PrecededBy(r, readsLock).OK {
					examined = false
				}
			}
		}
	}
	h.C.Check(rule, "raft.lockDir", osLock || nRefuse > 0 && examined, h.fpos(fn),
		fmt.Sprintf("the storage lock is a plain file that only unlockDir removes and whose owner nobody examines (OS lock released at process death: %v; refusals: %d, each after reading the existing lock: %v): after the process dies, every restart on the directory is refused with ErrLockExists", osLock, nRefuse, examined && nRefuse > 0))
}
