package props

import (
	"fmt"
	"strings"

	"golang.org/x/tools/go/ssa"

	"raftlint/internal/core"
)

// Append-entries handler and storage-cache obligations shared by C02, C04, C06, C08, C19.

const appendFn = "raft:(*Raft).onAppendEntriesRequest"

// entryOf strips a trailing ".index"/".term" from an expression string.
func entryOf(s, field string) (string, bool) {
	if strings.HasSuffix(s, "."+field) {
		return s[:len(s)-len(field)-1], true
	}
	return "", false
}

// truncationOnlyAtConflict (C02.5, C04.3/5).
func (h H) truncationOnlyAtConflict(rule string) {
	h.onlyCallers(rule+" who-may-call", "raft:(*storage).removeGTE", "(*Raft).onAppendEntriesRequest")
	h.onlyCallers(rule+" who-may-call", "raft:(*storage).clearLog", "(*Raft).onInstallSnapRequest")
	h.onlyCallers(rule+" who-may-call", "log:(*Log).RemoveGTE", "(*storage).removeGTE")
	h.onlyCallers(rule+" who-may-call", "log:(*Log).Reset", "(*storage).clearLog", "openStorage")
	// on open, the log may be reset only when all of it is covered by the
	// latest snapshot (crash between publishing a received snapshot and
	// discarding the log it replaces), and to exactly the snapshot index
	os := h.fn("raft:openStorage")
	for k, c := range h.P.CallsTo(os, h.fn("log:(*Log).Reset")) {
		site := h.site(os, h.fn("log:(*Log).Reset"), k)
		arg := h.argStr(c, 1)
		h.C.Check(rule+" open-reset-to-snapshot", site, strings.HasSuffix(arg, ".snaps.index"), h.pos(c.(ssa.Instruction)), "on open the log may only be reset to the snapshot index; found "+arg)
		st := strings.TrimSuffix(arg, ".snaps.index")
		r := h.P.Info(os).MustCross(c.(ssa.Instruction), func(a core.Atom) bool {
			// all of the log is covered by the snapshot, or it conflicts with it
			// at the snapshot index (the install handler's discard decision, F27)
			return a.Implies(core.MkAtom("(*log.Log).LastIndex("+st+".log)", "<", arg)) ||
				a.Implies(core.MkAtom("(*storage).getEntryTerm("+st+", "+arg+")#0", "!=", st+".snaps.term")) ||
				// …or it starts after the snapshot: what a process killed inside
				// Log.Reset (segments are deleted first to last) leaves behind (F29)
				a.Implies(core.MkAtom("(*log.Log).PrevIndex("+st+".log)", ">", arg))
		})
		h.C.Check(rule+" open-reset-only-if-covered", site, r.OK, h.pos(c.(ssa.Instruction)), "on open the log is reset although it may hold entries beyond the latest snapshot: "+r.Witness)
	}
	fn := h.fn(appendFn)
	rg := h.fn("raft:(*storage).removeGTE")
	mge := h.fn("raft:(*storage).mustGetEntry")
	setState := h.fn("raft:(*Raft).setState")
	follower := h.constStr("raft:Follower")
	for k, c := range h.callsDeep(fn, rg) {
		site := h.site(fn, rg, k)
		idx := h.argStr(c, 1)
		e, ok := entryOf(idx, "index")
		if !h.C.Check(rule+" arg", site, ok, h.pos(c), "removeGTE must be called with the index of the received entry; found "+idx) {
			continue
		}
		h.gateSnap(rule+" above-snapshot", site, c, e+".index", ">", "Raft.storage")
		h.gate(rule+" inside-log", site, c, core.MkAtom(e+".index", "<=", "Raft.storage.lastLogIndex"))
		// conflict: some entry M fetched by mustGetEntry(e.index, M) has M.term != e.term
		fi := h.P.Info(c.Parent())
		var m string
		for _, g := range h.P.CallsTo(c.Parent(), mge) {
			if h.argStr(g, 1) == e+".index" && core.Dominates(g.(ssa.Instruction), c.(ssa.Instruction)) {
				m = h.argStr(g, 2)
			}
		}
		if !h.C.Check(rule+" conflict-source", site, m != "", h.pos(c), "no mustGetEntry("+e+".index, M) dominating the truncation: the local entry compared against is not the one at that index") {
			continue
		}
		r := fi.MustCrossAtom(c, core.MkAtom(e+".term", "!=", m+".term"))
		h.C.Check(rule+" conflict-proven", site, r.OK, h.pos(c), "log truncated at "+e+".index without a term conflict at that index: "+r.Witness)
		// the handler has stepped down before truncating
		pre := fi.PrecededBy(c, func(in ssa.Instruction) bool {
			if ci, ok := in.(*ssa.Call); ok && h.P.IsCallTo(in, setState) {
				return h.argStr(ci, 1) == follower
			}
			return false
		})
		h.C.Check(rule+" follower-only", site, pre.OK, h.pos(c), "truncation reachable without setState(Follower) first: "+pre.Witness)
		// second argument is the term of the entry before the truncation point
		pt := h.argStr(c, 2)
		h.C.Check(rule+" prev-term-arg", site, strings.HasPrefix(pt, "local:") || strings.HasSuffix(pt, ".term"), h.pos(c), "removeGTE's prevTerm argument is "+pt)
		// ... precisely: the term of the entry consumed just before e (the
		// request's prevLogTerm for the first one). It becomes the cached
		// lastLogTerm after the truncation, which the vote handler's
		// up-to-date check reads.
		pfi := h.P.Info(c.Parent())
		okPrev, why := false, "unrecognised shape "+pt
		switch v := c.Common().Args[2].(type) {
		case *ssa.Phi:
			got := map[string]bool{}
			for _, ed := range v.Edges {
				got[pfi.Sym(ed).String()] = true
			}
			okPrev = len(got) == 2 && got["appendReq.prevLogTerm"] && got[e+".term"]
			why = fmt.Sprintf("reaching definitions %v", got)
		case *ssa.UnOp:
			if al, isAl := v.X.(*ssa.Alloc); isAl {
				var inLoop ssa.Instruction
				got := map[string]bool{}
				for _, r := range *al.Referrers() {
					if st, isSt := r.(*ssa.Store); isSt && st.Addr == ssa.Value(al) {
						val := pfi.Sym(st.Val).String()
						got[val] = true
						if val == e+".term" {
							inLoop = st
						}
					}
				}
				okPrev = len(got) == 2 && got["appendReq.prevLogTerm"] && inLoop != nil && core.Dominates(v, inLoop)
				why = fmt.Sprintf("definitions of the cell %v, read before this entry's term is stored=%v", got, inLoop != nil && core.Dominates(v, inLoop))
			}
		}
		h.C.Check(rule+" prev-term-is-predecessors", site, okPrev, h.pos(c), "removeGTE's prevTerm must be the term of the entry preceding the truncation point (request's prevLogTerm, then each consumed entry's term, read before the current entry's is recorded): "+why)
	}
	h.C.Floor(rule+" (removeGTE calls)", len(h.callsDeep(fn, rg)), 1)
	// clearLog in install handler: after setState(Follower)
	inst := h.fn("raft:(*Raft).onInstallSnapRequest")
	cl := h.fn("raft:(*storage).clearLog")
	for k, c := range h.callsDeep(inst, cl) {
		fi := h.P.Info(c.Parent())
		pre := fi.PrecededBy(c, func(in ssa.Instruction) bool {
			if ci, ok := in.(*ssa.Call); ok && h.P.IsCallTo(in, setState) {
				return h.argStr(ci, 1) == follower
			}
			return false
		})
		h.C.Check(rule+" follower-only", h.site(inst, cl, k), pre.OK, h.pos(c), "log reset reachable without setState(Follower) first: "+pre.Witness)
	}
}

// consistencyCheck (C04.1): every append/truncate/commit/success in the append
// handler is behind the prevLogIndex/prevLogTerm check (or prevLogIndex is
// covered by the snapshot).
func (h H) consistencyCheck(rule string) {
	fn := h.fn(appendFn)
	fi := h.P.Info(fn)
	mge := h.fn("raft:(*storage).mustGetEntry")
	// locate the term comparison: appendReq.prevLogTerm vs phi(lastLogTerm, E.term)
	var cmp core.Atom
	var cmpIf *ssa.If
	for _, ea := range fi.AllEdgeAtoms() {
		a := ea.A
		if (a.Op == "==" || a.Op == "!=") && (a.L == "appendReq.prevLogTerm" || a.R == "appendReq.prevLogTerm") {
			other := a.RE
			if a.R == "appendReq.prevLogTerm" {
				other = a.LE
			}
			if other != nil && other.Op == "phi" {
				cmp = a
				cmpIf = ea.E.From.Instrs[len(ea.E.From.Instrs)-1].(*ssa.If)
			}
		}
	}
	if cmpIf == nil {
		h.C.Check(rule+" term-comparison", "(*Raft).onAppendEntriesRequest prevLogTerm-check", false, h.fpos(fn), "no comparison of req.prevLogTerm with the local term at prevLogIndex found")
		return
	}
	// reaching definitions of the local term
	var phi *ssa.Phi
	if b, ok := cmpIf.Cond.(*ssa.BinOp); ok {
		if p, ok := b.X.(*ssa.Phi); ok {
			phi = p
		} else if p, ok := b.Y.(*ssa.Phi); ok {
			phi = p
		}
	}
	okDefs := phi != nil && len(phi.Edges) == 2
	if okDefs {
		for i, ev := range phi.Edges {
			s := fi.Sym(ev).String()
			pred := phi.Block().Preds[i]
			last := pred.Instrs[len(pred.Instrs)-1]
			if s == "Raft.storage.lastLogTerm" {
				r := fi.MustCrossAtom(last, core.MkAtom("Raft.storage.lastLogIndex", "==", "appendReq.prevLogIndex"))
				h.C.Check(rule+" local-term-def", "(*Raft).onAppendEntriesRequest prevLogTerm=lastLogTerm", r.OK, h.pos(cmpIf), "lastLogTerm used as the term at prevLogIndex without prevLogIndex == lastLogIndex: "+r.Witness)
			} else if e, ok := entryOf(s, "term"); ok {
				found := false
				for _, g := range h.P.CallsTo(fn, mge) {
					if h.argStr(g, 1) == "appendReq.prevLogIndex" && h.argStr(g, 2) == e && g.Block() == pred {
						found = true
					}
				}
				h.C.Check(rule+" local-term-def", "(*Raft).onAppendEntriesRequest prevLogTerm=entry.term", found, h.pos(cmpIf), "the local term compared with req.prevLogTerm is not the term of the entry fetched at req.prevLogIndex")
			} else {
				okDefs = false
			}
		}
	}
	h.C.Check(rule+" local-term-defs", "(*Raft).onAppendEntriesRequest prevLogTerm-check", okDefs, h.pos(cmpIf), "the local term at prevLogIndex must be lastLogTerm (when prevLogIndex == lastLogIndex) or the fetched entry's term")
	match := cmp
	if match.Op == "!=" {
		match = match.Negate()
	}
	var covered []core.Atom
	for _, f := range snapIndexForms("Raft.storage") {
		covered = append(covered, core.MkAtom("appendReq.prevLogIndex", "<=", f))
	}
	var targets []struct {
		in   ssa.Instruction
		name string
	}
	for _, spec := range []string{"raft:(*storage).appendEntry", "raft:(*storage).removeGTE", "raft:(*Raft).setCommitIndex"} {
		cal := h.fn(spec)
		for k, c := range h.P.CallsTo(fn, cal) {
			targets = append(targets, struct {
				in   ssa.Instruction
				name string
			}{c, h.site(fn, cal, k)})
		}
	}
	succ := h.constStr("raft:success")
	for k, r := range core.Returns(fn) {
		if h.retVal(r, 0).String() == succ {
			targets = append(targets, struct {
				in   ssa.Instruction
				name string
			}{r, fmt.Sprintf("(*Raft).onAppendEntriesRequest return-success#%d", k+1)})
		}
	}
	for _, t := range targets {
		h.gateFresh(rule+" gate", t.name, t.in, append([]core.Atom{match}, covered...)...)
	}
	h.C.Floor(rule+" (gated sites)", len(targets), 4)
	// the deferred closure (flush + commit) is registered only after the check
	for _, d := range h.P.DeferredClosures(fn) {
		core.Instrs(fn, func(in ssa.Instruction) {
			if df, ok := in.(*ssa.Defer); ok {
				if core.ClosureOf(df.Call.Value) == d {
					h.gateFresh(rule+" gate", "(*Raft).onAppendEntriesRequest defer "+h.name(d), df, append([]core.Atom{match}, covered...)...)
				}
			}
		})
	}
	// the not-found reply precedes any fetch at prevLogIndex
	for k, g := range h.P.CallsTo(fn, mge) {
		if h.argStr(g, 1) == "appendReq.prevLogIndex" {
			h.gate(rule+" prev-inside-log", h.site(fn, mge, k), g, core.MkAtom("appendReq.prevLogIndex", "<=", "Raft.storage.lastLogIndex"))
			h.gateSnap(rule+" prev-above-snapshot", h.site(fn, mge, k), g, "appendReq.prevLogIndex", ">", "Raft.storage")
		}
	}
}

// entrySkipAndKeep (C04.1/2): entries at or below the snapshot index are
// skipped; an existing entry with the same term is kept (no append, no
// truncation); everything appended comes from the decoded entry.
func (h H) entrySkipAndKeep(rule string) {
	fn := h.fn(appendFn)
	ae := h.fn("raft:(*storage).appendEntry")
	dec := h.fn("raft:(*entry).decode")
	mge := h.fn("raft:(*storage).mustGetEntry")
	for k, c := range h.P.CallsTo(fn, ae) {
		site := h.site(fn, ae, k)
		e := h.argStr(c, 1)
		// decoded from the connection
		decoded := false
		for _, d := range h.P.CallsTo(fn, dec) {
			if h.argStr(d, 0) == e && h.argStr(d, 1) == "conn.bufr" && core.Dominates(d.(ssa.Instruction), c.(ssa.Instruction)) {
				decoded = true
			}
		}
		h.C.Check(rule+" decoded-entry", site, decoded, h.pos(c), "the appended entry is not the one decoded from the request stream")
		h.gateSnap(rule+" above-snapshot", site, c, e+".index", ">", "Raft.storage")
		// on every path: either the entry is beyond the log, or the local entry at that index conflicted (then removeGTE precedes)
		fi := h.P.Info(fn)
		var m string
		for _, g := range h.P.CallsTo(fn, mge) {
			if h.argStr(g, 1) == e+".index" {
				m = h.argStr(g, 2)
			}
		}
		beyond := core.MkAtom(e+".index", ">", "Raft.storage.lastLogIndex")
		wants := []core.Atom{beyond}
		if m != "" {
			wants = append(wants, core.MkAtom(e+".term", "!=", m+".term"))
		}
		r := fi.MustCross(c, func(a core.Atom) bool {
			for _, w := range wants {
				if a.Implies(w) {
					return true
				}
			}
			return false
		})
		h.C.Check(rule+" keep-same-term", site, r.OK, h.pos(c), "an entry already present with the same term can be re-appended/overwritten: "+r.Witness)
	}
	h.C.Floor(rule+" (appendEntry calls)", len(h.P.CallsTo(fn, ae)), 1)
	// an entry of the request may be passed over without being appended only if it is covered by the
	// snapshot or the local entry at that index has exactly the same term
	fi := h.P.Info(fn)
	var hd *ssa.BasicBlock
	for _, x := range core.LoopHeaders(fn) {
		for _, c := range h.P.CallsTo(fn, ae) {
			if core.InLoop(x, c.Block()) {
				hd = x
			}
		}
	}
	if !h.C.Check(rule+" entry-loop", "(*Raft).onAppendEntriesRequest entry-loop", hd != nil, h.fpos(fn), "loop over the request's entries not found") {
		return
	}
	var e, m string
	for _, c := range h.P.CallsTo(fn, ae) {
		e = h.argStr(c, 1)
	}
	for _, g := range h.P.CallsTo(fn, mge) {
		if h.argStr(g, 1) == e+".index" {
			m = h.argStr(g, 2)
		}
	}
	r := fi.LoopBodyMustCrossOrPass(hd, func(a core.Atom) bool {
		for _, f := range snapIndexForms("Raft.storage") {
			if a.Implies(core.MkAtom(e+".index", "<=", f)) {
				return true
			}
		}
		return m != "" && a.Implies(core.MkAtom(e+".term", "==", m+".term"))
	}, func(in ssa.Instruction) bool { return h.P.IsCallTo(in, ae) })
	h.C.Check(rule+" skip-only-if-same", "(*Raft).onAppendEntriesRequest entry-loop", r.OK, h.pos(hd.Instrs[len(hd.Instrs)-1]), "a received entry can be passed over (neither appended nor replacing the local one) although the local entry at its index has a different term: "+r.Witness)
}

// storageCacheCoherence (E4 row 1; C04.2): lastLogIndex/lastLogTerm follow
// every log mutation; appendEntry asserts contiguity before appending.
func (h H) storageCacheCoherence(rule string) {
	h.onlyCallers(rule+" who-may-call", "log:(*Log).Append", "(*storage).appendEntry")
	h.onlyCallers(rule+" who-may-call", "log:(*Log).RemoveLTE", "(*storage).removeLTE")
	h.onlyWriters(rule+" who-may-write", "raft:storage.lastLogIndex", "(*storage).appendEntry", "(*storage).removeGTE", "(*storage).clearLog", "(*storage).bootstrap", "openStorage")
	h.onlyWriters(rule+" who-may-write", "raft:storage.lastLogTerm", "(*storage).appendEntry", "(*storage).removeGTE", "(*storage).clearLog", "(*storage).bootstrap", "openStorage")
	h.onlyWriters(rule+" who-may-write", "raft:storage.log", "openStorage")
	// appendEntry
	fn := h.fn("raft:(*storage).appendEntry")
	sim := h.simAll()
	ts := sim.Run(fn)
	n := 0
	for _, t := range ts {
		if t.Exit != "return" {
			continue
		}
		n++
		key := "(*storage).appendEntry path[" + t.Describe() + "]"
		iA := evIndex(t, isCall("(*log.Log).Append"))
		iI := evIndex(t, isStoreTo("storage.lastLogIndex"))
		iT := evIndex(t, isStoreTo("storage.lastLogTerm"))
		iE := evIndex(t, func(e core.Event) bool { return strings.HasSuffix(e.Callee, ".encode") })
		ok := iA >= 0 && iI > iA && iT > iA && iE >= 0 && iE < iA
		if !h.C.Check(rule+" append-then-cache", key, ok, t.ExitPos, "appendEntry must encode, Log.Append, then update lastLogIndex/lastLogTerm") {
			continue
		}
		ap := t.Events[iA]
		okNil := len(ap.Results) == 1 && t.Entails(ap.Results[0], "==", "nil")
		okVals := t.Events[iI].Args[1] == "entry.index" && t.Events[iT].Args[1] == "entry.term"
		okCont := t.EntailsAt(ap, "entry.index", "==", "(storage.lastLogIndex + 1)")
		okEnc := t.Events[iE].Args[0] == "entry"
		h.C.Check(rule+" contiguous-append", key, okNil && okVals && okCont && okEnc, t.ExitPos,
			fmt.Sprintf("append result proven nil=%v; cache := (e.index, e.term)=%v; contiguity e.index == lastLogIndex+1 proven=%v; the bytes appended encode e=%v", okNil, okVals, okCont, okEnc))
	}
	h.C.Floor(rule+" (appendEntry returning paths)", n, 1)
	// removeGTE
	fn = h.fn("raft:(*storage).removeGTE")
	ts = h.simAll().Run(fn)
	n = 0
	for _, t := range ts {
		if t.Exit != "return" {
			continue
		}
		n++
		key := "(*storage).removeGTE path[" + t.Describe() + "]"
		iR := evIndex(t, isCall("(*log.Log).RemoveGTE"))
		iI := evIndex(t, isStoreTo("storage.lastLogIndex"))
		iT := evIndex(t, isStoreTo("storage.lastLogTerm"))
		ok := iR >= 0 && iI > iR && iT > iR && t.Events[iR].Args[1] == "$1" && t.Events[iI].Args[1] == "($1 - 1)" && t.Events[iT].Args[1] == "$2" &&
			len(t.Events[iR].Results) == 1 && t.Entails(t.Events[iR].Results[0], "==", "nil")
		h.C.Check(rule+" removeGTE-cache", key, ok, t.ExitPos, "removeGTE(index, prevTerm) must call Log.RemoveGTE(index) successfully and then set (lastLogIndex, lastLogTerm) = (index-1, prevTerm)")
	}
	h.C.Floor(rule+" (removeGTE returning paths)", n, 1)
	// clearLog
	fn = h.fn("raft:(*storage).clearLog")
	ts = h.simAll().Run(fn)
	n = 0
	for _, t := range ts {
		if t.Exit != "return" || len(t.Ret) != 1 || !t.Entails(t.Ret[0], "==", "nil") {
			continue
		}
		n++
		key := "(*storage).clearLog path[" + t.Describe() + "]"
		iR := evIndex(t, isCall("(*log.Log).Reset"))
		iI := evIndex(t, isStoreTo("storage.lastLogIndex"))
		iT := evIndex(t, isStoreTo("storage.lastLogTerm"))
		// the snapshot index/term: bare fields or the results of one latest() call on storage.snaps
		idx, term := "storage.snaps.index", "storage.snaps.term"
		for _, e := range t.Events {
			if e.Callee == "(*snapshots).latest" && e.Args[0] == "storage.snaps" && len(e.Results) == 2 {
				idx, term = e.Results[0], e.Results[1]
			}
		}
		ok := iR >= 0 && iI > iR && iT > iR && t.Events[iR].Args[1] == idx && t.Events[iI].Args[1] == idx && t.Events[iT].Args[1] == term
		h.C.Check(rule+" clearLog-cache", key, ok, t.ExitPos, "clearLog must Reset(snaps.index) and then set (lastLogIndex, lastLogTerm) = (snaps.index, snaps.term)")
	}
	h.C.Floor(rule+" (clearLog success paths)", n, 1)
}

// appendRefusalJustified (C17.4c): the append handler turns a request of the
// current leader down only for the protocol's reasons: the request's term is
// lower (staleTerm), the previous entry lies beyond the end of our log
// (prevEntryNotFound), or our entry there has a different term
// (prevTermMismatch). A handler that refuses more (say at prevLogIndex ==
// lastLogIndex) makes the leader back off for ever: replication to that node
// never completes although everything is healthy.
func (h H) appendRefusalJustified(rule string) {
	fn := h.fn(appendFn)
	fi := h.P.Info(fn)
	want := map[string]func(a core.Atom) bool{
		h.constStr("raft:staleTerm"): func(a core.Atom) bool {
			return a.Implies(core.MkAtom("appendReq.req.term", "<", "Raft.storage.term"))
		},
		h.constStr("raft:prevEntryNotFound"): func(a core.Atom) bool {
			return a.Implies(core.MkAtom("appendReq.prevLogIndex", ">", "Raft.storage.lastLogIndex"))
		},
		h.constStr("raft:prevTermMismatch"): func(a core.Atom) bool {
			return a.Op == "!=" && (a.L == "appendReq.prevLogTerm" || a.R == "appendReq.prevLogTerm")
		},
	}
	n := 0
	core.Instrs(fn, func(in ssa.Instruction) {
		c, ok := in.(*ssa.Call)
		if !ok {
			return
		}
		if core.ClosureOf(c.Common().Value) == nil || len(c.Common().Args) != 2 {
			return
		}
		res := fi.Sym(c.Common().Args[0]).String()
		pass, known := want[res]
		if !known {
			h.C.Check(rule+" known-refusals", fmt.Sprintf("(*Raft).onAppendEntriesRequest refusal %s", res), false, h.pos(c), "unexpected refusal result "+res+" (expected staleTerm, prevEntryNotFound or prevTermMismatch)")
			return
		}
		n++
		r := fi.MustCross(c, pass)
		h.C.Check(rule, fmt.Sprintf("(*Raft).onAppendEntriesRequest refusal %s", res), r.OK, h.pos(c), "the request is refused on a path where the protocol's reason for this result does not hold: "+r.Witness)
	})
	// the only other results are success and the two error kinds; a refusal
	// returned as a plain value (the drain helper written as a function and
	// expanded, or no helper at all) is judged where the value was chosen
	succ, rerr, unexp := h.constStr("raft:success"), h.constStr("raft:readErr"), h.constStr("raft:unexpectedErr")
	for k, r := range core.Returns(fn) {
		v0 := r.Results[0]
		if u, isLoad := v0.(*ssa.UnOp); isLoad { // defer-spilled result
			if a, isCell := u.X.(*ssa.Alloc); isCell {
				for j := len(r.Block().Instrs) - 1; j >= 0; j-- {
					if st, isSt := r.Block().Instrs[j].(*ssa.Store); isSt && st.Addr == ssa.Value(a) {
						v0 = st.Val
						break
					}
				}
			}
		}
		for j, lf := range h.leavesAt(v0, r, 0) {
			v := fi.SymAt(lf.V, lf.At).String()
			site := fmt.Sprintf("(*Raft).onAppendEntriesRequest return#%d.%d", k+1, j+1)
			if pass, isRefusal := want[v]; isRefusal {
				n++
				res := fi.MustCross(lf.At, pass)
				h.C.Check(rule, site+" refusal "+v, res.OK, h.pos(lf.At), "the request is refused on a path where the protocol's reason for this result does not hold: "+res.Witness)
				continue
			}
			ok := v == succ || v == rerr || v == unexp || strings.HasPrefix(v, "(*Raft).onAppendEntriesRequest$")
			h.C.Check(rule+" results", site, ok, h.pos(r), "unexpected result "+v)
		}
	}
	h.C.Floor(rule+" (refusals of the append handler)", n, 3)
}

// commitThenApply (C17.6): whenever a node advances its commit index it hands
// the newly committed entries to its state machine in the same activation;
// nothing else ever does, so a missing call leaves the state machine behind
// until some later commit.
func (h H) commitThenApply(rule string) {
	rsc := h.fn("raft:(*Raft).setCommitIndex")
	lsc := h.fn("raft:(*leader).setCommitIndex")
	rap := h.fn("raft:(*Raft).applyCommitted")
	lap := h.fn("raft:(*leader).applyCommitted")
	n := 0
	for _, callee := range []*ssa.Function{rsc, lsc} {
		for _, s := range h.P.Callers(callee) {
			if s.Fn == lsc {
				continue // the leader's wrapper: its callers apply
			}
			n++
			fi := h.P.Info(s.Fn)
			r := fi.AlwaysFollowedBy(s.Instr, func(in ssa.Instruction) bool {
				return h.P.IsCallTo(in, rap) || h.P.IsCallTo(in, lap)
			})
			h.C.Check(rule, fmt.Sprintf("%s in %s", h.name(callee), h.name(s.Fn)), r.OK, h.pos(s.Instr), "the commit index is advanced and the function can return without applying the committed entries: "+r.Witness)
		}
	}
	h.C.Floor(rule+" (commit-index advances)", n, 3)
	// the follower's deferred commit looks at the last entry consumed: the
	// cells it reads are set from every consumed entry
	fn := h.fn(appendFn)
	fi := h.P.Info(fn)
	for _, cell := range []struct{ name, first, each string }{{"index", "appendReq.prevLogIndex", ".index"}, {"term", "appendReq.prevLogTerm", ".term"}} {
		okFirst, okEach := false, false
		core.Instrs(fn, func(in ssa.Instruction) {
			st, ok := in.(*ssa.Store)
			if !ok || fi.Sym(st.Addr).String() != "local:"+cell.name {
				return
			}
			v := fi.Sym(st.Val).String()
			if v == cell.first {
				okFirst = true
			}
			if strings.HasPrefix(v, "new:entry#") && strings.HasSuffix(v, cell.each) && len(core.LoopHeaders(fn)) > 0 {
				for _, hd := range core.LoopHeaders(fn) {
					if core.InLoop(hd, in.Block()) || in.Block() == hd {
						okEach = true
					}
				}
			}
		})
		_ = okFirst
		h.C.Check(rule+" follower-commit-tracks-last-entry", "(*Raft).onAppendEntriesRequest "+cell.name, okFirst && okEach, h.fpos(fn), "the (index, term) pair the deferred commit test reads must start at the request's prevLog pair and follow every consumed entry")
	}
}

// entryTermFromLog (C04.2c): storage.getEntryTerm(i) answers with the term of
// the entry the log holds at i — the value every consistency comparison
// (prevLogTerm check, "does my entry at the snapshot index have the
// snapshot's term") is made against. A shortcut that answers from a cache
// (the latest snapshot's term, lastLogTerm) turns those comparisons into
// x == x.
func (h H) entryTermFromLog(rule string) {
	fn := h.fn("raft:(*storage).getEntryTerm")
	fi := h.P.Info(fn)
	ge := h.fn("raft:(*storage).getEntry")
	calls := h.P.CallsTo(fn, ge)
	n := 0
	for k, ret := range core.Returns(fn) {
		if len(ret.Results) != 2 {
			continue
		}
		n++
		if h.P.NeverNil(retOperand(ret, 1), 0) {
			continue // a failure
		}
		v := fi.Sym(retOperand(ret, 0)).String()
		ok := false
		for _, c := range calls {
			args := c.Common().Args
			if len(args) == 3 && fi.Sym(args[1]).String() == "$1" && v == fi.Sym(args[2]).String()+".term" && core.Dominates(c.(ssa.Instruction), ret) {
				// the error handed back with it is that read's error
				if errv, has := errValueOf(c.(*ssa.Call)); has && (errv == nil || errDerived(retOperand(ret, 1), errv, 0)) {
					ok = true
				}
			}
		}
		h.C.Check(rule+" term-read-from-log", fmt.Sprintf("(*storage).getEntryTerm return#%d", k+1), ok, h.pos(ret), "getEntryTerm must answer with the term of the entry read from the log at the requested index (and that read's error); found "+v)
	}
	h.C.Floor(rule+" (returns of getEntryTerm)", n, 1)
}
