package props

import (
	"fmt"
	"strings"

	"golang.org/x/tools/go/ssa"

	"raftlint/internal/core"
)

// Durability-before-acknowledgement obligations (C06.1, C06.2, C10.6).

func (h H) leaderFlushBeforeAdvance(rule string) {
	fn := h.fn("raft:(*leader).setCommitIndex")
	cl := h.fn("raft:(*storage).commitLog")
	sci := h.fn("raft:(*Raft).setCommitIndex")
	for k, c := range h.P.CallsTo(fn, sci) {
		site := h.site(fn, sci, k)
		arg := h.argStr(c, 1)
		fi := h.P.Info(fn)
		r := fi.PrecededBy(c, func(in ssa.Instruction) bool {
			return h.P.IsCallTo(in, cl) && h.argStr(in.(ssa.CallInstruction), 1) == arg
		})
		h.C.Check(rule, site, r.OK && arg == "$1", h.pos(c), "the leader advances its commit index to "+arg+" without first flushing its log up to that index: "+r.Witness)
	}
	h.C.Floor(rule+" (Raft.setCommitIndex calls in leader.setCommitIndex)", len(h.P.CallsTo(fn, sci)), 1)
	// commitLog(n) flushes at least n entries: Log.CommitN(n), error => panic
	ts := h.simAll().Run(cl)
	n := 0
	for _, t := range ts {
		if t.Exit != "return" {
			continue
		}
		n++
		i := evIndex(t, isCall("(*log.Log).CommitN"))
		ok := i >= 0 && t.Events[i].Args[0] == "storage.log" && t.Events[i].Args[1] == "$1" && len(t.Events[i].Results) == 1 && t.Entails(t.Events[i].Results[0], "==", "nil")
		h.C.Check(rule+" commitLog-shape", "(*storage).commitLog path["+t.Describe()+"]", ok, t.ExitPos, "commitLog(n) must return only after Log.CommitN(n) succeeded")
	}
	h.C.Floor(rule+" (commitLog returning paths)", n, 1)
}

func (h H) followerFlushBeforeAck(rule string) {
	fn := h.fn(appendFn)
	fi := h.P.Info(fn)
	ae := h.fn("raft:(*storage).appendEntry")
	cl := h.fn("raft:(*storage).commitLog")
	sci := h.fn("raft:(*Raft).setCommitIndex")
	// the deferred closure that flushes
	var closure *ssa.Function
	var theDefer *ssa.Defer
	core.Instrs(fn, func(in ssa.Instruction) {
		if d, ok := in.(*ssa.Defer); ok {
			if c := core.ClosureOf(d.Call.Value); c != nil {
				if len(h.P.CallsTo(c, cl)) > 0 {
					closure, theDefer = c, d
				}
			}
		}
	})
	if !h.C.Check(rule+" deferred-flush", "(*Raft).onAppendEntriesRequest defer", closure != nil, h.fpos(fn), "no deferred closure flushing the log (commitLog) found") {
		return
	}
	cfi := h.P.Info(closure)
	// flag variable: the local tested by the closure before commitLog
	var flag string
	for _, c := range h.P.CallsTo(closure, cl) {
		for _, ea := range cfi.AllEdgeAtoms() {
			if ea.A.Op == "true" && ea.A.R == "" && len(ea.A.L) > 6 && ea.A.L[:6] == "local:" {
				if cfi.MustCrossAtom(c, ea.A).OK {
					flag = ea.A.L
				}
			}
		}
		arg := h.argStr(c, 1)
		h.C.Check(rule+" flush-all-appended", h.name(closure)+" commitLog", arg == "Raft.storage.lastLogIndex", h.pos(c), "the flush must cover everything appended (lastLogIndex); found "+arg)
	}
	// commit index is advanced in the closure only after the flush
	for k, c := range h.P.CallsTo(closure, sci) {
		r := cfi.PrecededBy(c, func(in ssa.Instruction) bool { return h.P.IsCallTo(in, cl) })
		h.C.Check(rule+" flush-before-commit", h.site(closure, sci, k), r.OK, h.pos(c), "commit index advanced over freshly appended entries before they are flushed: "+r.Witness)
	}
	// every appendEntry: (a) the defer is registered on every feasible path before it, (b) it sets the flag before the handler can return
	for k, c := range h.P.CallsTo(fn, ae) {
		site := h.site(fn, ae, k)
		r := fi.MustPassFeasible(c, func(in ssa.Instruction) bool { return in == ssa.Instruction(theDefer) })
		h.C.Check(rule+" defer-registered-first", site, r.OK, h.pos(c), "an entry can be appended on a path where the flushing defer was never registered: "+r.Witness)
		if flag != "" {
			f := fi.AlwaysFollowedBy(c, func(in ssa.Instruction) bool {
				st, ok := in.(*ssa.Store)
				return ok && fi.Sym(st.Addr).String() == flag && fi.Sym(st.Val).String() == "true"
			})
			h.C.Check(rule+" flag-set-after-append", site, f.OK, h.pos(c), "after appending, the handler can return without marking the log for flushing ("+flag+"): "+f.Witness)
		} else {
			// unconditional flush in the closure
			uncond := false
			for _, cc := range h.P.CallsTo(closure, cl) {
				if cc.Block().Index == 0 {
					uncond = true
				}
			}
			h.C.Check(rule+" flag-set-after-append", site, uncond, h.pos(c), "cannot identify the flag guarding the deferred flush")
		}
	}
	// the flag is only ever set to true after an append (never reset) — otherwise a later iteration could cancel the flush
	if flag != "" {
		core.Instrs(fn, func(in ssa.Instruction) {
			if st, ok := in.(*ssa.Store); ok && fi.Sym(st.Addr).String() == flag {
				v := fi.Sym(st.Val).String()
				if v == "false" {
					h.C.Check(rule+" flag-not-reset", "(*Raft).onAppendEntriesRequest "+flag+" := false", st.Block().Dominates(theDefer.Block()) || core.Dominates(st, theDefer), h.pos(st), "the flush flag is reset after entries may have been appended")
				}
			}
		})
	}
	// success reply: produced by replyRPC after onRequest returned (C05.4 mechanism) — the deferred flush runs before the return value leaves the handler
	succ := h.constStr("raft:success")
	for k, r := range core.Returns(fn) {
		if h.retVal(r, 0).String() != succ {
			continue
		}
		// a RunDefers precedes the return in the same block
		okRD := false
		for _, in := range r.Block().Instrs {
			if _, ok := in.(*ssa.RunDefers); ok {
				okRD = true
			}
		}
		h.C.Check(rule+" defers-run-before-reply", fmt.Sprintf("(*Raft).onAppendEntriesRequest return-success#%d", k+1), okRD, h.pos(r), "success is returned without running the deferred flush")
	}
}

// voterCacheFreshness (E4 row 3; C06.3, C11.2).
func (h H) voterCacheFreshness(rule string) {
	rcc := h.fn("raft:(*Raft).changeConfig")
	for _, fld := range []string{"raft:leader.numVoters", "raft:leader.node"} {
		sites := h.onlyWriters(rule+" who-may-write", fld, "(*leader).init", "(*leader).changeConfig")
		for _, s := range sites {
			fi := h.P.Info(s.Fn)
			name := h.name(s.Fn)
			v := fi.Sym(storeVal(s.Instr))
			construct := name + " store " + fld[len("raft:"):]
			switch name {
			case "(*leader).changeConfig":
				fromParam := v.Contains("Config") && !v.Contains("leader.Raft.storage.configs.Latest")
				fromLatest := v.Contains("leader.Raft.storage.configs.Latest")
				ok := fromParam
				if fromLatest {
					// only acceptable after the new configuration has been installed
					ok = false
					for _, c := range h.P.CallsTo(s.Fn, rcc) {
						if core.Dominates(c.(ssa.Instruction), s.Instr) && h.argStr(c, 1) == "Config" {
							ok = true
						}
					}
				}
				h.C.Check(rule+" fresh-on-change", construct, ok, h.pos(s.Instr), "the cached voter information is computed from the configuration that is about to be replaced ("+v.String()+"): after the voter set changes size the majority is computed over the wrong set")
			case "(*leader).init":
				h.C.Check(rule+" fresh-on-init", construct, strings.Contains(h.expandLocals(s.Fn, v.String()), "leader.Raft.storage.configs.Latest"), h.pos(s.Instr), "leader.init must derive the cache from the latest configuration; found "+v.String())
			}
			// what is cached: numVoters() of / Nodes[nid] of
			if fld == "raft:leader.numVoters" {
				h.C.Check(rule+" what-is-cached", construct, v.Op == "call" && v.Name == "(Config).numVoters", h.pos(s.Instr), "numVoters must be Config.numVoters(); found "+v.String())
			} else {
				h.C.Check(rule+" what-is-cached", construct, v.Op == "idx" && v.Args[1].String() == "leader.Raft.storage.nid", h.pos(s.Instr), "leader.node must be Nodes[own id]; found "+v.String())
			}
		}
	}
}
