package props

import "raftlint/internal/core"

func init() {
	register(&Property{ID: "C09", Run: runC09, Assumptions: commonAssumptions,
		Explanation: "Structural necessary conditions of transparent snapshots/compaction: a snapshot response carries the FSM's applied index/term of the activation that called Snapshot(), on the single FSM goroutine; only compactLog may remove the log front, from three sites, bounded by CanLTE(min(snapshot index, followers' match indexes)) under Contains(snapshot index), or by leader.removeLTE once every replication released it; leader.removeLTE (lower bound of every view) is re-established whenever the leader raises PrevIndex; a compacted entry leads the replication to snapshot installation; the install handler publishes the snapshot before resetting/compacting the log, keeps the suffix only when index and term match and otherwise discards, restores the FSM, resets commitIndex and adopts the snapshot's configuration. State equality with log replay and the relation between a compaction boundary and what replications are currently reading are run-time facts and not decided."})
	register(&Property{ID: "C12", Run: runC12, Assumptions: commonAssumptions,
		Explanation: "Decides label coherence: snapshotMeta is labelled only in snapshots.new with its arguments; the install path takes all three label parts from one request; on the take path index/term come from the FSM's response and the membership must be configs.Committed read by the raft goroutine in the same activation that enqueues the fsmSnapReq (FIFO queue pins the snapshot to that commit index). Info.Configs after an actual restart is not decided."})
	register(&Property{ID: "C10", Run: runC10, Assumptions: append([]string{"completed file operations survive a process crash (the property's own model)"}, commonAssumptions...),
		Explanation: "Only publish-order necessary conditions are decided (enumerating crash points and reopening file images is dynamic fault enumeration and not applicable): value.set is rename -> dir sync -> memory; snapshotSink.done closes the data file, encodes and closes the temp meta, renames it to <index>.meta and only then advances snaps.index/term, error paths leave the index untouched and remove the data file; the install handler publishes before it resets/compacts; bootstrap appends, flushes, then persists term 1; doTakeSnapshot hands Persist/Flush errors to done; followers flush before acknowledging; the segment flush protocol of C14."})
}

func runC09(c *core.Ctx) {
	h := newH(c)
	c.Clause("C09.1 snapshot = FSM state at its applied index")
	h.snapshotAtAppliedIndex("C09.1 snapshot-at-applied-index")
	h.singleApplier("C09.1b single-applier")
	c.Clause("C09.2 who may compact, and how far")
	h.whoMayCompact("C09.2 who-may-compact")
	c.Clause("C09.3 view lower bound stays valid (E4)")
	h.viewLowerBound("C09.3 view-lower-bound")
	h.leaderInitEstablishes("C09.3b view-lower-bound", "leader.removeLTE")
	c.Clause("C09.4 fallback to snapshot installation when the entry is gone")
	h.snapshotFallback("C09.4 snapshot-fallback")
	h.requestsFromOwnLog("C09.4b requests-at-snapshot-boundary")
	c.Clause("C09.5 follower keeps a matching suffix, otherwise discards and restores")
	h.installSnapshotHandler("C09.5 install-handler")
	h.installCommitsWhatItKeeps("C09.5b install-commit")
	h.staleSnapshotIgnored("C09.6 stale-snapshot-ignored")
	h.snapshotOrder("C09.7 snapshot-order")
	h.labelCoherence("C09.1c label-coherence")
	h.openStorageLoads("C09.9 restart-loads", "last")
	c.Clause("C09.8 a snapshot being opened for a follower or a restore is pinned before its files are touched; pruning spares pinned and retained snapshots")
	h.snapshotOpenPinned("C09.8 open-pinned")
	h.logChangedOnlyWithoutReaders("C09.10 log-readers")
	h.logReadersComplete("C09.11 reader-set")
	h.barrierRoundTrips("C09.5c barrier-round-trips")
	h.applyInOrder("C09.12 applied-position")
}

func runC12(c *core.Ctx) {
	h := newH(c)
	c.Clause("C12.1 label coherence of stored snapshots")
	h.labelCoherence("C12.1 label-coherence")
	h.snapshotAtAppliedIndex("C12.2 snapshot-at-applied-index")
	h.installSnapshotHandler("C12.3 install-handler")
	c.Clause("C12.4 restart takes the membership from the label only when the log holds no newer configuration entry")
	h.openStorageRebuild("C12.4 restart-rebuild")
	// the label of a taken snapshot is configs.Committed: it must follow every adopted configuration
	h.adoptAndRevert("C12.5 adopt-revert")
	h.configSetters("C12.5b config-setters")
	// …and must not be edited in place (it shares its node map with the latest configuration)
	h.oneActionPerEntry("C12.5c one-action")
	h.applyInOrder("C12.2b applied-position")
	h.singleApplier("C12.2c single-applier")
	h.snapshotFallback("C12.6 snapshot-fallback")
}

func runC10(c *core.Ctx) {
	h := newH(c)
	h.assertIdiom("C10.idiom assert-panics")
	c.Clause("C10.1 value.set: rename -> dir sync -> memory")
	h.valueSetOrder("C10.1 value.set order")
	h.syncDirSyncs("C10.1b syncDir")
	h.setterPersistThenPublish("C10.1b persist-then-publish", "raft:(*storage).setTerm", ">")
	// compaction deletes whole segments from the front, each unlinked before its file goes (what a crash between two deletions leaves must still be a log that opens with its tail)
	h.unlinkBeforeRemove("C10.13 unlink-before-remove")
	h.frontRemovalWholeSegments("C10.13b front-removal")
	h.setterPersistThenPublish("C10.1b persist-then-publish", "raft:(*storage).setVotedFor", ">=")
	c.Clause("C10.2 snapshotSink.done publish order")
	h.sinkPublishOrder("C10.2 sink-publish")
	h.snapshotOrder("C10.2b snapshot-order")
	c.Clause("C10.3 install handler publishes before it resets/compacts")
	h.installSnapshotHandler("C10.3 install-handler")
	c.Clause("C10.3b an already published snapshot is never re-created (its data file would be truncated while its meta file is published)")
	h.staleSnapshotIgnored("C10.3b stale-snapshot-ignored")
	c.Clause("C10.4 bootstrap: append -> flush -> term")
	h.bootstrapOrder("C10.4 bootstrap-order")
	c.Clause("C10.5 doTakeSnapshot: Persist -> Flush -> done(err)")
	h.takeSnapshotOrder("C10.5 take-snapshot-order")
	c.Clause("C10.6 followers flush before acknowledging; leader flushes before advancing")
	h.followerFlushBeforeAck("C10.6a follower-flush")
	h.commitBeforeStructureChange("C10.6c log-commit")
	h.segmentSyncProtocol("C10.6d log-sync-protocol")
	h.segmentWalks("C10.6e log-segment-walks")
	h.leaderFlushBeforeAdvance("C10.6b leader-flush")
	c.Clause("C10.7 state rebuilt from snapshot meta and log on open; FSM restored before the snapshot index is trusted")
	h.openStorageRebuild("C10.7a restart-rebuild")
	h.openStorageLoads("C10.9 restart-loads", "identity", "term", "last")
	h.servePrologue("C10.7b serve-prologue")
	c.Clause("C10.10 the stored files are found by reading the directory, whatever characters its path contains")
	h.dirListingLiteral("C10.10 dir-listing")
	c.Clause("C10.11 the storage lock does not outlive the process that took it")
	h.lockReleasedByDeath("C10.11 lock-released-by-death")
	// the term a snapshot records for its index is the state machine's: it advances with the index
	h.applyInOrder("C10.12 applied-position")
}
