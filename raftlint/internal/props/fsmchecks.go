package props

import (
	"fmt"
	"go/types"
	"strings"

	"golang.org/x/tools/go/ssa"

	"raftlint/internal/core"
)

// State-machine side obligations (C03, C07, C09.1, C19).

var fsmMethods = map[string]bool{"Update": true, "Read": true, "Snapshot": true, "Restore": true}

func (h H) isFSMInvoke(in ssa.Instruction) (string, bool) {
	ci, ok := in.(ssa.CallInstruction)
	if !ok {
		return "", false
	}
	com := ci.Common()
	if !com.IsInvoke() || !fsmMethods[com.Method.Name()] {
		return "", false
	}
	t := com.Value.Type()
	if n, ok := t.(*types.Named); ok && n.Obj().Name() == "FSM" && n.Obj().Pkg() != nil && n.Obj().Pkg().Path() == core.RaftPkg {
		return com.Method.Name(), true
	}
	return "", false
}

// singleApplier (C03.1): FSM methods are invoked only by stateMachine methods
// that only the FSM goroutine executes, and that goroutine is started once.
func (h H) singleApplier(rule string) {
	allowed := map[string]bool{"(*stateMachine).onApply": true, "(*stateMachine).runLoop": true, "(*stateMachine).onSnapReq": true, "(*stateMachine).onRestoreReq": true}
	n := 0
	for _, fn := range h.P.Funcs() {
		core.Instrs(fn, func(in ssa.Instruction) {
			if m, ok := h.isFSMInvoke(in); ok {
				n++
				name := h.name(core.Root(fn))
				// …and not from a function literal that one of them starts as a
				// goroutine of its own (the state machine would be read while the
				// loop goes on applying: the snapshot no longer matches its label)
				spawned := false
				for f := fn; f != nil && f.Parent() != nil; f = f.Parent() {
					for _, g := range h.P.GoSites(f.Parent()) {
						if core.ClosureOf(g.Call.Value) == f {
							spawned = true
						}
					}
				}
				// each method has its own place: a dirty read runs one Read, it
				// never walks on into the updates queued behind it
				per := map[string]map[string]bool{
					"Update":   {"(*stateMachine).onApply": true},
					"Read":     {"(*stateMachine).onApply": true, "(*stateMachine).runLoop": true},
					"Snapshot": {"(*stateMachine).onSnapReq": true},
					"Restore":  {"(*stateMachine).onRestoreReq": true},
				}
				if set, ok := per[m]; ok {
					h.C.Check(rule+" who-invokes-FSM method", "FSM."+m+" in "+name, set[name], h.pos(in), "FSM."+m+" is invoked from "+name+": updates are applied only by onApply (in log order, at the commit index), a dirty read only reads")
				}
				h.C.Check(rule+" who-invokes-FSM", "FSM."+m+" in "+name, allowed[name] && !spawned, h.pos(in), fmt.Sprintf("the user's state machine is invoked outside the FSM goroutine's methods (in a goroutine started there: %v)", spawned))
			}
		})
	}
	h.C.Floor(rule+" (FSM invocations)", n, 5)
	run := h.fn("raft:(*stateMachine).runLoop")
	// the three handlers are called only from runLoop
	for _, spec := range []string{"raft:(*stateMachine).onApply", "raft:(*stateMachine).onSnapReq", "raft:(*stateMachine).onRestoreReq"} {
		h.onlyCallers(rule+" who-may-call", spec, "(*stateMachine).runLoop")
	}
	// runLoop: exactly one caller, inside a closure started by `go` in Serve
	callers := h.P.Callers(run)
	ok := len(callers) == 1
	if ok {
		cl := callers[0].Fn
		ok = cl.Parent() != nil && h.name(cl.Parent()) == "(*Raft).Serve"
		if ok {
			started := 0
			for _, g := range h.P.GoSites(cl.Parent()) {
				if core.ClosureOf(g.Call.Value) == cl {
					started++
					// not inside a loop
					for _, hd := range core.LoopHeaders(cl.Parent()) {
						if hd.Dominates(g.Block()) && reaches(g.Block(), hd) {
							ok = false
						}
					}
				}
			}
			ok = ok && started == 1
		}
	}
	h.C.Check(rule+" single-fsm-goroutine", "(*stateMachine).runLoop start", ok, h.fpos(run), "the FSM loop must be started by exactly one go statement (in Serve)")
	h.C.Check(rule+" no-value-use", "(*stateMachine).runLoop value", len(h.P.FuncValueUses(run)) == 0, h.fpos(run), "runLoop escapes as a function value")
}

func reaches(from, to *ssa.BasicBlock) bool {
	seen := map[*ssa.BasicBlock]bool{}
	stack := []*ssa.BasicBlock{from}
	for len(stack) > 0 {
		b := stack[len(stack)-1]
		stack = stack[:len(stack)-1]
		for _, s := range b.Succs {
			if s == to {
				return true
			}
			if !seen[s] {
				seen[s] = true
				stack = append(stack, s)
			}
		}
	}
	return false
}

// applyRequestsEndAtCommit (C03.2, C19.2): every fsmApply carries a view ending
// at the commit index, and only the two applyCommitted functions send one.
func (h H) applyRequestsEndAtCommit(rule string) {
	fa := h.P.Named("raft:fsmApply")
	nSend, nLit := 0, 0
	for _, fn := range h.P.Funcs() {
		fi := h.P.Info(fn)
		name := h.name(core.Root(fn))
		core.Instrs(fn, func(in ssa.Instruction) {
			switch x := in.(type) {
			case *ssa.Send:
				// what is sent?
				v := x.X
				if mi, ok := v.(*ssa.MakeInterface); ok {
					v = mi.X
				}
				if types.Identical(v.Type(), fa) {
					nSend++
					ok := name == "(*Raft).applyCommitted" || name == "(*leader).applyCommitted"
					okCh := strings.HasSuffix(fi.Sym(x.Chan).String(), "fsm.ch")
					h.C.Check(rule+" who-sends-apply", "send fsmApply in "+name, ok && okCh, h.pos(x), "an apply request is sent outside applyCommitted")
				}
			case *ssa.Store:
				// stores into the log field of an fsmApply value
				if fa2, ok := x.Addr.(*ssa.FieldAddr); ok {
					if pt, ok := fa2.X.Type().Underlying().(*types.Pointer); ok && types.Identical(pt.Elem(), fa) {
						fld := fa.Underlying().(*types.Struct).Field(fa2.Field).Name()
						if fld == "log" {
							nLit++
							val := fi.Sym(x.Val)
							prefix := "leader.Raft"
							if name == "(*Raft).applyCommitted" {
								prefix = "Raft"
							}
							want := fmt.Sprintf("(*log.Log).ViewAt(%s.storage.log, (*log.Log).PrevIndex(%s.storage.log), %s.commitIndex)", prefix, prefix, prefix)
							h.C.Check(rule+" view-ends-at-commit", "fsmApply.log in "+name, val.String() == want, h.pos(x), "the log view handed to the state machine must be ViewAt(PrevIndex, commitIndex); found "+val.String())
						}
					}
				}
			}
		})
	}
	h.C.Floor(rule+" (fsmApply sends)", nSend, 2)
	h.C.Floor(rule+" (fsmApply.log stores)", nLit, 2)
}

// dequeueOnlyCommitted (C03.3, C07.4): leader.applyCommitted unlinks a queued
// entry only if index <= commitIndex, or index == commitIndex+1 and it is not a log entry.
func (h H) dequeueOnlyCommitted(rule string) {
	fn := h.fn("raft:(*leader).applyCommitted")
	fi := h.P.Info(fn)
	hds := core.LoopHeaders(fn)
	if !h.C.Check(rule+" loop", "(*leader).applyCommitted dequeue-loop", len(hds) == 1, h.fpos(fn), fmt.Sprintf("expected one dequeue loop, found %d", len(hds))) {
		return
	}
	hd := hds[0]
	isCommitted := func(a core.Atom) bool {
		return (a.Op == ">=" || a.Op == ">" || a.Op == "==") && a.L == "leader.Raft.commitIndex" && strings.HasSuffix(a.R, ".entry.index")
	}
	isNext := func(a core.Atom) bool {
		return a.Op == "==" && a.L == "(leader.Raft.commitIndex + 1)" && strings.HasSuffix(a.R, ".entry.index")
	}
	notLog := func(a core.Atom) bool {
		return a.Op == "false" && strings.HasPrefix(a.L, "(*entry).isLogEntry(")
	}
	r1 := fi.LoopBodyMustCross(hd, func(a core.Atom) bool { return isCommitted(a) || isNext(a) })
	r2 := fi.LoopBodyMustCross(hd, func(a core.Atom) bool { return isCommitted(a) || notLog(a) })
	h.C.Check(rule+" only-committed", "(*leader).applyCommitted dequeue-loop", r1.OK && r2.OK, h.pos(hd.Instrs[len(hd.Instrs)-1]),
		"a queued client entry can be handed to the state machine although it is neither committed nor a read/barrier directly behind the commit index: "+r1.Witness+" "+r2.Witness)
	// the head handed over is the old queue head
	for _, s := range h.storesIn(fn, "raft:fsmApply.neHead") {
		v := fi.Sym(storeVal(s.Instr)).String()
		h.C.Check(rule+" hands-over-head", "(*leader).applyCommitted fsmApply.neHead", strings.Contains(v, "leader.neHead"), h.pos(s.Instr), "the entries handed to the state machine must start at the queue head; found "+v)
	}
}

// applyInOrder (C03.4): contiguity guards in stateMachine.onApply; writers of fsm.index.
func (h H) applyInOrder(rule string) {
	h.onlyWriters(rule+" who-may-write", "raft:stateMachine.index", "(*stateMachine).onApply", "(*stateMachine).onRestoreReq")
	h.onlyWriters(rule+" who-may-write", "raft:stateMachine.term", "(*stateMachine).onApply", "(*stateMachine).onRestoreReq")
	fn := h.fn("raft:(*stateMachine).onApply")
	fi := h.P.Info(fn)
	upd := h.constStr("raft:entryUpdate")
	nUpd := 0
	core.Instrs(fn, func(in ssa.Instruction) {
		m, ok := h.isFSMInvoke(in)
		if !ok || m != "Update" {
			return
		}
		nUpd++
		ci := in.(ssa.CallInstruction)
		arg := fi.Sym(ci.Common().Args[0]).String()
		e, isData := entryOf(arg, "data")
		construct := fmt.Sprintf("(*stateMachine).onApply FSM.Update#%d", nUpd)
		if !h.C.Check(rule+" update-arg", construct, isData, h.pos(in), "FSM.Update must receive the data of the entry being applied; found "+arg) {
			return
		}
		h.gate(rule+" contiguous", construct, in, core.MkAtom(e+".index", "==", "(stateMachine.index + 1)"))
		h.gate(rule+" update-entries-only", construct, in, core.MkAtom(e+".typ", "==", upd))
		// followed by fsm.index := e.index before the next iteration / return
		// (an update entry is a log entry — decided by the isLogEntry summaries — so the
		// !isLogEntry edge cannot be taken after an Update)
		r := fi.AlwaysFollowedByE(in, func(x ssa.Instruction) bool {
			st, ok := x.(*ssa.Store)
			return ok && fi.Sym(st.Addr).String() == "stateMachine.index" && fi.Sym(st.Val).String() == e+".index"
		}, func(a core.Atom) bool { return a.Op == "false" && a.L == "(*entry).isLogEntry("+e+")" })
		h.C.Check(rule+" advance-after-apply", construct, r.OK, h.pos(in), "an update can be applied without advancing the applied index to it (it would be applied again): "+r.Witness)
	})
	h.C.Floor(rule+" (FSM.Update calls in onApply)", nUpd, 2)
	// every store of fsm.index in onApply is behind the contiguity guard of the same entry
	for k, s := range h.storesIn(fn, "raft:stateMachine.index") {
		v := fi.Sym(storeVal(s.Instr)).String()
		e, ok := entryOf(v, "index")
		construct := fmt.Sprintf("(*stateMachine).onApply store index#%d", k+1)
		if !h.C.Check(rule+" index-source", construct, ok, h.pos(s.Instr), "applied index must become the index of the entry just applied; found "+v) {
			continue
		}
		h.gate(rule+" index-contiguous", construct, s.Instr, core.MkAtom(e+".index", "==", "(stateMachine.index + 1)"))
		// index and term advance together, from the same entry: a snapshot is
		// labelled (fsm.index, fsm.term), and that term becomes prevLogTerm /
		// lastLogTerm wherever the log starts at the snapshot
		paired := false
		for _, in := range s.Instr.Block().Instrs {
			if st, isSt := in.(*ssa.Store); isSt && fi.Sym(st.Addr).String() == "stateMachine.term" && fi.Sym(st.Val).String() == e+".term" {
				paired = true
			}
		}
		h.C.Check(rule+" term-with-index", construct, paired, h.pos(s.Instr), "the applied index advances to "+e+".index without the applied term becoming "+e+".term in the same step: snapshots would be labelled with a stale term")
	}
	// entries read from the log are read at fsm.index+1 from the view in the request
	get := h.fn("log:(*Log).Get")
	for k, c := range h.P.CallsTo(fn, get) {
		ok := h.argStr(c, 0) == "fsmApply.log" && h.argStr(c, 1) == "(stateMachine.index + 1)"
		h.C.Check(rule+" reads-next-entry", h.site(fn, get, k), ok, h.pos(c), "the state machine must read entry fsm.index+1 of the view it was given")
	}
	// log loop bound: fsm.index+1 < front, front = view.LastIndex()+1 or head.index
	hdOK := false
	for _, ea := range fi.AllEdgeAtoms() {
		if ea.A.Op == "<" && ea.A.L == "(stateMachine.index + 1)" && strings.HasPrefix(ea.A.R, "phi(((*log.Log).LastIndex(fsmApply.log) + 1), ") && strings.HasSuffix(ea.A.R, "fsmApply.neHead.entry.index)") {
			hdOK = true
		}
	}
	h.C.Check(rule+" log-loop-bound", "(*stateMachine).onApply log-loop", hdOK, h.fpos(fn), "entries are applied from the log only while fsm.index+1 < min(view end+1, first queued entry)")
	// restore
	rs := h.fn("raft:(*stateMachine).onRestoreReq")
	rfi := h.P.Info(rs)
	for _, s := range h.storesIn(rs, "raft:stateMachine.index") {
		v := rfi.Sym(storeVal(s.Instr)).String()
		okV := strings.HasSuffix(v, ".meta.index") && strings.Contains(v, "(*snapshots).open(")
		r := rfi.MustCross(s.Instr, func(a core.Atom) bool {
			return a.Op == "==" && a.R == "nil" && strings.HasPrefix(a.L, "invoke:Restore(")
		})
		h.C.Check(rule+" restore-sets-index", "(*stateMachine).onRestoreReq store index", okV && r.OK, h.pos(s.Instr), "after restore the applied index must be the snapshot's index, and only if Restore succeeded")
	}
}

// snapshotAtAppliedIndex (C09.1, C12): fsmSnapResp carries fsm.index/term read in the activation that calls Snapshot().
func (h H) snapshotAtAppliedIndex(rule string) {
	fn := h.fn("raft:(*stateMachine).onSnapReq")
	fi := h.P.Info(fn)
	resp := h.P.Named("raft:fsmSnapResp")
	n := 0
	for _, f := range h.P.Funcs() {
		core.Instrs(f, func(in ssa.Instruction) {
			if a, ok := in.(*ssa.Alloc); ok {
				if pt, ok := a.Type().(*types.Pointer); ok && types.Identical(pt.Elem(), resp) && (strings.HasPrefix(a.Comment, "complit") || fieldsWritten(a)) {
					n++
					h.C.Check(rule+" who-builds-response", "fsmSnapResp in "+h.name(core.Root(f)), h.name(core.Root(f)) == "(*stateMachine).onSnapReq", h.pos(in), "snapshot responses must be built by the FSM goroutine's onSnapReq")
				}
			}
		})
	}
	h.C.Floor(rule+" (fsmSnapResp constructions)", n, 1)
	want := map[string]string{"index": "stateMachine.index", "term": "stateMachine.term"}
	seen := 0
	core.Instrs(fn, func(in ssa.Instruction) {
		st, ok := in.(*ssa.Store)
		if !ok {
			return
		}
		// a field of a response value, whether built as a literal or field by field
		fa, isFA := st.Addr.(*ssa.FieldAddr)
		if !isFA {
			return
		}
		pt, isPtr := fa.X.Type().Underlying().(*types.Pointer)
		if !isPtr || !types.Identical(pt.Elem(), resp) {
			return
		}
		fname := fieldName(fa)
		if w, ok := want[fname]; ok {
			seen++
			v := fi.Sym(st.Val).String()
			h.C.Check(rule+" label-from-applied-state", "(*stateMachine).onSnapReq fsmSnapResp."+fname, v == w, h.pos(st), "snapshot "+fname+" must be the state machine's applied "+fname+"; found "+v)
		}
		if fname == "state" {
			v := fi.Sym(st.Val).String()
			h.C.Check(rule+" state-from-snapshot-call", "(*stateMachine).onSnapReq fsmSnapResp.state", v == "invoke:Snapshot(stateMachine.FSM)#0", h.pos(st), "snapshot state must come from FSM.Snapshot() of the same activation; found "+v)
		}
	})
	h.C.Floor(rule+" (label stores)", seen, 2)
}

// fieldsWritten: some field of the struct cell is assigned individually (the
// cell is being built, not just holding a copy).
func fieldsWritten(a *ssa.Alloc) bool {
	for _, r := range *a.Referrers() {
		if fa, ok := r.(*ssa.FieldAddr); ok {
			for _, rr := range *fa.Referrers() {
				if st, ok := rr.(*ssa.Store); ok && st.Addr == ssa.Value(fa) {
					return true
				}
			}
		}
	}
	return false
}
