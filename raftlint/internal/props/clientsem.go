package props

import (
	"fmt"
	"go/types"
	"strings"

	"golang.org/x/tools/go/ssa"

	"raftlint/internal/core"
)

// Client-visible semantics (C07, C16.2).

func (h H) errorIface() *types.Interface {
	return types.Universe.Lookup("error").Type().Underlying().(*types.Interface)
}

// successOnlyFromFSM (C07.1): replies to client entries outside stateMachine methods carry errors.
func (h H) successOnlyFromFSM(rule string) {
	reply := h.fn("raft:(*task).reply")
	ne := h.P.Named("raft:newEntry")
	n, nFSM := 0, 0
	for _, s := range h.P.Callers(reply) {
		ci := s.Instr.(ssa.CallInstruction)
		recv := ci.Common().Args[0]
		// receiver is X.task with X of type *newEntry ?
		isNE := false
		if u, ok := recv.(*ssa.UnOp); ok {
			if fa, ok := u.X.(*ssa.FieldAddr); ok {
				if pt, ok := fa.X.Type().Underlying().(*types.Pointer); ok && types.Identical(pt.Elem(), ne) {
					isNE = true
				}
			}
		}
		if !isNE {
			continue
		}
		root := h.name(core.Root(s.Fn))
		if strings.HasPrefix(root, "(*stateMachine).") {
			nFSM++
			continue
		}
		n++
		arg := ci.Common().Args[1]
		if chg, ok := arg.(*ssa.ChangeInterface); ok {
			arg = chg.X
		}
		isErr := false
		var at types.Type
		if mi, ok := arg.(*ssa.MakeInterface); ok {
			at = mi.X.Type()
		} else {
			at = arg.Type()
		}
		if types.Implements(at, h.errorIface()) {
			isErr = true
		}
		if ph, ok := arg.(*ssa.Phi); ok {
			isErr = true
			for _, e := range ph.Edges {
				t := e.Type()
				if mi, ok := e.(*ssa.MakeInterface); ok {
					t = mi.X.Type()
				}
				if c, ok := e.(*ssa.Const); ok && c.IsNil() {
					isErr = false
				}
				if !types.Implements(t, h.errorIface()) {
					isErr = false
				}
			}
		}
		if c, ok := arg.(*ssa.Const); ok && c.IsNil() {
			isErr = false
		}
		h.C.Check(rule, "reply to client entry in "+root, isErr, h.pos(s.Instr), "a client entry is answered with a non-error result outside the FSM goroutine (success may only be reported after the entry was applied); argument type "+at.String())
	}
	h.C.Floor(rule+" (non-FSM replies to client entries)", n, 5)
	h.C.Floor(rule+" (FSM replies to client entries)", nFSM, 2)
}

// rejectOrEnqueue (C07.2, C16.2): per iteration of leader.storeEntry exactly one
// of {reply} and {enqueue (+append for log entries)} happens; enqueue only when
// no transfer is in progress and the leader is a voter; positions are assigned
// from the current last index.
func (h H) rejectOrEnqueue(rule string) {
	fn := h.fn("raft:(*leader).storeEntry")
	sim := h.simAll()
	sim.MaxPaths = 20000
	// see through helpers that were handed the entry being processed (a
	// rejection chain extracted into its own function, say)
	sim.InlineDeep = func(callee *ssa.Function) bool {
		for _, p := range callee.Params {
			if strings.HasSuffix(p.Type().String(), ".newEntry") {
				return true
			}
		}
		return false
	}
	ts := sim.Run(fn)
	nLink, nRej := 0, 0
	for _, t := range ts {
		if t.Exit != "truncated" {
			continue // only complete first iterations
		}
		key := "(*leader).storeEntry iteration[" + t.Describe() + "]"
		if t.ExitPos == "" {
			t.ExitPos = h.fpos(fn)
		}
		replies, links, appends := 0, 0, 0
		var appendEv, idxEv, termEv *core.Event
		var replyArg string
		for i := range t.Events {
			e := &t.Events[i]
			switch {
			case e.Callee == "(*task).reply" && e.Args[0] == "newEntry.task":
				replies++
				replyArg = e.Args[1]
			case e.Callee == "store" && (e.Args[0] == "leader.neTail" || e.Args[0] == "leader.neHead") && e.Args[1] == "newEntry":
				if e.Args[0] == "leader.neTail" {
					links++
				}
			case e.Callee == "(*storage).appendEntry":
				appends++
				appendEv = e
			case e.Callee == "store" && e.Args[0] == "newEntry.entry.index":
				idxEv = e
			case e.Callee == "store" && e.Args[0] == "newEntry.entry.term":
				termEv = e
			}
		}
		if !h.C.Check(rule+" exactly-one-outcome", key, replies+links == 1, t.ExitPos, fmt.Sprintf("one loop iteration replies %d times and enqueues %d times (must be exactly one of them)", replies, links)) {
			continue
		}
		if replies == 1 {
			nRej++
			okErr := strings.HasPrefix(replyArg, "InProgressError(")
			h.C.Check(rule+" reject-is-definitive", key, appends == 0 && okErr, t.ExitPos, "a rejected entry must not be appended and must be answered with InProgressError; reply="+replyArg)
			continue
		}
		nLink++
		c1 := t.Entails("leader.transfer.timer.active", "!=", "true")
		c2 := t.Entails("leader.node.Voter", "==", "true")
		h.C.Check(rule+" accept-only-when-allowed", key, c1 && c2, t.ExitPos, fmt.Sprintf("an entry is accepted although a leadership transfer may be in progress (%v) or the leader is being demoted/removed (%v)", !c1, !c2))
		okIdx := idxEv != nil && idxEv.Args[1] == "(leader.Raft.storage.lastLogIndex + 1)" && termEv != nil && termEv.Args[1] == "leader.Raft.storage.term"
		h.C.Check(rule+" position-assigned", key, okIdx, t.ExitPos, "an accepted entry must get index lastLogIndex+1 and the leader's term")
		if appends > 0 {
			okApp := appends == 1 && appendEv.Args[1] == "newEntry.entry"
			isLog := false
			for _, e := range t.Events {
				if e.Callee == "(*entry).isLogEntry" && len(e.Results) == 1 && t.EntailsAt(*appendEv, e.Results[0], "==", "true") {
					isLog = true
				}
			}
			h.C.Check(rule+" append-log-entries-only", key, okApp && isLog, t.ExitPos, "only log entries (update/nop/config) may be appended, once")
		}
	}
	// the position is computed from the last index as it is in that iteration (not a copy taken before the loop)
	fi := h.P.Info(fn)
	for _, st := range h.storesIn(fn, "raft:entry.index") {
		ok, why := fi.ValueFresh(storeVal(st.Instr), st.Instr)
		h.C.Check(rule+" position-fresh", "(*leader).storeEntry store entry.index", ok, h.pos(st.Instr), "the index given to an accepted entry is computed from a stale last index: "+why)
	}
	h.C.Floor(rule+" (accepting iterations)", nLink, 2)
	h.C.Floor(rule+" (rejecting iterations)", nRej, 3)
	h.isLogEntrySummaries(rule)
}

// isLogEntrySummaries: reads/barriers are not log entries; updates, no-ops and configurations are.
func (h H) isLogEntrySummaries(rule string) {
	// isLogEntry: reads and barriers are not log entries
	ile := h.fn("raft:(*entry).isLogEntry")
	sums, uns, ok := h.simAll().TrueSummary(ile)
	if !ok {
		h.C.Undecided(rule+" isLogEntry", "(*entry).isLogEntry", h.fpos(ile), "cannot summarise")
	}
	// and every false result excludes the entry types that must be logged
	for _, t := range h.simAll().Run(ile) {
		if t.Exit != "return" || len(t.Ret) != 1 || t.Ret[0] != "false" {
			continue
		}
		good := true
		for _, c := range []string{"raft:entryUpdate", "raft:entryConfig", "raft:entryNop"} {
			if !t.Entails("entry.typ", "!=", h.constStr(c)) {
				good = false
			}
		}
		h.C.Check(rule+" isLogEntry", "(*entry).isLogEntry false-path["+t.Describe()+"]", good, t.ExitPos, "updates, no-ops and configurations must be log entries")
	}
	for i, f := range sums {
		good := true
		for _, c := range []string{"raft:entryRead", "raft:entryDirtyRead", "raft:entryBarrier"} {
			if !core.Entails(f, core.Rel{A: "entry.typ", Op: "!=", B: h.constStr(c)}, uns) {
				good = false
			}
		}
		h.C.Check(rule+" isLogEntry", fmt.Sprintf("(*entry).isLogEntry true-path#%d", i+1), good, h.fpos(ile), "reads and barriers must not be log entries")
	}
}

// lostFlagDiscipline (C07.3): notLeaderError(_, true) only where entries may already be in the log.
func (h H) lostFlagDiscipline(rule string) {
	nle := h.fn("raft:notLeaderError")
	nT, nF := 0, 0
	for _, s := range h.P.Callers(nle) {
		arg := h.argStr(s.Instr.(ssa.CallInstruction), 1)
		root := h.name(core.Root(s.Fn))
		switch arg {
		case "true":
			nT++
			h.C.Check(rule, "notLeaderError(lost=true) in "+root, root == "(*leader).release", h.pos(s.Instr), "Lost=true may only be reported when leadership is released with entries pending")
		case "false":
			nF++
			h.C.Check(rule, "notLeaderError(lost=false) in "+root, root != "(*leader).release", h.pos(s.Instr), "entries that may already be appended must be failed with Lost=true")
		default:
			h.C.Check(rule, "notLeaderError(lost=?) in "+root, false, h.pos(s.Instr), "lost flag is not a constant: "+arg)
		}
	}
	h.C.Floor(rule+" (lost=true sites)", nT, 1)
	h.C.Floor(rule+" (lost=false sites)", nF, 3)
	// NotLeaderError{Lost: lost}
	fi := h.P.Info(nle)
	okLost := false
	core.Instrs(nle, func(in ssa.Instruction) {
		if st, ok := in.(*ssa.Store); ok && strings.HasSuffix(fi.Sym(st.Addr).String(), ".Lost") {
			okLost = fi.Sym(st.Val).String() == "$1"
		}
	})
	h.C.Check(rule+" constructor", "notLeaderError", okLost, h.fpos(nle), "notLeaderError must store its lost argument")
	// ... on every path: each returned value has its own Lost := lost store before the return
	for k, r := range core.Returns(nle) {
		v := r.Results[0]
		if ld, ok := v.(*ssa.UnOp); ok {
			v = ld.X
		}
		okRet := false
		if al, ok := v.(*ssa.Alloc); ok {
			for _, ref := range *al.Referrers() {
				fa, ok := ref.(*ssa.FieldAddr)
				if !ok || !strings.HasSuffix(fi.Sym(fa).String(), ".Lost") {
					continue
				}
				for _, rr := range *fa.Referrers() {
					if st, ok := rr.(*ssa.Store); ok && st.Addr == ssa.Value(fa) && fi.Sym(st.Val).String() == "$1" && core.Dominates(st, r) {
						okRet = true
					}
				}
			}
		}
		h.C.Check(rule+" constructor", fmt.Sprintf("notLeaderError return#%d", k+1), okRet, h.pos(r), "a NotLeaderError is returned whose Lost flag is not the caller's lost argument (the zero value false means 'definitely not applied')")
	}
	// leader.release answers every pending entry; with ErrServerClosed iff closed
	rel := h.fn("raft:(*leader).release")
	rfi := h.P.Info(rel)
	reply := h.fn("raft:(*task).reply")
	n := 0
	for _, c := range h.P.CallsTo(rel, reply) {
		a := rfi.Sym(c.Common().Args[1]).String()
		if strings.Contains(rfi.Sym(c.Common().Args[0]).String(), "neHead") {
			n++
			h.C.Check(rule+" release-reply", "(*leader).release pending-entry reply", (a == "phi(notLeaderError(leader.Raft, true), global:ErrServerClosed)" || a == "phi(global:ErrServerClosed, notLeaderError(leader.Raft, true))"), h.pos(c), "pending entries must be failed with NotLeaderError{Lost:true} or ErrServerClosed; found "+a)
		}
	}
	h.C.Floor(rule+" (pending-entry replies in release)", n, 1)
}

// nonLeaderRejects (C07.2): in stateLoop, storeEntry only when Leader; otherwise dirty reads go to the FSM, everything else is refused.
func (h H) nonLeaderRejects(rule string) {
	fn := h.fn("raft:(*Raft).stateLoop")
	_ = h.P.Info(fn)
	se := h.fn("raft:(*leader).storeEntry")
	leader := "State(" + h.P.Const("raft:Leader").Val().ExactString() + ")"
	for k, c := range h.P.CallsTo(fn, se) {
		h.gateFresh(rule+" store-only-as-leader", h.site(fn, se, k), c, core.MkAtom("Raft.state", "==", leader))
	}
	h.onlyCallers(rule+" who-may-call", "raft:(*leader).storeEntry", "(*Raft).stateLoop", "(*leader).init", "(*leader).doChangeConfig")
	dr := h.P.Named("raft:fsmDirtyRead")
	n := 0
	h.P.InstrsScope(fn, func(in ssa.Instruction) {
		if s, ok := in.(*ssa.Send); ok {
			v := s.X
			if mi, ok := v.(*ssa.MakeInterface); ok {
				v = mi.X
			}
			if types.Identical(v.Type(), dr) {
				n++
				r := h.P.Info(s.Parent()).MustCross(s, func(a core.Atom) bool {
					return a.Op == "==" && a.R == h.constStr("raft:entryDirtyRead") && strings.HasSuffix(a.L, ".entry.typ")
				})
				h.C.Check(rule+" only-dirty-reads-forwarded", "(*Raft).stateLoop send fsmDirtyRead", r.OK, h.pos(s), "a non-leader forwards something other than a dirty read to the state machine: "+r.Witness)
			}
		}
	})
	h.C.Floor(rule+" (dirty-read forwards)", n, 1)
	// the non-leader branch answers every entry of the batch: its receiver walks the .next chain
	reply := h.fn("raft:(*task).reply")
	for k, c := range h.P.CallsTo(fn, reply) {
		recv := h.P.Info(c.Parent()).Sym(c.Common().Args[0]).String()
		if c.Parent() != fn {
			// inside a new helper the batch is a parameter: $k or phi($k, ....next)
			if !strings.HasPrefix(recv, "phi(") && !strings.HasPrefix(recv, "$") && !strings.HasPrefix(recv, "newEntry") {
				continue
			}
		} else if !strings.HasPrefix(recv, "phi(select@") && !strings.HasPrefix(recv, "select@") {
			continue
		}
		h.C.Check(rule+" rejects-whole-batch", h.site(fn, reply, k), strings.Contains(recv, ".next)"), h.pos(c), "a non-leader answers only the head of a batch of client entries; receiver: "+recv)
	}
	// appendEntry is never called directly from stateLoop
	ae := h.fn("raft:(*storage).appendEntry")
	h.C.Check(rule+" no-direct-append", "(*Raft).stateLoop appendEntry", len(h.P.CallsTo(fn, ae)) == 0, h.fpos(fn), "stateLoop appends entries itself")
	h.onlyCallers(rule+" who-may-call", "raft:(*storage).appendEntry", "(*leader).storeEntry", "(*Raft).onAppendEntriesRequest", "(*storage).bootstrap")
}

// releaseEmptiesHolders: leader.release answers the holders and empties them,
// so that nothing queued under an earlier leadership survives into the next one.
func (h H) releaseEmptiesHolders(rule string) {
	rel := h.fn("raft:(*leader).release")
	fi := h.P.Info(rel)
	reply := h.fn("raft:(*task).reply")
	// last reply to a queued entry
	var lastReply ssa.Instruction
	for _, c := range h.P.CallsTo(rel, reply) {
		if strings.Contains(fi.Sym(c.Common().Args[0]).String(), "neHead") {
			lastReply = c
		}
	}
	for _, f := range []string{"raft:leader.neHead", "raft:leader.neTail", "raft:leader.waitStable"} {
		short := f[len("raft:"):]
		ok := false
		for _, s := range h.storesIn(rel, f) {
			if fi.Sym(storeVal(s.Instr)).String() != "nil" {
				continue
			}
			// on every path to the return
			ok = true
			for _, r := range core.Returns(rel) {
				if !fi.PrecededBy(r, func(in ssa.Instruction) bool { return in == s.Instr }).OK {
					ok = false
				}
			}
		}
		h.C.Check(rule, "(*leader).release clears "+short, ok, h.fpos(rel), "leader.release returns without resetting "+short+": entries answered now are handed to the state machine again when this node is re-elected")
	}
	h.C.Check(rule, "(*leader).release replies-before-clear", lastReply != nil, h.fpos(rel), "no reply to the queued entries found")
	// leader.init starts from an empty queue as well: neHead/neTail are written only by storeEntry/applyCommitted/release
	h.onlyWriters(rule+" who-may-write", "raft:leader.neHead", "(*leader).storeEntry", "(*leader).applyCommitted", "(*leader).release")
	h.onlyWriters(rule+" who-may-write", "raft:leader.neTail", "(*leader).storeEntry", "(*leader).applyCommitted", "(*leader).release")
}

// taskConstructors (C07.6): the public task constructors are the only place
// where the kind of a client request is chosen; everything downstream
// (isLogEntry, storeEntry, onApply) dispatches on entry.typ. A read built as
// a dirty read is answered without passing through the log, an update built as
// a read is never stored. The table below is the documented API.
func (h H) taskConstructors(rule string) {
	ft := h.fn("raft:fsmTask")
	want := []struct{ fn, typ, cmd, data string }{
		{"raft:UpdateFSM", "raft:entryUpdate", "nil", "$0"},
		{"raft:ReadFSM", "raft:entryRead", "$0", "nil"},
		{"raft:DirtyReadFSM", "raft:entryDirtyRead", "$0", "nil"},
		{"raft:BarrierFSM", "raft:entryBarrier", "nil", "nil"},
	}
	for _, w := range want {
		fn := h.fn(w.fn)
		fi := h.P.Info(fn)
		calls := h.P.CallsTo(fn, ft)
		rets := core.Returns(fn)
		ok := len(calls) == 1 && len(rets) == 1
		detail := "must return fsmTask(<its documented entry type>, cmd, data)"
		if ok {
			c := calls[0]
			typ := fi.Sym(c.Common().Args[0]).String()
			cmd := fi.Sym(c.Common().Args[1]).String()
			data := fi.Sym(c.Common().Args[2]).String()
			wantTyp := h.constStr(w.typ)
			ret, _ := rets[0].Results[0].(ssa.Value)
			same := false
			if mi, isMI := ret.(*ssa.MakeInterface); isMI {
				ret = mi.X
			}
			if cv, isCall := ret.(*ssa.Call); isCall && ssa.CallInstruction(cv) == c {
				same = true
			}
			ok = typ == wantTyp && cmd == w.cmd && data == w.data && same
			detail = fmt.Sprintf("found fsmTask(%s, %s, %s), returned=%v; want (%s, %s, %s)", typ, cmd, data, same, wantTyp, w.cmd, w.data)
		}
		h.C.Check(rule+" kind-table", h.name(fn), ok, h.fpos(fn), detail)
	}
	// fsmTask wires its parameters into the entry unchanged and gives every
	// request its own completion channel
	fi := h.P.Info(ft)
	got := map[string]string{}
	core.Instrs(ft, func(in ssa.Instruction) {
		if st, ok := in.(*ssa.Store); ok {
			got[fi.Sym(st.Addr).String()] = fi.Sym(st.Val).String()
		}
	})
	for k, v := range map[string]string{"new:entry#1.typ": "$0", "new:entry#1.data": "$2", "new:newEntry#1.cmd": "$1", "new:newEntry#1.entry": "new:entry#1", "new:newEntry#1.task": "newTask()"} {
		h.C.Check(rule+" wiring", "fsmTask "+k, got[k] == v, h.fpos(ft), fmt.Sprintf("fsmTask must set %s from %s; found %q", k, v, got[k]))
	}
	nt := h.fn("raft:newTask")
	nfi := h.P.Info(nt)
	fresh := false
	core.Instrs(nt, func(in ssa.Instruction) {
		if st, ok := in.(*ssa.Store); ok && nfi.Sym(st.Addr).String() == "new:task#1.done" {
			_, fresh = st.Val.(*ssa.MakeChan)
		}
	})
	h.C.Check(rule+" own-completion-channel", "newTask", fresh, h.fpos(nt), "every task needs its own done channel")
}
