package props

import (
	"fmt"
	"go/types"
	"sort"
	"strings"

	"golang.org/x/tools/go/ssa"

	"raftlint/internal/core"
)

// H bundles the context with short-hands used by the obligation tables.
type H struct {
	C *core.Ctx
	P *core.Program
}

func newH(c *core.Ctx) H { return H{C: c, P: c.P} }

func (h H) fn(spec string) *ssa.Function {
	f := h.P.Func(spec)
	h.C.Saw(h.P.FuncName(f))
	return f
}

func (h H) name(f *ssa.Function) string { return h.P.FuncName(f) }

func (h H) pos(in ssa.Instruction) string {
	if in == nil {
		return ""
	}
	return h.P.PosStr(in.Pos(), in.Parent())
}

func (h H) fpos(f *ssa.Function) string { return h.P.PosStr(f.Pos(), f) }

// callsDeep: call sites of callee inside fn and its closures, in source order.
func (h H) callsDeep(fn, callee *ssa.Function) []ssa.CallInstruction {
	out := h.P.CallsToDeep(fn, callee)
	sort.SliceStable(out, func(i, j int) bool { return out[i].Pos() < out[j].Pos() })
	return out
}

// site names a call site stably: "<fn> → <callee>#k".
func (h H) site(fn, callee *ssa.Function, k int) string {
	return fmt.Sprintf("%s → %s#%d", h.name(fn), h.name(callee), k+1)
}

func setEq(a, b []string) bool {
	if len(a) != len(b) {
		return false
	}
	for i := range a {
		if a[i] != b[i] {
			return false
		}
	}
	return true
}

func subset(a []string, allowed []string) (extra []string) {
	m := map[string]bool{}
	for _, x := range allowed {
		m[x] = true
	}
	for _, x := range a {
		if !m[x] {
			extra = append(extra, x)
		}
	}
	return
}

// onlyCallers: E1 who-may-call. Every call site of callee lies in one of the
// allowed root functions; each required function (allowed list) still calls it
// (instance floor); the function is never used as a value.
func (h H) onlyCallers(rule, calleeSpec string, allowed ...string) {
	callee := h.fn(calleeSpec)
	allowedSet := map[string]bool{}
	for _, a := range allowed {
		allowedSet[a] = true
	}
	n := 0
	for _, s := range h.P.Callers(callee) {
		n++
		// a site inside a helper no rule knows by name counts for the known
		// functions that (transitively) call that helper
		for _, root := range h.effectiveRoots(s.Fn) {
			h.C.Check(rule, fmt.Sprintf("call %s in %s", h.name(callee), root), allowedSet[root], h.pos(s.Instr),
				fmt.Sprintf("%s may only be called from {%s}; call found in %s", h.name(callee), strings.Join(allowed, ", "), h.name(s.Fn)))
		}
	}
	for _, s := range h.P.FuncValueUses(callee) {
		h.C.Check(rule, fmt.Sprintf("value-use %s in %s", h.name(callee), h.name(core.Root(s.Fn))), false, h.pos(s.Instr),
			fmt.Sprintf("%s escapes as a function value; who-may-call cannot be established", h.name(callee)))
	}
	h.C.Floor(rule+" ("+h.name(callee)+")", n, 1)
}

// onlyWriters: E1 who-may-write for a struct field.
func (h H) onlyWriters(rule, fieldSpec string, allowed ...string) []core.Site {
	f := h.P.Field(fieldSpec)
	allowedSet := map[string]bool{}
	for _, a := range allowed {
		allowedSet[a] = true
	}
	sites := h.P.StoresTo(f)
	short := fieldSpec[strings.Index(fieldSpec, ":")+1:]
	for _, s := range sites {
		for _, root := range h.effectiveRoots(s.Fn) {
			h.C.Check(rule, fmt.Sprintf("write %s in %s", short, root), allowedSet[root], h.pos(s.Instr),
				fmt.Sprintf("field %s may only be written in {%s}; write found in %s", short, strings.Join(allowed, ", "), h.name(s.Fn)))
		}
	}
	h.C.Floor(rule+" ("+short+")", len(sites), 1)
	return sites
}

// gate: every path from the entry of target's function to target crosses a
// *stable* edge implying `want` (the condition's inputs are fresh at the branch
// and nothing it reads is written between the branch and the target).
func (h H) gate(rule, construct string, target ssa.Instruction, want core.Atom) bool {
	return h.gateAny(rule, construct, target, want)
}

// gateAny: like gate but any of the alternative atoms may serve as the guard on a path.
func (h H) gateAny(rule, construct string, target ssa.Instruction, wants ...core.Atom) bool {
	return h.gateMode("strict", rule, construct, target, wants...)
}

// gateFresh: the guard is on every path and read fresh values when it was
// evaluated; later writes by the function itself are not held against it.
func (h H) gateFresh(rule, construct string, target ssa.Instruction, wants ...core.Atom) bool {
	return h.gateMode("fresh", rule, construct, target, wants...)
}

func (h H) gateMode(mode, rule, construct string, target ssa.Instruction, wants ...core.Atom) bool {
	fi := h.P.Info(target.Parent())
	pass := func(a core.Atom) bool {
		for _, w := range wants {
			if a.Implies(w) {
				return true
			}
		}
		return false
	}
	var ws []string
	for _, w := range wants {
		ws = append(ws, w.String())
	}
	var unstable []string
	r := fi.MustCrossEdges(target, pass, func(e core.Edge) bool {
		var ok bool
		var why string
		if mode == "fresh" {
			ok, why = fi.EdgeFresh(e)
		} else {
			ok, why = fi.EdgeStable(e, target)
		}
		if !ok {
			unstable = append(unstable, why)
		}
		return ok
	})
	if r.OK {
		h.C.Check(rule, construct, true, h.pos(target), "guard ["+strings.Join(ws, " | ")+"] on every path")
		return true
	}
	// the site lies in a helper no rule knows by name (extracted by a
	// refactoring): the guard may as well lie on the paths to its call sites
	if h.P.IsNew(target.Parent()) {
		if lr := h.crossDeep(target, pass, 0); lr.OK {
			h.C.Check(rule, construct, true, h.pos(target), "guard ["+strings.Join(ws, " | ")+"] on every path (through the callers of "+h.name(core.Root(target.Parent()))+")")
			return true
		}
	}
	loose := fi.MustCross(target, pass)
	if loose.OK && len(unstable) > 0 {
		h.C.Check(rule, construct, false, h.pos(target), "guard ["+strings.Join(ws, " | ")+"] is tested but not stable: "+strings.Join(unstable, "; "))
		return false
	}
	h.C.Check(rule, construct, false, h.pos(target), fmt.Sprintf("a path reaches this site without passing the guard [%s]: %s", strings.Join(ws, " | "), core.Short(r.Witness, 400)))
	return false
}

// gateLoose: the guard is on every path; stability of what it read is not required
// (used where the guard validates an immutable request).
func (h H) gateLoose(rule, construct string, target ssa.Instruction, want core.Atom) bool {
	fi := h.P.Info(target.Parent())
	r := fi.MustCrossAtom(target, want)
	if !r.OK && h.P.IsNew(target.Parent()) {
		if lr := h.crossDeep(target, func(a core.Atom) bool { return a.Implies(want) }, 0); lr.OK {
			r = lr
		}
	}
	return h.C.Check(rule, construct, r.OK, h.pos(target), fmt.Sprintf("a path reaches this site without passing the guard [%s]: %s", want, core.Short(r.Witness, 400)))
}

// rangeVar: the local that receives the value of `for _, n := range <expr>`.
func (h H) rangeVar(fn *ssa.Function, rangeExpr string) string {
	return h.holderOf(fn, "each("+rangeExpr+").val")
}

// holderOf tells under which name reads of the local variable that receives
// the value `val` appear in canonical forms: the value's own form when the
// local is a plain single-assignment copy (core.copyLocal), else local:<name>.
// When no local holds the value, the value's form itself.
func (h H) holderOf(fn *ssa.Function, val string) string {
	fi := h.P.Info(fn)
	out := val
	core.Instrs(fn, func(in ssa.Instruction) {
		st, ok := in.(*ssa.Store)
		if !ok {
			return
		}
		al, isAlloc := st.Addr.(*ssa.Alloc)
		if !isAlloc {
			return // a copy stored elsewhere (varargs of a trace call, ...)
		}
		if v := fi.Sym(st.Val).String(); v != val {
			// the store's own value form may already be expressed through another resolved local
			return
		}
		name := "local:" + al.Comment
		for _, r := range *al.Referrers() {
			switch u := r.(type) {
			case *ssa.UnOp:
				name = fi.Sym(u).String()
			case *ssa.FieldAddr:
				if e := fi.Sym(u); e.Op == "fld" && len(e.Args) == 1 {
					name = e.Args[0].String()
				}
			}
		}
		out = name
	})
	return out
}

// argStr renders the i-th argument (including receiver for methods) of a call.
func (h H) argStr(ci ssa.CallInstruction, i int) string {
	fi := h.P.Info(ci.Parent())
	args := ci.Common().Args
	if i >= len(args) {
		return "<missing>"
	}
	return fi.Sym(args[i]).String()
}

func (h H) arg(ci ssa.CallInstruction, i int) *core.Expr {
	fi := h.P.Info(ci.Parent())
	args := ci.Common().Args
	if i >= len(args) {
		return nil
	}
	return fi.Sym(args[i])
}

// dominatedByCall: target is dominated by a call to callee (in the same function).
func (h H) dominatedByCall(rule, construct string, target ssa.Instruction, callee *ssa.Function) bool {
	fi := h.P.Info(target.Parent())
	r := fi.PrecededBy(target, func(in ssa.Instruction) bool {
		if _, isDefer := in.(*ssa.Defer); isDefer {
			return false
		}
		if _, isGo := in.(*ssa.Go); isGo {
			return false
		}
		return h.P.IsCallTo(in, callee)
	})
	return h.C.Check(rule, construct, r.OK, h.pos(target), fmt.Sprintf("must be preceded on every path by a call to %s; %s", h.name(callee), r.Witness))
}

// followedByCall: every non-panicking path from `from` to a return passes a call to callee.
func (h H) followedByCall(rule, construct string, from ssa.Instruction, callee *ssa.Function) bool {
	fi := h.P.Info(from.Parent())
	r := fi.AlwaysFollowedBy(from, func(in ssa.Instruction) bool { return h.P.IsCallTo(in, callee) })
	return h.C.Check(rule, construct, r.OK, h.pos(from), fmt.Sprintf("must be followed on every non-panicking path by a call to %s; %s", h.name(callee), r.Witness))
}

// constStr renders a named constant the way Expr does: "rpcResult(1)".
func (h H) constStr(spec string) string {
	c := h.P.Const(spec)
	s := c.Val().ExactString()
	if n, ok := c.Type().(*types.Named); ok {
		return n.Obj().Name() + "(" + s + ")"
	}
	return s
}

// retVal resolves the i-th result of a return through defer-spilled named
// results: a load of an Alloc whose last store in the same block gives the value.
func (h H) retVal(ret *ssa.Return, i int) *core.Expr {
	fi := h.P.Info(ret.Parent())
	v := ret.Results[i]
	if u, ok := v.(*ssa.UnOp); ok {
		if a, ok := u.X.(*ssa.Alloc); ok {
			b := ret.Block()
			for k := len(b.Instrs) - 1; k >= 0; k-- {
				if st, ok := b.Instrs[k].(*ssa.Store); ok && st.Addr == a {
					return fi.Sym(st.Val)
				}
			}
		}
	}
	return fi.Sym(v)
}

// storeInstrsTo: stores to a field inside one function (and closures).
func (h H) storesIn(fn *ssa.Function, fieldSpec string) []core.Site {
	f := h.P.Field(fieldSpec)
	var out []core.Site
	for _, s := range h.P.StoresTo(f) {
		if core.Root(s.Fn) == fn {
			out = append(out, s)
		}
	}
	return out
}

func storeVal(in ssa.Instruction) ssa.Value {
	switch x := in.(type) {
	case *ssa.Store:
		return x.Val
	case *ssa.MapUpdate:
		return x.Value
	}
	return nil
}

// simDefault: a Sim that records every call and store and treats assert as assume.
func (h H) simAll() *core.Sim {
	return &core.Sim{P: h.P, Record: map[string]bool{"*": true}, RecordStores: true, Assume: map[string]bool{"assert": true}}
}

// assertIdiom: the assert helper really panics when its argument is false
// (so that assert(c) may be treated as a guard equivalent to `if !c { panic }`).
func (h H) assertIdiom(rule string) {
	fn := h.fn("raft:assert")
	fi := h.P.Info(fn)
	ok := true
	n := 0
	for _, r := range core.Returns(fn) {
		n++
		res := fi.MustCross(r, func(a core.Atom) bool { return a.Op == "true" && a.R == "" && a.L == "$0" })
		if !res.OK {
			ok = false
		}
	}
	h.C.Check(rule, "assert", ok && n > 0, h.fpos(fn), "assert(b) must not return when b is false (it is used as a guard by this checker)")
}

func evIndex(t *core.Trace, pred func(e core.Event) bool) int {
	for i, e := range t.Events {
		if pred(e) {
			return i
		}
	}
	return -1
}

func isStoreTo(key string) func(core.Event) bool {
	return func(e core.Event) bool { return e.Callee == "store" && e.Args[0] == key }
}

func isCall(name string) func(core.Event) bool {
	return func(e core.Event) bool { return e.Callee == name }
}

func namedOfType(t types.Type) *types.Named {
	if pt, ok := t.(*types.Pointer); ok {
		t = pt.Elem()
	}
	n, _ := t.(*types.Named)
	return n
}

// snapIndexForms: the ways the latest snapshot index may be read (bare field —
// which the lockset rule of C15 rejects outside constructors — or the locked accessors).
func snapIndexForms(prefix string) []string {
	return []string{prefix + ".snaps.index", "(*snapshots).latestIndex(" + prefix + ".snaps)", "(*snapshots).latest(" + prefix + ".snaps)#0"}
}

func isSnapIndexExpr(s, prefix string) bool {
	for _, f := range snapIndexForms(prefix) {
		if s == f {
			return true
		}
	}
	return false
}

// gateSnap: gate on `lhs op <latest snapshot index>` in any of its forms.
func (h H) gateSnap(rule, construct string, target ssa.Instruction, lhs, op, prefix string) bool {
	var atoms []core.Atom
	for _, f := range snapIndexForms(prefix) {
		atoms = append(atoms, core.MkAtom(lhs, op, f))
	}
	return h.gateAny(rule, construct, target, atoms...)
}

// expandLocals rewrites "local:name" in a canonical form to the canonical form
// of the one value ever stored into that local of fn (a value copy such as
// `latest := l.configs.Latest`). Used by rules that ask where a value was
// derived from; rules about freshness keep the unexpanded form.
func (h H) expandLocals(fn *ssa.Function, s string) string {
	fi := h.P.Info(fn)
	for i := 0; i < 3 && strings.Contains(s, "local:"); i++ {
		changed := false
		for _, b := range fn.Blocks {
			for _, in := range b.Instrs {
				al, ok := in.(*ssa.Alloc)
				if !ok {
					continue
				}
				name := fi.Sym(al).String()
				if !strings.HasPrefix(name, "local:") || !strings.Contains(s, name) {
					continue
				}
				var stores []*ssa.Store
				other := false
				for _, r := range *al.Referrers() {
					switch u := r.(type) {
					case *ssa.Store:
						if u.Addr == ssa.Value(al) {
							stores = append(stores, u)
						} else {
							other = true // address stored somewhere
						}
					case *ssa.FieldAddr:
						for _, rr := range *u.Referrers() {
							if st, isSt := rr.(*ssa.Store); isSt && st.Addr == ssa.Value(u) {
								other = true // field written
							}
						}
					}
				}
				if len(stores) != 1 || other {
					continue
				}
				val := fi.Sym(stores[0].Val).String()
				if strings.Contains(val, name) {
					continue
				}
				// replace whole-token occurrences
				var out strings.Builder
				for j := 0; j < len(s); {
					if strings.HasPrefix(s[j:], name) {
						end := j + len(name)
						if end == len(s) || !isIdentChar(s[end]) {
							out.WriteString(val)
							j = end
							changed = true
							continue
						}
					}
					out.WriteByte(s[j])
					j++
				}
				s = out.String()
			}
		}
		if !changed {
			break
		}
	}
	return s
}

func isIdentChar(c byte) bool {
	return c == '_' || c >= '0' && c <= '9' || c >= 'a' && c <= 'z' || c >= 'A' && c <= 'Z'
}

// crossDeep: every path to target crosses an edge satisfying pass — inside
// target's function, or, when that function is a new helper (core.IsNew), on
// every path to each of its call sites (recursively, bounded).
func (h H) crossDeep(target ssa.Instruction, pass func(core.Atom) bool, depth int) core.GateResult {
	fn := target.Parent()
	fi := h.P.Info(fn)
	r := fi.MustCross(target, pass)
	if r.OK || depth > 3 || !h.P.IsNew(fn) {
		return r
	}
	// a closure of a new helper: lift to the site that creates/calls it is not modelled; only top-level helpers
	if fn.Parent() != nil {
		return r
	}
	callers := h.P.Callers(fn)
	if len(callers) == 0 {
		return r
	}
	for _, s := range callers {
		if cr := h.crossDeep(s.Instr, pass, depth+1); !cr.OK {
			return core.GateResult{OK: false, Witness: r.Witness + " ; and via caller " + h.pos(s.Instr) + ": " + cr.Witness}
		}
	}
	return core.GateResult{OK: true}
}

// source is one of the values an expression may take, with the position at
// which that choice is made (the end of the predecessor block for a phi edge,
// the return statement for a value coming out of a new helper).
type source struct {
	Val  ssa.Value
	At   ssa.Instruction
	Edge *core.Edge // for a phi edge: the CFG edge on which the value is chosen
}

// sourceGated: the choice of this source implies a condition satisfying pass:
// every path to the point of choice crosses such an edge, or the choosing edge
// itself carries it.
func (h H) sourceGated(src source, pass func(core.Atom) bool) core.GateResult {
	fi := h.P.Info(src.At.Parent())
	if src.Edge != nil {
		if a, ok := fi.EdgeAtom(*src.Edge); ok && pass(a) {
			return core.GateResult{OK: true}
		}
	}
	return fi.MustCross(src.At, pass)
}

// valueSources resolves v (used at `at`) into the values it can stand for,
// looking through phis, interface conversions and calls of helpers no rule
// knows by name (core.IsNew): `x := cond ? a : b` written as an if/else, as a
// switch, or moved into a function returns the same sources.
func (h H) valueSources(v ssa.Value, at ssa.Instruction) []source {
	var out []source
	seen := map[ssa.Value]bool{}
	var rec func(v ssa.Value, at ssa.Instruction, edge *core.Edge, depth int)
	rec = func(v ssa.Value, at ssa.Instruction, edge *core.Edge, depth int) {
		if depth > 6 || seen[v] {
			return
		}
		switch x := v.(type) {
		case *ssa.Phi:
			seen[v] = true
			for i, e := range x.Edges {
				pred := x.Block().Preds[i]
				var ed *core.Edge
				for si, sc := range pred.Succs {
					if sc == x.Block() && len(pred.Succs) == 2 {
						ed = &core.Edge{From: pred, Succ: si}
					}
				}
				rec(e, pred.Instrs[len(pred.Instrs)-1], ed, depth+1)
			}
			return
		case *ssa.MakeInterface:
			if _, isConst := x.X.(*ssa.Const); !isConst {
				rec(x.X, at, edge, depth+1)
				return
			}
		case *ssa.ChangeInterface:
			rec(x.X, at, edge, depth+1)
			return
		case *ssa.Call:
			if callee := x.Common().StaticCallee(); callee != nil && h.P.IsNew(callee) && callee.Blocks != nil && callee.Signature.Results().Len() == 1 {
				seen[v] = true
				for _, r := range core.Returns(callee) {
					rec(retOperand(r, 0), r, nil, depth+1)
				}
				return
			}
		}
		out = append(out, source{v, at, edge})
	}
	rec(v, at, nil, 0)
	return out
}

// effectiveRoots names the known top-level functions on whose behalf code in
// fn runs: fn's own root when the rules know it, otherwise (a helper extracted
// by a refactoring, core.IsNew) the known functions that call it, transitively.
func (h H) effectiveRoots(fn *ssa.Function) []string {
	seen := map[*ssa.Function]bool{}
	out := map[string]bool{}
	var rec func(f *ssa.Function, depth int)
	rec = func(f *ssa.Function, depth int) {
		r := core.Root(f)
		if seen[r] || depth > 5 {
			return
		}
		seen[r] = true
		if !h.P.IsNew(r) {
			out[h.name(r)] = true
			return
		}
		callers := h.P.Callers(r)
		if len(callers) == 0 {
			out[h.name(r)] = true // unreachable new helper: reported under its own name
			return
		}
		for _, s := range callers {
			rec(s.Fn, depth+1)
		}
	}
	rec(fn, 0)
	var names []string
	for n := range out {
		names = append(names, n)
	}
	sort.Strings(names)
	return names
}

// valueAt is one of the values an expression can take, with the place where
// that value was chosen (the end of the block it flows in from).
type valueAt struct {
	V  ssa.Value
	At ssa.Instruction
}

// leavesAt unfolds phis: the values v can have when read at `at`, each with
// the instruction that ends the path on which it was chosen; operands whose
// path cannot reach the reader are dropped (core.LivePhiEdges).
func (h H) leavesAt(v ssa.Value, at ssa.Instruction, depth int) []valueAt {
	if ph, isPhi := v.(*ssa.Phi); isPhi && depth < 5 {
		var out []valueAt
		live := h.P.LivePhiEdges(ph, at)
		for i, e := range ph.Edges {
			if live != nil && !live[i] {
				continue
			}
			pred := ph.Block().Preds[i]
			out = append(out, h.leavesAt(e, pred.Instrs[len(pred.Instrs)-1], depth+1)...)
		}
		return out
	}
	return []valueAt{{v, at}}
}
