package props

import "raftlint/internal/core"

func init() {
	register(&Property{ID: "C16", Run: runC16, Assumptions: commonAssumptions,
		Explanation: "Structural necessary conditions of a safe, meaningful leadership transfer: every assignment of the transfer target is behind voter, not-self, reachable and matchIndex == lastLogIndex tests for that same node, and timeout-now goes only to the chosen target; validateTransfer's nil paths imply no transfer in progress, more than one voter and an eligible target; entries and membership actions are rejected while a transfer is in progress; success (nil) is reported only by leader.release on the edge term > transfer.term, every other reply is a non-nil error; the transfer flag of vote requests originates only from a voter-gated timeout-now request; replyTransfer re-evaluates membership actions after answering. What happens under message loss and 'no two leaders' over schedules are not decided."})
}

func runC16(c *core.Ctx) {
	h := newH(c)
	h.assertIdiom("C16.idiom assert-panics")
	c.Clause("C16.1 target eligibility and request validation")
	h.transferTargetEligibility("C16.1 target")
	c.Clause("C16.2 nothing new is accepted while in progress")
	h.rejectOrEnqueue("C16.2a reject-while-transfer")
	h.oneActionPerEntry("C16.2b no-membership-action")
	c.Clause("C16.3 success means the term advanced")
	h.transferReplyMeaning("C16.3 reply-meaning")
	h.transferTimeoutAnswers("C16.3b transfer-timeout-answers")
	c.Clause("C16.4 permission to disrupt originates only from a timeout-now")
	h.disruptPermission("C16.4 disrupt-permission")
	h.leaderYields("C16.4b timeout-now-voter-gated")
	h.timeoutNowGrantsPermission("C16.5 timeout-now-permission")
	// …and ends with the election it was given for
	h.campaignProgress("C16.5b campaign-progress")
}
