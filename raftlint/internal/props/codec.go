package props

import (
	"fmt"
	"go/ast"
	"go/constant"
	"go/token"
	"go/types"
	"sort"
	"strings"

	"golang.org/x/tools/go/ssa"

	"raftlint/internal/core"
)

// E8 — codec grammar symmetry (C18).
//
// For every encode/decode pair the wire grammar is derived from the syntax
// tree: a sequence of primitive operations (u8,u32,u64,bool,bytes,string),
// nested codecs, conditionals keyed on a transferred field and count-prefixed
// loops, each primitive bound to the receiver field it carries. Encoder and
// decoder grammars must be identical.

type tok struct {
	Kind  string // u8 u32 u64 bool bytes string | nested:<T> | alt | loop | raw
	Field string // receiver field carried (or "" / "len(<f>)")
	Cond  string // for alt: the discriminating expression (normalised)
	Then  []tok
	Else  []tok
	Pos   token.Pos
}

func (t tok) String() string {
	switch t.Kind {
	case "alt":
		return "alt[" + t.Cond + "]{" + toksString(t.Then) + "}else{" + toksString(t.Else) + "}"
	case "loop":
		return "loop{" + toksString(t.Then) + "}"
	}
	if t.Field != "" {
		return t.Kind + ":" + t.Field
	}
	return t.Kind
}

func toksString(ts []tok) string {
	var s []string
	for _, t := range ts {
		s = append(s, t.String())
	}
	return strings.Join(s, " ")
}

var primWriters = map[string]string{"writeUint64": "u64", "writeUint32": "u32", "writeUint8": "u8", "writeBool": "bool", "writeBytes": "bytes", "writeString": "string"}
var primReaders = map[string]string{"readUint64": "u64", "readUint32": "u32", "readUint8": "u8", "readBool": "bool", "readBytes": "bytes", "readString": "string"}

type grammarCtx struct {
	h           H
	info        *types.Info
	fd          *ast.FuncDecl
	enc         bool
	recv        string            // receiver identifier
	stream      string            // name of the io.Writer / io.Reader parameter (or expression like conn.bufw)
	locals      map[string]string // local -> receiver field it stands for
	errs        []string          // error-discipline problems found
	streamAlias map[string]bool
	nCalls      int
}

func exprStr(e ast.Expr) string {
	return types.ExprString(e)
}

// stripConv removes type conversions and parentheses.
func (g *grammarCtx) stripConv(e ast.Expr) ast.Expr {
	for {
		switch x := e.(type) {
		case *ast.ParenExpr:
			e = x.X
			continue
		case *ast.CallExpr:
			if len(x.Args) == 1 {
				if tv, ok := g.info.Types[x.Fun]; ok && tv.IsType() {
					e = x.Args[0]
					continue
				}
			}
		}
		return e
	}
}

// fieldOf renders the receiver field an expression denotes ("" if none).
func (g *grammarCtx) fieldOf(e ast.Expr) string {
	e = g.stripConv(e)
	switch x := e.(type) {
	case *ast.SelectorExpr:
		base := g.fieldOf(x.X)
		if id, ok := x.X.(*ast.Ident); ok && id.Name == g.recv {
			return x.Sel.Name
		}
		if base != "" {
			return base + "." + x.Sel.Name
		}
	case *ast.Ident:
		if f, ok := g.locals[x.Name]; ok {
			return f
		}
		if x.Name == g.recv {
			return "."
		}
	case *ast.CallExpr:
		// len(x.f) / x.f.Method()
		if id, ok := x.Fun.(*ast.Ident); ok && id.Name == "len" && len(x.Args) == 1 {
			if f := g.fieldOf(x.Args[0]); f != "" {
				return "len(" + f + ")"
			}
		}
		if sel, ok := x.Fun.(*ast.SelectorExpr); ok {
			return g.fieldOf(sel.X)
		}
	case *ast.StarExpr:
		return g.fieldOf(x.X)
	case *ast.UnaryExpr:
		return g.fieldOf(x.X)
	case *ast.TypeAssertExpr:
		return g.fieldOf(x.X)
	}
	return ""
}

// collectLocals pre-computes which receiver field a local stands for.
func (g *grammarCtx) collectLocals() {
	g.locals = map[string]string{}
	for pass := 0; pass < 3; pass++ {
		ast.Inspect(g.fd.Body, func(n ast.Node) bool {
			if rs, ok := n.(*ast.RangeStmt); ok {
				if f := g.fieldOf(rs.X); f != "" {
					for _, v := range []ast.Expr{rs.Key, rs.Value} {
						if id, ok := v.(*ast.Ident); ok && id.Name != "_" {
							if _, have := g.locals[id.Name]; !have {
								g.locals[id.Name] = f
							}
						}
					}
				}
				return true
			}
			as, ok := n.(*ast.AssignStmt)
			if !ok {
				return true
			}
			if g.enc {
				// local = f(recv.field)  or  local := recv.field
				for i, lhs := range as.Lhs {
					id, ok := lhs.(*ast.Ident)
					if !ok || i >= len(as.Rhs) || id.Name == "_" {
						continue
					}
					if id.Name == "err" {
						// the conventional error variable stands for a field only when copied from one
						if _, isSel := as.Rhs[i].(*ast.SelectorExpr); !isSel {
							continue
						}
					}
					if f := g.fieldOf(as.Rhs[i]); f != "" && f != "." {
						if _, have := g.locals[id.Name]; !have {
							g.locals[id.Name] = f
						}
					}
				}
			} else {
				// recv.field = f(local)
				for i, lhs := range as.Lhs {
					if i >= len(as.Rhs) {
						continue
					}
					f := g.fieldOfDecodeTarget(lhs)
					if f == "" {
						// local2 := f(local1) with local2 already standing for a field
						if id, ok := lhs.(*ast.Ident); ok {
							f = g.locals[id.Name]
						}
					}
					if f == "" {
						continue
					}
					ast.Inspect(as.Rhs[i], func(m ast.Node) bool {
						if id, ok := m.(*ast.Ident); ok {
							if obj := g.info.Uses[id]; obj != nil {
								if _, isVar := obj.(*types.Var); isVar && id.Name != g.recv && id.Name != "err" {
									if _, have := g.locals[id.Name]; !have {
										g.locals[id.Name] = f
									}
								}
							}
						}
						return true
					})
				}
			}
			return true
		})
	}
}

func (g *grammarCtx) fieldOfDecodeTarget(e ast.Expr) string {
	switch x := e.(type) {
	case *ast.SelectorExpr:
		if id, ok := x.X.(*ast.Ident); ok && id.Name == g.recv {
			return x.Sel.Name
		}
		if b := g.fieldOfDecodeTarget(x.X); b != "" {
			return b + "." + x.Sel.Name
		}
	case *ast.IndexExpr:
		return g.fieldOfDecodeTarget(x.X)
	}
	return ""
}

// streamCall classifies a call: primitive, nested codec, or not a stream operation.
func (g *grammarCtx) streamCall(c *ast.CallExpr) (tok, bool) {
	usesStream := false
	for _, a := range c.Args {
		if exprStr(a) == g.stream || g.streamAlias[exprStr(a)] {
			usesStream = true
		}
	}
	if !usesStream {
		return tok{}, false
	}
	switch f := c.Fun.(type) {
	case *ast.Ident:
		if g.enc {
			if k, ok := primWriters[f.Name]; ok && len(c.Args) == 2 {
				return tok{Kind: k, Field: g.fieldOf(c.Args[1]), Pos: c.Pos()}, true
			}
		} else {
			if k, ok := primReaders[f.Name]; ok {
				return tok{Kind: k, Pos: c.Pos()}, true
			}
		}
		// helper taking the stream (e.g. decodeTaskResp helpers): raw
		return tok{Kind: "raw:" + f.Name, Pos: c.Pos()}, true
	case *ast.SelectorExpr:
		name := f.Sel.Name
		if name == "encode" || name == "decode" {
			// nested codec on some value
			tv := g.info.Types[f.X]
			tn := "?"
			if tv.Type != nil {
				if n := namedOfType(tv.Type); n != nil {
					tn = n.Obj().Name()
				}
			}
			fld := g.fieldOf(f.X)
			if fld == "" {
				fld = g.nestedSource(f.X)
			}
			return tok{Kind: "nested:" + tn, Field: fld, Pos: c.Pos()}, true
		}
		// bufio Writer/Reader methods used directly (WriteByte etc.)
		return tok{Kind: "raw:" + name, Pos: c.Pos()}, true
	}
	return tok{}, false
}

// nestedSource: for `X.encode().encode(w)` (Config -> entry) or `e.decode(r)`
// followed by `cfg.decode(e)`: name the receiver field behind the temporary.
func (g *grammarCtx) nestedSource(x ast.Expr) string {
	switch y := x.(type) {
	case *ast.CallExpr:
		if sel, ok := y.Fun.(*ast.SelectorExpr); ok && sel.Sel.Name == "encode" {
			return g.fieldOf(sel.X)
		}
	case *ast.Ident:
		if f, ok := g.locals[y.Name]; ok {
			return f
		}
		// decode: a later `recv.f.decode(local)` binds the temporary entry to a field
		var out string
		ast.Inspect(g.fd.Body, func(n ast.Node) bool {
			c, ok := n.(*ast.CallExpr)
			if !ok {
				return true
			}
			sel, ok := c.Fun.(*ast.SelectorExpr)
			if !ok || (sel.Sel.Name != "decode" && sel.Sel.Name != "encode") || len(c.Args) != 1 {
				return true
			}
			if id, ok := c.Args[0].(*ast.Ident); ok && id.Name == y.Name {
				if f := g.fieldOfDecodeTarget(sel.X); f != "" && out == "" {
					out = f
				}
			}
			return true
		})
		return out
	}
	return ""
}

// endsWithSuccessReturn: the block's last statement returns with a nil error
// (or returns nothing).
func endsWithSuccessReturn(b *ast.BlockStmt) bool {
	if len(b.List) == 0 {
		return false
	}
	r, ok := b.List[len(b.List)-1].(*ast.ReturnStmt)
	if !ok {
		return false
	}
	if len(r.Results) == 0 {
		return true
	}
	id, ok := r.Results[len(r.Results)-1].(*ast.Ident)
	return ok && id.Name == "nil"
}

func isErrIsNil(e ast.Expr) bool {
	b, ok := e.(*ast.BinaryExpr)
	if !ok || b.Op != token.EQL {
		return false
	}
	id, ok := b.X.(*ast.Ident)
	nl, ok2 := b.Y.(*ast.Ident)
	return ok && ok2 && nl.Name == "nil" && (id.Name == "err" || strings.HasPrefix(id.Name, "err"))
}

func isErrNotNil(e ast.Expr) bool {
	b, ok := e.(*ast.BinaryExpr)
	if !ok || b.Op != token.NEQ {
		return false
	}
	id, ok := b.X.(*ast.Ident)
	nl, ok2 := b.Y.(*ast.Ident)
	return ok && ok2 && nl.Name == "nil" && (id.Name == "err" || strings.HasPrefix(id.Name, "err"))
}

func (g *grammarCtx) callsIn(n ast.Node) []*ast.CallExpr {
	var out []*ast.CallExpr
	if n == nil {
		return nil
	}
	ast.Inspect(n, func(m ast.Node) bool {
		if _, ok := m.(*ast.FuncLit); ok {
			return false
		}
		if c, ok := m.(*ast.CallExpr); ok {
			out = append(out, c)
		}
		return true
	})
	// innermost first (source order of evaluation for nested x.encode().encode(w))
	sort.SliceStable(out, func(i, j int) bool { return out[i].End() < out[j].End() })
	return out
}

// stmtToks extracts the tokens of a simple statement and binds decode targets.
func (g *grammarCtx) stmtToks(s ast.Stmt) []tok {
	var out []tok
	for _, c := range g.callsIn(s) {
		t, ok := g.streamCall(c)
		if !ok {
			continue
		}
		g.nCalls++
		if !g.enc && t.Field == "" && !strings.HasPrefix(t.Kind, "nested") {
			// bind to assignment target
			if as, ok := s.(*ast.AssignStmt); ok && len(as.Rhs) == 1 && as.Rhs[0] == ast.Expr(c) && len(as.Lhs) >= 1 {
				if f := g.fieldOfDecodeTarget(as.Lhs[0]); f != "" {
					t.Field = f
				} else if id, ok := as.Lhs[0].(*ast.Ident); ok {
					t.Field = g.locals[id.Name]
				}
			}
		}
		out = append(out, t)
	}
	return out
}

func (g *grammarCtx) block(stmts []ast.Stmt) []tok {
	var out []tok
	for i := 0; i < len(stmts); i++ {
		s := stmts[i]
		switch x := s.(type) {
		case *ast.IfStmt:
			var init []tok
			if x.Init != nil {
				init = g.stmtToks(x.Init)
				out = append(out, init...)
			}
			if isErrNotNil(x.Cond) {
				g.checkErrBranch(x)
				continue
			}
			if isErrIsNil(x.Cond) {
				// `if err == nil { next steps }`: the success continuation,
				// not a data-dependent alternative
				out = append(out, g.block(x.Body.List)...)
				continue
			}
			if len(g.callsStream(x.Cond)) > 0 {
				out = append(out, g.exprToks(x.Cond)...)
			}
			th := g.block(x.Body.List)
			var el []tok
			switch e := x.Else.(type) {
			case *ast.BlockStmt:
				el = g.block(e.List)
			case *ast.IfStmt:
				el = g.block([]ast.Stmt{e})
			}
			// `if c { ...; return nil }` followed by more steps: the rest of the
			// block is the else branch (a successful early exit, not a validation
			// failure, which returns a non-nil error and is no part of the grammar)
			restIsElse := x.Else == nil && endsWithSuccessReturn(x.Body) && i+1 < len(stmts)
			if restIsElse {
				el = g.block(stmts[i+1:])
			}
			cond := g.condStr(x.Cond)
			// polarity: alternatives are written for the positive form of the test
			if f := strings.Fields(cond); len(f) >= 3 && f[1] == "!=" && !(strings.HasSuffix(cond, "!= 0") || strings.HasSuffix(cond, "!= \"\"") || strings.HasSuffix(cond, "!= nil")) {
				f[1] = "=="
				cond = strings.Join(f, " ")
				th, el = el, th
			}
			if len(th) > 0 || len(el) > 0 {
				out = append(out, tok{Kind: "alt", Cond: cond, Then: th, Else: el, Pos: x.Pos()})
			}
			if restIsElse {
				return out
			}
		case *ast.ForStmt:
			body := g.block(x.Body.List)
			if len(body) > 0 {
				out = append(out, tok{Kind: "loop", Then: body, Pos: x.Pos()})
			}
		case *ast.RangeStmt:
			// a loop over a literal list (`for _, v := range []uint64{a, b, c}`) is
			// the listed values in order: unrolled, the loop variable standing for
			// each element in turn
			if lit, ok := ast.Unparen(x.X).(*ast.CompositeLit); ok && len(lit.Elts) > 0 && len(lit.Elts) <= 32 {
				if vid, isId := x.Value.(*ast.Ident); isId && vid.Name != "_" {
					old, had := g.locals[vid.Name]
					for _, el := range lit.Elts {
						if kv, isKV := el.(*ast.KeyValueExpr); isKV {
							el = kv.Value
						}
						if f := g.fieldOf(el); f != "" {
							g.locals[vid.Name] = f
						} else {
							g.locals[vid.Name] = exprStr(el)
						}
						out = append(out, g.block(x.Body.List)...)
					}
					if had {
						g.locals[vid.Name] = old
					} else {
						delete(g.locals, vid.Name)
					}
					continue
				}
			}
			body := g.block(x.Body.List)
			if len(body) > 0 {
				out = append(out, tok{Kind: "loop", Then: body, Pos: x.Pos()})
			}
		case *ast.SwitchStmt:
			var alts []tok
			for _, cc := range x.Body.List {
				cl := cc.(*ast.CaseClause)
				b := g.block(cl.Body)
				var cs []string
				for _, e := range cl.List {
					cs = append(cs, exprStr(e))
				}
				if len(b) > 0 {
					alts = append(alts, tok{Kind: "alt", Cond: "case " + strings.Join(cs, ","), Then: b})
				}
			}
			out = append(out, alts...)
		case *ast.TypeSwitchStmt:
			for _, cc := range x.Body.List {
				cl := cc.(*ast.CaseClause)
				b := g.block(cl.Body)
				var cs []string
				for _, e := range cl.List {
					cs = append(cs, exprStr(e))
				}
				if len(b) > 0 {
					out = append(out, tok{Kind: "alt", Cond: "type " + strings.Join(cs, ","), Then: b})
				}
			}
		case *ast.BlockStmt:
			out = append(out, g.block(x.List)...)
		case *ast.LabeledStmt:
			// `L: switch { default: … break L … }` is a block with early exits (the
			// shape an expanded helper takes, core/inline.go)
			if sw, ok := x.Stmt.(*ast.SwitchStmt); ok && sw.Tag == nil && sw.Init == nil && len(sw.Body.List) == 1 {
				if cl := sw.Body.List[0].(*ast.CaseClause); cl.List == nil {
					out = append(out, g.block(cl.Body)...)
					continue
				}
			}
			out = append(out, g.block([]ast.Stmt{x.Stmt})...)
		case *ast.ReturnStmt:
			ts := g.stmtToks(x)
			out = append(out, ts...)
		case *ast.DeferStmt:
		default:
			ts := g.stmtToks(s)
			out = append(out, ts...)
			// error discipline: `x, err := read(..)` must be followed by an err check or return
			if len(ts) > 0 {
				g.checkFollowedByErrCheck(stmts, i)
			}
		}
	}
	return out
}

func (g *grammarCtx) callsStream(e ast.Expr) []*ast.CallExpr {
	var out []*ast.CallExpr
	for _, c := range g.callsIn(e) {
		if _, ok := g.streamCall(c); ok {
			out = append(out, c)
		}
	}
	return out
}

func (g *grammarCtx) exprToks(e ast.Expr) []tok {
	var out []tok
	for _, c := range g.callsIn(e) {
		if t, ok := g.streamCall(c); ok {
			g.nCalls++
			out = append(out, t)
		}
	}
	return out
}

// condStr normalises an alternative's condition to the field it tests.
func (g *grammarCtx) condStr(e ast.Expr) string {
	if b, ok := e.(*ast.BinaryExpr); ok {
		l, r := g.fieldOf(b.X), exprStr(b.Y)
		if l == "" {
			l = exprStr(b.X)
		}
		return l + " " + b.Op.String() + " " + r
	}
	return exprStr(e)
}

// checkErrBranch: `if err != nil { return ..., err }` must hand a non-nil error on.
func (g *grammarCtx) checkErrBranch(x *ast.IfStmt) {
	if !g.enc {
		return // decoders: decided exactly by the SSA error-flow rule (C18.6)
	}
	for _, s := range x.Body.List {
		if r, ok := s.(*ast.ReturnStmt); ok {
			if len(r.Results) == 0 {
				return // named results
			}
			last := r.Results[len(r.Results)-1]
			if id, ok := last.(*ast.Ident); ok && id.Name == "nil" {
				g.errs = append(g.errs, fmt.Sprintf("%s: error branch returns nil", g.h.P.Fset.Position(r.Pos())))
			}
			return
		}
	}
}

func (g *grammarCtx) checkFollowedByErrCheck(stmts []ast.Stmt, i int) {
	if !g.enc {
		return // decoders: decided exactly by the SSA error-flow rule (C18.6)
	}
	as, ok := stmts[i].(*ast.AssignStmt)
	if !ok {
		if es, ok := stmts[i].(*ast.ExprStmt); ok {
			_ = es
			g.errs = append(g.errs, fmt.Sprintf("%s: result of a stream operation is dropped", g.h.P.Fset.Position(stmts[i].Pos())))
		}
		return
	}
	// which lhs receives the error?
	hasErr, blank := false, false
	for _, l := range as.Lhs {
		if id, ok := l.(*ast.Ident); ok {
			if id.Name == "err" || strings.HasPrefix(id.Name, "err") {
				hasErr = true
			}
			if id.Name == "_" {
				blank = true
			}
		}
	}
	if !hasErr {
		if blank {
			g.errs = append(g.errs, fmt.Sprintf("%s: error of a stream operation is discarded", g.h.P.Fset.Position(as.Pos())))
		}
		return
	}
	if i+1 >= len(stmts) {
		g.errs = append(g.errs, fmt.Sprintf("%s: error of the last stream operation is not returned", g.h.P.Fset.Position(as.Pos())))
		return
	}
	switch n := stmts[i+1].(type) {
	case *ast.IfStmt:
		if isErrNotNil(n.Cond) {
			return
		}
	case *ast.ReturnStmt:
		for _, r := range n.Results {
			if id, ok := r.(*ast.Ident); ok && strings.HasPrefix(id.Name, "err") {
				return
			}
		}
	}
	g.errs = append(g.errs, fmt.Sprintf("%s: error of a stream operation is not checked before the next step", g.h.P.Fset.Position(as.Pos())))
}

// grammarOf derives the grammar of a codec function.
func (h H) grammarOf(fn *ssa.Function, enc bool, stream string) ([]tok, *grammarCtx) {
	fd := h.P.ASTFunc(fn)
	if fd == nil || fd.Body == nil {
		core_undecided("no syntax for " + h.name(fn))
	}
	g := &grammarCtx{h: h, info: h.P.TypesInfo("raft"), fd: fd, enc: enc}
	if fd.Recv != nil && len(fd.Recv.List) == 1 && len(fd.Recv.List[0].Names) == 1 {
		g.recv = fd.Recv.List[0].Names[0].Name
	}
	g.stream = stream
	if stream == "" {
		for _, p := range fd.Type.Params.List {
			ts := exprStr(p.Type)
			if ts == "io.Writer" || ts == "io.Reader" {
				g.stream = p.Names[0].Name
			}
		}
	}
	g.collectLocals()
	// locals that are plain names for the stream (`bufr := c.bufr`)
	g.streamAlias = map[string]bool{}
	ast.Inspect(fd.Body, func(n ast.Node) bool {
		as, ok := n.(*ast.AssignStmt)
		if !ok || len(as.Lhs) != len(as.Rhs) {
			return true
		}
		for i, r := range as.Rhs {
			if id, isId := as.Lhs[i].(*ast.Ident); isId && (exprStr(r) == g.stream || g.streamAlias[exprStr(r)]) {
				g.streamAlias[id.Name] = true
			}
		}
		return true
	})
	return g.block(fd.Body.List), g
}

func core_undecided(msg string) { panic(core.Undecided{Msg: msg}) }

// flatten renders a grammar for comparison; fields of the two sides are compared separately.
func kinds(ts []tok) string {
	var s []string
	for _, t := range ts {
		switch t.Kind {
		case "alt":
			// `if count > 0 { for ... }` is the same grammar as the bare count-driven loop
			if len(t.Else) == 0 && len(t.Then) == 1 && t.Then[0].Kind == "loop" && (strings.HasSuffix(t.Cond, "> 0") || strings.HasSuffix(t.Cond, "!= 0")) {
				s = append(s, "loop{"+kinds(t.Then[0].Then)+"}")
				continue
			}
			// and so is `if count == 0 { return nil }` in front of the loop
			if len(t.Then) == 0 && len(t.Else) == 1 && t.Else[0].Kind == "loop" && strings.HasSuffix(t.Cond, "== 0") {
				s = append(s, "loop{"+kinds(t.Else[0].Then)+"}")
				continue
			}
			s = append(s, "alt{"+kinds(t.Then)+"|"+kinds(t.Else)+"}")
		case "loop":
			s = append(s, "loop{"+kinds(t.Then)+"}")
		default:
			s = append(s, t.Kind)
		}
	}
	return strings.Join(s, " ")
}

func fieldsOf(ts []tok) []string {
	var out []string
	for _, t := range ts {
		switch t.Kind {
		case "alt", "loop":
			out = append(out, fieldsOf(t.Then)...)
			out = append(out, fieldsOf(t.Else)...)
		default:
			out = append(out, t.Field)
		}
	}
	return out
}

func conds(ts []tok) []string {
	var out []string
	for _, t := range ts {
		if t.Kind == "alt" {
			if len(t.Else) == 0 && len(t.Then) == 1 && t.Then[0].Kind == "loop" {
				out = append(out, conds(t.Then)...)
				continue
			}
			if len(t.Then) == 0 && len(t.Else) == 1 && t.Else[0].Kind == "loop" && strings.HasSuffix(t.Cond, "== 0") {
				out = append(out, conds(t.Else)...)
				continue
			}
			out = append(out, t.Cond)
			out = append(out, conds(t.Then)...)
			out = append(out, conds(t.Else)...)
		}
		if t.Kind == "loop" {
			out = append(out, conds(t.Then)...)
		}
	}
	return out
}

// codecPair compares T.encode with T.decode.
func (h H) codecPair(rule, typ string) {
	enc := h.fn("raft:(" + typ + ").encode")
	dec := h.fn("raft:(" + typ + ").decode")
	ge, ce := h.grammarOf(enc, true, "")
	gd, cd := h.grammarOf(dec, false, "")
	name := typ
	ke, kd := kinds(ge), kinds(gd)
	h.C.Check(rule+" grammar-shape", name, ke == kd && ke != "", h.fpos(enc), "encoder and decoder disagree on the sequence of wire operations: encode=["+ke+"] decode=["+kd+"]")
	if ke == kd {
		fe, fdd := fieldsOf(ge), fieldsOf(gd)
		ok := len(fe) == len(fdd)
		var diff []string
		for i := 0; ok && i < len(fe); i++ {
			a, b := normField(fe[i]), normField(fdd[i])
			if a == "" || b == "" || a != b {
				// a count written from len(x) is read into a local that drives the loop
				if strings.HasPrefix(fe[i], "len(") && (fdd[i] == "" || strings.HasPrefix(fdd[i], "len(") || normField(fdd[i]) == normField(fe[i][4:len(fe[i])-1])) {
					continue
				}
				diff = append(diff, fmt.Sprintf("#%d encode:%s decode:%s", i+1, fe[i], fdd[i]))
			}
		}
		h.C.Check(rule+" field-correspondence", name, ok && len(diff) == 0, h.fpos(dec), "the i-th value written and the i-th value read belong to different fields: "+strings.Join(diff, "; "))
		// alternatives are keyed on the same field
		cE, cD := conds(ge), conds(gd)
		okc := len(cE) == len(cD)
		for i := 0; okc && i < len(cE); i++ {
			if condKey(cE[i]) != condKey(cD[i]) {
				okc = false
			}
		}
		h.C.Check(rule+" alternatives", name, okc, h.fpos(dec), fmt.Sprintf("conditional parts are keyed differently: encode=%v decode=%v", cE, cD))
	}
	for _, e := range cd.errs {
		h.C.Check(rule+" decode-error-discipline", name+" "+shortPos(e), false, "", "decoder "+e)
	}
	if len(cd.errs) == 0 {
		h.C.Check(rule+" decode-error-discipline", name, true, h.fpos(dec), "every read's error is returned")
	}
	for _, e := range ce.errs {
		h.C.Info(rule+" encode-error-discipline", name+" "+shortPos(e), "", "encoder "+e+" (write errors are sticky in bufio.Writer and surface at Flush; outside the truncated-decoding clause)")
	}
	h.C.Floor(rule+" (wire operations in "+name+")", ce.nCalls, 1)
}

func shortPos(s string) string {
	if i := strings.Index(s, ": "); i > 0 {
		p := s[:i]
		if j := strings.LastIndex(p, "/"); j >= 0 {
			p = p[j+1:]
		}
		return p
	}
	return s
}

func normField(f string) string {
	f = strings.TrimPrefix(f, ".")
	if strings.HasPrefix(f, "len(") {
		return f
	}
	if i := strings.Index(f, "."); i > 0 {
		f = f[:i] // compare the receiver's own field (err.Op and err both belong to err)
	}
	return f
}

func condKey(c string) string {
	// "result == unexpectedErr" / "unixNano != 0" -> field + operator class
	f := strings.Fields(c)
	if len(f) >= 3 {
		return f[0] + " " + f[len(f)-1]
	}
	return c
}

// primitiveLayer: write/read of the same width use the same byte order and buffer size.
func (h H) primitiveLayer(rule string) {
	for _, w := range []struct {
		name string
		n    int64
		put  string
		get  string
	}{{"Uint64", 8, "PutUint64", "Uint64"}, {"Uint32", 4, "PutUint32", "Uint32"}} {
		wr := h.fn("raft:write" + w.name)
		rd := h.fn("raft:read" + w.name)
		check := func(fn *ssa.Function, method string) (bool, string) {
			okLen, okM := false, false
			core.Instrs(fn, func(in ssa.Instruction) {
				if mk, ok := in.(*ssa.MakeSlice); ok {
					if c, ok := mk.Len.(*ssa.Const); ok && c.Int64() == w.n {
						okLen = true
					}
				}
				if al, ok := in.(*ssa.Alloc); ok {
					if arr, ok := al.Type().(*types.Pointer).Elem().(*types.Array); ok && arr.Len() == w.n {
						okLen = true
					}
				}
				if c, ok := in.(*ssa.Call); ok {
					if f := c.Common().StaticCallee(); f != nil && f.Name() == method && strings.Contains(f.String(), "littleEndian") {
						okM = true
					}
					if c.Common().IsInvoke() && c.Common().Method.Name() == method {
						okM = true
					}
				}
			})
			return okLen && okM, fmt.Sprintf("buffer of %d bytes=%v, byteOrder.%s=%v", w.n, okLen, method, okM)
		}
		ok1, d1 := check(wr, w.put)
		ok2, d2 := check(rd, w.get)
		h.C.Check(rule, "write"+w.name+"/read"+w.name, ok1 && ok2, h.fpos(wr), "primitive width/byte order mismatch: write: "+d1+"; read: "+d2)
	}
	// both layers use the same byteOrder variable, which is little endian
	g := h.P.Global("raft:byteOrder")
	h.C.Check(rule, "byteOrder", strings.Contains(g.Type().String(), "littleEndian"), "", "byteOrder must be binary.LittleEndian; type "+g.Type().String())
	// bytes/string: u32 length prefix followed by exactly that many bytes
	for _, p := range []struct{ w, r string }{{"writeBytes", "readBytes"}, {"writeString", "readString"}} {
		wf := h.fn("raft:" + p.w)
		n32 := len(h.P.CallsTo(wf, h.fn("raft:writeUint32")))
		h.C.Check(rule, p.w+" length-prefix", n32 == 1, h.fpos(wf), "variable-length values must be written with one u32 length prefix")
	}
	rb := h.fn("raft:readBytes")
	n32 := len(h.P.CallsTo(rb, h.fn("raft:readUint32")))
	okSize := false
	core.Instrs(rb, func(in ssa.Instruction) {
		if mk, ok := in.(*ssa.MakeSlice); ok {
			if strings.Contains(h.P.Info(rb).Sym(mk.Len).String(), "readUint32") {
				okSize = true
			}
		}
	})
	h.C.Check(rule, "readBytes length-prefix", n32 == 1 && okSize, h.fpos(rb), "readBytes must read a u32 length and then exactly that many bytes")
	rs := h.fn("raft:readString")
	h.C.Check(rule, "readString via readBytes", len(h.P.CallsTo(rs, rb)) == 1, h.fpos(rs), "readString must read what writeString wrote (u32 length + bytes)")
	// bool: one byte
	wb := h.fn("raft:writeBool")
	rbb := h.fn("raft:readBool")
	h.C.Check(rule, "writeBool/readBool", len(h.P.CallsTo(wb, h.fn("raft:writeUint8"))) >= 1 && len(h.P.CallsTo(rbb, h.fn("raft:readUint8"))) == 1, h.fpos(wb), "bool must travel as one byte")
}

// headerLenAgrees: isEntryBuffered.headerLen equals the fixed prefix of entry's grammar.
func (h H) headerLenAgrees(rule string) {
	enc := h.fn("raft:(*entry).encode")
	g, _ := h.grammarOf(enc, true, "")
	width := map[string]int64{"u64": 8, "u32": 4, "u8": 1, "bool": 1}
	var sum int64
	okShape := false
	for _, t := range g {
		if w, ok := width[t.Kind]; ok {
			sum += w
			continue
		}
		if t.Kind == "bytes" || t.Kind == "string" {
			sum += 4
			okShape = true
		}
		break
	}
	fn := h.fn("raft:isEntryBuffered")
	// the header length is what is peeked from the reader (a constant,
	// however it is spelled: literal sum, local, named constants)
	var got int64 = -1
	core.Instrs(fn, func(in ssa.Instruction) {
		c, ok := in.(*ssa.Call)
		if !ok || c.Common().StaticCallee() == nil || c.Common().StaticCallee().String() != "(*bufio.Reader).Peek" || len(c.Common().Args) != 2 {
			return
		}
		if k, ok := c.Common().Args[1].(*ssa.Const); ok && k.Value != nil {
			if v, ok := constant.Int64Val(k.Value); ok {
				got = v
			}
		}
	})
	h.C.Check(rule, "isEntryBuffered.headerLen", okShape && got == sum, h.fpos(fn), fmt.Sprintf("the buffered-entry test assumes a %d byte header but the entry grammar has a fixed prefix of %d bytes (incl. the data length)", got, sum))
}
