package props

import (
	"fmt"
	"go/types"
	"strings"

	"golang.org/x/tools/go/ssa"

	"raftlint/internal/core"
)

// Identity isolation and storage exclusivity (C20); monotone status (C19).

func (h H) dialerVerifiesIdentity(rule string) {
	h.onlyCallers(rule+" who-may-call", "raft:dial", "(*connPool).getConn")
	fn := h.fn("raft:(*connPool).getConn")
	sim := h.simAll()
	ts := sim.Run(fn)
	if sim.Trunc {
		h.C.Undecided(rule, h.name(fn), h.fpos(fn), "not loop-free")
		return
	}
	succ := h.constStr("raft:success")
	nNew, nFail := 0, 0
	for _, t := range ts {
		if t.Exit != "return" || len(t.Ret) != 2 {
			continue
		}
		key := h.name(fn) + " path[" + t.Describe() + "]"
		iDial := evIndex(t, isCall("dial"))
		if iDial < 0 {
			continue // pooled connection: verified when it was first dialled
		}
		d := t.Events[iDial]
		iRPC := evIndex(t, isCall("(*conn).doRPC"))
		returnsConn := !t.Entails(t.Ret[0], "==", "nil") && len(d.Results) == 2 && t.Ret[0] == d.Results[0]
		if returnsConn {
			nNew++
			ok := iRPC > iDial && len(t.Events[iRPC].Results) == 1 && t.Entails(t.Events[iRPC].Results[0], "==", "nil") && t.Events[iRPC].Args[0] == d.Results[0]
			// the response that is checked is the one filled by that RPC, and the request carries the pool's identity
			var cid, nid, resOK bool
			for _, e := range t.Events {
				if e.Callee == "store" && strings.HasPrefix(e.Args[0], "new:identityReq") {
					if strings.HasSuffix(e.Args[0], ".cid") && e.Args[1] == "connPool.cid" {
						cid = true
					}
					if strings.HasSuffix(e.Args[0], ".nid") && e.Args[1] == "connPool.nid" {
						nid = true
					}
				}
			}
			if ok {
				respArg := t.Events[iRPC].Args[2]
				for _, term := range core.TermsWithPrefix(t.Facts, respArg+".resp.result") {
					if t.Entails(term, "==", succ) {
						resOK = true
					}
				}
				if !resOK {
					resOK = t.Entails(respArg+".resp.result", "==", succ)
				}
				ok = strings.HasPrefix(t.Events[iRPC].Args[1], "new:identityReq")
			}
			h.C.Check(rule+" verified-before-use", key, ok && cid && nid && resOK, t.ExitPos,
				fmt.Sprintf("a freshly dialled connection is handed out without a successful identity exchange for the pool's (cid, nid): rpc ok=%v cid=%v nid=%v result==success proven=%v", ok, cid, nid, resOK))
			// the address dialled is the one resolved for the pool's node id
			iLook := evIndex(t, isCall("(*resolver).lookupID"))
			okAddr := iLook >= 0 && t.Events[iLook].Args[1] == "connPool.nid" && len(t.Events[iLook].Results) == 1 && d.Args[1] == t.Events[iLook].Results[0]
			h.C.Check(rule+" dial-resolved-node", key, okAddr, d.Pos, "the address dialled is not the one resolved for the pool's node id")
			continue
		}
		if len(d.Results) == 2 && t.Entails(d.Results[1], "==", "nil") {
			// dialled fine but identity failed: the connection must be closed
			nFail++
			closed := evIndex(t, func(e core.Event) bool { return e.Callee == "invoke:Close" }) >= 0
			h.C.Check(rule+" closed-on-mismatch", key, closed, t.ExitPos, "a connection whose identity check failed is not closed")
		}
	}
	h.C.Floor(rule+" (paths handing out a new connection)", nNew, 1)
	h.C.Floor(rule+" (identity-failure paths)", nFail, 2)
	// conn values are created only by dial, server.handleConn and Client.getConn
	connT := h.P.Named("raft:conn")
	for _, f := range h.P.Funcs() {
		core.Instrs(f, func(in ssa.Instruction) {
			if a, ok := in.(*ssa.Alloc); ok && strings.HasPrefix(a.Comment, "complit") {
				if pt, ok := a.Type().(*types.Pointer); ok && types.Identical(pt.Elem(), connT) {
					// a constructor helper no rule knows by name counts for the functions that call it
					okc := true
					names := h.effectiveRoots(f)
					for _, name := range names {
						if !(name == "dial" || name == "(*server).handleConn" || name == "(*Client).getConn") {
							okc = false
						}
					}
					h.C.Check(rule+" who-creates-conn", "conn literal in "+strings.Join(names, ","), okc && len(names) > 0, h.pos(in), "a connection object is created outside dial/handleConn/Client.getConn (bypassing the identity exchange)")
				}
			}
		})
	}
	// connPool values: only getConnPool, with the node's own cluster id and the requested node id
	poolT := h.P.Named("raft:connPool")
	n := 0
	for _, f := range h.P.Funcs() {
		fi := h.P.Info(f)
		core.Instrs(f, func(in ssa.Instruction) {
			st, ok := in.(*ssa.Store)
			if !ok {
				return
			}
			fa, ok := st.Addr.(*ssa.FieldAddr)
			if !ok {
				return
			}
			pt, ok := fa.X.Type().Underlying().(*types.Pointer)
			if !ok || !types.Identical(pt.Elem(), poolT) {
				return
			}
			fld := poolT.Underlying().(*types.Struct).Field(fa.Field).Name()
			name := h.name(core.Root(f))
			v := fi.Sym(st.Val).String()
			switch fld {
			case "cid":
				n++
				h.C.Check(rule+" pool-identity", "connPool.cid in "+name, name == "(*Raft).getConnPool" && v == "Raft.storage.cid", h.pos(st), "a pool must verify peers against this node's cluster id; found "+v)
			case "nid":
				n++
				h.C.Check(rule+" pool-identity", "connPool.nid in "+name, name == "(*Raft).getConnPool" && v == "$1", h.pos(st), "a pool must verify peers against the node id it was created for; found "+v)
			}
		})
	}
	h.C.Floor(rule+" (pool identity stores)", n, 2)
	// raft RPC requests are written only through pool connections (never by the admin Client)
	wr := h.fn("raft:(*conn).writeReq")
	for _, s := range h.P.Callers(wr) {
		name := h.name(core.Root(s.Fn))
		h.C.Check(rule+" who-writes-rpc", "writeReq in "+name, !strings.HasPrefix(name, "(*Client)"), h.pos(s.Instr), "the admin client sends raft RPCs")
	}
}

func (h H) listenerRefusesMismatch(rule string) {
	fn := h.fn("raft:(*Raft).replyRPC")
	sim := h.simAll()
	ts := sim.Run(fn)
	succ, mism, ident := h.constStr("raft:success"), h.constStr("raft:identityMismatch"), h.constStr("raft:rpcIdentity")
	nS, nM := 0, 0
	for _, t := range ts {
		if t.Exit != "return" {
			continue
		}
		key := h.name(fn) + " path[" + t.Describe() + "]"
		for _, e := range t.Events {
			if e.Callee != "(rpcType).createResp" || e.Args[0] != ident {
				continue
			}
			handled := evIndex(t, isCall("(*Raft).onRequest")) >= 0
			h.C.Check(rule+" identity-not-dispatched", key, !handled, e.Pos, "an identity request is also dispatched to the protocol handlers")
			switch e.Args[2] {
			case succ:
				nS++
				var cidT, nidT string
				for _, term := range core.TermsWithPrefix(e.Facts, "assert[*identityReq](rpc.req)") {
					if strings.Contains(term, ".cid") {
						cidT = term
					}
					if strings.Contains(term, ".nid") {
						nidT = term
					}
				}
				ok := cidT != "" && nidT != "" && t.EntailsAt(e, "Raft.storage.cid", "==", cidT) && t.EntailsAt(e, "Raft.storage.nid", "==", nidT)
				h.C.Check(rule+" both-ids-compared", key, ok, e.Pos, "identity is confirmed without both the cluster id and the node id of the request matching this node")
			case mism:
				nM++
			default:
				h.C.Check(rule+" identity-result", key, false, e.Pos, "unexpected identity result "+e.Args[2])
			}
		}
	}
	h.C.Floor(rule+" (identity success paths)", nS, 1)
	h.C.Floor(rule+" (identity mismatch paths)", nM, 1)
	// handleConn: a non-success identity reply ends the connection
	hc := h.fn("raft:(*server).handleConn")
	hfi := h.P.Info(hc)
	found := false
	core.Instrs(hc, func(in ssa.Instruction) {
		if mi, ok := in.(*ssa.MakeInterface); ok {
			if n, ok := mi.X.Type().(*types.Named); ok && n.Obj().Name() == "IdentityError" {
				found = true
			}
		}
	})
	// every path from "identity reply was not success" reaches a return (not the next loop iteration)
	// after the reply was written: no feasible way back to the read loop while
	// (request is an identity request) && (result != success)
	identAtoms := hfi.EdgeAtomsMatching(func(a core.Atom) bool {
		return a.Op == "==" && a.R == h.constStr("raft:rpcIdentity") && strings.HasPrefix(a.L, "invoke:rpcType(")
	})
	misAtoms := hfi.EdgeAtomsMatching(func(a core.Atom) bool {
		return a.Op == "!=" && a.R == succ && strings.HasPrefix(a.L, "invoke:getResult(")
	})
	nEdge := len(misAtoms)
	if len(identAtoms) > 0 && len(misAtoms) > 0 {
		var enc ssa.Instruction
		core.Instrs(hc, func(in ssa.Instruction) {
			if c, ok := in.(*ssa.Call); ok && c.Common().IsInvoke() && c.Common().Method.Name() == "encode" {
				enc = in
			}
		})
		ok := enc != nil
		why := "reply encode site not found"
		if ok {
			for _, hd := range core.LoopHeaders(hc) {
				idx := 0
				for i, in := range enc.Block().Instrs {
					if in == enc {
						idx = i + 1
					}
				}
				if can, w := hfi.FeasiblePath(enc.Block(), idx, []core.Atom{identAtoms[0], misAtoms[0]}, hd); can {
					ok = false
					why = w
				}
			}
		}
		h.C.Check(rule+" drop-connection", "(*server).handleConn identity-mismatch", ok && found, h.pos(enc), "after replying identityMismatch the listener keeps serving the connection: "+why)
	}
	h.C.Floor(rule+" (mismatch test in handleConn)", nEdge, 1)
	h.C.Floor(rule+" (identity test in handleConn)", len(identAtoms), 1)
	// serve closes the connection when handleConn returns
	sv := h.fn("raft:(*server).serve")
	closes := 0
	for _, cl := range h.P.Closures(sv) {
		hcCalls := h.P.CallsTo(cl, hc)
		if len(hcCalls) == 0 {
			continue
		}
		core.Instrs(cl, func(in ssa.Instruction) {
			if c, ok := in.(*ssa.Call); ok && c.Common().IsInvoke() && c.Common().Method.Name() == "Close" && core.Dominates(hcCalls[0].(ssa.Instruction), in) {
				closes++
			}
		})
	}
	h.C.Check(rule+" close-after-handler", "(*server).serve connection goroutine", closes >= 1, h.fpos(sv), "the connection is not closed after its handler returned")
}

func reachesAvoidingReturn(from, to *ssa.BasicBlock) bool {
	seen := map[*ssa.BasicBlock]bool{from: true}
	stack := []*ssa.BasicBlock{from}
	for len(stack) > 0 {
		b := stack[len(stack)-1]
		stack = stack[:len(stack)-1]
		if b == to {
			return true
		}
		for i, s := range b.Succs {
			if !seen[s] && core.FeasibleSucc(b, i) {
				seen[s] = true
				stack = append(stack, s)
			}
		}
	}
	return false
}

func (h H) storageExclusivity(rule string) {
	sv := h.fn("raft:(*Raft).Serve")
	fi := h.P.Info(sv)
	lock := h.fn("raft:lockDir")
	unlock := h.fn("raft:unlockDir")
	lockOK := core.MkAtom("lockDir(path/filepath.Dir(Raft.storage.snaps.dir))", "==", "nil")
	for i, g := range h.P.GoSites(sv) {
		h.gateLoose(rule+" lock-before-goroutines", fmt.Sprintf("(*Raft).Serve go#%d", i+1), g, lockOK)
	}
	sl := h.fn("raft:(*Raft).stateLoop")
	for k, c := range h.P.CallsTo(sv, sl) {
		h.gateLoose(rule+" lock-before-stateLoop", h.site(sv, sl, k), c, lockOK)
	}
	h.C.Floor(rule+" (go sites in Serve)", len(h.P.GoSites(sv)), 3)
	// unlock is deferred right after a successful lock
	nUn := 0
	core.Instrs(sv, func(in ssa.Instruction) {
		if d, ok := in.(*ssa.Defer); ok && d.Call.StaticCallee() == unlock {
			nUn++
			r := fi.MustCrossAtom(d, lockOK)
			h.C.Check(rule+" unlock-deferred", "(*Raft).Serve defer unlockDir", r.OK && fi.Sym(d.Call.Args[0]).String() == "path/filepath.Dir(Raft.storage.snaps.dir)", h.pos(d), "unlockDir must be deferred only after the lock was taken, for the same directory")
		}
	})
	h.C.Check(rule+" unlock-deferred", "(*Raft).Serve unlock count", nUn == 1, h.fpos(sv), fmt.Sprintf("expected one deferred unlockDir, found %d", nUn))
	_ = lock
	// SetIdentity: the same discipline — the deferred function that unlocks is
	// registered only once lockDir succeeded (a refused caller must not delete
	// the lock of the instance that holds it)
	si := h.fn("raft:SetIdentity")
	sfi := h.P.Info(si)
	siLock := core.MkAtom("lockDir($0)", "==", "nil")
	nSI := 0
	core.Instrs(si, func(in ssa.Instruction) {
		d, ok := in.(*ssa.Defer)
		if !ok {
			return
		}
		unlocks := d.Call.StaticCallee() == unlock
		if cl := core.ClosureOf(d.Call.Value); cl != nil && len(h.P.CallsTo(cl, unlock)) > 0 {
			unlocks = true
		}
		if !unlocks {
			return
		}
		nSI++
		r := sfi.MustCrossAtom(d, siLock)
		h.C.Check(rule+" unlock-deferred", "SetIdentity defer unlockDir", r.OK, h.pos(d), "SetIdentity registers the unlock before it holds the lock: a call refused with ErrLockExists removes the serving instance's lock file: "+r.Witness)
	})
	h.C.Check(rule+" unlock-deferred", "SetIdentity unlock count", nSI == 1, h.fpos(si), fmt.Sprintf("expected one deferred unlockDir in SetIdentity, found %d", nSI))
	// lockDir: nil only after a successful hard link and the same-file confirmation
	ts := h.simAll().Run(lock)
	nOK := 0
	for _, t := range ts {
		if t.Exit != "return" || len(t.Ret) != 1 || !t.Entails(t.Ret[0], "==", "nil") {
			continue
		}
		nOK++
		iL := evIndex(t, isCall("os.Link"))
		iS := evIndex(t, isCall("os.SameFile"))
		ok := iL >= 0 && len(t.Events[iL].Results) == 1 && t.Entails(t.Events[iL].Results[0], "==", "nil") &&
			iS > iL && len(t.Events[iS].Results) == 1 && t.Entails(t.Events[iS].Results[0], "==", "true")
		h.C.Check(rule+" lockDir", "lockDir nil-path["+t.Describe()+"]", ok, t.ExitPos, "lockDir reports success without an exclusive hard link confirmed by SameFile")
	}
	h.C.Floor(rule+" (lockDir success paths)", nOK, 1)
	// SetIdentity: val.set only under the lock and only when no identity is stored
	set := h.fn("raft:(*value).set")
	for k, c := range h.P.CallsTo(si, set) {
		site := h.site(si, set, k)
		h.gateLoose(rule+" identity-under-lock", site, c, core.MkAtom("lockDir($0)", "==", "nil"))
		v := h.argStr(c, 0)
		r := sfi.MustCross(c, func(a core.Atom) bool {
			return a.Op == "==" && a.R == "0" && (a.L == v+".v1" || a.L == v+".v2")
		})
		h.C.Check(rule+" identity-set-once", site, r.OK, h.pos(c), "a stored identity can be overwritten: "+r.Witness)
		h.C.Check(rule+" identity-args", site, h.argStr(c, 1) == "$1" && h.argStr(c, 2) == "$2", h.pos(c), "SetIdentity must store the identity it was given")
	}
	h.C.Floor(rule+" (value.set in SetIdentity)", len(h.P.CallsTo(si, set)), 1)
	// New refuses a zero identity
	nw := h.fn("raft:New")
	nfi := h.P.Info(nw)
	n := 0
	for _, r := range core.Returns(nw) {
		if nfi.Sym(r.Results[0]).String() == "nil" {
			continue
		}
		n++
		r1 := nfi.MustCross(r, func(a core.Atom) bool { return a.Op == "!=" && a.R == "0" && strings.HasSuffix(a.L, ".cid") })
		r2 := nfi.MustCross(r, func(a core.Atom) bool { return a.Op == "!=" && a.R == "0" && strings.HasSuffix(a.L, ".nid") })
		h.C.Check(rule+" new-requires-identity", "New non-nil return", r1.OK && r2.OK, h.pos(r), "New hands out a node without an identity")
	}
	h.C.Floor(rule+" (non-nil returns of New)", n, 1)
}

// monotoneStatus (C19.1) + stale snapshot requests ignored.
func (h H) monotoneStatus(rule string) {
	h.onlyWriters(rule+" who-may-write", "raft:Raft.commitIndex", "(*Raft).setCommitIndex", "(*Raft).onInstallSnapRequest", "(*Raft).Serve")
	h.staleSnapshotIgnored(rule)
	// Serve: initial commit index from the restored snapshot, before stateLoop
	sv := h.fn("raft:(*Raft).Serve")
	sl := h.fn("raft:(*Raft).stateLoop")
	for _, s := range h.storesIn(sv, "raft:Raft.commitIndex") {
		ok := false
		for _, c := range h.P.CallsTo(sv, sl) {
			if s.Instr.Block().Dominates(c.Block()) || reaches(s.Instr.Block(), c.Block()) {
				ok = true
			}
		}
		h.C.Check(rule+" initial-commit-index", "(*Raft).Serve store commitIndex", ok && isSnapIndexExpr(h.P.Info(sv).Sym(storeVal(s.Instr)).String(), "Raft.storage"), h.pos(s.Instr), "Serve may only initialise the commit index from the snapshot before the state loop starts")
	}
	// info() is assembled on the raft goroutine in one activation
	h.onlyCallers(rule+" who-may-call", "raft:(*Raft).info", "(*Raft).executeTask")
	h.onlyCallers(rule+" who-may-call", "raft:(*Raft).executeTask", "(*Raft).stateLoop")
	inf := h.fn("raft:(*Raft).info")
	ifi := h.P.Info(inf)
	wantF := map[string]string{"Term": "Raft.storage.term", "Committed": "Raft.commitIndex", "LastLogIndex": "Raft.storage.lastLogIndex", "SnapshotIndex": "(*snapshots).latestIndex(Raft.storage.snaps)", "LastApplied": "(*Raft).lastApplied(Raft)"}
	seen := 0
	core.Instrs(inf, func(in ssa.Instruction) {
		st, ok := in.(*ssa.Store)
		if !ok {
			return
		}
		a := ifi.Sym(st.Addr).String()
		for f, w := range wantF {
			if strings.HasSuffix(a, "Info#1."+f) || strings.HasSuffix(a, "."+f) && strings.Contains(a, "Info") {
				seen++
				got := ifi.Sym(st.Val).String()
				okv := got == w
				if f == "SnapshotIndex" {
					okv = isSnapIndexExpr(got, "Raft.storage")
				}
				h.C.Check(rule+" info-fields", "(*Raft).info Info."+f, okv, h.pos(st), "status field "+f+" must report "+w+"; found "+ifi.Sym(st.Val).String())
			}
		}
	})
	h.C.Floor(rule+" (info fields)", seen, 5)
}

// staleSnapshotIgnored: in the install handler nothing is stored, reset or
// compacted unless the request's lastIndex is strictly above the commit index.
func (h H) staleSnapshotIgnored(rule string) {
	// install handler: everything that lowers/sets state is behind lastIndex > commitIndex
	fn := h.fn("raft:(*Raft).onInstallSnapRequest")
	want := core.MkAtom("installSnapReq.lastIndex", ">", "Raft.commitIndex")
	n := 0
	for _, spec := range []string{"raft:(*snapshots).new", "raft:(*storage).clearLog", "raft:(*Raft).compactLog"} {
		cal := h.fn(spec)
		for k, c := range h.P.CallsTo(fn, cal) {
			n++
			if spec == "raft:(*snapshots).new" {
				h.gate(rule+" stale-snapshot-ignored", h.site(fn, cal, k), c, want)
			} else {
				// behind the test; the only write of the commit index in between is the
				// handler's own setCommitIndex(snapshot index) (install-commit rule)
				h.gateLoose(rule+" stale-snapshot-ignored", h.site(fn, cal, k), c, want)
			}
		}
	}
	for _, s := range h.storesIn(fn, "raft:Raft.commitIndex") {
		n++
		h.gateLoose(rule+" stale-snapshot-ignored", "(*Raft).onInstallSnapRequest store commitIndex", s.Instr, want)
		v := h.P.Info(fn).Sym(storeVal(s.Instr)).String()
		h.C.Check(rule+" commit-index-from-snapshot", "(*Raft).onInstallSnapRequest store commitIndex", isSnapIndexExpr(v, "Raft.storage"), h.pos(s.Instr), "after discarding the log the commit index must be the snapshot index; found "+v)
	}
	h.C.Floor(rule+" (state changes in install handler)", n, 4)
}

// failedConnNotReused (C01.6 / C18.8 / C20.1b): requests and replies on a
// connection are matched by position. A connection on which an RPC failed
// (time-out included: the peer may still answer) must be closed, never handed
// back to the pool: the late reply would be read as the answer to the next
// request — a vote granted for term T counted in the election of term T+1.
func (h H) failedConnNotReused(rule string) {
	fn := h.fn("raft:(*connPool).doRPC")
	fi := h.P.Info(fn)
	rc := h.fn("raft:(*connPool).returnConn")
	rpc := h.fn("raft:(*conn).doRPC")
	calls := h.P.CallsTo(fn, rpc)
	if !h.C.Check(rule+" shape", "(*connPool).doRPC", len(calls) == 1, h.fpos(fn), "expected one (*conn).doRPC call") {
		return
	}
	okAtom := core.MkAtom(fi.Sym(calls[0].Value()).String(), "==", "nil")
	n := 0
	for k, c := range h.P.CallsTo(fn, rc) {
		n++
		same := fi.Sym(c.Common().Args[1]).String() == fi.Sym(calls[0].Common().Args[0]).String()
		r := fi.MustCrossAtom(c.(ssa.Instruction), okAtom)
		h.C.Check(rule+" returned-only-after-success", h.site(fn, rc, k), same && r.OK, h.pos(c.(ssa.Instruction)), "a connection is handed back to the pool although the RPC on it failed (its late reply would answer the next request): "+r.Witness)
	}
	h.C.Floor(rule+" (returnConn in connPool.doRPC)", n, 1)
	// on the failure edge the connection is closed
	r := fi.AlwaysFollowedFrom(calls[0].Block(), len(calls[0].Block().Instrs)-1, func(x ssa.Instruction) bool {
		ci, ok := x.(ssa.CallInstruction)
		return ok && ci.Common().IsInvoke() && ci.Common().Method.Name() == "Close"
	}, func(a core.Atom) bool { return a.Implies(okAtom) })
	h.C.Check(rule+" closed-on-failure", "(*connPool).doRPC failure edge", r.OK, h.fpos(fn), "after a failed RPC the connection is neither closed nor … : "+r.Witness)
}
