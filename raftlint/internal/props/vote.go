package props

import (
	"fmt"
	"strings"

	"raftlint/internal/core"
)

// Vote-handler dataflow (E3) shared by C01, C02, C05, C17.

const (
	vTerm     = "Raft.storage.term"
	vVoted    = "Raft.storage.votedFor"
	vLeader   = "Raft.leader"
	vReqTerm  = "voteReq.req.term"
	vReqSrc   = "voteReq.req.src"
	vTransfer = "voteReq.transfer"
	vLLT      = "Raft.storage.lastLogTerm"
	vLLI      = "Raft.storage.lastLogIndex"
	vReqLLT   = "voteReq.lastLogTerm"
	vReqLLI   = "voteReq.lastLogIndex"
)

type voteTraces struct {
	traces []*core.Trace
	sim    *core.Sim
}

func (h H) runVoteHandler() voteTraces {
	fn := h.fn("raft:(*Raft).onVoteRequest")
	h.fn("raft:(*storage).setVotedFor")
	sim := &core.Sim{P: h.P, Record: map[string]bool{
		"(*storage).setVotedFor": true, "(*storage).setTerm": true, "(*Raft).setState": true, "(*Raft).setLeader": true,
	}}
	ts := sim.Run(fn)
	core.SortTraces(ts)
	return voteTraces{ts, sim}
}

func pathKey(t *core.Trace) string {
	return "(*Raft).onVoteRequest path[" + strings.Join(t.Decisions, "; ") + "]"
}

// persisted returns the (term, vote) pair handed to setVotedFor on this trace.
func persisted(t *core.Trace) (ev core.Event, n int) {
	for _, e := range t.Events {
		if e.Callee == "(*storage).setVotedFor" {
			ev = e
			n++
		}
	}
	return
}

// voteSanity: engine-level vacuity guards (loop-free, enough paths, anchors present).
func (h H) voteSanity(rule string, vt voteTraces) bool {
	if vt.sim.Trunc {
		h.C.Undecided(rule, "(*Raft).onVoteRequest", "", "vote handler is not loop-free or exceeds the path bound; E3 cannot enumerate it")
		return false
	}
	h.C.Floor(rule+" (paths of onVoteRequest)", len(vt.traces), 4)
	nSucc := 0
	for _, t := range vt.traces {
		if t.Exit == "return" && len(t.Ret) > 0 && t.Ret[0] == h.constStr("raft:success") {
			nSucc++
		}
	}
	h.C.Floor(rule+" (success returns of onVoteRequest)", nSucc, 1)
	return true
}

// voteGrantPost (C01.1, C05.1): a success reply is backed by a persisted vote
// for the requested term and the requesting candidate, persisted exactly once,
// as the last effect before the return.
func (h H) voteGrantPost(rule string, vt voteTraces) {
	succ := h.constStr("raft:success")
	for _, t := range vt.traces {
		if t.Exit != "return" || len(t.Ret) == 0 {
			continue
		}
		key := pathKey(t)
		ev, n := persisted(t)
		if t.Ret[0] != succ {
			continue
		}
		if n != 1 {
			h.C.Check(rule, key, false, t.ExitPos, fmt.Sprintf("success reply with %d calls of setVotedFor on the path (want exactly 1, deferred)", n))
			continue
		}
		// it must be the last recorded effect
		last := t.Events[len(t.Events)-1]
		if last.Callee != "(*storage).setVotedFor" {
			h.C.Check(rule, key, false, t.ExitPos, "setVotedFor is not the last effect before the success reply (found "+last.Callee+" after it)")
			continue
		}
		okT := t.EntailsAt(ev, ev.Args[1], "==", vReqTerm)
		okV := t.EntailsAt(ev, ev.Args[2], "==", vReqSrc)
		h.C.Check(rule, key, okT && okV, t.ExitPos,
			fmt.Sprintf("reply is success but the pair persisted is (term=%s, votedFor=%s); required (term = %s, votedFor = %s) [term ok=%v, vote ok=%v]",
				ev.Args[1], ev.Args[2], vReqTerm, vReqSrc, okT, okV))
	}
}

// voteOncePerTerm (C01.2, C05.1): at every exit the persisted pair is unchanged,
// or moves to a higher term, or fills an empty vote in the same term; the term
// never decreases.
func (h H) voteOncePerTerm(rule string, vt voteTraces) {
	for _, t := range vt.traces {
		if t.Exit != "return" {
			continue
		}
		key := pathKey(t)
		ev, n := persisted(t)
		if n == 0 {
			// nothing persisted on this path: pair unchanged by construction
			h.C.Check(rule, key, true, t.ExitPos, "no persist on this path")
			continue
		}
		if n > 1 {
			h.C.Check(rule, key, false, t.ExitPos, "more than one setVotedFor on one path")
			continue
		}
		pt, pv := ev.Args[1], ev.Args[2]
		unchanged := t.EntailsAt(ev, pt, "==", vTerm) && t.EntailsAt(ev, pv, "==", vVoted)
		higher := t.EntailsAt(ev, pt, ">", vTerm)
		fill := t.EntailsAt(ev, pt, "==", vTerm) && t.EntailsAt(ev, vVoted, "==", "0")
		h.C.Check(rule, key, unchanged || higher || fill, t.ExitPos,
			fmt.Sprintf("persisted pair (term=%s, votedFor=%s) is neither unchanged, nor a higher term, nor a first vote in the current term (a second vote in one term, or a term regression, is possible)", pt, pv))
	}
}

// voteUpToDate (C02.1): a newly recorded vote implies the candidate's log is at
// least as up-to-date as the voter's.
func (h H) voteUpToDate(rule string, vt voteTraces) {
	succ := h.constStr("raft:success")
	n := 0
	for _, t := range vt.traces {
		if t.Exit != "return" || len(t.Ret) == 0 || t.Ret[0] != succ {
			continue
		}
		ev, k := persisted(t)
		if k != 1 {
			continue
		}
		pt, pv := ev.Args[1], ev.Args[2]
		unchanged := t.EntailsAt(ev, pt, "==", vTerm) && t.EntailsAt(ev, pv, "==", vVoted)
		if unchanged {
			continue // repeated reply for a vote already recorded
		}
		n++
		key := pathKey(t)
		c1 := t.EntailsAt(ev, vLLT, "<=", vReqLLT)
		facts := append(append([]core.Rel{}, ev.Facts...), core.Rel{A: vLLT, Op: "==", B: vReqLLT})
		c2 := core.Entails(facts, core.Rel{A: vLLI, Op: "<=", B: vReqLLI}, t.Unsigned)
		h.C.Check(rule, key, c1 && c2, t.ExitPos,
			fmt.Sprintf("vote granted without the up-to-date check: lastLogTerm<=req.lastLogTerm proven=%v; (equal terms => lastLogIndex<=req.lastLogIndex) proven=%v", c1, c2))
	}
	h.C.Floor(rule+" (new-grant paths)", n, 1)
}

// voteStability (C17): without the transfer flag, while a leader other than the
// requester is known, no vote is granted and the persisted pair is unchanged.
func (h H) voteStability(rule string, vt voteTraces) {
	succ := h.constStr("raft:success")
	n := 0
	for _, t := range vt.traces {
		if t.Exit != "return" || len(t.Ret) == 0 {
			continue
		}
		prem := append(append([]core.Rel{}, t.Facts...),
			core.Rel{A: vTransfer, Op: "!=", B: "true"},
			core.Rel{A: vLeader, Op: "!=", B: "0"},
			core.Rel{A: vLeader, Op: "!=", B: vReqSrc})
		if !core.Consistent(prem, t.Unsigned) {
			continue
		}
		n++
		key := pathKey(t)
		// the path must itself have established the premise (otherwise undecided)
		if !(t.Entails(vTransfer, "!=", "true") && t.Entails(vLeader, "!=", "0")) {
			h.C.Check(rule, key, false, t.ExitPos, "a path that is feasible while a leader is known and the request lacks the transfer flag does not test those conditions (leader-known refusal bypassed)")
			continue
		}
		ev, k := persisted(t)
		unchanged := k == 0 || (k == 1 && t.EntailsAt(ev, ev.Args[1], "==", vTerm) && t.EntailsAt(ev, ev.Args[2], "==", vVoted))
		ok := t.Ret[0] != succ && unchanged
		// the path where the requester is the known leader is outside the clause
		if t.Entails(vLeader, "==", vReqSrc) {
			continue
		}
		h.C.Check(rule, key, ok, t.ExitPos,
			fmt.Sprintf("leader known and no transfer flag, yet result=%s and pair unchanged=%v (vote granted or term raised by a disruptive candidate)", t.Ret[0], unchanged))
	}
	h.C.Floor(rule+" (leader-known paths)", n, 1)
}

// voteRefusalJustified (C17.1b): the converse of the grant rules, a liveness
// necessary condition: every path of the vote handler that does not grant the
// vote has one of the protocol's reasons for refusing — a live leader is known
// and the request carries no transfer permission; the request's term is lower
// than ours; we already voted for someone else in this term; the candidate's
// log is less up-to-date than ours. A handler that refuses more than that
// (e.g. on equal terms, or on equal logs) can leave a healthy majority unable
// to elect anyone.
func (h H) voteRefusalJustified(rule string, vt voteTraces) {
	succ := h.constStr("raft:success")
	n := 0
	for _, t := range vt.traces {
		if t.Exit != "return" || len(t.Ret) == 0 || t.Ret[0] == succ {
			continue
		}
		n++
		e := func(a, op, b string) bool { return t.Entails(a, op, b) }
		leaderKnown := (e(vTransfer, "!=", "true") || e(vTransfer, "==", "false")) && e(vLeader, "!=", "0") && e(vReqSrc, "!=", vLeader)
		stale := e(vReqTerm, "<", vTerm)
		voted := e(vReqTerm, "<=", vTerm) && e(vVoted, "!=", "0") && e(vVoted, "!=", vReqSrc)
		behind := e(vLLT, ">", vReqLLT) || (e(vLLT, "==", vReqLLT) && e(vLLI, ">", vReqLLI))
		h.C.Check(rule, pathKey(t), leaderKnown || stale || voted || behind, t.ExitPos,
			fmt.Sprintf("the vote is refused (%s) on a path where none of the protocol's reasons holds [leader known=%v, stale term=%v, voted for another=%v, candidate's log behind=%v]", t.Ret[0], leaderKnown, stale, voted, behind))
	}
	h.C.Floor(rule+" (refusing paths)", n, 4)
}
