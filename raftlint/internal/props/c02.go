package props

import "raftlint/internal/core"

func init() {
	register(&Property{ID: "C02", Run: runC02, Assumptions: commonAssumptions,
		Explanation: "Structural necessary conditions of 'committed entries are never lost': the up-to-date check on every vote-granting path (E3), the leader commit rule (only majorityMatchIndex, only beyond startIndex, majority over voters of the latest configuration), the follower commit rule (canCommit summary and its call sites), truncation only at a proven conflict and never by a leader, configuration changes gated on a committed previous configuration. The leader-completeness induction over histories is not decided."})
}

func runC02(c *core.Ctx) {
	h := newH(c)
	h.assertIdiom("C02.idiom assert-panics")
	vt := h.runVoteHandler()
	if h.voteSanity("C02.vote-engine", vt) {
		c.Clause("C02.1 a newly recorded vote implies the candidate's log is at least as up-to-date (E3)")
		h.voteUpToDate("C02.1 up-to-date-check", vt)
	}
	// the check compares against the cached last index/term: the cache follows every log mutation
	h.storageCacheCoherence("C02.1b storage-cache")
	// a vote counts only in the election it was cast in (otherwise a node becomes leader without the quorum that ran the up-to-date check)
	h.leaderOnlyByMajority("C02.1c votes-of-this-election")
	h.candidateReleaseRetiresChannel("C02.1d stale-replies-not-counted")
	c.Clause("C02.2 leader commit rule: only onMajorityCommit, value of majorityMatchIndex, v>commitIndex && v>=startIndex, startIndex=lastLogIndex+1 taken before the no-op")
	h.leaderCommitRule("C02.2 leader-commit")
	c.Clause("C02.3 majority computed over voters of the latest configuration; quorum element of the descending order; single-voter shortcut guarded")
	h.majorityOverVoters("C02.3 majority")
	h.quorumArithmetic("C02.3 quorum-arith")
	c.Clause("C02.4 follower commits only what canCommit allows: ldrCommitIndex>=index, entry term == leader term, index>commitIndex")
	h.canCommitSummary("C02.4a canCommit-summary")
	h.followerCommitSites("C02.4b follower-commit-sites")
	c.Clause("C02.5 truncation only at a proven conflict, above the snapshot, by a follower; log reset only on snapshot installation")
	h.truncationOnlyAtConflict("C02.5 truncation")
	h.entrySkipAndKeep("C02.5b skip-and-keep")
	c.Clause("C02.5c the match index the commit rule counts rises only by what a success reply acknowledged for the request it answers (a follower's reported last index says nothing about whose entries it holds)")
	h.matchIndexOnlyOnSuccess("C02.5c matchIndex")
	c.Clause("C02.6 a new configuration is appended only when the previous one is committed and an own-term entry is committed")
	h.configChangeGates("C02.6 config-gates")
	c.Clause("C02.7 what the up-to-date check compares after a restart is the last entry or the snapshot label: the latest snapshot's term is loaded with its index, before storage derives lastLogTerm from it")
	h.snapshotOrder("C02.7 snapshot-order")
	h.onlyWriters("C02.7b who-may-write", "raft:snapshots.term", "(*snapshotSink).done", "openSnapshots")
	c.Clause("C02.8 the leader's own copy of an entry is flushed before the leader counts the entry committed")
	h.leaderFlushBeforeAdvance("C02.8 leader-flush")
	h.clearLogResets("C02.5c clearLog-resets")
	h.failedConnNotReused("C02.9 failed-conn-not-reused")
}
