package props

import (
	"fmt"
	"strings"

	"golang.org/x/tools/go/ssa"

	"raftlint/internal/core"
)

// Restart-side obligations: openStorage rebuilds the cache and the configurations;
// Serve restores the FSM before it trusts the snapshot index (C03, C08.5, C10, C12, C19).

func (h H) openStorageRebuild(rule string) {
	fn := h.fn("raft:openStorage")
	fi := h.P.Info(fn)
	cfgT := h.constStr("raft:entryConfig")
	dec := h.fn("raft:(*Config).decode")
	ge := h.fn("raft:(*storage).getEntry")
	// the scan: entries are fetched at a counter that starts at lastLogIndex, decreases by one and stays above snaps.index
	nGet := 0
	for k, c := range h.P.CallsTo(fn, ge) {
		nGet++
		idx := h.arg(c, 1)
		site := h.site(fn, ge, k)
		okCounter := idx.Op == "phi" && len(idx.Args) == 2 && strings.HasSuffix(idx.Args[0].String(), ".lastLogIndex") && strings.HasSuffix(idx.Args[1].String(), " - 1)")
		h.C.Check(rule+" scan-newest-first", site, okCounter, h.pos(c), "configurations must be searched from the last log entry downwards; index expression: "+idx.String())
		r := fi.MustCross(c, func(a core.Atom) bool {
			return a.Op == "<" && strings.HasSuffix(a.L, ".snaps.index") && a.R == idx.String() || a.Op == "<" && strings.HasPrefix(a.L, "(*snapshots).latest") && a.R == idx.String()
		})
		h.C.Check(rule+" scan-above-snapshot", site, r.OK, h.pos(c), "the scan must stop at the snapshot index: "+r.Witness)
	}
	h.C.Floor(rule+" (getEntry in openStorage)", nGet, 1)
	// the newest configuration entry becomes Latest, the next one Committed
	var latestDec, committedDec ssa.CallInstruction
	for _, c := range h.P.CallsTo(fn, dec) {
		switch {
		case strings.HasSuffix(h.argStr(c, 0), ".configs.Latest"):
			latestDec = c
		case strings.HasSuffix(h.argStr(c, 0), ".configs.Committed"):
			committedDec = c
		}
	}
	if !h.C.Check(rule+" decode-sites", "openStorage Config.decode", latestDec != nil && committedDec != nil, h.fpos(fn), "openStorage must decode configuration entries into configs.Latest and configs.Committed") {
		return
	}
	for _, c := range []ssa.CallInstruction{latestDec, committedDec} {
		e := h.argStr(c, 1)
		r := fi.MustCrossAtom(c, core.MkAtom(e+".typ", "==", cfgT))
		h.C.Check(rule+" only-config-entries", "openStorage decode into "+h.argStr(c, 0), r.OK, h.pos(c), "a non-configuration entry can be decoded as configuration: "+r.Witness)
	}
	isFirst := func(a core.Atom) bool {
		return a.Op == "==" && (a.L == "2" && strings.HasPrefix(a.R, "phi(2, ") || a.R == "2" && strings.HasPrefix(a.L, "phi("))
	}
	r1 := fi.MustCross(latestDec, isFirst)
	r2 := fi.MustCross(committedDec, func(a core.Atom) bool { return isFirst(a.Negate()) })
	h.C.Check(rule+" newest-is-latest", "openStorage decode order", r1.OK && r2.OK, h.pos(latestDec), "the first (newest) configuration entry found must become Latest and only a later (older) one Committed")
	// fallbacks to the snapshot's configuration
	nFallback := 0
	for _, fld := range []string{"raft:Configs.Latest", "raft:Configs.Committed"} {
		for _, s := range h.storesIn(fn, fld) {
			v := fi.Sym(storeVal(s.Instr)).String()
			if !strings.HasSuffix(v, "meta.config") {
				h.C.Check(rule+" fallback-source", "openStorage store "+fld[5:], false, h.pos(s.Instr), "configuration fallback must be the snapshot's configuration; found "+v)
				continue
			}
			nFallback++
			want := "2"
			if strings.HasSuffix(fld, "Committed") {
				want = "1"
			}
			r := fi.MustCross(s.Instr, func(a core.Atom) bool { return a.Op == "==" && (a.R == want || a.L == want) })
			h.C.Check(rule+" fallback-only-if-missing", "openStorage store "+fld[5:], r.OK, h.pos(s.Instr), fmt.Sprintf("the snapshot's configuration may overwrite a newer configuration entry found in the log (need == %s not tested)", want))
		}
	}
	h.C.Floor(rule+" (snapshot-configuration fallbacks)", nFallback, 2)
	// the snapshot meta used is that of the latest snapshot, read after snapshots were opened
	meta := h.fn("raft:(*snapshots).meta")
	h.C.Check(rule+" meta-source", "openStorage snaps.meta", len(h.P.CallsTo(fn, meta)) == 1, h.fpos(fn), "openStorage must read the latest snapshot's meta once")
	// last index/term: snapshot's when the log is empty, else the last entry's (asserted to sit at LastIndex)
	for _, s := range h.storesIn(fn, "raft:storage.lastLogIndex") {
		v := fi.Sym(storeVal(s.Instr)).String()
		ok := strings.HasSuffix(v, ".snaps.index") || strings.HasPrefix(v, "(*snapshots).latest") || strings.HasSuffix(v, ".index") && strings.HasPrefix(v, "new:entry")
		h.C.Check(rule+" last-index-source", "openStorage store lastLogIndex := "+v, ok, h.pos(s.Instr), "lastLogIndex must be rebuilt from the snapshot or the last log entry")
		if strings.HasPrefix(v, "new:entry") {
			e, _ := entryOf(v, "index")
			h.gate(rule+" last-entry-position", "openStorage store lastLogIndex := "+v, s.Instr, core.MkAtom(e+".index", "==", "(*log.Log).LastIndex(local:s.log)"))
			// the log may end before the snapshot (crash between publishing a snapshot and discarding the log it
			// replaces): its last entry must not be taken as the node's last index then
			reset := h.fn("log:(*Log).Reset")
			r := fi.MustCrossOrPass(s.Instr, func(a core.Atom) bool {
				for _, f := range snapIndexForms("local:s") {
					for _, l := range []string{"(*log.Log).LastIndex(local:s.log)", e + ".index"} {
						if a.Implies(core.MkAtom(l, ">=", f)) {
							return true
						}
					}
				}
				return false
			}, nil, func(in ssa.Instruction) bool { return h.P.IsCallTo(in, reset) })
			h.C.Check(rule+" log-not-behind-snapshot", "openStorage store lastLogIndex := "+v, r.OK, h.pos(s.Instr), "on restart the last log entry is adopted as the node's last index even when it lies below the latest snapshot index (a crash between snapshotSink.done and clearLog leaves exactly that state): the log is then not contiguous with the snapshot and the next append trips appendEntry's assertion")
		}
	}
}

// servePrologue: Serve restores the FSM from the latest snapshot and only then
// adopts its index as commit index; a failed restore ends Serve.
func (h H) servePrologue(rule string) {
	sv := h.fn("raft:(*Raft).Serve")
	fi := h.P.Info(sv)
	n := 0
	for _, s := range h.storesIn(sv, "raft:Raft.commitIndex") {
		n++
		r := fi.MustCross(s.Instr, func(a core.Atom) bool { return a.Op == "==" && a.R == "nil" && a.L == "recv(Raft.fsmRestoredCh)" })
		h.C.Check(rule+" restore-succeeded", "(*Raft).Serve store commitIndex", r.OK, h.pos(s.Instr), "the snapshot index is adopted as commit index although the FSM restore may have failed: "+r.Witness)
		pre := fi.PrecededBy(s.Instr, func(in ssa.Instruction) bool {
			snd, ok := in.(*ssa.Send)
			return ok && strings.HasSuffix(fi.Sym(snd.Chan).String(), "fsm.ch") && strings.Contains(fi.Sym(snd.X).String(), "fsmRestoreReq")
		})
		h.C.Check(rule+" restore-requested", "(*Raft).Serve store commitIndex", pre.OK, h.pos(s.Instr), "commit index set from the snapshot without asking the FSM to restore it")
	}
	h.C.Floor(rule+" (commitIndex stores in Serve)", n, 1)
	// the FSM goroutine is running before the restore request is sent
	var fsmGo *ssa.Go
	run := h.fn("raft:(*stateMachine).runLoop")
	for _, g := range h.P.GoSites(sv) {
		for _, tgt := range h.P.CalleesOf(g) {
			if len(h.P.CallsTo(tgt, run)) > 0 {
				fsmGo = g
			}
		}
	}
	core.Instrs(sv, func(in ssa.Instruction) {
		if snd, ok := in.(*ssa.Send); ok && strings.HasSuffix(fi.Sym(snd.Chan).String(), "fsm.ch") {
			h.C.Check(rule+" fsm-started-first", "(*Raft).Serve send fsmRestoreReq", fsmGo != nil && core.Dominates(fsmGo, snd), h.pos(snd), "the restore request is sent before the FSM goroutine exists")
		}
	})
}
