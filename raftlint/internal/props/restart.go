package props

import (
	"fmt"
	"strings"

	"golang.org/x/tools/go/ssa"

	"raftlint/internal/core"
)

// Restart-side obligations: openStorage rebuilds the cache and the configurations;
// Serve restores the FSM before it trusts the snapshot index (C03, C08.5, C10, C12, C19).

func (h H) openStorageRebuild(rule string) {
	fn := h.fn("raft:openStorage")
	fi := h.P.Info(fn)
	cfgT := h.constStr("raft:entryConfig")
	dec := h.fn("raft:(*Config).decode")
	ge := h.fn("raft:(*storage).getEntry")
	// the scan: entries are fetched at a counter that starts at lastLogIndex, decreases by one and stays above snaps.index
	nGet := 0
	for k, c := range h.P.CallsTo(fn, ge) {
		nGet++
		idx := h.arg(c, 1)
		site := h.site(fn, ge, k)
		okCounter := idx.Op == "phi" && len(idx.Args) == 2 && strings.HasSuffix(idx.Args[0].String(), ".lastLogIndex") && strings.HasSuffix(idx.Args[1].String(), " - 1)")
		h.C.Check(rule+" scan-newest-first", site, okCounter, h.pos(c), "configurations must be searched from the last log entry downwards; index expression: "+idx.String())
		r := fi.MustCross(c, func(a core.Atom) bool {
			return a.Op == "<" && strings.HasSuffix(a.L, ".snaps.index") && a.R == idx.String() || a.Op == "<" && strings.HasPrefix(a.L, "(*snapshots).latest") && a.R == idx.String()
		})
		h.C.Check(rule+" scan-above-snapshot", site, r.OK, h.pos(c), "the scan must stop at the snapshot index: "+r.Witness)
	}
	h.C.Floor(rule+" (getEntry in openStorage)", nGet, 1)
	// the newest configuration entry becomes Latest, the next one Committed
	var latestDec, committedDec ssa.CallInstruction
	for _, c := range h.P.CallsTo(fn, dec) {
		switch {
		case strings.HasSuffix(h.argStr(c, 0), ".configs.Latest"):
			latestDec = c
		case strings.HasSuffix(h.argStr(c, 0), ".configs.Committed"):
			committedDec = c
		}
	}
	if !h.C.Check(rule+" decode-sites", "openStorage Config.decode", latestDec != nil && committedDec != nil, h.fpos(fn), "openStorage must decode configuration entries into configs.Latest and configs.Committed") {
		return
	}
	for _, c := range []ssa.CallInstruction{latestDec, committedDec} {
		e := h.argStr(c, 1)
		r := fi.MustCrossAtom(c, core.MkAtom(e+".typ", "==", cfgT))
		h.C.Check(rule+" only-config-entries", "openStorage decode into "+h.argStr(c, 0), r.OK, h.pos(c), "a non-configuration entry can be decoded as configuration: "+r.Witness)
	}
	isFirst := func(a core.Atom) bool {
		return a.Op == "==" && (a.L == "2" && strings.HasPrefix(a.R, "phi(2, ") || a.R == "2" && strings.HasPrefix(a.L, "phi("))
	}
	r1 := fi.MustCross(latestDec, isFirst)
	r2 := fi.MustCross(committedDec, func(a core.Atom) bool { return isFirst(a.Negate()) })
	h.C.Check(rule+" newest-is-latest", "openStorage decode order", r1.OK && r2.OK, h.pos(latestDec), "the first (newest) configuration entry found must become Latest and only a later (older) one Committed")
	// fallbacks to the snapshot's configuration
	nFallback := 0
	for _, fld := range []string{"raft:Configs.Latest", "raft:Configs.Committed"} {
		for _, s := range h.storesIn(fn, fld) {
			v := fi.Sym(storeVal(s.Instr)).String()
			if !strings.HasSuffix(v, "meta.config") && !(strings.HasPrefix(v, "(*snapshots).meta(") && strings.HasSuffix(v, ".config")) {
				h.C.Check(rule+" fallback-source", "openStorage store "+fld[5:], false, h.pos(s.Instr), "configuration fallback must be the snapshot's configuration; found "+v)
				continue
			}
			nFallback++
			want := "2"
			if strings.HasSuffix(fld, "Committed") {
				want = "1"
			}
			r := fi.MustCross(s.Instr, func(a core.Atom) bool { return a.Op == "==" && (a.R == want || a.L == want) })
			h.C.Check(rule+" fallback-only-if-missing", "openStorage store "+fld[5:], r.OK, h.pos(s.Instr), fmt.Sprintf("the snapshot's configuration may overwrite a newer configuration entry found in the log (need == %s not tested)", want))
		}
	}
	h.C.Floor(rule+" (snapshot-configuration fallbacks)", nFallback, 2)
	// the snapshot meta used is that of the latest snapshot, read after snapshots were opened
	meta := h.fn("raft:(*snapshots).meta")
	h.C.Check(rule+" meta-source", "openStorage snaps.meta", len(h.P.CallsTo(fn, meta)) == 1, h.fpos(fn), "openStorage must read the latest snapshot's meta once")
	// last index/term: snapshot's when the log is empty, else the last entry's (asserted to sit at LastIndex)
	for _, s := range h.storesIn(fn, "raft:storage.lastLogIndex") {
		v := fi.Sym(storeVal(s.Instr)).String()
		ok := strings.HasSuffix(v, ".snaps.index") || strings.HasPrefix(v, "(*snapshots).latest") || strings.HasSuffix(v, ".index") && strings.HasPrefix(v, "new:entry")
		h.C.Check(rule+" last-index-source", "openStorage store lastLogIndex := "+v, ok, h.pos(s.Instr), "lastLogIndex must be rebuilt from the snapshot or the last log entry")
		if strings.HasPrefix(v, "new:entry") {
			e, _ := entryOf(v, "index")
			// the storage object being built: whatever the store's address is rooted in
			stg := strings.TrimSuffix(fi.Sym(s.Instr.(*ssa.Store).Addr).String(), ".lastLogIndex")
			h.gate(rule+" last-entry-position", "openStorage store lastLogIndex := "+v, s.Instr, core.MkAtom(e+".index", "==", "(*log.Log).LastIndex("+stg+".log)"))
			// the log may end before the snapshot (crash between publishing a snapshot and discarding the log it
			// replaces): its last entry must not be taken as the node's last index then
			reset := h.fn("log:(*Log).Reset")
			r := fi.MustCrossOrPass(s.Instr, func(a core.Atom) bool {
				for _, f := range snapIndexForms(stg) {
					for _, l := range []string{"(*log.Log).LastIndex(" + stg + ".log)", e + ".index"} {
						if a.Implies(core.MkAtom(l, ">=", f)) {
							return true
						}
					}
					// a log that contains the snapshot index does not end before it
					if a.Implies(core.BoolAtom("(*log.Log).Contains("+stg+".log, "+f+")", true)) {
						return true
					}
				}
				return false
			}, nil, func(in ssa.Instruction) bool { return h.P.IsCallTo(in, reset) })
			// …nor may it be kept when it holds, at the snapshot index, another
			// term than the snapshot's: the install handler had decided to discard
			// such a log and died before doing so (F27). The tail is adopted only
			// if the log does not contain the snapshot index, or the terms agree
			r2 := fi.MustCrossOrPass(s.Instr, func(a core.Atom) bool {
				for _, f := range snapIndexForms(stg) {
					if a.Implies(core.BoolAtom("(*log.Log).Contains("+stg+".log, "+f+")", false)) {
						return true
					}
					if a.Implies(core.MkAtom("(*storage).getEntryTerm("+stg+", "+f+")#0", "==", stg+".snaps.term")) {
						return true
					}
				}
				return false
			}, nil, func(in ssa.Instruction) bool { return h.P.IsCallTo(in, reset) })
			// …nor when it starts after the snapshot (killed inside Log.Reset,
			// which deletes the segments first to last): the entries between
			// the snapshot index and the log's first one are nowhere (F29)
			r3 := fi.MustCrossOrPass(s.Instr, func(a core.Atom) bool {
				for _, f := range snapIndexForms(stg) {
					if a.Implies(core.MkAtom("(*log.Log).PrevIndex("+stg+".log)", "<=", f)) {
						return true
					}
					if a.Implies(core.BoolAtom("(*log.Log).Contains("+stg+".log, "+f+")", true)) {
						return true
					}
				}
				return false
			}, nil, func(in ssa.Instruction) bool { return h.P.IsCallTo(in, reset) })
			h.C.Check(rule+" log-contiguous-with-snapshot", "openStorage store lastLogIndex := "+v, r3.OK, h.pos(s.Instr), "on restart a log that starts after the latest snapshot's index is kept (a process killed inside Log.Reset leaves such a suffix): the entries in between exist nowhere, openStorage fails reading them or the next append trips an assertion: "+r3.Witness)
			h.C.Check(rule+" log-agrees-with-snapshot", "openStorage store lastLogIndex := "+v, r2.OK, h.pos(s.Instr), "on restart a log that contains the latest snapshot's index is kept without comparing its term there with the snapshot's (a crash between snapshotSink.done and clearLog in the install handler leaves a log whose entries up to the snapshot index conflict with the committed ones; they stay in the log and a later leadership serves them to followers): "+r2.Witness)
			h.C.Check(rule+" log-not-behind-snapshot", "openStorage store lastLogIndex := "+v, r.OK, h.pos(s.Instr), "on restart the last log entry is adopted as the node's last index even when it lies below the latest snapshot index (a crash between snapshotSink.done and clearLog leaves exactly that state): the log is then not contiguous with the snapshot and the next append trips appendEntry's assertion")
		}
	}
}

// servePrologue: Serve restores the FSM from the latest snapshot and only then
// adopts its index as commit index; a failed restore ends Serve.
func (h H) servePrologue(rule string) {
	sv := h.fn("raft:(*Raft).Serve")
	fi := h.P.Info(sv)
	n := 0
	for _, s := range h.storesIn(sv, "raft:Raft.commitIndex") {
		n++
		r := fi.MustCross(s.Instr, func(a core.Atom) bool { return a.Op == "==" && a.R == "nil" && a.L == "recv(Raft.fsmRestoredCh)" })
		h.C.Check(rule+" restore-succeeded", "(*Raft).Serve store commitIndex", r.OK, h.pos(s.Instr), "the snapshot index is adopted as commit index although the FSM restore may have failed: "+r.Witness)
		pre := fi.PrecededBy(s.Instr, func(in ssa.Instruction) bool {
			snd, ok := in.(*ssa.Send)
			return ok && strings.HasSuffix(fi.Sym(snd.Chan).String(), "fsm.ch") && strings.Contains(fi.Sym(snd.X).String(), "fsmRestoreReq")
		})
		h.C.Check(rule+" restore-requested", "(*Raft).Serve store commitIndex", pre.OK, h.pos(s.Instr), "commit index set from the snapshot without asking the FSM to restore it")
	}
	h.C.Floor(rule+" (commitIndex stores in Serve)", n, 1)
	// the FSM goroutine is running before the restore request is sent
	var fsmGo *ssa.Go
	run := h.fn("raft:(*stateMachine).runLoop")
	for _, g := range h.P.GoSites(sv) {
		for _, tgt := range h.P.CalleesOf(g) {
			if len(h.P.CallsTo(tgt, run)) > 0 {
				fsmGo = g
			}
		}
	}
	core.Instrs(sv, func(in ssa.Instruction) {
		if snd, ok := in.(*ssa.Send); ok && strings.HasSuffix(fi.Sym(snd.Chan).String(), "fsm.ch") {
			h.C.Check(rule+" fsm-started-first", "(*Raft).Serve send fsmRestoreReq", fsmGo != nil && core.Dominates(fsmGo, snd), h.pos(snd), "the restore request is sent before the FSM goroutine exists")
		}
	})
}

// openStorageLoads (C05.7 / C10.9 / C20.4): what was persisted is what a
// restarted node starts from. On every path on which openStorage succeeds it
// has loaded identity (cid, nid) from the identity value file, (term,
// votedFor) from the term value file, and the last index/term from the
// snapshot and — when the log is not empty — from the last log entry. A load
// that is skipped leaves the zero value: a forgotten vote or term.
func (h H) openStorageLoads(rule string, which ...string) {
	fn := h.fn("raft:openStorage")
	fi := h.P.Info(fn)
	// success returns: error result is the nil constant
	var succ []*ssa.Return
	for _, r := range core.Returns(fn) {
		if isNilConst(retOperand(r, 1)) || h.retVal(r, 1).String() == "nil" {
			succ = append(succ, r)
		}
	}
	if !h.C.Check(rule+" success-returns", "openStorage", len(succ) >= 1, h.fpos(fn), "no successful return found") {
		return
	}
	type want struct {
		field, valSuffix, valPrefix string
	}
	table := map[string][]want{
		"identity": {{".cid", ".idVal)#0", "(*value).get("}, {".nid", ".idVal)#1", "(*value).get("}},
		"term":     {{".term", ".termVal)#0", "(*value).get("}, {".votedFor", ".termVal)#1", "(*value).get("}},
		"last":     {{".lastLogIndex", ".snaps.index", ""}, {".lastLogTerm", ".snaps.term", ""}},
	}
	for _, w := range which {
		for _, t := range table[w] {
			var hits []ssa.Instruction
			core.Instrs(fn, func(in ssa.Instruction) {
				st, ok := in.(*ssa.Store)
				if !ok {
					return
				}
				a, v := fi.Sym(st.Addr).String(), fi.Sym(st.Val).String()
				if strings.HasSuffix(a, t.field) && !strings.Contains(strings.TrimSuffix(a, t.field), ".") && strings.HasSuffix(v, t.valSuffix) && strings.HasPrefix(v, t.valPrefix) {
					hits = append(hits, in)
				} else if w != "last" && strings.HasSuffix(a, t.field) && !strings.Contains(strings.TrimSuffix(a, t.field), ".") {
					// identity, term and vote are what the files say, nothing else:
					// a second assignment (a vote "forgotten" on restart) replaces
					// what was acknowledged before the restart
					h.C.Check(rule+" only-what-was-persisted", "openStorage store storage"+t.field+" := "+core.Short(v, 80), false, h.pos(in), "openStorage assigns storage"+t.field+" a value other than the persisted one ("+t.valPrefix+"…"+t.valSuffix+"): the node restarts with a term, vote or identity it did not acknowledge")
				}
				// latestIndex()/latest() accessor forms of the snapshot label
				if w == "last" && strings.HasSuffix(a, t.field) && strings.HasPrefix(v, "(*snapshots).latest") {
					hits = append(hits, in)
				}
			})
			ok := len(hits) > 0
			for _, r := range succ {
				dom := false
				for _, s := range hits {
					if core.Dominates(s, r) {
						dom = true
					}
				}
				if !dom {
					ok = false
				}
			}
			h.C.Check(rule+" loaded-before-success", "openStorage storage"+t.field, ok, h.fpos(fn), "openStorage can succeed without loading storage"+t.field+" from what was persisted ("+t.valPrefix+"…"+t.valSuffix+")")
		}
		if w == "last" {
			// and from the last log entry when there is one
			n := 0
			core.Instrs(fn, func(in ssa.Instruction) {
				st, ok := in.(*ssa.Store)
				if !ok {
					return
				}
				a, v := fi.Sym(st.Addr).String(), fi.Sym(st.Val).String()
				if (strings.HasSuffix(a, ".lastLogIndex") && strings.HasSuffix(v, ".index") || strings.HasSuffix(a, ".lastLogTerm") && strings.HasSuffix(v, ".term")) && strings.HasPrefix(v, "new:entry") {
					n++
				}
			})
			h.C.Check(rule+" last-entry-adopted", "openStorage last entry", n == 2, h.fpos(fn), fmt.Sprintf("a non-empty log's last entry must give lastLogIndex and lastLogTerm (found %d of 2 stores)", n))
			for k, r := range succ {
				res := fi.MustCrossOrPass(r, func(a core.Atom) bool {
					return a.Op == "<=" && strings.HasPrefix(a.L, "(*log.Log).Count(") && a.R == "0" || a.Op == "==" && strings.HasPrefix(a.L, "(*log.Log).Count(") && a.R == "0"
				}, nil, func(in ssa.Instruction) bool {
					st, ok := in.(*ssa.Store)
					return ok && strings.HasSuffix(fi.Sym(st.Addr).String(), ".lastLogIndex") && strings.HasPrefix(fi.Sym(st.Val).String(), "new:entry")
				})
				h.C.Check(rule+" last-entry-adopted", fmt.Sprintf("openStorage success-return#%d", k+1), res.OK, h.pos(r), "openStorage succeeds with a non-empty log whose last entry was not adopted as the node's last index: "+res.Witness)
			}
		}
	}
}

// settersSkipJustified (C05.8): setTerm / setVotedFor leave the value file
// alone only when nothing would change.
func (h H) settersSkipJustified(rule string) {
	set := h.fn("raft:(*value).set")
	for _, s := range []struct {
		spec  string
		atoms []core.Atom
	}{
		{"raft:(*storage).setTerm", []core.Atom{core.MkAtom("storage.term", "==", "$1")}},
		{"raft:(*storage).setVotedFor", []core.Atom{core.MkAtom("$1", "==", "storage.term"), core.MkAtom("$2", "==", "storage.votedFor")}},
	} {
		fn := h.fn(s.spec)
		fi := h.P.Info(fn)
		// the persist step: value.set, or the test hook that stands in front of
		// it (its error panics; a nil result is followed by value.set)
		persist := func(in ssa.Instruction) bool {
			if h.P.IsCallTo(in, set) {
				return true
			}
			if c, ok := in.(*ssa.Call); ok && strings.HasPrefix(fi.Sym(c.Common().Value).String(), "global:grantingVote") {
				return true
			}
			return false
		}
		for k, r := range core.Returns(fn) {
			passes := fi.MustCrossOrPass(r, func(core.Atom) bool { return false }, nil, persist).OK
			if passes {
				h.C.Check(rule, fmt.Sprintf("%s return#%d", h.name(fn), k+1), true, h.pos(r), "persists")
				continue
			}
			ok := true
			for _, a := range s.atoms {
				want := a
				res := fi.MustCrossOrPass(r, func(x core.Atom) bool { return x.Implies(want) }, nil, persist)
				if !res.OK {
					ok = false
				}
			}
			h.C.Check(rule, fmt.Sprintf("%s return#%d", h.name(fn), k+1), ok, h.pos(r), "the setter can return without persisting although the requested (term, vote) differs from the stored pair")
		}
	}
}
