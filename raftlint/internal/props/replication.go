package props

import (
	"fmt"
	"go/token"
	"go/types"
	"strings"

	"golang.org/x/tools/go/ssa"

	"raftlint/internal/core"
)

// Replication-side obligations (C04.4, C06.4, C09.4).

// requestsFromOwnLog (C04.4): append requests are built from the sender's log view.
func (h H) requestsFromOwnLog(rule string) {
	fn := h.fn("raft:(*replication).writeAppendEntriesReq")
	sim := h.simAll()
	ts := sim.Run(fn)
	if sim.Trunc {
		h.C.Undecided(rule, h.name(fn), h.fpos(fn), "not loop-free")
		return
	}
	nOK, nEntries := 0, 0
	for _, t := range ts {
		if t.Exit != "return" || len(t.Ret) != 1 {
			continue
		}
		iW := evIndex(t, isCall("(*conn).writeReq"))
		if iW < 0 {
			continue // error before anything was sent
		}
		nOK++
		key := h.name(fn) + " path[" + t.Describe() + "]"
		w := t.Events[iW]
		// prevLogIndex := nextIndex-1, stored before the request is written
		iPI := evIndex(t, isStoreTo("appendReq.prevLogIndex"))
		okPI := iPI >= 0 && iPI < iW && t.Events[iPI].Args[1] == "(replication.nextIndex - 1)"
		// prevLogTerm: 0 iff prevLogIndex == 0; snapshot term iff prevLogIndex == snapshot index; else term of own entry at prevLogIndex
		okPT := false
		var why string
		for i := iW - 1; i >= 0; i-- {
			e := t.Events[i]
			if e.Callee != "store" || e.Args[0] != "appendReq.prevLogTerm" {
				continue
			}
			v := e.Args[1]
			switch {
			case v == "0":
				okPT = t.EntailsAt(e, "(replication.nextIndex - 1)", "==", "0")
				why = "prevLogTerm=0 requires prevLogIndex==0"
			case strings.HasPrefix(v, "ret:(*snapshots).latest"):
				iL := evIndex(t, isCall("(*snapshots).latest"))
				okPT = iL >= 0 && len(t.Events[iL].Results) == 2 && v == t.Events[iL].Results[1] && t.EntailsAt(e, t.Events[iL].Results[0], "==", "(replication.nextIndex - 1)")
				why = "snapshot term used without prevLogIndex == snapshot index"
			case strings.HasPrefix(v, "ret:(*replication).getEntryTerm"):
				iG := evIndex(t, isCall("(*replication).getEntryTerm"))
				okPT = iG >= 0 && len(t.Events[iG].Results) == 2 && v == t.Events[iG].Results[0] && t.Events[iG].Args[1] == "(replication.nextIndex - 1)" && t.EntailsAt(e, t.Events[iG].Results[1], "==", "nil")
				why = "entry term must come from getEntryTerm(prevLogIndex) without error"
			default:
				why = "unrecognised source of prevLogTerm: " + v
			}
			break
		}
		h.C.Check(rule+" prev-coordinates", key, okPI && okPT, w.Pos, fmt.Sprintf("prevLogIndex=nextIndex-1 ok=%v; prevLogTerm ok=%v (%s)", okPI, okPT, why))
		// entries
		iE := evIndex(t, isCall("(*replication).writeEntriesTo"))
		iN := evIndex(t, isStoreTo("replication.nextIndex"))
		if iE >= 0 {
			nEntries++
			e := t.Events[iE]
			okE := iE > iW && e.Args[2] == "replication.nextIndex" && t.EntailsAt(w, w.Results[0], "==", "nil") || (iE > iW && e.Args[2] == "replication.nextIndex")
			// number of entries written is the number announced in the request
			numStore := ""
			for i := iW - 1; i >= 0; i-- {
				if t.Events[i].Callee == "store" && t.Events[i].Args[0] == "appendReq.numEntries" {
					numStore = t.Events[i].Args[1]
					break
				}
			}
			okN := e.Args[3] == numStore
			okAdv := true
			if t.Entails(t.Ret[0], "==", "nil") {
				okAdv = iN > iE && t.Events[iN].Args[1] == "(replication.nextIndex + "+numStore+")"
			} else {
				okAdv = iN < 0
			}
			h.C.Check(rule+" entries-from-own-log", key, okE && okN && okAdv, e.Pos,
				fmt.Sprintf("entries must be log[nextIndex .. nextIndex+numEntries) of the replication's log view and nextIndex advance by exactly numEntries after a successful write: from=nextIndex %v, count=announced %v, advance %v", okE, okN, okAdv))
		} else {
			h.C.Check(rule+" no-silent-advance", key, iN < 0, w.Pos, "nextIndex advanced without entries being written")
		}
	}
	// the entry just below the first one kept may have been compacted into the snapshot: its term must then
	// come from the snapshot, and the log is consulted only when prevLogIndex is neither 0 nor the snapshot index
	nSnap := 0
	for _, t := range ts {
		iG := evIndex(t, isCall("(*replication).getEntryTerm"))
		iL := evIndex(t, isCall("(*snapshots).latest"))
		if iG >= 0 {
			g := t.Events[iG]
			ok := iL >= 0 && iL < iG && len(t.Events[iL].Results) == 2 &&
				t.EntailsAt(g, t.Events[iL].Results[0], "!=", "(replication.nextIndex - 1)") && t.EntailsAt(g, "(replication.nextIndex - 1)", "!=", "0")
			h.C.Check(rule+" snapshot-boundary", h.name(fn)+" path["+t.Describe()+"]", ok, g.Pos, "the log is asked for the term at prevLogIndex although that index may be exactly the snapshot index (compacted): the follower could never be served again")
		}
		for _, e := range t.Events {
			if e.Callee == "store" && e.Args[0] == "appendReq.prevLogTerm" && strings.HasPrefix(e.Args[1], "ret:(*snapshots).latest") {
				nSnap++
			}
		}
	}
	h.C.Floor(rule+" (paths taking prevLogTerm from the snapshot)", nSnap, 1)
	h.C.Floor(rule+" (request-writing paths)", nOK, 2)
	h.C.Floor(rule+" (entry-writing paths)", nEntries, 1)
	// writeEntriesTo reads GetN(from, n) of r.log and writes exactly those buffers
	we := h.fn("raft:(*replication).writeEntriesTo")
	wfi := h.P.Info(we)
	getN := h.fn("log:(*Log).GetN")
	calls := h.P.CallsTo(we, getN)
	ok := len(calls) == 1 && h.argStr(calls[0], 0) == "replication.log" && h.argStr(calls[0], 1) == "$2" && h.argStr(calls[0], 2) == "$3"
	h.C.Check(rule+" writeEntriesTo-source", "(*replication).writeEntriesTo", ok, h.fpos(we), "entries must be read with r.log.GetN(from, n)")
	_ = wfi
	// getEntryTerm reads r.log.Get(i) and decodes it
	ge := h.fn("raft:(*replication).getEntryTerm")
	get := h.fn("log:(*Log).Get")
	gc := h.P.CallsTo(ge, get)
	ok = len(gc) == 1 && h.argStr(gc[0], 0) == "replication.log" && h.argStr(gc[0], 1) == "$1"
	h.C.Check(rule+" getEntryTerm-source", "(*replication).getEntryTerm", ok, h.fpos(ge), "the term of the previous entry must be read from r.log.Get(i)")
	// the replication's log is only ever replaced by a leader-provided view
	h.onlyWriters(rule+" who-may-write", "raft:replication.log", "(*replication).onLeaderUpdate", "(*leader).addReplication")
}

// matchIndexOnlyOnSuccess (C06.4).
func (h H) matchIndexOnlyOnSuccess(rule string) {
	succ := h.constStr("raft:success")
	sites := h.onlyWriters(rule+" who-may-write", "raft:replication.matchIndex", "(*replication).onAppendEntriesResp", "(*replication).sendInstallSnapReq", "(*leader).addReplication")
	for _, s := range sites {
		fi := h.P.Info(s.Fn)
		name := h.name(s.Fn)
		val := fi.Sym(storeVal(s.Instr)).String()
		switch name {
		case "(*replication).onAppendEntriesResp":
			h.gate(rule+" success-only", name+" store matchIndex", s.Instr, core.MkAtom("appendResp.resp.result", "==", succ))
			h.C.Check(rule+" value", name+" store matchIndex", val == "$2", h.pos(s.Instr), "matchIndex must become the last index of the acknowledged request; found "+val)
			h.gate(rule+" monotone", name+" store matchIndex", s.Instr, core.MkAtom("$2", ">", "replication.matchIndex"))
		case "(*replication).sendInstallSnapReq":
			r := fi.MustCross(s.Instr, func(a core.Atom) bool {
				return a.Op == "==" && a.R == succ && strings.HasSuffix(a.L, ".resp.result")
			})
			h.C.Check(rule+" success-only", name+" store matchIndex", r.OK, h.pos(s.Instr), "matchIndex raised without a success reply to the snapshot: "+r.Witness)
			// the request's lastIndex, or the opened snapshot's meta.index it was filled from
			okVal := strings.HasSuffix(val, ".lastIndex") || strings.HasPrefix(val, "(*snapshots).open(") && strings.HasSuffix(val, ".meta.index")
			h.C.Check(rule+" value", name+" store matchIndex", okVal, h.pos(s.Instr), "matchIndex must become the snapshot's last index; found "+val)
		case "(*leader).addReplication":
			h.C.Check(rule+" initial", name+" store matchIndex", val == "0", h.pos(s.Instr), "a new replication must start with matchIndex 0; found "+val)
		}
	}
	// callers of onAppendEntriesResp pass the last index of the request the reply belongs to
	oar := h.fn("raft:(*replication).onAppendEntriesResp")
	rep := h.fn("raft:(*replication).replicate")
	n := 0
	for k, c := range h.callsDeep(rep, oar) {
		n++
		a := h.argStr(c, 2)
		ok := a == "(replication.nextIndex - 1)" || strings.HasSuffix(a, ".lastIndex")
		h.C.Check(rule+" request-last-index", h.site(rep, oar, k), ok, h.pos(c), "the index credited on success must be the last index of the acknowledged request; found "+a)
	}
	h.C.Floor(rule+" (onAppendEntriesResp calls)", n, 3)
	// pipeline results carry nextIndex-1 taken right after the request was written
	for _, cl := range h.P.Closures(rep) {
		cfi := h.P.Info(cl)
		core.Instrs(cl, func(in ssa.Instruction) {
			if st, ok := in.(*ssa.Store); ok {
				a := cfi.Sym(st.Addr).String()
				if strings.HasSuffix(a, ".lastIndex") && strings.Contains(a, "result") {
					v := cfi.Sym(st.Val).String()
					h.C.Check(rule+" pipeline-result-index", h.name(cl)+" result.lastIndex", v == "(replication.nextIndex - 1)" || v == "0", h.pos(st), "pipeline result must carry nextIndex-1 of the request just written; found "+v)
				}
			}
		})
	}
	// leader-side copy: only from a matchIndex update
	st := h.onlyWriters(rule+" who-may-write", "raft:replicationStatus.matchIndex", "(*leader).checkReplUpdates")
	for _, s := range st {
		fi := h.P.Info(s.Fn)
		r := fi.MustCross(s.Instr, func(a core.Atom) bool { return a.Op == "true" && strings.HasPrefix(a.L, "ok(assert[matchIndex](") })
		v := fi.Sym(storeVal(s.Instr)).String()
		h.C.Check(rule+" leader-copy", "(*leader).checkReplUpdates store status.matchIndex", r.OK && strings.HasSuffix(v, ".val"), h.pos(s.Instr), "the leader's view of a follower's match index must come from a matchIndex update")
	}
	// replication goroutine reports exactly its matchIndex
	for _, spec := range []string{"raft:(*replication).onAppendEntriesResp", "raft:(*replication).sendInstallSnapReq"} {
		fn := h.fn(spec)
		fi := h.P.Info(fn)
		core.Instrs(fn, func(in ssa.Instruction) {
			if s, ok := in.(*ssa.Store); ok && strings.HasPrefix(fi.Sym(s.Addr).String(), "new:matchIndex") {
				v := fi.Sym(s.Val).String()
				h.C.Check(rule+" reported-value", h.name(fn)+" matchIndex update", v == "replication.matchIndex", h.pos(s), "the match index reported to the leader must be the replication's own; found "+v)
			}
		})
	}
}

// probeBackoffProgress: on prevEntryNotFound/prevTermMismatch nextIndex becomes
// min(nextIndex-1, follower's lastLogIndex+1) — strictly smaller than before.
func (h H) probeBackoffProgress(rule string) {
	fn := h.fn("raft:(*replication).onAppendEntriesResp")
	fi := h.P.Info(fn)
	n := 0
	for _, s := range h.storesIn(fn, "raft:replication.nextIndex") {
		n++
		v := fi.Sym(storeVal(s.Instr))
		ok := false
		if v.Op == "call" && v.Name == "min" && len(v.Args) == 2 {
			for _, a := range v.Args {
				base, den, off, add, good := core.LinNorm(a)
				if good && base == "replication.nextIndex" && den == 1 && off == 0 && add <= -1 {
					ok = true
				}
			}
		}
		h.C.Check(rule, "(*replication).onAppendEntriesResp store nextIndex", ok, h.pos(s.Instr), "after a rejected probe nextIndex must strictly decrease (min(nextIndex-1, …)); found "+v.String()+": the same probe would be repeated forever")
		r := fi.MustCross(s.Instr, func(a core.Atom) bool {
			return a.Op == "==" && a.L == "appendResp.resp.result" && (a.R == h.constStr("raft:prevEntryNotFound") || a.R == h.constStr("raft:prevTermMismatch"))
		})
		h.C.Check(rule+" only-on-mismatch", "(*replication).onAppendEntriesResp store nextIndex", r.OK, h.pos(s.Instr), "nextIndex lowered for a reply that is not a log mismatch")
	}
	h.C.Floor(rule+" (nextIndex stores in onAppendEntriesResp)", n, 1)
}

// pipelineRequestsAccounted (C06.4c / C01.3d / C18.2f): replies are matched to
// requests by position, so on every exit that keeps the connection the
// pipeline must have read as many responses as it wrote requests. The writer
// records each written request in resultCh — except when its select takes the
// stop case after the write: then it must mark the request as unaccounted,
// and the draining side must read one more response when that mark is set
// (F21: a response left on a pooled connection answers the next request — a
// vote that was never given, a premature match index).
func (h H) pipelineRequestsAccounted(rule string) {
	fn := h.fn("raft:(*replication).replicate")
	wr := h.fn("raft:(*replication).writeAppendEntriesReq")
	rd := h.fn("raft:(*conn).readResp")
	var writer *ssa.Function
	for _, cl := range h.P.Closures(fn) {
		if cl.Parent() == fn && len(h.P.CallsTo(cl, wr)) > 0 {
			writer = cl
		}
	}
	if !h.C.Check(rule+" writer", "(*replication).replicate pipeline writer", writer != nil, h.fpos(fn), "pipeline writer goroutine not found") {
		return
	}
	wfi := h.P.Info(writer)
	n := 0
	cell := ""
	core.Instrs(writer, func(in ssa.Instruction) {
		sel, ok := in.(*ssa.Select)
		if !ok || !sel.Blocking || sel.Parent() != writer {
			return
		}
		recvIdx, sendIdx := -1, -1
		for i, st := range sel.States {
			c := wfi.Sym(st.Chan).String()
			if st.Dir == types.RecvOnly && strings.HasSuffix(c, "stopCh") {
				recvIdx = i
			}
			if st.Dir == types.SendOnly && strings.HasSuffix(c, "resultCh") {
				sendIdx = i
			}
		}
		if recvIdx < 0 || sendIdx < 0 {
			return
		}
		n++
		// the block taken when the stop case was chosen
		var stopBlock *ssa.BasicBlock
		for _, b := range writer.Blocks {
			iff, ok := b.Instrs[len(b.Instrs)-1].(*ssa.If)
			if !ok {
				continue
			}
			bo, ok := iff.Cond.(*ssa.BinOp)
			if !ok || bo.Op != token.EQL {
				continue
			}
			ex, ok := bo.X.(*ssa.Extract)
			cst, ok2 := bo.Y.(*ssa.Const)
			if ok && ok2 && ex.Tuple == ssa.Value(sel) && ex.Index == 0 && cst.Value != nil && cst.Value.String() == fmt.Sprint(recvIdx) {
				stopBlock = b.Succs[0]
			}
		}
		site := "(*replication).replicate writer select@" + shortPos(h.pos(sel))
		if !h.C.Check(rule+" stop-case", site, stopBlock != nil, h.pos(sel), "cannot find the branch taken when the stop case wins") {
			return
		}
		r := wfi.AlwaysFollowedFrom(stopBlock, 0, func(x ssa.Instruction) bool {
			st, ok := x.(*ssa.Store)
			if !ok {
				return false
			}
			if _, isFree := st.Addr.(*ssa.FreeVar); !isFree {
				return false
			}
			if strings.Contains(wfi.Sym(st.Val).String(), "(*replication).writeAppendEntriesReq(") {
				cell = wfi.Sym(st.Addr).String()
				return true
			}
			return false
		}, nil)
		h.C.Check(rule+" written-but-unrecorded-marked", site, r.OK, h.pos(sel), "the writer can stop after a request went on the wire without recording it and without marking it: one response stays unread on a connection that is reused: "+r.Witness)
	})
	h.C.Floor(rule+" (writer selects between stop and result)", n, 1)
	if cell == "" {
		return
	}
	// the mark is honoured: some closure of replicate reads one more response under it
	honoured := false
	for _, cl := range h.P.Closures(fn) {
		if cl == writer {
			continue
		}
		cfi := h.P.Info(cl)
		for _, c := range h.P.CallsTo(cl, rd) {
			if c.Parent() != cl {
				continue
			}
			if cfi.MustCross(c.(ssa.Instruction), func(a core.Atom) bool { return a.Op == "true" && a.L == cell }).OK && reachableInstr(c.(ssa.Instruction)) {
				honoured = true
			}
		}
	}
	h.C.Check(rule+" mark-honoured", "(*replication).replicate "+cell, honoured, h.fpos(fn), "the mark set by the writer for a written but unrecorded request is never turned into one more response read")
}

// reachableInstr: the instruction's block can be reached from the function's
// entry along edges that are not constant-false.
func reachableInstr(in ssa.Instruction) bool {
	fn := in.Parent()
	seen := map[*ssa.BasicBlock]bool{fn.Blocks[0]: true}
	stack := []*ssa.BasicBlock{fn.Blocks[0]}
	for len(stack) > 0 {
		b := stack[len(stack)-1]
		stack = stack[:len(stack)-1]
		if b == in.Block() {
			return true
		}
		for i, s := range b.Succs {
			if !seen[s] && core.FeasibleSucc(b, i) {
				seen[s] = true
				stack = append(stack, s)
			}
		}
	}
	return false
}

// acknowledgedIndexIsTheRequests (C06.4d): in the probe loop of replicate the
// index handed to onAppendEntriesResp — what matchIndex becomes on success —
// is nextIndex-1, the prevLogIndex of the request just written; nextIndex is
// not touched between writing the request and reading its answer. (Moving
// nextIndex to what the follower reports makes matchIndex a claim of the
// follower, not a verified prefix: a follower with a diverging tail is
// credited with the leader's entries.)
func (h H) acknowledgedIndexIsTheRequests(rule string) {
	fn := h.fn("raft:(*replication).replicate")
	fi := h.P.Info(fn)
	oar := h.fn("raft:(*replication).onAppendEntriesResp")
	war := h.fn("raft:(*replication).writeAppendEntriesReq")
	n := 0
	for k, c := range h.P.CallsTo(fn, oar) {
		if c.Parent() != fn {
			continue
		}
		in := c.(ssa.Instruction)
		arg := h.argStr(c, 2)
		okArg := arg == "(replication.nextIndex - 1)"
		if !okArg {
			continue // a pipelined answer: its index is the recorded request's (pipeline-accounting)
		}
		n++
		// blocks between the request write and this call
		var w ssa.Instruction
		for _, wc := range h.P.CallsTo(fn, war) {
			if wc.Parent() == fn && core.Dominates(wc.(ssa.Instruction), in) {
				w = wc.(ssa.Instruction)
			}
		}
		touched := ""
		if w != nil {
			// forward from w along feasible (threaded) paths, up to the
			// answer or the next request
			type key struct {
				b     int
				from  int
				sel   string
				dirty string
			}
			seen := map[key]bool{}
			var walk func(nd core.TNode, i int, dirty string)
			walk = func(nd core.TNode, i int, dirty string) {
				bb := nd.B
				for ; i < len(bb.Instrs); i++ {
					x := bb.Instrs[i]
					if x == in {
						if dirty != "" {
							touched = dirty
						}
						return
					}
					if x == w {
						return // the next request
					}
					if st, ok := x.(*ssa.Store); ok && fi.Sym(st.Addr).String() == "replication.nextIndex" {
						dirty = h.pos(x)
					}
					if cc, ok := x.(ssa.CallInstruction); ok {
						if sc := cc.Common().StaticCallee(); sc != nil && sc.Pkg != nil && sc.Pkg.Pkg.Name() == "raft" && h.name(sc) != "(*replication).onAppendEntriesResp" {
							for v := range h.P.ModSet(sc) {
								if v.Name() == "nextIndex" {
									dirty = h.pos(x) + " (" + h.name(sc) + ")"
								}
							}
						}
					}
				}
				for si := range bb.Succs {
					nx, ok := h.P.TStep(nd, si)
					if !ok {
						continue
					}
					kk := key{nx.B.Index, nx.From, nx.Sel, dirty}
					if !seen[kk] {
						seen[kk] = true
						walk(nx, 0, dirty)
					}
				}
			}
			idx := 0
			for i, x := range w.Block().Instrs {
				if x == w {
					idx = i + 1
				}
			}
			walk(core.TEntry(w.Block()), idx, "")
		}
		h.C.Check(rule, h.site(fn, oar, k), okArg && w != nil && touched == "", h.pos(in), fmt.Sprintf("the index acknowledged by a probe answer must be the prevLogIndex of the request that was written (argument is nextIndex-1: %v; request write found: %v; nextIndex changed in between at: %q)", okArg, w != nil, touched))
	}
	h.C.Floor(rule+" (probe answers in replicate)", n, 1)
}
