package props

import (
	"fmt"
	"go/token"
	"go/types"
	"strings"

	"golang.org/x/tools/go/ssa"

	"raftlint/internal/core"
)

// Snapshot / compaction obligations (C09, C10, C12, C19).

// whoMayCompact (C09.2).
func (h H) whoMayCompact(rule string) {
	h.onlyCallers(rule+" who-may-call", "log:(*Log).RemoveLTE", "(*storage).removeLTE")
	h.onlyCallers(rule+" who-may-call", "raft:(*storage).removeLTE", "(*Raft).compactLog")
	h.onlyCallers(rule+" who-may-call", "raft:(*Raft).compactLog", "(*Raft).onSnapshotTaken", "(*leader).checkLogCompact", "(*Raft).onInstallSnapRequest")
	cl := h.fn("raft:(*Raft).compactLog")
	// compactLog(lte) removes exactly lte
	rl := h.fn("raft:(*storage).removeLTE")
	for k, c := range h.P.CallsTo(cl, rl) {
		h.C.Check(rule+" compactLog-shape", h.site(cl, rl, k), h.argStr(c, 1) == "$1", h.pos(c), "compactLog(lte) must remove up to lte")
	}
	lrl := h.fn("log:(*Log).RemoveLTE")
	for k, c := range h.P.CallsTo(rl, lrl) {
		h.C.Check(rule+" removeLTE-shape", h.site(rl, lrl, k), h.argStr(c, 1) == "$1" && h.argStr(c, 0) == "storage.log", h.pos(c), "storage.removeLTE(i) must call log.RemoveLTE(i)")
	}
	// onSnapshotTaken: bound is CanLTE(min(meta.index, matchIndexes)), under Contains(meta.index)
	ost := h.fn("raft:(*Raft).onSnapshotTaken")
	fi := h.P.Info(ost)
	canLTE := h.fn("log:(*Log).CanLTE")
	for k, c := range h.P.CallsTo(ost, cl) {
		site := h.site(ost, cl, k)
		arg := h.arg(c, 1)
		call, isCan := arg.Val.(*ssa.Call)
		okCan := isCan && call.Common().StaticCallee() == canLTE
		h.C.Check(rule+" whole-segments", site, okCan, h.pos(c), "the compaction bound must be what log.CanLTE allows; found "+core.Short(arg.String(), 200))
		if okCan {
			leaves := phiLeaves(fi, call.Common().Args[1])
			good := len(leaves) > 0
			// what is removed at once must leave the entry AT a follower's match
			// index in place: the replication reads its term (prevLogTerm of the
			// next request) through the view it already holds, and this compaction
			// does not wait for replications to release the range (F19)
			for _, l := range leaves {
				if l != "snapTaken.meta.index" && l != "0" && !(strings.HasPrefix(l, "(") && strings.HasSuffix(l, ".status.matchIndex - 1)")) {
					good = false
				}
			}
			hasMeta := false
			for _, l := range leaves {
				if l == "snapTaken.meta.index" {
					hasMeta = true
				}
			}
			h.C.Check(rule+" bounded-by-snapshot", site, good && hasMeta, h.pos(c), "the bound of the immediate compaction must be the snapshot index lowered to below every follower's match index (matchIndex-1: the entry at the match index is still read by the replication); sources: "+strings.Join(leaves, ", "))
			// every lowering happens under matchIndex < current
			okLower := lowerOnly(fi, call.Common().Args[1])
			h.C.Check(rule+" only-lowered", site, okLower, h.pos(c), "the compaction bound can be raised above the snapshot index by a follower's match index")
		}
		h.gate(rule+" snapshot-inside-log", site, c, core.BoolAtom("(*log.Log).Contains(Raft.storage.log, snapTaken.meta.index)", true))
		h.gate(rule+" only-on-success", site, c, core.MkAtom("snapTaken.err", "==", "nil"))
	}
	h.C.Floor(rule+" (compactLog in onSnapshotTaken)", len(h.P.CallsTo(ost, cl)), 1)
	// the bound of the immediate compaction is a running minimum over the
	// replications: no replication may be passed over. Every way through an
	// iteration compares this follower's matchIndex-1 with the bound (either
	// outcome) or finds matchIndex == 0 (bound 0) — reachable or not: the
	// replication of an unreachable follower still holds its view
	if hd := sliceRangeHeader(fi, "(*leader).logReaders(Raft.ldr)"); hd != nil && len(h.P.CallsTo(ost, cl)) > 0 {
		r := fi.LoopBodyMustCross(hd, func(a core.Atom) bool {
			if strings.Contains(a.L, ".status.matchIndex - 1)") || strings.Contains(a.R, ".status.matchIndex - 1)") {
				return true
			}
			return strings.HasSuffix(a.L, ".status.matchIndex") && a.Op == "==" && a.R == "0"
		})
		h.C.Check(rule+" every-follower-bounds", "(*Raft).onSnapshotTaken range ldr.logReaders()", r.OK, h.pos(hd.Instrs[0]), "a replication can be passed over when the bound of the immediate compaction is computed (e.g. an unreachable follower): its view still covers entries that are removed at once: "+r.Witness)
	} else {
		h.C.Check(rule+" every-follower-bounds", "(*Raft).onSnapshotTaken range ldr.logReaders()", false, h.fpos(ost), "the bound of the immediate compaction is not computed over leader.logReaders(): the replication of a node dropped from the configuration, whose goroutine has not ended yet, still reads the log through its view (F28)")
	}
	// checkLogCompact: every replication has released the range
	clc := h.fn("raft:(*leader).checkLogCompact")
	cfi := h.P.Info(clc)
	for k, c := range h.P.CallsTo(clc, cl) {
		site := h.site(clc, cl, k)
		h.C.Check(rule+" checkLogCompact-arg", site, h.argStr(c, 1) == "leader.removeLTE", h.pos(c), "checkLogCompact must compact up to leader.removeLTE")
		hd := sliceRangeHeader(cfi, "(*leader).logReaders(leader)")
		ok := hd != nil
		if ok {
			r := cfi.LoopBodyMustCross(hd, func(a core.Atom) bool {
				return strings.HasPrefix(a.L, "(*leader).logReaders(leader)[") && strings.HasSuffix(a.L, "].status.removeLTE") && a.Op == ">=" && a.R == "leader.removeLTE"
			})
			ok = r.OK && hd.Dominates(c.Block())
		}
		h.C.Check(rule+" all-followers-released", site, ok, h.pos(c), "the log is compacted although a replication (leader.logReaders(): the running ones and the stopped ones whose goroutine has not ended) may not have switched to the shorter view yet")
	}
	// CanLTE / RemoveLTE: see C13
}

func phiLeaves(fi *core.FuncInfo, v ssa.Value) []string {
	m := map[string]bool{}
	seen := map[ssa.Value]bool{}
	P := fi.P
	// ctx: the call through which a new helper (core.IsNew) was entered, so
	// that its parameters can be traced back to the arguments
	type frame struct {
		call *ssa.Call
		up   *frame
	}
	var rec func(x ssa.Value, fr *frame, depth int)
	rec = func(x ssa.Value, fr *frame, depth int) {
		if seen[x] || depth > 8 {
			return
		}
		seen[x] = true
		switch y := x.(type) {
		case *ssa.Phi:
			for _, e := range y.Edges {
				rec(e, fr, depth+1)
			}
			return
		case *ssa.Extract:
			if c, ok := y.Tuple.(*ssa.Call); ok {
				if callee := c.Common().StaticCallee(); callee != nil && P.IsNew(callee) && callee.Blocks != nil {
					for _, r := range core.Returns(callee) {
						if y.Index < len(r.Results) {
							rec(r.Results[y.Index], &frame{c, fr}, depth+1)
						}
					}
					return
				}
			}
		case *ssa.Call:
			if callee := y.Common().StaticCallee(); callee != nil && P.IsNew(callee) && callee.Blocks != nil && callee.Signature.Results().Len() == 1 {
				for _, r := range core.Returns(callee) {
					rec(r.Results[0], &frame{y, fr}, depth+1)
				}
				return
			}
		case *ssa.Parameter:
			if fr != nil && fr.call.Common().StaticCallee() == y.Parent() {
				for i, prm := range y.Parent().Params {
					if prm == y && i < len(fr.call.Common().Args) {
						rec(fr.call.Common().Args[i], fr.up, depth+1)
						return
					}
				}
			}
		}
		owner := fi
		if in, ok := x.(ssa.Instruction); ok && in.Parent() != nil && in.Parent() != fi.Fn {
			owner = P.Info(in.Parent())
		}
		m[owner.Sym(x).String()] = true
	}
	rec(v, nil, 0)
	var out []string
	for k := range m {
		out = append(out, k)
	}
	sortStrings(out)
	return out
}

func sortStrings(a []string) {
	for i := 1; i < len(a); i++ {
		for j := i; j > 0 && a[j] < a[j-1]; j-- {
			a[j], a[j-1] = a[j-1], a[j]
		}
	}
}

// lowerOnly: every phi edge carrying a matchIndex comes from a block reached
// only under `matchIndex < current bound`.
func lowerOnly(fi *core.FuncInfo, v ssa.Value) bool {
	ok := true
	seen := map[ssa.Value]bool{}
	var rec func(x ssa.Value)
	rec = func(x ssa.Value) {
		if seen[x] {
			return
		}
		seen[x] = true
		p, isPhi := x.(*ssa.Phi)
		if !isPhi {
			return
		}
		for i, e := range p.Edges {
			if _, isPhi := e.(*ssa.Phi); isPhi {
				rec(e)
				continue
			}
			s := fi.Sym(e).String()
			if strings.HasSuffix(s, ".status.matchIndex") || strings.HasSuffix(s, ".status.matchIndex - 1)") {
				pred := p.Block().Preds[i]
				last := pred.Instrs[len(pred.Instrs)-1]
				r := fi.MustCross(last, func(a core.Atom) bool {
					return a.Op == "<" && a.L == s && strings.HasPrefix(a.R, "phi(")
				})
				// the edge may also come straight from the comparing block
				if !r.OK {
					direct := false
					for si, sc := range pred.Succs {
						if sc == p.Block() {
							if a, okA := fi.EdgeAtom(core.Edge{From: pred, Succ: si}); okA && a.Op == "<" && a.L == s {
								direct = true
							}
						}
					}
					if !direct {
						ok = false
					}
				}
			}
		}
	}
	rec(v)
	return ok
}

// viewLowerBound (E4 row 4; C09.3, C15.3): whenever a leader may raise
// log.PrevIndex(), leader.removeLTE (the lower bound of every view it hands to
// replications) is re-established at or above it.
func (h H) viewLowerBound(rule string) {
	h.onlyWriters(rule+" who-may-write", "raft:leader.removeLTE", "(*leader).init", "(*Raft).onSnapshotTaken")
	cl := h.fn("raft:(*Raft).compactLog")
	leader := "State(" + h.P.Const("raft:Leader").Val().ExactString() + ")"
	for _, s := range h.P.Callers(cl) {
		fn := s.Fn
		name := h.name(fn)
		fi := h.P.Info(fn)
		site := "compactLog in " + name
		arg := h.argStr(s.Instr.(ssa.CallInstruction), 1)
		switch name {
		case "(*leader).checkLogCompact":
			h.C.Check(rule, site, arg == "leader.removeLTE", h.pos(s.Instr), "compacting beyond leader.removeLTE invalidates the views handed to replications")
		case "(*Raft).onInstallSnapRequest":
			// follower path: leader.init resets removeLTE := PrevIndex() before any view is created
			ss := h.fn("raft:(*Raft).setState")
			follower := "State(" + h.P.Const("raft:Follower").Val().ExactString() + ")"
			pre := fi.PrecededBy(s.Instr, func(in ssa.Instruction) bool {
				return h.P.IsCallTo(in, ss) && h.argStr(in.(ssa.CallInstruction), 1) == follower
			})
			h.C.Check(rule, site, pre.OK, h.pos(s.Instr), "compaction by a node that may still be leader, without maintaining leader.removeLTE")
		default:
			prefix := "Raft.ldr"
			r := fi.AlwaysFollowedByE(s.Instr, func(in ssa.Instruction) bool {
				st, ok := in.(*ssa.Store)
				if !ok || fi.Sym(st.Addr).String() != prefix+".removeLTE" {
					return false
				}
				v := fi.Sym(st.Val).String()
				return v == "(*log.Log).PrevIndex(Raft.storage.log)" || v == arg
			}, func(a core.Atom) bool {
				return a.Implies(core.MkAtom("Raft.state", "!=", leader)) ||
					a.Implies(core.MkAtom(prefix+".removeLTE", ">=", "(*log.Log).PrevIndex(Raft.storage.log)")) ||
					a.Implies(core.MkAtom(prefix+".removeLTE", ">=", arg))
			})
			h.C.Check(rule, site, r.OK, h.pos(s.Instr), "after raising the log's PrevIndex the leader can keep a smaller removeLTE: the next ViewAt(removeLTE, …) returns nil and the replication goroutine dereferences it: "+r.Witness)
		}
	}
	// init takes PrevIndex
	init := h.fn("raft:(*leader).init")
	for _, s := range h.storesIn(init, "raft:leader.removeLTE") {
		v := h.P.Info(init).Sym(storeVal(s.Instr)).String()
		h.C.Check(rule+" init", "(*leader).init store removeLTE", v == "(*log.Log).PrevIndex(leader.Raft.storage.log)", h.pos(s.Instr), "leader.init must start removeLTE at the log's PrevIndex; found "+v)
	}
	// every ViewAt by leader code uses removeLTE or PrevIndex() as lower bound
	va := h.fn("log:(*Log).ViewAt")
	n := 0
	for _, s := range h.P.Callers(va) {
		n++
		lo := h.argStr(s.Instr.(ssa.CallInstruction), 1)
		ok := strings.HasSuffix(lo, ".removeLTE") || strings.HasPrefix(lo, "(*log.Log).PrevIndex(") || strings.HasPrefix(lo, "(*Log).PrevIndex(")
		h.C.Check(rule+" view-lower-bound", "ViewAt in "+h.name(core.Root(s.Fn)), ok, h.pos(s.Instr), "a log view is created with lower bound "+lo)
	}
	h.C.Floor(rule+" (ViewAt calls)", n, 4)
}

// snapshotFallback (C09.4): a compacted entry leads to snapshot installation, not to giving up.
func (h H) snapshotFallback(rule string) {
	fn := h.fn("raft:(*replication).replicate")
	fi := h.P.Info(fn)
	sis := h.fn("raft:(*replication).sendInstallSnapReq")
	wae := h.fn("raft:(*replication).writeAppendEntriesReq")
	// no return of replicate may hand log.ErrNotFound to runLoop (which would count it as a
	// failure and keep the follower unreachable): every returned value that can be the result of
	// writeAppendEntriesReq / a pipeline result is returned only behind `!= log.ErrNotFound`
	n := 0
	notFound := func(x string) core.Atom { return core.MkAtom(x, "!=", "global:log.ErrNotFound") }
	suspicious := func(v ssa.Value) bool {
		if c, ok := v.(*ssa.Call); ok {
			return c.Common().StaticCallee() == wae
		}
		s := fi.Sym(v).String()
		return strings.HasSuffix(s, ".err") && !strings.Contains(s, "new:")
	}
	for k, r := range core.Returns(fn) {
		v := r.Results[0]
		site := fmt.Sprintf("(*replication).replicate return#%d", k+1)
		if phi, ok := v.(*ssa.Phi); ok {
			// merged values, also merges of merges (a helper's result variable)
			seenPhi := map[*ssa.Phi]bool{}
			var unfold func(phi *ssa.Phi, d int)
			unfold = func(phi *ssa.Phi, d int) {
				if seenPhi[phi] || d > 4 {
					return
				}
				seenPhi[phi] = true
				for i, e := range phi.Edges {
					if inner, isPhi := e.(*ssa.Phi); isPhi {
						unfold(inner, d+1)
						continue
					}
					if !suspicious(e) {
						continue
					}
					n++
					pred := phi.Block().Preds[i]
					last := pred.Instrs[len(pred.Instrs)-1]
					res := fi.MustCrossAtom(last, notFound(fi.Sym(e).String()))
					// the edge into the phi may itself be the != edge
					if !res.OK {
						for si, sc := range pred.Succs {
							if sc == phi.Block() {
								if a, okA := fi.EdgeAtom(core.Edge{From: pred, Succ: si}); okA && a.Implies(notFound(fi.Sym(e).String())) {
									res.OK = true
								}
							}
						}
					}
					h.C.Check(rule+" not-found-never-returned", site, res.OK, h.pos(r), "replicate can return log.ErrNotFound (entry compacted) instead of installing a snapshot: "+res.Witness)
				}
			}
			unfold(phi, 0)
			continue
		}
		if suspicious(v) {
			n++
			res := fi.MustCrossAtom(r, notFound(fi.Sym(v).String()))
			h.C.Check(rule+" not-found-never-returned", site, res.OK, h.pos(r), "replicate can return log.ErrNotFound (entry compacted) instead of installing a snapshot: "+res.Witness)
		}
	}
	h.C.Floor(rule+" (returns of replicate that could carry ErrNotFound)", n, 2)
	// and where ErrNotFound is recognised, a snapshot installation (or a new probe) follows
	for _, ea := range fi.AllEdgeAtoms() {
		a := ea.A
		if a.Op != "==" || !(a.R == "global:log.ErrNotFound" || a.L == "global:log.ErrNotFound") {
			continue
		}
		b := ea.E.From.Succs[ea.E.Succ]
		r := fi.AlwaysFollowedFrom(b, 0, func(in ssa.Instruction) bool {
			return h.P.IsCallTo(in, sis) || h.P.IsCallTo(in, wae)
		}, nil)
		h.C.Check(rule+" not-found-leads-to-snapshot", "(*replication).replicate ErrNotFound-branch", r.OK, h.pos(ea.E.From.Instrs[len(ea.E.From.Instrs)-1]), "when the needed entry was compacted the replication returns instead of installing a snapshot: "+r.Witness)
	}
	h.C.Floor(rule+" (sendInstallSnapReq calls)", len(h.P.CallsTo(fn, sis)), 2)
	// writeAppendEntriesReq reports ErrNotFound when entries are to be sent but nextIndex is not in the view
	// sendInstallSnapReq sends the latest snapshot's label
	sfi := h.P.Info(sis)
	want := map[string]string{"lastIndex": ".meta.index", "lastTerm": ".meta.term", "lastConfig": ".meta.config", "size": ".meta.size"}
	seen := 0
	core.Instrs(sis, func(in ssa.Instruction) {
		st, ok := in.(*ssa.Store)
		if !ok {
			return
		}
		a := sfi.Sym(st.Addr).String()
		for f, suf := range want {
			if strings.HasPrefix(a, "new:installSnapReq") && strings.HasSuffix(a, "."+f) {
				seen++
				v := sfi.Sym(st.Val).String()
				h.C.Check(rule+" request-carries-label", "(*replication).sendInstallSnapReq installSnapReq."+f, strings.HasSuffix(v, suf) && strings.Contains(v, "(*snapshots).open("), h.pos(st), "install request field "+f+" must be the opened snapshot's"+suf+"; found "+v)
			}
		}
	})
	h.C.Floor(rule+" (install request label fields)", seen, 4)
}

// installSnapshotHandler (C09.5, C10.3, C19): E3 over onInstallSnapRequest.
func (h H) installSnapshotHandler(rule string) {
	fn := h.fn("raft:(*Raft).onInstallSnapRequest")
	sim := h.simAll()
	ts := sim.Run(fn)
	if sim.Trunc {
		h.C.Undecided(rule, h.name(fn), h.fpos(fn), "not loop-free")
		return
	}
	succ := h.constStr("raft:success")
	nKeep, nDiscard := 0, 0
	for _, t := range ts {
		if t.Exit != "return" {
			continue
		}
		key := h.name(fn) + " path[" + t.Describe() + "]"
		iNew := evIndex(t, isCall("(*snapshots).new"))
		iDone := evIndex(t, isCall("(*snapshotSink).done"))
		iClear := evIndex(t, isCall("(*storage).clearLog"))
		iCompact := evIndex(t, isCall("(*Raft).compactLog"))
		if iNew >= 0 {
			e := t.Events[iNew]
			ok := e.Args[1] == "installSnapReq.lastIndex" && e.Args[2] == "installSnapReq.lastTerm" && e.Args[3] == "installSnapReq.lastConfig"
			h.C.Check(rule+" label-from-request", key, ok, e.Pos, "the stored snapshot must be labelled with the request's lastIndex/lastTerm/lastConfig")
		}
		for _, i := range []int{iClear, iCompact} {
			if i < 0 {
				continue
			}
			e := t.Events[i]
			ok := iDone >= 0 && iDone < i && len(t.Events[iDone].Results) == 2 && t.EntailsAt(e, t.Events[iDone].Results[1], "==", "nil")
			// the snapshot data was read completely
			iCopy := evIndex(t, isCall("io.CopyN"))
			ok = ok && iCopy >= 0 && len(t.Events[iCopy].Results) == 2 && t.EntailsAt(e, t.Events[iCopy].Results[1], "==", "nil")
			h.C.Check(rule+" publish-before-reset", key, ok, e.Pos, "the log is reset/compacted before the snapshot that replaces it is completely received and published")
		}
		if len(t.Ret) == 2 && t.Ret[0] == succ {
			if iClear >= 0 {
				nDiscard++
				clr := t.Events[iClear]
				okNil := len(clr.Results) == 1 && t.Entails(clr.Results[0], "==", "nil")
				iSend := evIndex(t, func(e core.Event) bool { return e.Callee == "send" && strings.HasSuffix(e.Args[0], "fsm.ch") })
				iCI := evIndex(t, isStoreTo("Raft.commitIndex"))
				iCC := evIndex(t, isCall("(*Raft).changeConfig"))
				iCm := evIndex(t, isCall("(*Raft).commitConfig"))
				ok := okNil && iSend > iClear && iCI > iClear && iCC > iClear && iCm > iCC
				okVals := ok && (strings.HasPrefix(t.Events[iCI].Args[1], "Raft.storage.snaps.index") || strings.HasPrefix(t.Events[iCI].Args[1], "ret:(*snapshots).latest")) && strings.HasSuffix(t.Events[iCC].Args[1], ".config")
				h.C.Check(rule+" discard-path-complete", key, ok && okVals, t.ExitPos, "discarding the log must be followed by FSM restore, commitIndex := snapshot index, adoption and commit of the snapshot's configuration")
			} else if iCompact >= 0 {
				nKeep++
				cmp := t.Events[iCompact]
				// keep path: the log contains the snapshot index with the same term
				okContains, okTerm := false, false
				for _, e := range t.Events[:iCompact] {
					if e.Callee == "(*log.Log).Contains" && len(e.Results) == 1 && t.EntailsAt(cmp, e.Results[0], "==", "true") {
						okContains = true
					}
					if e.Callee == "(*storage).getEntryTerm" && len(e.Results) == 2 {
						for _, term := range core.TermsWithPrefix(cmp.Facts, "ret:(*snapshotSink).done") {
							if strings.HasSuffix(term, ".term") && t.EntailsAt(cmp, e.Results[0], "==", term) {
								okTerm = true
							}
						}
						if !okTerm {
							for _, f := range cmp.Facts {
								if (f.A == e.Results[0] || f.B == e.Results[0]) && f.Op == "==" && (strings.HasSuffix(f.A, ".term") || strings.HasSuffix(f.B, ".term")) {
									okTerm = true
								}
							}
						}
					}
				}
				h.C.Check(rule+" keep-suffix-only-if-matching", key, okContains && okTerm, cmp.Pos, fmt.Sprintf("the log suffix is kept although it may not match the snapshot: contains snapshot index=%v, same term=%v", okContains, okTerm))
				// and the suffix that is kept stays authoritative: configuration
				// entries in it are newer than the snapshot's membership, which
				// must not overwrite them; nor is the commit index reset
				iCC := evIndex(t, isCall("(*Raft).changeConfig"))
				iCm := evIndex(t, isCall("(*Raft).commitConfig"))
				h.C.Check(rule+" keep-path-keeps-configuration", key, iCC < 0 && iCm < 0, cmp.Pos, "the follower keeps its log suffix and still replaces its configuration by the snapshot's (older) membership: a configuration entry in the kept suffix no longer overrides it")
			} else {
				h.C.Check(rule+" success-installs", key, false, t.ExitPos, "success is returned without either keeping a matching suffix or discarding the log")
			}
		}
	}
	h.C.Floor(rule+" (keep paths)", nKeep, 1)
	h.C.Floor(rule+" (discard paths)", nDiscard, 1)
}

// sinkPublishOrder (C10.2): snapshotSink.done.
func (h H) sinkPublishOrder(rule string) {
	fn := h.fn("raft:(*snapshotSink).done")
	sim := h.simAll()
	ts := sim.Run(fn)
	if sim.Trunc {
		h.C.Undecided(rule, h.name(fn), h.fpos(fn), "not loop-free")
		return
	}
	nOK, nErr := 0, 0
	for _, t := range ts {
		if t.Exit != "return" || len(t.Ret) != 2 {
			continue
		}
		key := h.name(fn) + " path[" + t.Describe() + "]"
		iRen := evIndex(t, isCall("os.Rename"))
		iIdx := evIndex(t, isStoreTo("snapshotSink.snaps.index"))
		iTerm := evIndex(t, isStoreTo("snapshotSink.snaps.term"))
		success := t.Entails(t.Ret[1], "==", "nil")
		if !success {
			nErr++
			// unpublished: index untouched
			h.C.Check(rule+" error-leaves-index", key, iIdx < 0 && iTerm < 0, t.ExitPos, "snapshotSink.done returns an error after advancing snaps.index")
			// data file removed unless the meta file was already renamed
			renamed := iRen >= 0 && len(t.Events[iRen].Results) == 1 && t.Entails(t.Events[iRen].Results[0], "==", "nil")
			if !renamed {
				rm := evIndex(t, func(e core.Event) bool { return e.Callee == "os.Remove" })
				h.C.Check(rule+" error-removes-data", key, rm >= 0, t.ExitPos, "a failed snapshot leaves its data file behind")
			}
			continue
		}
		nOK++
		var iCloseData, iEnc, iCloseTmp int = -1, -1, -1
		for i, e := range t.Events {
			if e.Callee == "(*os.File).Close" {
				if e.Args[0] == "snapshotSink.file" && iCloseData < 0 {
					iCloseData = i
				} else if e.Args[0] != "snapshotSink.file" && iCloseTmp < 0 {
					iCloseTmp = i
				}
			}
			if e.Callee == "(*snapshotMeta).encode" && iEnc < 0 {
				iEnc = i
			}
		}
		order := iCloseData >= 0 && iEnc > iCloseData && iCloseTmp > iEnc && iRen > iCloseTmp && iIdx > iRen && iTerm > iRen
		nils := order
		if order {
			for _, i := range []int{iCloseData, iEnc, iCloseTmp, iRen} {
				if len(t.Events[i].Results) != 1 || !t.Entails(t.Events[i].Results[0], "==", "nil") {
					nils = false
				}
			}
		}
		vals := order && t.Events[iIdx].Args[1] == "snapshotSink.meta.index" && t.Events[iTerm].Args[1] == "snapshotSink.meta.term" && strings.TrimPrefix(t.Events[iEnc].Args[0], "&") == "snapshotSink.meta"
		// rename target is the meta file of this index, source is the temp file that was encoded into
		ren := order
		if order {
			var mf *core.Event
			for i := range t.Events[:iRen] {
				if t.Events[i].Callee == "metaFile" {
					mf = &t.Events[i]
				}
			}
			ren = mf != nil && len(mf.Results) == 1 && t.Events[iRen].Args[1] == mf.Results[0] && mf.Args[1] == "snapshotSink.meta.index" && mf.Args[0] == "snapshotSink.snaps.dir"
		}
		// no removal of the published files on the success path
		noRm := evIndex(t, func(e core.Event) bool { return e.Callee == "os.Remove" || e.Callee == "os.RemoveAll" }) < 0
		h.C.Check(rule+" publish-order", key, order && nils && vals && ren && noRm, t.ExitPos,
			fmt.Sprintf("snapshot publish must be: close data file ; encode meta into temp ; close temp ; rename temp -> <index>.meta ; then snaps.index/term := meta (order=%v, every step proven successful=%v, values=%v, rename target is this index's meta file=%v, nothing removed=%v)", order, nils, vals, ren, noRm))
	}
	h.C.Floor(rule+" (success paths)", nOK, 1)
	h.C.Floor(rule+" (error paths)", nErr, 5)
	// snaps.index/term writers
	h.onlyWriters(rule+" who-may-write", "raft:snapshots.index", "(*snapshotSink).done", "openSnapshots")
	h.onlyWriters(rule+" who-may-write", "raft:snapshots.term", "(*snapshotSink).done", "openSnapshots")
	// two sinks can be open at once (a local snapshot being persisted by the
	// snapshot goroutine, an installed one written by the raft goroutine): the
	// slower one must not replace a newer published snapshot. The store to
	// snaps.index lies behind meta.index >= snaps.index, and test and store are
	// in one critical section of snaps.mu (nothing can write the index in between)
	fi := h.P.Info(fn)
	nSt := 0
	for _, st := range h.storesIn(fn, "raft:snapshots.index") {
		nSt++
		want := core.MkAtom("snapshotSink.meta.index", ">=", "snapshotSink.snaps.index")
		r := fi.MustCross(st.Instr, func(a core.Atom) bool { return a.Implies(want) })
		// the lock taken before the test is still held at the store
		held := false
		ls := fi.Locksets(core.LockState{})
		if m, ok := ls[st.Instr]["snapshotSink.snaps.mu"]; ok && m == "W" {
			held = true
			for _, ea := range fi.AllEdgeAtoms() {
				if ea.A.Implies(want) {
					last := ea.E.From.Instrs[len(ea.E.From.Instrs)-1]
					if mm, ok := ls[last]["snapshotSink.snaps.mu"]; !ok || mm != "W" {
						held = false
					}
				}
			}
		}
		h.C.Check(rule+" index-monotone", "(*snapshotSink).done store snaps.index", r.OK && held, h.pos(st.Instr), fmt.Sprintf("the latest-snapshot index can be replaced by an older one (a local snapshot finishing after a newer one was installed): meta.index >= snaps.index tested on every path=%v, test and store under one hold of snaps.mu=%v; %s", r.OK, held, r.Witness))
	}
	h.C.Floor(rule+" (stores to snaps.index in done)", nSt, 1)
}

// takeSnapshotOrder (C10.5): Persist -> Flush -> done(err).
func (h H) takeSnapshotOrder(rule string) {
	fn := h.fn("raft:doTakeSnapshot")
	sim := h.simAll()
	ts := sim.Run(fn)
	if sim.Trunc {
		h.C.Undecided(rule, h.name(fn), h.fpos(fn), "not loop-free")
		return
	}
	n := 0
	for _, t := range ts {
		iDone := evIndex(t, isCall("(*snapshotSink).done"))
		if iDone < 0 {
			continue
		}
		n++
		key := h.name(fn) + " path[" + t.Describe() + "]"
		d := t.Events[iDone]
		iP := evIndex(t, isCall("invoke:Persist"))
		iF := evIndex(t, isCall("(*bufio.Writer).Flush"))
		ok := iP >= 0 && iP < iDone
		var errArg string
		if ok {
			p := t.Events[iP]
			if len(p.Results) == 1 && t.EntailsAt(d, p.Results[0], "==", "nil") {
				// persisted fine: must flush, and done gets the flush error
				ok = iF > iP && iF < iDone && len(t.Events[iF].Results) == 1 && d.Args[1] == t.Events[iF].Results[0]
				errArg = "flush error"
			} else {
				ok = d.Args[1] == p.Results[0]
				errArg = "persist error"
			}
		}
		h.C.Check(rule, key, ok, d.Pos, "snapshot is finalised (done) without Persist -> Flush having been executed and their error being handed to done ("+errArg+")")
	}
	h.C.Floor(rule+" (paths reaching done)", n, 2)
}

// bootstrapOrder (C10.4).
func (h H) bootstrapOrder(rule string) {
	fn := h.fn("raft:(*storage).bootstrap")
	sim := h.simAll()
	ts := sim.Run(fn)
	n := 0
	for _, t := range ts {
		if t.Exit != "return" {
			continue
		}
		iT := evIndex(t, isCall("(*storage).setTerm"))
		if iT < 0 {
			continue
		}
		n++
		iA := evIndex(t, isCall("(*storage).appendEntry"))
		iC := evIndex(t, isCall("(*storage).commitLog"))
		ok := iA >= 0 && iC > iA && iT > iC && t.Events[iC].Args[1] == "1" && t.Events[iT].Args[1] == "1"
		h.C.Check(rule, h.name(fn)+" path["+t.Describe()+"]", ok, t.ExitPos, "bootstrap must append the configuration, flush it (commitLog(1)) and only then persist term 1")
	}
	h.C.Floor(rule+" (bootstrap paths)", n, 1)
}

// labelCoherence (C12).
func (h H) labelCoherence(rule string) {
	h.onlyCallers(rule+" who-may-call", "raft:(*snapshots).new", "(*Raft).onInstallSnapRequest", "doTakeSnapshot")
	// snapshots.new labels the sink with exactly its arguments
	nw := h.fn("raft:(*snapshots).new")
	nfi := h.P.Info(nw)
	want := map[string]string{"index": "$1", "term": "$2", "config": "Config"}
	seen := 0
	core.Instrs(nw, func(in ssa.Instruction) {
		st, ok := in.(*ssa.Store)
		if !ok {
			return
		}
		// a field of a snapshotMeta value: the sink's own, or a literal assigned to it as a whole
		fa, isFA := st.Addr.(*ssa.FieldAddr)
		if !isFA {
			return
		}
		pt, isPtr := fa.X.Type().Underlying().(*types.Pointer)
		if !isPtr || !types.Identical(pt.Elem(), h.P.Named("raft:snapshotMeta")) {
			return
		}
		if w, ok := want[fieldName(fa)]; ok {
			seen++
			h.C.Check(rule+" sink-label", "(*snapshots).new meta."+fieldName(fa), nfi.Sym(st.Val).String() == w, h.pos(st), "snapshots.new must label the sink with its "+fieldName(fa)+" argument")
		}
	})
	h.C.Floor(rule+" (sink label stores)", seen, 3)
	// install path: coherent by construction (checked by installSnapshotHandler label-from-request)
	// take path: index/term come from the FSM's response ...
	dts := h.fn("raft:doTakeSnapshot")
	dfi := h.P.Info(dts)
	for k, c := range h.P.CallsTo(dts, nw) {
		site := h.site(dts, nw, k)
		i, tm := h.argStr(c, 1), h.argStr(c, 2)
		h.C.Check(rule+" index-term-from-fsm", site, strings.HasSuffix(i, ".index") && strings.HasSuffix(tm, ".term") && (strings.HasPrefix(i, "local:") || strings.HasPrefix(i, "assert[fsmSnapResp](")) && i[:len(i)-6] == tm[:len(tm)-5], h.pos(c), "snapshot index/term must both come from the state machine's response; found ("+i+", "+tm+")")
	}
	// ... and the membership must be read on the raft goroutine in the activation that enqueues the request
	req := h.P.Named("raft:fsmSnapReq")
	goReach := h.goReachable()
	nSend := 0
	var sendFn *ssa.Function
	for _, fn := range h.P.Funcs() {
		core.Instrs(fn, func(in ssa.Instruction) {
			s, ok := in.(*ssa.Send)
			if !ok {
				return
			}
			v := s.X
			if mi, ok := v.(*ssa.MakeInterface); ok {
				v = mi.X
			}
			if !types.Identical(v.Type(), req) {
				return
			}
			nSend++
			sendFn = fn
			_, inGo := goReach[fn]
			h.C.Check(rule+" request-enqueued-by-raft-goroutine", "send fsmSnapReq in "+h.name(fn), !inGo, h.pos(s),
				"the snapshot request is enqueued to the state machine by goroutine "+goReach[fn]+", not by the raft goroutine that read the configuration: entries (including a membership change) committed in between are covered by the snapshot but not by its label")
		})
	}
	h.C.Floor(rule+" (fsmSnapReq sends)", nSend, 1)
	// origin of the config argument: follow parameters up the call chain
	for k, c := range h.P.CallsTo(dts, nw) {
		site := h.site(dts, nw, k)
		origin, ofn := h.argOrigin(c.Parent(), c.Common().Args[3], 0)
		okOrigin := strings.HasSuffix(origin, ".storage.configs.Committed")
		sameAct := sendFn != nil && ofn != nil && core.Root(ofn) == core.Root(sendFn) && ofn.Parent() == nil && sendFn.Parent() == nil
		h.C.Check(rule+" membership-is-committed-config", site, okOrigin, h.pos(c), "the snapshot label's membership must be the committed configuration read by the raft goroutine; origin: "+origin)
		h.C.Check(rule+" membership-read-with-enqueue", site, sameAct, h.pos(c), "the configuration is read in "+h.name(ofn)+" but the request is enqueued in "+h.name(sendFn)+": they must be the same activation on the raft goroutine")
	}
	_ = dfi
}

// argOrigin follows a value through parameters / free variables to where it is computed.
func (h H) argOrigin(fn *ssa.Function, v ssa.Value, depth int) (string, *ssa.Function) {
	if depth > 6 {
		return "?", fn
	}
	fi := h.P.Info(fn)
	switch x := v.(type) {
	case *ssa.Parameter:
		idx := -1
		for i, p := range fn.Params {
			if p == x {
				idx = i
			}
		}
		callers := h.P.Callers(fn)
		if len(callers) == 1 && idx >= 0 {
			ci := callers[0].Instr.(ssa.CallInstruction)
			args := ci.Common().Args
			if idx < len(args) {
				return h.argOrigin(callers[0].Fn, args[idx], depth+1)
			}
		}
		// closure started by go / called directly: parameters come from the Go/Call instruction in the parent
		if par := fn.Parent(); par != nil && idx >= 0 {
			var res string
			var rf *ssa.Function
			core.Instrs(par, func(in ssa.Instruction) {
				if ci, ok := in.(ssa.CallInstruction); ok {
					if core.ClosureOf(ci.Common().Value) == fn && idx < len(ci.Common().Args) {
						res, rf = h.argOrigin(par, ci.Common().Args[idx], depth+1)
					}
				}
			})
			if rf != nil {
				return res, rf
			}
		}
	case *ssa.UnOp:
		if x.Op.String() == "*" {
			// load of a local that was stored once from a parameter?
			if a, ok := x.X.(*ssa.Alloc); ok {
				var src ssa.Value
				cnt := 0
				core.Instrs(fn, func(in ssa.Instruction) {
					if st, ok := in.(*ssa.Store); ok && st.Addr == a {
						cnt++
						src = st.Val
					}
				})
				if cnt == 1 {
					return h.argOrigin(fn, src, depth+1)
				}
			}
			if fv, ok := x.X.(*ssa.FreeVar); ok {
				_ = fv
			}
		}
	}
	return fi.Sym(v).String(), fn
}

// goReachable maps every function reachable from a `go` statement's target to a description of that goroutine.
func (h H) goReachable() map[*ssa.Function]string {
	out := map[*ssa.Function]string{}
	for _, fn := range h.P.Funcs() {
		for _, g := range h.P.GoSites(fn) {
			for _, tgt := range h.P.CalleesOf(g) {
				desc := "started at " + h.pos(g)
				for f := range h.P.Reachable(tgt) {
					if _, ok := out[f]; !ok {
						out[f] = desc
					}
				}
			}
		}
	}
	return out
}

// snapshotOrder (C09.7 / C10.10): findSnapshots hands out the stored snapshot
// indexes newest first — openSnapshots takes element 0 as the latest snapshot
// and applyRetain deletes from the tail. The order must be the numeric one of
// the parsed indexes: a sort of the file names disagrees as soon as two
// indexes differ in their number of digits.
func (h H) snapshotOrder(rule string) {
	fn := h.fn("raft:findSnapshots")
	fi := h.P.Info(fn)
	n := 0
	for k, ret := range core.Returns(fn) {
		if len(ret.Results) != 2 || !isNilConst(retOperand(ret, 1)) {
			continue
		}
		n++
		v := retOperand(ret, 0)
		want := fi.Sym(v).String()
		sorted := false
		core.Instrs(fn, func(in ssa.Instruction) {
			c, ok := in.(*ssa.Call)
			if !ok || c.Common().StaticCallee() == nil || !core.Dominates(in, ret) {
				return
			}
			args := c.Common().Args
			switch c.Common().StaticCallee().String() {
			case "sort.Sort":
				// sort.Sort(decrUint64Slice(v))
				x := args[0]
				if mi, ok := x.(*ssa.MakeInterface); ok {
					x = mi.X
				}
				nt, isNamed := x.Type().(*types.Named)
				if ct, ok := x.(*ssa.ChangeType); ok && isNamed && nt.Obj().Name() == "decrUint64Slice" && fi.Sym(ct.X).String() == want {
					sorted = true
				}
			case "sort.Slice":
				// sort.Slice(v, func(i, j) bool { return v[i] > v[j] })
				x := args[0]
				if mi, ok := x.(*ssa.MakeInterface); ok {
					x = mi.X
				}
				if fi.Sym(x).String() != want {
					return
				}
				var cl *ssa.Function
				switch f := args[1].(type) {
				case *ssa.MakeClosure:
					cl, _ = f.Fn.(*ssa.Function)
				case *ssa.Function:
					cl = f
				}
				if cl == nil {
					return
				}
				good := true
				m := 0
				for _, r := range core.Returns(cl) {
					m++
					bo, ok := r.Results[0].(*ssa.BinOp)
					if !ok {
						good = false
						continue
					}
					l, rr := h.P.Info(cl).Sym(bo.X).String(), h.P.Info(cl).Sym(bo.Y).String()
					ix := func(s string, k int) bool {
						return strings.HasSuffix(s, fmt.Sprintf("[$%d]", k)) || strings.HasSuffix(s, fmt.Sprintf("[λ$%d]", k))
					}
					desc := (bo.Op == token.GTR && ix(l, 0) && ix(rr, 1)) || (bo.Op == token.LSS && ix(l, 1) && ix(rr, 0))
					if !desc || !isUnsignedInt(bo.X.Type()) {
						good = false
					}
				}
				if good && m > 0 {
					sorted = true
				}
			}
		})
		h.C.Check(rule+" newest-first", fmt.Sprintf("findSnapshots success-return#%d", k+1), sorted, h.pos(ret), "the snapshot indexes must be handed out in descending numeric order (sort of the parsed uint64 values); openSnapshots takes the first as the latest snapshot and applyRetain deletes from the end")
		// what is sorted are parsed numbers
		okElems := true
		core.Instrs(fn, func(in ssa.Instruction) {
			c, ok := in.(*ssa.Call)
			if !ok {
				return
			}
			if b, isB := c.Common().Value.(*ssa.Builtin); isB && b.Name() == "append" && len(c.Common().Args) == 2 {
				// append(list, x): the variadic element travels in a one-element array
				good := false
				if sl, ok := c.Common().Args[1].(*ssa.Slice); ok {
					if al, ok := sl.X.(*ssa.Alloc); ok {
						for _, r := range *al.Referrers() {
							ia, ok := r.(*ssa.IndexAddr)
							if !ok {
								continue
							}
							for _, rr := range *ia.Referrers() {
								if st, ok := rr.(*ssa.Store); ok && strings.Contains(fi.Sym(st.Val).String(), "strconv.ParseUint(") {
									good = true
								}
							}
						}
					}
				}
				if !good {
					okElems = false
				}
			}
		})
		h.C.Check(rule+" parsed-indexes", fmt.Sprintf("findSnapshots success-return#%d", k+1), okElems, h.pos(ret), "the list must consist of the indexes parsed from the file names with strconv.ParseUint")
	}
	h.C.Floor(rule+" (success returns of findSnapshots)", n, 1)
	// its consumers: the latest snapshot is element 0
	os := h.fn("raft:openSnapshots")
	ofi := h.P.Info(os)
	okLatest := false
	core.Instrs(os, func(in ssa.Instruction) {
		if st, ok := in.(*ssa.Store); ok && strings.HasSuffix(ofi.Sym(st.Addr).String(), ".index") {
			if strings.HasSuffix(ofi.Sym(st.Val).String(), "findSnapshots($0)#0[0]") || strings.Contains(ofi.Sym(st.Val).String(), "[0]") {
				okLatest = true
			}
		}
	})
	h.C.Check(rule+" latest-is-first", "openSnapshots", okLatest, h.fpos(os), "openSnapshots must take the first listed snapshot as the latest")
	// …together with its term, read from that snapshot's meta file: with an
	// empty log the term is what the node reports as its last log term
	core.Instrs(os, func(in ssa.Instruction) {
		st, ok := in.(*ssa.Store)
		if !ok || !strings.HasSuffix(ofi.Sym(st.Addr).String(), ".index") {
			return
		}
		r := ofi.AlwaysFollowedByE(in, func(x ssa.Instruction) bool {
			t, ok := x.(*ssa.Store)
			if !ok || !strings.HasSuffix(ofi.Sym(t.Addr).String(), ".term") {
				return false
			}
			v := ofi.Sym(t.Val).String()
			return strings.Contains(v, "(*snapshots).meta(") && strings.HasSuffix(v, ".term")
		}, func(a core.Atom) bool { return a.Op == "!=" && a.R == "nil" && strings.Contains(a.L, "(*snapshots).meta(") })
		h.C.Check(rule+" term-with-index", "openSnapshots store index", r.OK, h.pos(in), "openSnapshots adopts the latest snapshot's index without its term (the last log term after a restart with an empty log): "+r.Witness)
	})
}

func isUnsignedInt(t types.Type) bool {
	b, ok := t.Underlying().(*types.Basic)
	return ok && b.Info()&types.IsUnsigned != 0
}

// touchesFiles: fn (or something it can reach) opens or stats a file.
func (h H) touchesFiles(fn *ssa.Function) bool {
	for f := range h.P.Reachable(fn) {
		hit := false
		core.Instrs(f, func(in ssa.Instruction) {
			if c, ok := in.(ssa.CallInstruction); ok {
				if sc := c.Common().StaticCallee(); sc != nil && sc.Pkg != nil && sc.Pkg.Pkg.Path() == "os" {
					switch sc.Name() {
					case "Open", "OpenFile", "Stat", "Lstat", "ReadFile", "ReadDir":
						hit = true
					}
				}
			}
		})
		if hit {
			return true
		}
	}
	return false
}

// snapshotOpenPinned (C09.8 / C15.11): opening the latest snapshot for a
// follower or a restore races with snapshotSink.done publishing a newer one and
// pruning (applyRetain removes every snapshot beyond `retain` whose use count
// is 0). The opener therefore registers its use of the latest index while
// holding snaps.mu (which done holds across publish + prune) BEFORE it looks at
// any file of that snapshot, and works with that index only; done prunes under
// the same hold of snaps.mu it publishes under; applyRetain spares used ones.
func (h H) snapshotOpenPinned(rule string) {
	fn := h.fn("raft:(*snapshots).open")
	fi := h.P.Info(fn)
	ls := fi.Locksets(core.LockState{})
	var pins []*ssa.MapUpdate
	core.Instrs(fn, func(in ssa.Instruction) {
		if mu, ok := in.(*ssa.MapUpdate); ok && fi.Sym(mu.Map).String() == "snapshots.used" {
			pins = append(pins, mu)
		}
	})
	h.C.Floor(rule+" (use registrations in snapshots.open)", len(pins), 1)
	if len(pins) == 0 {
		return
	}
	pin := pins[0]
	_, muHeld := ls[pin]["snapshots.mu"]
	keyLatest := fi.Sym(pin.Key).String() == "snapshots.index"
	h.C.Check(rule+" pinned-with-the-index", "(*snapshots).open use registration", muHeld && keyLatest, h.pos(pin),
		fmt.Sprintf("the use count must be registered for the latest index while snaps.mu is held (done publishes and prunes under it): key is snaps.index=%v, snaps.mu held=%v", keyLatest, muHeld))
	nFile := 0
	core.Instrs(fn, func(in ssa.Instruction) {
		c, ok := in.(*ssa.Call)
		if !ok {
			return
		}
		sc := c.Common().StaticCallee()
		if sc == nil {
			return
		}
		if sc.Pkg != nil && sc.Pkg.Pkg.Path() == "os" || h.touchesFiles(sc) {
			if sc.Pkg != nil && sc.Pkg.Pkg.Path() == "os" && !h.touchesFiles(sc) && sc.Name() != "Open" && sc.Name() != "Stat" && sc.Name() != "OpenFile" {
				return
			}
			nFile++
			h.C.Check(rule+" registered-before-files", fmt.Sprintf("(*snapshots).open file access#%d %s", nFile, sc.Name()), core.Dominates(pin, in), h.pos(in),
				"snapshots.open looks at the files of the latest snapshot before it registered its use: a snapshot published in between prunes them (ENOENT on healthy storage; the leader's replication reports it as a storage fault and the node shuts down)")
		}
		// the latest index is not read again: the files opened are the pinned ones
		if sc.Name() == "latestIndex" || sc.Name() == "meta" {
			if recv := sc.Signature.Recv(); recv != nil && strings.HasSuffix(recv.Type().String(), ".snapshots") {
				h.C.Check(rule+" works-with-the-pinned-index", "(*snapshots).open call "+sc.Name(), false, h.pos(in), "snapshots.open reads the latest index again after/besides registering its use: the files it opens may belong to a different snapshot than the one it pinned")
			}
		}
	})
	h.C.Floor(rule+" (file accesses in snapshots.open)", nFile, 2)
	// done: prune under the hold of snaps.mu it published under
	done := h.fn("raft:(*snapshotSink).done")
	dfi := h.P.Info(done)
	dls := dfi.Locksets(core.LockState{})
	ar := h.fn("raft:(*snapshots).applyRetain")
	nAr := 0
	for k, site := range h.P.Callers(ar) {
		nAr++
		ok := false
		if site.Fn == done {
			m, has := dls[site.Instr]["snapshotSink.snaps.mu"]
			ok = has && m == "W"
		}
		h.C.Check(rule+" prune-under-publish-lock", fmt.Sprintf("%s → (*snapshots).applyRetain#%d", h.name(site.Fn), k+1), ok, h.pos(site.Instr), "applyRetain runs outside the critical section of snaps.mu in which snapshotSink.done published the new index: an opener can pin the old latest snapshot after the prune decided to delete it")
	}
	h.C.Floor(rule+" (callers of applyRetain)", nAr, 1)
	// applyRetain: removes only beyond retain and only unused, under usedMu
	afi := h.P.Info(ar)
	als := afi.Locksets(core.LockState{})
	nRm := 0
	core.Instrs(ar, func(in ssa.Instruction) {
		c, ok := in.(*ssa.Call)
		if !ok {
			return
		}
		sc := c.Common().StaticCallee()
		if sc == nil || sc.Pkg == nil || sc.Pkg.Pkg.Path() != "os" || !strings.HasPrefix(sc.Name(), "Remove") {
			return
		}
		nRm++
		idx := ""
		if nameCall, ok := c.Common().Args[0].(*ssa.Call); ok && len(nameCall.Common().Args) == 2 {
			idx = afi.Sym(nameCall.Common().Args[1]).String()
		}
		var hd *ssa.BasicBlock
		for _, x := range core.LoopHeaders(ar) {
			if core.InLoop(x, in.Block()) {
				hd = x
			}
		}
		unused, beyond := false, false
		if hd != nil && idx != "" {
			unused = afi.MustCrossInLoop(hd, in, func(a core.Atom) bool {
				return a.Implies(core.MkAtom("snapshots.used["+idx+"]", "==", "0"))
			}).OK
			beyond = afi.MustCrossInLoop(hd, in, func(a core.Atom) bool {
				return a.R == "snapshots.retain" && (a.Op == ">=" || a.Op == ">") || a.L == "snapshots.retain" && (a.Op == "<=" || a.Op == "<")
			}).OK
		}
		// …or the walk starts at the retain count (the position is a loop
		// counter whose first value is snapshots.retain)
		if nameCall, ok := c.Common().Args[0].(*ssa.Call); ok && !beyond && len(nameCall.Common().Args) == 2 {
			var v ssa.Value = nameCall.Common().Args[1]
			if u, ok := v.(*ssa.UnOp); ok {
				v = u.X
			}
			if ia, ok := v.(*ssa.IndexAddr); ok {
				for _, l := range phiLeaves(afi, ia.Index) {
					if strings.Contains(l, "snapshots.retain") {
						beyond = true
					}
				}
			}
		}
		_, locked := als[in]["snapshots.usedMu"]
		h.C.Check(rule+" prune-spares-used", fmt.Sprintf("(*snapshots).applyRetain remove#%d", nRm), unused && beyond && locked, h.pos(in),
			fmt.Sprintf("a snapshot file is removed although it may be in use or within the retained ones (use count of that index tested ==0: %v, position beyond retain: %v, usedMu held: %v)", unused, beyond, locked))
	})
	h.C.Floor(rule+" (removals in applyRetain)", nRm, 2)
}

// sliceRangeHeader: the header block of a `for … range <slice>` loop (an index
// loop in SSA form: its condition compares the counter with len(slice)).
func sliceRangeHeader(fi *core.FuncInfo, slice string) *ssa.BasicBlock {
	for _, b := range fi.Fn.Blocks {
		if a, ok := fi.EdgeAtom(core.Edge{From: b, Succ: 0}); ok && a.Op == "<" && a.R == "len("+slice+")" {
			return b
		}
	}
	return nil
}
