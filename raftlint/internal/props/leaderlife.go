package props

import (
	"fmt"
	"go/token"
	"go/types"
	"sort"
	"strings"

	"golang.org/x/tools/go/ssa"

	"raftlint/internal/core"
)

// Leader lifecycle obligations found by the coverage audit (DESIGN.md 10.6).
// leader is one long-lived struct reused across leaderships of the same node:
// whatever init does not (re)establish is inherited from an earlier term.

// storesOnEveryPath: fn stores `val` (canonical form accepted by ok) into
// the field path `addr` on every path from entry to a return.
func (h H) storesOnEveryPath(fn *ssa.Function, addr string, ok func(val string, st *ssa.Store) bool) (bool, string) {
	fi := h.P.Info(fn)
	var hits []ssa.Instruction
	core.Instrs(fn, func(in ssa.Instruction) {
		if st, isSt := in.(*ssa.Store); isSt && fi.Sym(st.Addr).String() == addr && ok(h.expandLocals(fn, fi.Sym(st.Val).String()), st) {
			hits = append(hits, in)
		}
	})
	if len(hits) == 0 {
		return false, "no such store"
	}
	for _, r := range core.Returns(fn) {
		dom := false
		for _, s := range hits {
			if core.Dominates(s, r) {
				dom = true
			}
		}
		if !dom {
			return false, "a return at " + h.pos(r) + " is not preceded by it"
		}
	}
	return true, ""
}

// leaderInitEstablishes: every cache and channel of the leader struct is set
// afresh when a leadership begins.
//
//	numVoters  — the single-voter commit shortcut and the majority computation
//	             read it; a value left from an earlier leadership (say 1, from
//	             when the cluster had one voter) lets the leader commit alone (C06, C02)
//	removeLTE  — lower bound of every log view handed out; stale => nil view (C09, C15)
//	node       — storeEntry's "am I still a voter" test
//	startIndex — own-term commit detection
//	replUpdateCh — release sets it to nil; without a new one the replications
//	             of this term block for ever
//
// and the term's no-op is appended through storeEntry after startIndex is set.
func (h H) leaderInitEstablishes(rule string, which ...string) {
	fn := h.fn("raft:(*leader).init")
	want := map[string]func(string, *ssa.Store) bool{
		"leader.numVoters": func(v string, _ *ssa.Store) bool {
			return v == "(Config).numVoters(leader.Raft.storage.configs.Latest)"
		},
		"leader.removeLTE": func(v string, _ *ssa.Store) bool {
			return v == "(*log.Log).PrevIndex(leader.Raft.storage.log)"
		},
		"leader.node": func(v string, _ *ssa.Store) bool {
			return v == "leader.Raft.storage.configs.Latest.Nodes[leader.Raft.storage.nid]"
		},
		"leader.startIndex": func(v string, _ *ssa.Store) bool {
			return v == "(leader.Raft.storage.lastLogIndex + 1)"
		},
		"leader.replUpdateCh": func(_ string, st *ssa.Store) bool {
			_, isMk := st.Val.(*ssa.MakeChan)
			return isMk
		},
	}
	for _, f := range which {
		if f == "noop" {
			continue
		}
		ok, why := h.storesOnEveryPath(fn, f, want[f])
		h.C.Check(rule+" init-establishes", "(*leader).init "+f, ok, h.fpos(fn), "a new leadership must set "+f+" afresh (the struct is reused across terms): "+why)
	}
	for _, f := range which {
		if f != "noop" {
			continue
		}
		se := h.fn("raft:(*leader).storeEntry")
		fi := h.P.Info(fn)
		ok := false
		for _, c := range h.P.CallsTo(fn, se) {
			arg := h.argStr(c, 1)
			typ := ""
			core.Instrs(fn, func(in ssa.Instruction) {
				if st, isSt := in.(*ssa.Store); isSt && strings.HasSuffix(fi.Sym(st.Addr).String(), ".typ") {
					typ = fi.Sym(st.Val).String()
				}
			})
			dom := true
			for _, r := range core.Returns(fn) {
				if !core.Dominates(c.(ssa.Instruction), r) {
					dom = false
				}
			}
			if strings.HasPrefix(arg, "new:newEntry#") && typ == h.constStr("raft:entryNop") && dom {
				ok = true
			}
		}
		h.C.Check(rule+" init-appends-noop", "(*leader).init no-op", ok, h.fpos(fn), "a new leader must append a no-op of its term through storeEntry on every path: entries of earlier terms can only be committed together with an entry of the current term, and config changes wait for it")
	}
}

// leaderReleaseCleansUp: leaving the leader state
//   - clears Raft.leader when it still names this node (otherwise the vote
//     handler keeps refusing candidates with "leader known")
//   - waits for the replication goroutines and then sets replUpdateCh to nil:
//     stateLoop keeps selecting on that channel in every state, and a buffered
//     update left in it would run checkReplUpdates -> onMajorityCommit ->
//     setCommitIndex on a node that is no longer leader
//   - answers every queued entry (walks the whole list) with ErrServerClosed
//     exactly when the node is closing.
func (h H) leaderReleaseCleansUp(rule string, which ...string) {
	fn := h.fn("raft:(*leader).release")
	fi := h.P.Info(fn)
	has := func(s string) bool {
		for _, w := range which {
			if w == s {
				return true
			}
		}
		return false
	}
	if has("leader-hint") {
		sl := h.fn("raft:(*Raft).setLeader")
		for k, r := range core.Returns(fn) {
			res := fi.MustCrossOrPass(r, func(a core.Atom) bool {
				return a.Implies(core.MkAtom("leader.Raft.leader", "!=", "leader.Raft.storage.nid"))
			}, nil, func(in ssa.Instruction) bool {
				c, ok := in.(ssa.CallInstruction)
				return ok && h.P.IsCallTo(in, sl) && h.argStr(c, 1) == "0"
			})
			h.C.Check(rule+" release-clears-leader-hint", fmt.Sprintf("(*leader).release return#%d", k+1), res.OK, h.pos(r), "leader.release can return with Raft.leader still naming this node: "+res.Witness)
		}
	}
	if has("update-channel") {
		var wait, clear ssa.Instruction
		core.Instrs(fn, func(in ssa.Instruction) {
			if c, ok := in.(*ssa.Call); ok {
				if f := c.Common().StaticCallee(); f != nil && f.String() == "(*sync.WaitGroup).Wait" {
					wait = in
				}
				// …or through the routine that stops the replications and waits
				// for them on every path (shape decided by the log-readers rule)
				if f := c.Common().StaticCallee(); f != nil && h.name(f) == "(*leader).stopRepls" && waitsOnEveryPath(f) {
					wait = in
				}
			}
			if st, ok := in.(*ssa.Store); ok && fi.Sym(st.Addr).String() == "leader.replUpdateCh" && fi.Sym(st.Val).String() == "nil" {
				clear = in
			}
		})
		ok := wait != nil && clear != nil && core.Dominates(wait, clear)
		if ok {
			for _, r := range core.Returns(fn) {
				if !core.Dominates(clear, r) {
					ok = false
				}
			}
		}
		h.C.Check(rule+" release-retires-update-channel", "(*leader).release", ok, h.fpos(fn), "leader.release must wait for the replication goroutines and then set replUpdateCh to nil on every path (stateLoop selects on it in every state)")
	}
	if has("queue") {
		hds := core.LoopHeaders(fn)
		found := false
		for _, hd := range hds {
			cur := ""
			for _, ex := range fi.LoopExits(hd) {
				if ex.Has && ex.Atom.Op == "==" && ex.Atom.R == "nil" && strings.Contains(ex.Atom.L, "leader.neHead") && strings.Contains(ex.Atom.L, ".next") {
					cur = ex.Atom.L
				}
			}
			if cur == "" {
				continue
			}
			found = true
			okExits := true
			for _, ex := range fi.LoopExits(hd) {
				if !(ex.Has && ex.Atom.Op == "==" && ex.Atom.R == "nil" && ex.Atom.L == cur) {
					okExits = false
				}
			}
			reply := h.fn("raft:(*task).reply")
			r := fi.LoopBodyMustPass(hd, func(in ssa.Instruction) bool { return h.P.IsCallTo(in, reply) })
			h.C.Check(rule+" release-answers-whole-queue", "(*leader).release queue walk", okExits && r.OK, h.pos(hd.Instrs[len(hd.Instrs)-1]), "the walk over the queued entries must visit every entry (exit only at the end of the list) and answer each: "+r.Witness)
		}
		h.C.Check(rule+" release-answers-whole-queue", "(*leader).release queue walk (exists)", found, h.fpos(fn), "no walk from neHead along .next to nil found")
	}
	if has("closed-error") {
		// every reply argument that can be ErrServerClosed takes that value
		// exactly on the isClosed edge (looking through phis and new helpers)
		n := 0
		isClosedTrue := func(a core.Atom) bool { return a.Op == "true" && strings.HasPrefix(a.L, "(*Raft).isClosed(") }
		for _, spec := range []string{"raft:(*task).reply", "raft:(*transfer).reply"} {
			callee := h.fn(spec)
			for _, c := range h.P.CallsTo(fn, callee) {
				args := c.Common().Args
				if len(args) < 2 {
					continue
				}
				for _, src := range h.valueSources(args[1], c.(ssa.Instruction)) {
					if h.P.Info(src.At.Parent()).Sym(src.Val).String() != "global:ErrServerClosed" {
						continue
					}
					n++
					r := h.sourceGated(src, isClosedTrue)
					h.C.Check(rule+" server-closed-iff-closing", fmt.Sprintf("(*leader).release ErrServerClosed#%d", n), r.OK, h.pos(src.At), "pending work is answered with ErrServerClosed on a path where the node is not known to be closing: "+r.Witness)
				}
			}
		}
		h.C.Floor(rule+" (ErrServerClosed uses in leader.release)", n, 2)
		// and conversely: the not-closing answers are not given while closing
		notClosing := func(a core.Atom) bool { return a.Op == "false" && strings.HasPrefix(a.L, "(*Raft).isClosed(") }
		for _, c := range h.P.CallsTo(fn, h.fn("raft:(*task).reply")) {
			for _, src := range h.valueSources(c.Common().Args[1], c.(ssa.Instruction)) {
				if strings.HasPrefix(h.P.Info(src.At.Parent()).Sym(src.Val).String(), "notLeaderError(") {
					r := h.sourceGated(src, notClosing)
					h.C.Check(rule+" server-closed-iff-closing", "(*leader).release NotLeaderError", r.OK, h.pos(src.At), "pending entries are answered with NotLeaderError although the node may be closing (shutdown must complete pending tasks with ErrServerClosed): "+r.Witness)
				}
			}
		}
	}
}

// queueDiscipline: the leader's queue of accepted client entries.
func (h H) queueDiscipline(rule string) {
	// applyCommitted hands over a prefix and keeps exactly the rest
	fn := h.fn("raft:(*leader).applyCommitted")
	fi := h.P.Info(fn)
	hds := core.LoopHeaders(fn)
	if !h.C.Check(rule+" dequeue-loop", "(*leader).applyCommitted", len(hds) == 1, h.fpos(fn), "expected one loop over the queue") {
		return
	}
	// the committed test is exactly index <= commitIndex
	exact := false
	for _, ea := range fi.AllEdgeAtoms() {
		if !core.InLoop(hds[0], ea.E.From) && ea.E.From != hds[0] {
			continue
		}
		a := ea.A
		for _, cand := range []core.Atom{a, a.Negate()} {
			if strings.HasSuffix(cand.L, ".entry.index") && cand.R == "leader.Raft.commitIndex" || strings.HasSuffix(cand.R, ".entry.index") && cand.L == "leader.Raft.commitIndex" {
				var idx string
				if strings.HasSuffix(cand.L, ".entry.index") {
					idx = cand.L
				} else {
					idx = cand.R
				}
				w := core.MkAtom(idx, "<=", "leader.Raft.commitIndex")
				if cand.Implies(w) && w.Implies(cand) {
					exact = true
				}
			}
		}
	}
	h.C.Check(rule+" dequeue-all-committed", "(*leader).applyCommitted loop", exact, h.fpos(fn), "the dequeue loop must take every entry with index <= commitIndex (an entry at the commit index left behind is answered only after the next commit, never on an idle cluster)")
	// after the loop: if something was taken, head moves to the cursor, the
	// taken prefix is cut off, and an empty queue clears the tail
	var cut, move, tail bool
	core.Instrs(fn, func(in ssa.Instruction) {
		st, ok := in.(*ssa.Store)
		if !ok {
			return
		}
		a, v := fi.Sym(st.Addr).String(), fi.Sym(st.Val).String()
		switch {
		case strings.HasSuffix(a, ".next") && v == "nil":
			cut = true
		case a == "leader.neHead" && strings.HasPrefix(v, "phi("):
			move = true
		case a == "leader.neTail" && v == "nil":
			r := fi.MustCross(in, func(at core.Atom) bool {
				if at.Implies(core.MkAtom("leader.neHead", "==", "nil")) {
					return true
				}
				// or the same test on the value that was just stored into neHead (the loop cursor)
				return at.Op == "==" && at.R == "nil" && strings.HasPrefix(at.L, "phi(") && strings.Contains(at.L, "leader.neHead")
			})
			tail = r.OK
		}
	})
	h.C.Check(rule+" dequeue-advances-head", "(*leader).applyCommitted", cut && move && tail, h.fpos(fn), fmt.Sprintf("after handing a prefix of the queue to the FSM the prefix must be cut off (%v), neHead moved to the first entry kept (%v) and neTail cleared when nothing is kept (%v)", cut, move, tail))
	// storeEntry: the tail's link is cut after the batch (rejected entries of the
	// same batch hang behind it and were answered already)
	se := h.fn("raft:(*leader).storeEntry")
	sfi := h.P.Info(se)
	for k, r := range core.Returns(se) {
		res := sfi.MustCrossOrPass(r, func(a core.Atom) bool {
			return a.Implies(core.MkAtom("leader.neTail", "==", "nil"))
		}, nil, func(in ssa.Instruction) bool {
			st, ok := in.(*ssa.Store)
			return ok && sfi.Sym(st.Addr).String() == "leader.neTail.next" && sfi.Sym(st.Val).String() == "nil"
		})
		h.C.Check(rule+" batch-tail-cut", fmt.Sprintf("(*leader).storeEntry return#%d", k+1), res.OK, h.pos(r), "storeEntry can return with the queue's tail still linked to the rest of the submitted batch (entries already rejected would be answered a second time): "+res.Witness)
		// reads/barriers at the head are answered at once
		ac := h.fn("raft:(*leader).applyCommitted")
		res2 := sfi.MustCrossOrPass(r, func(a core.Atom) bool {
			return a.Implies(core.MkAtom("leader.neHead", "==", "nil")) || a.Op == "true" && strings.HasPrefix(a.L, "(*entry).isLogEntry(leader.neHead")
		}, nil, func(in ssa.Instruction) bool { return h.P.IsCallTo(in, ac) })
		h.C.Check(rule+" head-non-log-entry-applied", fmt.Sprintf("(*leader).storeEntry return#%d", k+1), res2.OK, h.pos(r), "a read/barrier at the head of the queue is left waiting for the next commit: "+res2.Witness)
	}
}

// leaderCommitSkipJustified (C17.6c): onMajorityCommit leaves the commit
// index alone only if the majority match index is not beyond it or not yet of
// this term.
func (h H) leaderCommitSkipJustified(rule string) {
	fn := h.fn("raft:(*leader).onMajorityCommit")
	fi := h.P.Info(fn)
	sc := h.fn("raft:(*leader).setCommitIndex")
	mmi := "(*leader).majorityMatchIndex(leader)"
	for k, r := range core.Returns(fn) {
		res := fi.MustCrossOrPass(r, func(a core.Atom) bool {
			return a.Implies(core.MkAtom(mmi, "<=", "leader.Raft.commitIndex")) || a.Implies(core.MkAtom(mmi, "<", "leader.startIndex"))
		}, nil, func(in ssa.Instruction) bool { return h.P.IsCallTo(in, sc) })
		h.C.Check(rule, fmt.Sprintf("(*leader).onMajorityCommit return#%d", k+1), res.OK, h.pos(r), "the leader can leave its commit index alone although a majority stores an entry of its term beyond it (with `> startIndex` the term's no-op alone never commits: an idle cluster never becomes commit ready): "+res.Witness)
	}
}

// configActionProgress: the leader's membership-action engine
// (checkConfigAction / checkConfigActions / beginFinishedRounds).
//
//	progress   (C17.9)  an action is postponed only for one of the reasons
//	                    the design gives: no action pending; promotion round
//	                    not finished; the round was slow and new entries exist
//	                    (then a new round is begun); another change or a
//	                    transfer is in progress / no own-term commit yet; a
//	                    non-voter to be removed has not yet stored the latest
//	                    configuration
//	effect     (C08.7)  doChangeConfig is reached only with a modified clone
//	                    (some node written or deleted on every path), and a
//	                    performed Demote clears the action it performed
//	rounds     (C11.3b) new entries restart every finished round with the new
//	                    last index, so "caught up in a completed round" is
//	                    measured against the leader's current log
func (h H) configActionProgress(rule string, which string) {
	fn := h.fn("raft:(*leader).checkConfigAction")
	fi := h.P.Info(fn)
	dcc := h.fn("raft:(*leader).doChangeConfig")
	begin := h.fn("raft:(*round).begin")
	calls := h.P.CallsTo(fn, dcc)
	switch which {
	case "progress":
		n := 0
		for k, r := range core.Returns(fn) {
			after := false
			for _, c := range calls {
				if core.Dominates(c.(ssa.Instruction), r) {
					after = true
				}
			}
			if after {
				continue
			}
			n++
			cross := func(p func(core.Atom) bool) bool { return fi.MustCross(r, p).OK }
			noAction := cross(func(a core.Atom) bool {
				return a.Op == "==" && strings.HasPrefix(a.L, "(Node).nextAction(") && a.R == h.constStr("raft:None")
			})
			unfinished := cross(func(a core.Atom) bool { return a.Op == "false" && strings.HasPrefix(a.L, "(*round).finished(") })
			slow := cross(func(a core.Atom) bool {
				return a.Op == ">" && strings.HasPrefix(a.L, "(round).Duration(") && strings.HasSuffix(a.R, ".promoteThreshold")
			}) && cross(func(a core.Atom) bool {
				return a.Implies(core.MkAtom("leader.Raft.storage.lastLogIndex", ">", "replicationStatus.matchIndex"))
			}) && fi.PrecededBy(r, func(in ssa.Instruction) bool {
				c, ok := in.(ssa.CallInstruction)
				return ok && h.P.IsCallTo(in, begin) && h.argStr(c, 1) == "leader.Raft.storage.lastLogIndex"
			}).OK
			busy := cross(func(a core.Atom) bool { return a.Op == "false" && strings.HasPrefix(a.L, "(*leader).canChangeConfig(") })
			lagging := cross(func(a core.Atom) bool {
				return a.Implies(core.MkAtom("replicationStatus.matchIndex", "<", "leader.Raft.storage.configs.Latest.Index"))
			})
			h.C.Check(rule+" postponed-only-for-a-reason", fmt.Sprintf("(*leader).checkConfigAction return#%d", k+1), noAction || unfinished || slow || busy || lagging, h.pos(r),
				fmt.Sprintf("a pending membership action is dropped for this activation without one of the design's reasons [no action=%v, round unfinished=%v, slow round restarted=%v, cannot change now=%v, removed node lags=%v]", noAction, unfinished, slow, busy, lagging))
		}
		h.C.Floor(rule+" (postponing returns)", n, 5)
	case "effect":
		// forward walk: (modified?, set of action constants the path has excluded)
		actions := h.constsOfType("Action")
		var isMod func(in ssa.Instruction) bool
		isMod = func(in ssa.Instruction) bool {
			ifi := h.P.Info(in.Parent())
			if mu, ok := in.(*ssa.MapUpdate); ok {
				return strings.HasSuffix(ifi.Sym(mu.Map).String(), ".Nodes")
			}
			if cc, ok := in.(*ssa.Call); ok {
				if b, isB := cc.Common().Value.(*ssa.Builtin); isB && b.Name() == "delete" {
					return strings.HasSuffix(ifi.Sym(cc.Common().Args[0]).String(), ".Nodes")
				}
				// a helper no rule knows by name that modifies a Nodes map on every path
				if callee := cc.Common().StaticCallee(); callee != nil && h.P.IsNew(callee) && callee.Blocks != nil && in.Parent() == fn {
					all := true
					for _, r := range core.Returns(callee) {
						res := h.P.Info(callee).MustCrossOrPass(r, func(core.Atom) bool { return false }, nil, func(x ssa.Instruction) bool { return x.Parent() == callee && isMod(x) })
						if !res.OK {
							all = false
						}
					}
					return all && len(core.Returns(callee)) > 0
				}
			}
			return false
		}
		for k, c := range calls {
			type st struct {
				b    *ssa.BasicBlock
				mod  bool
				excl string
			}
			seen := map[st]bool{}
			bad := ""
			var walk func(b *ssa.BasicBlock, mod bool, excl map[string]bool)
			walk = func(b *ssa.BasicBlock, mod bool, excl map[string]bool) {
				if bad != "" {
					return
				}
				var ks []string
				for x := range excl {
					ks = append(ks, x)
				}
				sort.Strings(ks)
				key := st{b, mod, strings.Join(ks, ",")}
				if seen[key] {
					return
				}
				seen[key] = true
				for _, in := range b.Instrs {
					if isMod(in) {
						mod = true
					}
					if in == c.(ssa.Instruction) {
						// unmodified is acceptable only where the action is none of the declared ones
						if !mod && len(excl) < len(actions) {
							bad = fmt.Sprintf("reached with no node written or deleted (action values excluded on the path: %v)", ks)
						}
						return
					}
				}
				for i, s := range b.Succs {
					if !core.FeasibleSucc(b, i) {
						continue
					}
					ne := excl
					if a, ok := fi.EdgeAtom(core.Edge{From: b, Succ: i}); ok && a.Op == "!=" && strings.HasPrefix(a.L, "(Node).nextAction(") && strings.HasPrefix(a.R, "Action(") {
						ne = map[string]bool{a.R: true}
						for x := range excl {
							ne[x] = true
						}
					}
					walk(s, mod, ne)
				}
			}
			walk(fn.Blocks[0], false, map[string]bool{})
			h.C.Check(rule+" change-changes-something", h.site(fn, dcc, k), bad == "", h.pos(c.(ssa.Instruction)), "a configuration entry can be appended that is identical to its predecessor: "+bad)
		}
		h.C.Floor(rule+" (doChangeConfig in checkConfigAction)", len(calls), 1)
		// Demote clears the action it performed
		for _, spec := range []string{"raft:(*leader).checkConfigAction", "raft:(*leader).checkConfigActions"} {
			f := h.fn(spec)
			demote := h.constStr("raft:Demote")
			nSites := 0
			h.P.InstrsScope(f, func(in ssa.Instruction) {
				ffi := h.P.Info(in.Parent())
				f := in.Parent()
				st, ok := in.(*ssa.Store)
				if !ok || !strings.HasSuffix(ffi.Sym(st.Addr).String(), ".Voter") || ffi.Sym(st.Val).String() != "false" {
					return
				}
				nSites++
				node := strings.TrimSuffix(ffi.Sym(st.Addr).String(), ".Voter")
				// the write-back of this node that follows
				var wb ssa.Instruction
				core.Instrs(f, func(x ssa.Instruction) {
					if mu, ok := x.(*ssa.MapUpdate); ok && ffi.Sym(mu.Value).String() == node && core.Dominates(in, x) {
						wb = x
					}
				})
				if wb == nil {
					h.C.Check(rule+" demote-clears-its-action", h.name(f)+" demote", false, h.pos(in), "the demoted node is not written back into the configuration")
					return
				}
				r := ffi.MustCrossOrPass(wb, func(a core.Atom) bool {
					return a.Implies(core.MkAtom(node+".Action", "!=", demote))
				}, nil, func(x ssa.Instruction) bool {
					s2, ok := x.(*ssa.Store)
					return ok && ffi.Sym(s2.Addr).String() == node+".Action" && ffi.Sym(s2.Val).String() == h.constStr("raft:None") && core.Dominates(in, x)
				})
				h.C.Check(rule+" demote-clears-its-action", h.name(f)+" demote", r.OK, h.pos(wb), "a node demoted because of Action=Demote keeps that action in the new configuration (the configuration never becomes stable): "+r.Witness)
			})
			h.C.Floor(rule+" (demotions in "+h.name(f)+")", nSites, 1)
		}
	case "rounds":
		se := h.fn("raft:(*leader).storeEntry")
		sfi := h.P.Info(se)
		bfr := h.fn("raft:(*leader).beginFinishedRounds")
		for k, r := range core.Returns(se) {
			res := sfi.MustCrossOrPass(r, func(a core.Atom) bool {
				// lastLogIndex (now) <= lastLogIndex (read at entry): nothing was appended
				return a.Op == "<=" && a.L == "leader.Raft.storage.lastLogIndex" && (a.R == a.L || !strings.Contains(a.R, "."))
			}, nil, func(in ssa.Instruction) bool { return h.P.IsCallTo(in, bfr) })
			h.C.Check(rule+" new-entries-restart-rounds", fmt.Sprintf("(*leader).storeEntry return#%d", k+1), res.OK, h.pos(r), "entries were appended and finished promotion rounds are not restarted: "+res.Witness)
		}
		bfi := h.P.Info(bfr)
		hds := core.LoopHeaders(bfr)
		ok := len(hds) == 1
		if ok {
			r := bfi.LoopBodyMustCrossOrPass(hds[0], func(a core.Atom) bool {
				return a.Op == "==" && a.R == "nil" && strings.HasSuffix(a.L, ".status.round") || a.Op == "false" && strings.HasPrefix(a.L, "(*round).finished(")
			}, func(in ssa.Instruction) bool {
				c, isC := in.(ssa.CallInstruction)
				return isC && h.P.IsCallTo(in, begin) && h.argStr(c, 1) == "leader.Raft.storage.lastLogIndex"
			})
			ok = r.OK
			// …and the walk over the replications is not skipped: no return
			// of the function lies before the loop
			for _, ret := range core.Returns(bfr) {
				if !hds[0].Dominates(ret.Block()) {
					ok = false
				}
			}
		}
		h.C.Check(rule+" finished-rounds-begin-again", "(*leader).beginFinishedRounds", ok, h.fpos(bfr), "a finished round of some replication is not begun again with the leader's last log index")
	}
}

// followerTimerProtocol (C17.2b/c): the completeness half of the election
// timer rules. stateLoop re-arms a follower's timer whenever replyRPC reports
// contact with the leader (or a granted vote); follower.resetTimer re-arms it
// exactly when the node may start elections; a follower whose timer fired
// forgets the leader it knew (otherwise its vote handler keeps refusing every
// candidate with "leader known" until the connection happens to drop).
func (h H) followerTimerProtocol(rule string) {
	sl := h.fn("raft:(*Raft).stateLoop")
	fi := h.P.Info(sl)
	rr := h.fn("raft:(*Raft).replyRPC")
	rt := h.fn("raft:(*follower).resetTimer")
	follower := h.constStr("raft:Follower")
	for k, c := range h.P.CallsTo(sl, rr) {
		hd := c.(ssa.Instruction).Block()
		// from the call: until control leaves this select case (reaches a block
		// that does not post-date the call: approximated by "any block with more
		// than one predecessor outside the case"), resetTimer is called unless
		// the result is false or the state is not Follower
		r := fi.AlwaysFollowedByE(c.(ssa.Instruction), func(in ssa.Instruction) bool { return h.P.IsCallTo(in, rt) }, func(a core.Atom) bool {
			if a.Op == "false" && strings.HasPrefix(a.L, "(*Raft).replyRPC(") {
				return true
			}
			return a.Implies(core.MkAtom("Raft.state", "!=", follower))
		})
		_ = hd
		h.C.Check(rule+" contact-rearms-follower-timer", h.site(sl, rr, k), r.OK, h.pos(c.(ssa.Instruction)), "replyRPC reports contact (or a granted vote) and the follower's election timer is not re-armed: "+r.Witness)
	}
	h.C.Floor(rule+" (replyRPC calls in stateLoop)", len(h.P.CallsTo(sl, rr)), 1)
	// resetTimer: re-arm iff canStartElection
	rfi := h.P.Info(rt)
	reset := h.fn("raft:(*safeTimer).reset")
	for k, r := range core.Returns(rt) {
		res := rfi.MustCrossOrPass(r, func(a core.Atom) bool {
			return a.Op == "false" && strings.HasPrefix(a.L, "(*follower).canStartElection(")
		}, nil, func(in ssa.Instruction) bool { return h.P.IsCallTo(in, reset) })
		h.C.Check(rule+" resetTimer-rearms-voters", fmt.Sprintf("(*follower).resetTimer return#%d", k+1), res.OK, h.pos(r), "a node that may start elections does not get its election timer re-armed: "+res.Witness)
	}
	for k, c := range h.P.CallsTo(rt, reset) {
		h.gate(rule+" resetTimer-only-voters", h.site(rt, reset, k), c.(ssa.Instruction), core.BoolAtom("(*follower).canStartElection(follower)#0", true))
	}
	// re-arming ends the "election aborted" episode: stateLoop re-arms the
	// timer after every executed task while the flag is set, so a flag that
	// sticks lets anything that submits tasks (monitoring, say) postpone
	// elections for ever
	for k, r := range core.Returns(rt) {
		res := rfi.MustCrossOrPass(r, func(a core.Atom) bool {
			return a.Op == "false" && strings.HasPrefix(a.L, "(*follower).canStartElection(")
		}, nil, func(in ssa.Instruction) bool {
			st, ok := in.(*ssa.Store)
			return ok && rfi.Sym(st.Addr).String() == "follower.electionAborted" && rfi.Sym(st.Val).String() == "false"
		})
		h.C.Check(rule+" rearm-clears-aborted-flag", fmt.Sprintf("(*follower).resetTimer return#%d", k+1), res.OK, h.pos(r), "the election timer is re-armed and electionAborted stays set: "+res.Witness)
	}
	// and stateLoop's task-induced re-arm is only for followers whose election was aborted
	ex := h.fn("raft:(*Raft).executeTask")
	for k, c := range h.P.CallsTo(sl, rt) {
		in := c.(ssa.Instruction)
		afterTask := false
		for _, tc := range h.P.CallsTo(sl, ex) {
			if core.Dominates(tc.(ssa.Instruction), in) {
				afterTask = true
			}
		}
		if !afterTask {
			continue
		}
		h.gateLoose(rule+" task-rearm-only-if-aborted", h.site(sl, rt, k), in, core.BoolAtom("new:follower#1.electionAborted", true))
	}
	// onTimeout forgets the leader
	ot := h.fn("raft:(*follower).onTimeout")
	sl2 := h.fn("raft:(*Raft).setLeader")
	ok := false
	for _, c := range h.P.CallsTo(ot, sl2) {
		if h.argStr(c, 1) != "0" {
			continue
		}
		ok = true
		for _, r := range core.Returns(ot) {
			if !core.Dominates(c.(ssa.Instruction), r) {
				ok = false
			}
		}
	}
	h.C.Check(rule+" timeout-forgets-leader", "(*follower).onTimeout", ok, h.fpos(ot), "a follower whose election timer fired keeps Raft.leader set: its vote handler then refuses every candidate without transfer permission (leaderKnown)")
}

// candidateReleaseRetiresChannel (C01.3b): stateLoop selects on
// candidate.respCh in every state; leaving the candidate state must set it to
// nil, or a late reply of an abandoned election is counted by a node that is
// follower (or leader) by then and can make it leader without an election.
func (h H) candidateReleaseRetiresChannel(rule string) {
	rel := h.fn("raft:(*candidate).release")
	ok, why := h.storesOnEveryPath(rel, "candidate.respCh", func(v string, _ *ssa.Store) bool { return v == "nil" })
	h.C.Check(rule, "(*candidate).release", ok, h.fpos(rel), "leaving the candidate state must retire the vote-reply channel (set it to nil): "+why)
	// and stateLoop takes vote results only from that channel
	sl := h.fn("raft:(*Raft).stateLoop")
	ovr := h.fn("raft:(*candidate).onVoteResult")
	h.onlyCallers(rule+" who-may-call", "raft:(*candidate).onVoteResult", "(*Raft).stateLoop")
	fi := h.P.Info(sl)
	for k, c := range h.P.CallsTo(sl, ovr) {
		arg := h.argStr(c, 1)
		_ = fi
		h.C.Check(rule+" results-from-own-channel", h.site(sl, ovr, k), strings.HasPrefix(arg, "select@"), h.pos(c.(ssa.Instruction)), "vote results must come from the select on candidate.respCh; found "+arg)
	}
}

// nextActionTable (C08.8): Node.nextAction is the decision table of the whole
// membership engine — which step, if any, the leader takes next for a node. It
// is a pure function of (Voter, Action); every path's condition is compared
// with the table the design documents:
//
//	ForceRemove                       -> ForceRemove (voter or not)
//	voter     & Demote | Remove       -> Demote (a voter is demoted before it is removed)
//	non-voter & Promote | Remove      -> that action
//	everything else                   -> None
//
// For each path of the function, every (Voter, Action) pair consistent with the
// path's branch conditions must map to the value the path returns.
func (h H) nextActionTable(rule string) {
	fn := h.fn("raft:(Node).nextAction")
	sim := h.simAll()
	ts := sim.Run(fn)
	if sim.Trunc {
		h.C.Undecided(rule, "(Node).nextAction", h.fpos(fn), "not loop-free")
		return
	}
	acts := map[string]string{}
	for _, n := range []string{"None", "Promote", "Demote", "Remove", "ForceRemove"} {
		acts[n] = h.constStr("raft:" + n)
	}
	expected := func(voter bool, a string) string {
		switch {
		case a == "ForceRemove":
			return acts["ForceRemove"]
		case voter && (a == "Demote" || a == "Remove"):
			return acts["Demote"]
		case !voter && (a == "Promote" || a == "Remove"):
			return acts[a]
		}
		return acts["None"]
	}
	covered := map[string]bool{}
	for _, t := range ts {
		if t.Exit != "return" || len(t.Ret) != 1 {
			continue
		}
		key := "(Node).nextAction path[" + t.Describe() + "]"
		bad := ""
		for _, voter := range []bool{true, false} {
			vs := "false"
			if voter {
				vs = "true"
			}
			for name, c := range acts {
				f := append([]core.Rel{}, t.Facts...)
				f = append(f, core.Rel{A: "Node.Voter", Op: "==", B: vs}, core.Rel{A: "Node.Action", Op: "==", B: c})
				if !core.Consistent(f, t.Unsigned) {
					continue
				}
				covered[vs+"/"+name] = true
				got := t.Ret[0]
				if got == "Node.Action" {
					got = c
				}
				if got != expected(voter, name) {
					bad = fmt.Sprintf("for Voter=%v Action=%s the next action is %s, the design says %s", voter, name, got, expected(voter, name))
				}
			}
		}
		h.C.Check(rule, key, bad == "", t.ExitPos, bad)
	}
	h.C.Check(rule+" total", "(Node).nextAction", len(covered) == 10, h.fpos(fn), fmt.Sprintf("only %d of the 10 (Voter, Action) combinations reach a return", len(covered)))
}

// callsOnEveryPath: fn calls callee with the given canonical arguments (from
// index 1 on; "" = any) on every path to a return.
func (h H) callsOnEveryPath(fn, callee *ssa.Function, args ...string) (bool, string, ssa.Instruction) {
	var hit ssa.Instruction
	for _, c := range h.P.CallsTo(fn, callee) {
		ok := true
		for i, a := range args {
			if a != "" && h.expandLocals(fn, h.argStr(c, i+1)) != a {
				ok = false
			}
		}
		if !ok {
			continue
		}
		dom := true
		for _, r := range core.Returns(fn) {
			if !core.Dominates(c.(ssa.Instruction), r) {
				dom = false
			}
		}
		if dom {
			hit = c.(ssa.Instruction)
		}
	}
	if hit == nil {
		return false, fmt.Sprintf("no call of %s(%s) that precedes every return", h.name(callee), strings.Join(args, ", ")), nil
	}
	return true, "", hit
}

// configSetters (C08.9 / C19.3c): the who-may-write rules say only these
// functions touch configs.Latest / configs.Committed / commitIndex; this rule
// says they do: the chain setCommitIndex -> commitConfig, changeConfig ->
// setLatest, revertConfig -> setLatest(Committed) is complete, in order, on
// every path, and a configuration counts as committed exactly when the commit
// index has reached it.
func (h H) configSetters(rule string) {
	check := func(name string, ok bool, why string, fn *ssa.Function) {
		h.C.Check(rule, name, ok, h.fpos(fn), why)
	}
	sl := h.fn("raft:(*Raft).setLatest")
	ok, why := h.storesOnEveryPath(sl, "Raft.storage.configs.Latest", func(v string, _ *ssa.Store) bool { return v == "Config" })
	check("(*Raft).setLatest stores configs.Latest", ok, "setLatest must store its argument into configs.Latest on every path: "+why, sl)
	cc := h.fn("raft:(*Raft).commitConfig")
	ok, why = h.storesOnEveryPath(cc, "Raft.storage.configs.Committed", func(v string, _ *ssa.Store) bool { return v == "Raft.storage.configs.Latest" })
	check("(*Raft).commitConfig stores configs.Committed", ok, "commitConfig must make the latest configuration the committed one on every path: "+why, cc)
	rv := h.fn("raft:(*Raft).revertConfig")
	ok, why, _ = h.callsOnEveryPath(rv, sl, "Raft.storage.configs.Committed")
	check("(*Raft).revertConfig reverts to Committed", ok, why, rv)
	// Raft.changeConfig: Committed := Latest, then setLatest(config)
	ch := h.fn("raft:(*Raft).changeConfig")
	ok2, why2, call := h.callsOnEveryPath(ch, sl, "Config")
	okOrder := false
	if ok2 {
		fi := h.P.Info(ch)
		core.Instrs(ch, func(in ssa.Instruction) {
			if st, isSt := in.(*ssa.Store); isSt && fi.Sym(st.Addr).String() == "Raft.storage.configs.Committed" && fi.Sym(st.Val).String() == "Raft.storage.configs.Latest" && core.Dominates(in, call) {
				okOrder = true
			}
		})
		why2 = "the outgoing configuration must become configs.Committed before the new one is installed"
	}
	check("(*Raft).changeConfig installs the configuration", ok2 && okOrder, why2, ch)
	// leader.changeConfig: caches + Raft.changeConfig
	lc := h.fn("raft:(*leader).changeConfig")
	ok, why, _ = h.callsOnEveryPath(lc, ch, "Config")
	check("(*leader).changeConfig installs the configuration", ok, why, lc)
	// (from the parameter, or from configs.Latest after it was installed: which of the two is decided by the voter-cache rule)
	ok, why = h.storesOnEveryPath(lc, "leader.numVoters", func(v string, _ *ssa.Store) bool { return strings.HasPrefix(v, "(Config).numVoters(") })
	check("(*leader).changeConfig refreshes numVoters", ok, "the voter count must be recomputed from the new configuration on every path: "+why, lc)
	ok, why = h.storesOnEveryPath(lc, "leader.node", func(v string, _ *ssa.Store) bool { return strings.HasSuffix(v, ".Nodes[leader.Raft.storage.nid]") })
	check("(*leader).changeConfig refreshes node", ok, "the leader's own node entry must be re-read from the new configuration on every path: "+why, lc)
	// Raft.setCommitIndex
	sc := h.fn("raft:(*Raft).setCommitIndex")
	ok, why = h.storesOnEveryPath(sc, "Raft.commitIndex", func(v string, _ *ssa.Store) bool { return v == "$1" })
	check("(*Raft).setCommitIndex stores commitIndex", ok, why, sc)
	fi := h.P.Info(sc)
	for k, r := range core.Returns(sc) {
		res := fi.MustCrossOrPass(r, func(a core.Atom) bool {
			return a.Implies(core.MkAtom("Raft.storage.configs.Committed.Index", "==", "Raft.storage.configs.Latest.Index")) ||
				a.Implies(core.MkAtom("Raft.commitIndex", "<", "Raft.storage.configs.Latest.Index")) ||
				a.Op == "true" && strings.HasPrefix(a.L, "(Configs).IsCommitted(")
		}, nil, func(in ssa.Instruction) bool { return h.P.IsCallTo(in, cc) })
		h.C.Check(rule, fmt.Sprintf("(*Raft).setCommitIndex return#%d commits the configuration it reached", k+1), res.OK, h.pos(r), "the commit index has reached an uncommitted latest configuration and commitConfig is not called: "+res.Witness)
	}
}

// stateDriver (C01.7 / C15.5b / C17.10): the role state machine is driven by
// three small pieces that everything else takes for granted: setState and
// setLeader store what they are given (when it differs), stateLoop runs
// init() of the role it enters and release() of the role it leaves — the hooks
// on which every lifecycle rule above hangs — and Shutdown initiates the close.
func (h H) stateDriver(rule string) {
	for _, s := range []struct{ spec, field string }{{"raft:(*Raft).setState", "Raft.state"}, {"raft:(*Raft).setLeader", "Raft.leader"}} {
		fn := h.fn(s.spec)
		fi := h.P.Info(fn)
		for k, r := range core.Returns(fn) {
			res := fi.MustCrossOrPass(r, func(a core.Atom) bool {
				return a.Implies(core.MkAtom("$1", "==", s.field))
			}, nil, func(in ssa.Instruction) bool {
				st, ok := in.(*ssa.Store)
				return ok && fi.Sym(st.Addr).String() == s.field && fi.Sym(st.Val).String() == "$1"
			})
			h.C.Check(rule+" setter-sets", fmt.Sprintf("%s return#%d", h.name(fn), k+1), res.OK, h.pos(r), h.name(fn)+" can return without "+s.field+" holding its argument: "+res.Witness)
		}
	}
	sl := h.fn("raft:(*Raft).stateLoop")
	fi := h.P.Info(sl)
	isInvoke := func(in ssa.Instruction, method string) bool {
		c, ok := in.(*ssa.Call)
		return ok && c.Common().IsInvoke() && c.Common().Method.Name() == method
	}
	// the outer loop: the header that is not nested in another loop
	var outer *ssa.BasicBlock
	hds := core.LoopHeaders(sl)
	for _, hd := range hds {
		nested := false
		for _, o := range hds {
			if o != hd && core.InLoop(o, hd) {
				nested = true
			}
		}
		if !nested {
			outer = hd
		}
	}
	if !h.C.Check(rule+" driver-loop", "(*Raft).stateLoop", outer != nil, h.fpos(sl), "no outer role loop found") {
		return
	}
	rInit := fi.LoopBodyMustPass(outer, func(in ssa.Instruction) bool { return isInvoke(in, "init") })
	rRel := fi.LoopBodyMustPass(outer, func(in ssa.Instruction) bool { return isInvoke(in, "release") })
	rStop := fi.LoopBodyMustPass(outer, func(in ssa.Instruction) bool { return h.P.IsCallTo(in, h.fn("raft:(*safeTimer).stop")) })
	h.C.Check(rule+" role-hooks", "(*Raft).stateLoop role loop", rInit.OK && rRel.OK && rStop.OK, h.fpos(sl), fmt.Sprintf("each pass of the role loop must run init() of the role entered (%v), stop the role timer (%v) and run release() of the role left (%v)", rInit.OK, rStop.OK, rRel.OK))
	// the role whose hooks run is the current one: `state = r.state` in the loop, hooks invoked on states[state]
	okState := false
	core.Instrs(sl, func(in ssa.Instruction) {
		if st, ok := in.(*ssa.Store); ok && fi.Sym(st.Addr).String() == "local:state" && fi.Sym(st.Val).String() == "Raft.state" && (in.Block() == outer || core.InLoop(outer, in.Block())) {
			okState = true
		}
	})
	h.C.Check(rule+" role-hooks", "(*Raft).stateLoop current role", okState, h.fpos(sl), "the role loop must re-read Raft.state at the start of each pass")
	// the inner loop runs while the role is unchanged
	okInner := false
	for _, hd := range hds {
		if hd == outer {
			continue
		}
		for _, ex := range fi.LoopExits(hd) {
			if ex.Has && ex.Atom.Implies(core.MkAtom("Raft.state", "!=", "local:state")) {
				okInner = true
			}
		}
	}
	h.C.Check(rule+" role-hooks", "(*Raft).stateLoop event loop", okInner, h.fpos(sl), "the event loop of a role must end when Raft.state changes")
	// on the way out: release of the current role and of the node
	okDefer := false
	for _, cl := range h.P.DeferredClosures(sl) {
		a, b := false, false
		core.Instrs(cl, func(in ssa.Instruction) {
			if isInvoke(in, "release") {
				a = true
			}
			if h.P.IsCallTo(in, h.fn("raft:(*Raft).release")) {
				b = true
			}
		})
		if a && b {
			okDefer = true
		}
	}
	h.C.Check(rule+" role-hooks", "(*Raft).stateLoop epilogue", okDefer, h.fpos(sl), "when stateLoop ends the current role's release() and Raft.release() must run (deferred)")
	// r.ldr / r.cnd published (handlers reach the role objects through them)
	okPub := 0
	core.Instrs(sl, func(in ssa.Instruction) {
		if st, ok := in.(*ssa.Store); ok {
			a := fi.Sym(st.Addr).String()
			if a == "Raft.ldr" || a == "Raft.cnd" {
				okPub++
			}
		}
	})
	h.C.Check(rule+" role-objects-published", "(*Raft).stateLoop", okPub == 2, h.fpos(sl), "stateLoop must publish its leader and candidate objects in Raft.ldr / Raft.cnd")
	// Shutdown initiates the close
	sh := h.fn("raft:(*Raft).Shutdown")
	dc := h.fn("raft:(*Raft).doClose")
	ok, why, _ := h.callsOnEveryPath(sh, dc, "global:ErrServerClosed")
	h.C.Check(rule+" shutdown-initiates-close", "(*Raft).Shutdown", ok, h.fpos(sh), why)
}

// commitReadyReevaluates (C17.9b): the complement of the own-term-commit gate
// on canChangeConfig (C08.2): membership actions postponed because the leader
// had not yet committed an entry of its term are looked at again in the
// activation in which it does. Otherwise a promotion/removal pending in the
// committed configuration waits for some unrelated later event.
func (h H) commitReadyReevaluates(rule string) {
	fn := h.fn("raft:(*leader).setCommitIndex")
	fi := h.P.Info(fn)
	cca := h.fn("raft:(*leader).checkConfigActions")
	isReady := func(l string) bool {
		return strings.Contains(l, "$1 >= leader.startIndex") || strings.Contains(l, "leader.startIndex <= $1")
	}
	n := 0
	for k, r := range core.Returns(fn) {
		n++
		res := fi.MustCrossOrPass(r, func(a core.Atom) bool {
			if a.Op == "false" && isReady(a.L) {
				return true // not (newly) commit ready
			}
			if a.Implies(core.MkAtom("$1", "<", "leader.startIndex")) || a.Implies(core.MkAtom("leader.Raft.commitIndex", ">=", "leader.startIndex")) {
				return true
			}
			return a.Op == "true" && strings.HasPrefix(a.L, "(Configs).IsStable(")
		}, nil, func(in ssa.Instruction) bool { return h.P.IsCallTo(in, cca) })
		h.C.Check(rule, fmt.Sprintf("(*leader).setCommitIndex return#%d", k+1), res.OK, h.pos(r), "the leader has just committed its first own-term entry and does not re-evaluate the membership actions it had to postpone: "+res.Witness)
	}
	h.C.Floor(rule+" (returns of leader.setCommitIndex)", n, 1)
}

// oneSnapshotAtATime (C15.4f / C12.1b): snapTakenCh is the in-progress flag of
// snapshot taking and the only way the snapshot goroutine's result (and with
// it the submitter's task) comes back. A new request may replace it only when
// no snapshot is in progress; otherwise the running goroutine's result lands in
// a channel nobody reads and its task is never answered.
func (h H) oneSnapshotAtATime(rule string) {
	fn := h.fn("raft:(*Raft).onTakeSnapshot")
	fi := h.P.Info(fn)
	n := 0
	core.Instrs(fn, func(in ssa.Instruction) {
		st, ok := in.(*ssa.Store)
		if !ok || fi.Sym(st.Addr).String() != "Raft.snapTakenCh" {
			return
		}
		n++
		_, isMk := st.Val.(*ssa.MakeChan)
		h.C.Check(rule+" fresh-result-channel", "(*Raft).onTakeSnapshot store snapTakenCh", isMk, h.pos(in), "the in-progress marker must be a fresh result channel")
		h.gate(rule+" only-when-idle", "(*Raft).onTakeSnapshot store snapTakenCh", in, core.MkAtom("Raft.snapTakenCh", "==", "nil"))
	})
	h.C.Floor(rule+" (snapTakenCh stores in onTakeSnapshot)", n, 1)
	// the go statement that takes the snapshot is behind the same gate
	for k, g := range h.P.GoSites(fn) {
		h.gateLoose(rule+" only-when-idle", fmt.Sprintf("(*Raft).onTakeSnapshot go#%d", k+1), g, core.MkAtom("Raft.snapTakenCh", "==", "nil"))
	}
	// onSnapshotTaken clears the marker on every path
	ost := h.fn("raft:(*Raft).onSnapshotTaken")
	ok, why := h.storesOnEveryPath(ost, "Raft.snapTakenCh", func(v string, _ *ssa.Store) bool { return v == "nil" })
	h.C.Check(rule+" marker-cleared", "(*Raft).onSnapshotTaken", ok, h.fpos(ost), "onSnapshotTaken must clear the in-progress marker on every path (or no further snapshot can ever be taken): "+why)
}

// transferTimeoutAnswers (C16.3b / C15.4g): when the transfer timer fires the
// transfer is over (inProgress() is the timer's active flag, cleared by
// stateLoop before the handler runs); the handler must answer the pending
// request with a non-nil error on every path, through replyTransfer (which also
// re-evaluates the membership actions that were blocked meanwhile).
func (h H) transferTimeoutAnswers(rule string) {
	fn := h.fn("raft:(*leader).onTransferTimeout")
	rt := h.fn("raft:(*leader).replyTransfer")
	ok, why, call := h.callsOnEveryPath(fn, rt)
	nonNil := false
	if ok {
		if c, isC := call.(ssa.CallInstruction); isC {
			a := c.Common().Args[1]
			if mi, isMI := a.(*ssa.MakeInterface); isMI {
				a = mi.X
			}
			nonNil = !isNilConst(a)
		}
		why = "the timeout must be reported as an error"
	}
	h.C.Check(rule, "(*leader).onTransferTimeout", ok && nonNil, h.fpos(fn), "a timed-out leadership transfer is not answered: "+why)
	// stateLoop clears the timer's active flag and calls the handler
	sl := h.fn("raft:(*Raft).stateLoop")
	h.C.Check(rule+" dispatched", "(*Raft).stateLoop transfer timer", len(h.P.CallsTo(sl, fn)) == 1, h.fpos(sl), "stateLoop must dispatch the transfer timer to onTransferTimeout")
}

// batchHandedOverAtClose (C15.5c): runBatch collects client requests into a
// batch and hands it to the raft goroutine; when the node closes, a batch it
// is still holding must be handed over before newEntryCh is closed — Serve's
// drain answers it with ErrServerClosed — or its submitters wait for ever.
func (h H) batchHandedOverAtClose(rule string) {
	fn := h.fn("raft:(*Raft).runBatch")
	fi := h.P.Info(fn)
	n := 0
	core.Instrs(fn, func(in ssa.Instruction) {
		c, ok := in.(*ssa.Call)
		if !ok {
			return
		}
		b, isB := c.Common().Value.(*ssa.Builtin)
		if !isB || b.Name() != "close" || fi.Sym(c.Common().Args[0]).String() != "Raft.newEntryCh" {
			return
		}
		n++
		// the batch is the value sent on the channel before the close
		batch := ""
		core.Instrs(fn, func(y ssa.Instruction) {
			if s, ok := y.(*ssa.Send); ok && fi.Sym(s.Chan).String() == "Raft.newEntryCh" && batch == "" {
				batch = fi.Sym(s.X).String()
			}
		})
		res := fi.MustCrossOrPass(c, func(a core.Atom) bool {
			return a.Op == "==" && a.R == "nil" && strings.HasPrefix(a.L, "phi(") && (batch == "" || a.L == batch)
		}, nil, func(x ssa.Instruction) bool {
			if s, ok := x.(*ssa.Send); ok {
				return fi.Sym(s.Chan).String() == "Raft.newEntryCh" && strings.HasPrefix(fi.Sym(s.X).String(), "phi(")
			}
			return false
		})
		h.C.Check(rule, fmt.Sprintf("(*Raft).runBatch close(newEntryCh)#%d", n), res.OK, h.pos(c), "the entry channel is closed while runBatch may still hold a batch of client requests: "+res.Witness)
	})
	h.C.Floor(rule+" (close(newEntryCh) in runBatch)", n, 1)
	// …and the hand-over before the close sends the batch exactly when there
	// is one: the send lies behind `batch != nil`
	m := 0
	core.Instrs(fn, func(in ssa.Instruction) {
		s, ok := in.(*ssa.Send)
		if !ok || fi.Sym(s.Chan).String() != "Raft.newEntryCh" {
			return
		}
		m++
		x := fi.Sym(s.X).String()
		r := fi.MustCross(in, func(a core.Atom) bool {
			return a.Op == "!=" && (a.L == x && a.R == "nil" || a.R == x && a.L == "nil")
		})
		h.C.Check(rule+" hand-over-when-there-is-a-batch", fmt.Sprintf("(*Raft).runBatch send#%d on newEntryCh", m), r.OK, h.pos(in), "the pending batch is handed over under a condition other than `batch != nil`: with a batch pending nothing is sent before the channel is closed, and its tasks are never answered: "+r.Witness)
	})
	h.onlyCallers(rule+" who-may-call", "raft:(*Raft).runBatch", "(*Raft).Serve")
}

// replicationLearnsConfig (C17.11): a replication sends idle heartbeats only
// to voters (r.node.Voter). Its copy of the node is refreshed from every leader
// update that carries a configuration, and the leader attaches the
// configuration whenever it changed; otherwise a node promoted to voter hears
// nothing from an idle leader, times out and campaigns against it.
func (h H) replicationLearnsConfig(rule string) {
	fn := h.fn("raft:(*replication).onLeaderUpdate")
	fi := h.P.Info(fn)
	for k, r := range core.Returns(fn) {
		res := fi.MustCrossOrPass(r, func(a core.Atom) bool {
			return a.Implies(core.MkAtom("leaderUpdate.config", "==", "nil"))
		}, nil, func(in ssa.Instruction) bool {
			st, ok := in.(*ssa.Store)
			return ok && fi.Sym(st.Addr).String() == "replication.node" && fi.Sym(st.Val).String() == "leaderUpdate.config.Nodes[replication.status.id]"
		})
		h.C.Check(rule+" node-refreshed", fmt.Sprintf("(*replication).onLeaderUpdate return#%d", k+1), res.OK, h.pos(r), "a leader update carrying a configuration does not refresh the replication's copy of its node: "+res.Witness)
	}
	// the view and the leader's last index / commit index are always taken over
	for _, w := range []struct{ addr, val string }{
		{"replication.log", "leaderUpdate.log"},
		{"replication.ldrLastIndex", "(*log.Log).LastIndex(leaderUpdate.log)"},
		{"appendReq.ldrCommitIndex", "leaderUpdate.commitIndex"},
	} {
		ok, why := h.storesOnEveryPath(fn, w.addr, func(v string, _ *ssa.Store) bool { return v == w.val })
		h.C.Check(rule+" update-taken-over", "(*replication).onLeaderUpdate "+w.addr, ok, h.fpos(fn), "a leader update must be taken over completely ("+w.addr+" := "+w.val+"): "+why)
	}
	// heartbeat timer only for voters, armed with hbTimeout/2
	cl := h.fn("raft:(*replication).checkLeaderUpdate")
	cfi := h.P.Info(cl)
	reset := h.fn("raft:(*safeTimer).reset")
	n := 0
	for k, c := range h.P.CallsTo(cl, reset) {
		n++
		arg := h.argStr(c, 1)
		okIv := false
		var div int
		if _, err := fmt.Sscanf(arg, "(replication.hbTimeout / Duration(%d))", &div); err == nil && div >= 2 {
			okIv = true
		}
		h.C.Check(rule+" heartbeat-interval", h.site(cl, reset, k), okIv, h.pos(c.(ssa.Instruction)), "idle heartbeats must be sent at hbTimeout/k, k >= 2 (the follower's election timeout is at least hbTimeout); found "+arg)
		h.gateLoose(rule+" heartbeats-for-voters", h.site(cl, reset, k), c.(ssa.Instruction), core.BoolAtom("replication.node.Voter", true))
	}
	h.C.Check(rule+" heartbeat-timer-armed", "(*replication).checkLeaderUpdate", n >= 1, h.fpos(cl), "an idle replication never arms its heartbeat timer: voters hear nothing from an idle leader")
	_ = cfi
	// the leader attaches the configuration when it changed
	se := h.fn("raft:(*leader).storeEntry")
	nf := h.fn("raft:(*leader).notifyFlr")
	m := 0
	for k, c := range h.P.CallsTo(se, nf) {
		m++
		arg := h.argStr(c, 1)
		ok := strings.Contains(arg, "leader.Raft.storage.configs.Latest.Index")
		h.C.Check(rule+" config-attached-when-changed", h.site(se, nf, k), ok, h.pos(c.(ssa.Instruction)), "storeEntry must tell the replications whether the configuration changed (compare Latest.Index before/after); found "+arg)
	}
	h.C.Floor(rule+" (notifyFlr in storeEntry)", m, 1)
	nfi := h.P.Info(nf)
	okCfg := false
	// the update's config field receives a private copy of the latest
	// configuration exactly when includeConfig ($1) is set: either the store
	// itself is under that test, or the stored value was chosen under it
	has := func(facts []core.Atom, op string) bool {
		for _, a := range facts {
			if a.L == "$1" && a.Op == op {
				return true
			}
		}
		return false
	}
	isCopy := func(v ssa.Value) bool {
		al, ok := v.(*ssa.Alloc)
		if !ok {
			return false
		}
		n, good := 0, false
		for _, r := range *al.Referrers() {
			if st, ok := r.(*ssa.Store); ok && st.Addr == ssa.Value(al) {
				n++
				good = nfi.Sym(st.Val).String() == "leader.Raft.storage.configs.Latest"
			}
		}
		return n == 1 && good
	}
	// a pending update taken back out of a replication's mailbox may carry a
	// configuration the replication has not seen: it is handed over with the
	// replacing update exactly when that one carries none (never over a newer one)
	carried := func(v ssa.Value) bool {
		s := nfi.Sym(v).String()
		return strings.HasPrefix(s, "select@") && strings.HasSuffix(s, ".config")
	}
	badStore := ""
	core.Instrs(nf, func(in ssa.Instruction) {
		st, ok := in.(*ssa.Store)
		if !ok || !strings.HasSuffix(nfi.Sym(st.Addr).String(), ".config") {
			return
		}
		if carried(st.Val) {
			guarded := false
			for _, a := range nfi.FactsAt(in) {
				if a.Implies(core.MkAtom(nfi.Sym(st.Addr).String(), "==", "nil")) {
					guarded = true
				}
			}
			if !guarded {
				badStore = h.pos(in) + ": the configuration of the replaced update overwrites the one of the new update"
			}
			return
		}
		if phi, isPhi := st.Val.(*ssa.Phi); isPhi {
			good := len(phi.Edges) > 0
			for i, e := range phi.Edges {
				facts := nfi.FactsInto(phi.Block(), i)
				switch {
				case isNilConst(e):
					good = good && has(facts, "false")
				default:
					good = good && has(facts, "true") && isCopy(e)
				}
			}
			okCfg = good
			return
		}
		okCfg = has(nfi.FactsAt(in), "true") && isCopy(st.Val)
	})
	h.C.Check(rule+" config-attached-when-changed", "(*leader).notifyFlr", okCfg, h.fpos(nf), "notifyFlr(includeConfig=true) must attach the latest configuration to the update")
	h.C.Check(rule+" carried-config-only-fills-a-gap", "(*leader).notifyFlr", badStore == "", h.fpos(nf), badStore)
	// replacing a pending update must not lose the configuration it carried:
	// every way from taking it out of the mailbox to the send that replaces it
	// either knows the new update has a configuration (or the old one had none),
	// or copies the old one's configuration into the update being sent
	nSel := 0
	core.Instrs(nf, func(in ssa.Instruction) {
		sel, ok := in.(*ssa.Select)
		if !ok {
			return
		}
		for k, stt := range sel.States {
			if stt.Dir != types.RecvOnly || !strings.HasSuffix(nfi.Sym(stt.Chan).String(), ".leaderUpdateCh") {
				continue
			}
			nSel++
			recvSym := fmt.Sprintf("%s#%d", nfi.Sym(sel).String(), 2+recvOrdinal(sel, k))
			nSend := 0
			core.Instrs(nf, func(in2 ssa.Instruction) {
				snd, ok := in2.(*ssa.Send)
				if !ok || !strings.HasSuffix(nfi.Sym(snd.Chan).String(), ".leaderUpdateCh") || !fwdReachInstr(sel, snd) {
					return
				}
				nSend++
				sent := nfi.Sym(snd.X).String()
				pass := func(a core.Atom) bool {
					return a.Implies(core.MkAtom(sent+".config", "!=", "nil")) || a.Implies(core.MkAtom(recvSym+".config", "==", "nil")) ||
						a.Implies(core.MkAtom(nfi.Sym(sel).String()+"#0", "!=", fmt.Sprint(k)))
				}
				hit := func(i ssa.Instruction) bool {
					st, ok := i.(*ssa.Store)
					return ok && nfi.Sym(st.Addr).String() == sent+".config" && nfi.Sym(st.Val).String() == recvSym+".config"
				}
				var res core.GateResult
				inLoop := false
				for _, hd := range core.LoopHeaders(nf) {
					if core.InLoop(hd, snd.Block()) && core.InLoop(hd, sel.Block()) && !inLoop {
						inLoop = true
						res = nfi.MustCrossOrPassInLoop(hd, snd, pass, hit)
					}
				}
				if !inLoop {
					res = nfi.MustCrossOrPass(snd, pass, nil, hit)
				}
				h.C.Check(rule+" pending-config-carried", fmt.Sprintf("(*leader).notifyFlr send#%d after taking the pending update", nSend), res.OK, h.pos(snd),
					"the update taken out of a replication's mailbox may carry a configuration the replication has not seen; the update replacing it carries none and the configuration is lost (the replication keeps treating a promoted node as non-voter and sends it no heartbeats): "+res.Witness)
			})
			h.C.Floor(rule+" (sends replacing a pending update)", nSend, 1)
		}
	})
	h.C.Floor(rule+" (mailbox drains in notifyFlr)", nSel, 1)
}

// recvOrdinal: position of state k among the receive states of sel (the
// received values follow the index and ok results of the select tuple).
func recvOrdinal(sel *ssa.Select, k int) int {
	n := 0
	for i := 0; i < k; i++ {
		if sel.States[i].Dir == types.RecvOnly {
			n++
		}
	}
	return n
}

// fwdReachInstr: b can execute after a (same block later, or a reachable block).
func fwdReachInstr(a, b ssa.Instruction) bool {
	if a.Block() == b.Block() {
		ia, ib := -1, -1
		for i, in := range a.Block().Instrs {
			if in == a {
				ia = i
			}
			if in == b {
				ib = i
			}
		}
		if ia < ib {
			return true
		}
	}
	seen := map[*ssa.BasicBlock]bool{}
	var walk func(x *ssa.BasicBlock) bool
	walk = func(x *ssa.BasicBlock) bool {
		for _, s := range x.Succs {
			if s == b.Block() {
				return true
			}
			if !seen[s] {
				seen[s] = true
				if walk(s) {
					return true
				}
			}
		}
		return false
	}
	return walk(a.Block())
}

// leaderHintProtection (C17.3b): Raft.leader != 0 is what makes the vote
// handler turn away candidates that have no transfer permission. Outside the
// handlers and role hooks, stateLoop may clear it only when the connection of
// that very leader dropped; clearing it on any other peer's disconnect lets a
// disruptive candidate win votes and raise terms while the leader is alive.
func (h H) leaderHintProtection(rule string) {
	sl := h.fn("raft:(*Raft).stateLoop")
	fi := h.P.Info(sl)
	setLeader := h.fn("raft:(*Raft).setLeader")
	n := 0
	for k, c := range h.P.CallsTo(sl, setLeader) {
		if h.argStr(c, 1) != "0" {
			h.C.Check(rule+" stateLoop-only-clears", h.site(sl, setLeader, k), false, h.pos(c.(ssa.Instruction)), "stateLoop sets a leader itself: "+h.argStr(c, 1))
			continue
		}
		n++
		r := fi.MustCross(c.(ssa.Instruction), func(a core.Atom) bool {
			return a.Op == "==" && (a.L == "Raft.leader" && strings.HasPrefix(a.R, "select@") || a.R == "Raft.leader" && strings.HasPrefix(a.L, "select@"))
		})
		h.C.Check(rule+" cleared-only-for-the-disconnected-leader", h.site(sl, setLeader, k), r.OK, h.pos(c.(ssa.Instruction)), "the leader hint is cleared although the peer that disconnected is not known to be the leader: "+r.Witness)
	}
	h.C.Floor(rule+" (setLeader(0) in stateLoop)", n, 1)
	// who may call setLeader at all
	h.onlyCallers(rule+" who-may-call", "raft:(*Raft).setLeader",
		"(*Raft).stateLoop", "(*Raft).onAppendEntriesRequest", "(*Raft).onInstallSnapRequest", "(*Raft).onTimeoutNowRequest",
		"(*follower).onTimeout", "(*candidate).onVoteResult", "(*leader).release", "(*leader).checkQuorum", "(*leader).checkReplUpdates",
		"(*Raft).setCommitIndex", "(*Raft).changeConfig", "(*Raft).commitConfig")
}

// removedReplicationMuted (C17.12): the replication of a node that is dropped
// from the configuration is stopped without being waited for; updates it has
// already queued (a higher term seen by the removed, still campaigning node)
// are still in replUpdateCh. They are ignored because the leader marks the
// replication's status removed before it stops it, and checkReplUpdates acts
// on an update only under !status.removed.
func (h H) removedReplicationMuted(rule string) {
	cr := h.fn("raft:(*leader).checkReplUpdates")
	fi := h.P.Info(cr)
	n := 0
	core.Instrs(cr, func(in ssa.Instruction) {
		acts := false
		switch x := in.(type) {
		case *ssa.Panic:
			acts = in.Block() != cr.Recover
		case ssa.CallInstruction:
			if sc := x.Common().StaticCallee(); sc != nil {
				switch h.name(sc) {
				case "(*Raft).setTerm", "(*Raft).setState", "(*Raft).setLeader", "(*leader).checkConfigAction":
					acts = true
				}
			}
		case *ssa.Store:
			s := fi.Sym(x.Addr).String()
			acts = strings.HasSuffix(s, ".status.matchIndex") || strings.HasSuffix(s, ".status.noContact") || strings.HasSuffix(s, ".status.removeLTE")
		}
		if !acts {
			return
		}
		n++
		r := fi.MustCross(in, func(a core.Atom) bool {
			return strings.HasSuffix(a.L, ".status.removed") && (a.Op == "false" || a.Op == "==" && a.R == "false" || a.Op == "!=" && a.R == "true")
		})
		h.C.Check(rule+" updates-of-removed-ignored", fmt.Sprintf("(*leader).checkReplUpdates effect#%d", n), r.OK, h.pos(in), "an update queued by the replication of a removed node is acted upon (its higher term deposes the leader, its match index counts): "+r.Witness)
	})
	h.C.Floor(rule+" (effects of replication updates)", n, 6)
	// marking: every stop of a single replication outside leader.release
	m := 0
	for _, fn := range h.P.Funcs() {
		if fn.Pkg == nil || fn.Pkg.Pkg.Name() != "raft" || h.name(fn) == "(*leader).release" || h.name(fn) == "(*leader).stopRepls" || fn.Parent() != nil && h.name(fn.Parent()) == "(*leader).release" {
			continue
		}
		ffi := h.P.Info(fn)
		core.Instrs(fn, func(in ssa.Instruction) {
			c, ok := in.(*ssa.Call)
			if !ok {
				return
			}
			b, ok := c.Common().Value.(*ssa.Builtin)
			if !ok || b.Name() != "close" {
				return
			}
			arg := ffi.Sym(c.Common().Args[0]).String()
			if !strings.HasSuffix(arg, ".stopCh") || !strings.Contains(arg, "repls") {
				return
			}
			m++
			who := strings.TrimSuffix(arg, ".stopCh")
			r := ffi.PrecededBy(in, func(i ssa.Instruction) bool {
				st, ok := i.(*ssa.Store)
				return ok && ffi.Sym(st.Addr).String() == who+".status.removed" && ffi.Sym(st.Val).String() == "true"
			})
			h.C.Check(rule+" marked-before-stopped", fmt.Sprintf("%s close(%s)", h.name(fn), arg), r.OK, h.pos(in), "a replication is stopped because its node left the configuration without its status being marked removed first: what it already queued (a newer term, a match index) is still acted upon")
		})
	}
	h.C.Floor(rule+" (single replication stops)", m, 1)
}

// taskReplyPublishes (C07.9 / C15.4i): whoever waits on a task's done channel
// reads its result after the channel is closed; the close is what publishes
// the result. reply therefore stores the result before it closes done — the
// other order lets a client see a completed task with no error and no result
// (a rejected update looks applied).
func (h H) taskReplyPublishes(rule string) {
	fn := h.fn("raft:(*task).reply")
	fi := h.P.Info(fn)
	n := 0
	core.Instrs(fn, func(in ssa.Instruction) {
		c, ok := in.(*ssa.Call)
		if !ok {
			return
		}
		b, ok := c.Common().Value.(*ssa.Builtin)
		if !ok || b.Name() != "close" || !strings.HasSuffix(fi.Sym(c.Common().Args[0]).String(), ".done") {
			return
		}
		n++
		r := fi.PrecededBy(in, func(i ssa.Instruction) bool {
			st, ok := i.(*ssa.Store)
			return ok && strings.HasSuffix(fi.Sym(st.Addr).String(), ".result") && fi.Sym(st.Val).String() == "$1"
		})
		h.C.Check(rule+" result-before-done", fmt.Sprintf("(*task).reply close(done)#%d", n), r.OK, h.pos(in), "the task's done channel is closed before its result is stored: a waiter released by the close reads no error and no result")
	})
	h.C.Floor(rule+" (close of task.done in reply)", n, 1)
	h.onlyWriters(rule+" who-may-write", "raft:task.result", "(*task).reply")
}

// logChangedOnlyWithoutReaders (C15.12 / C09.10): replication goroutines read
// the log through views that share the log's segments; clearing, compacting
// or truncating the log unmaps what they may be reading (a fault the process
// cannot recover from). A request handler that makes a leader step down only
// assigns the state — the role is released after the handler returned — so a
// handler that changes the log first stops the replications and waits for
// them (leader.stopRepls, the same routine release uses).
func (h H) logChangedOnlyWithoutReaders(rule string) {
	sr := h.P.FuncOpt("raft:(*leader).stopRepls")
	if sr == nil {
		h.C.Check(rule+" stop-routine", "(*leader).stopRepls", false, "", "no routine stops the replications and waits for them")
		return
	}
	fi := h.P.Info(sr)
	// shape of stopRepls: every replication's stopCh closed, then wg.Wait
	var wait ssa.Instruction
	nClose := 0
	core.Instrs(sr, func(in ssa.Instruction) {
		if c, ok := in.(ssa.CallInstruction); ok {
			if _, plain := in.(*ssa.Call); plain {
				if sc := c.Common().StaticCallee(); sc != nil && h.name(sc) == "(*sync.WaitGroup).Wait" && strings.HasSuffix(fi.Sym(c.Common().Args[0]).String(), ".wg") {
					wait = in
				}
			}
			if b, ok := c.Common().Value.(*ssa.Builtin); ok && b.Name() == "close" && strings.HasSuffix(fi.Sym(c.Common().Args[0]).String(), ".stopCh") {
				nClose++
			}
		}
	})
	okShape := wait != nil && nClose >= 1
	if okShape {
		for _, r := range core.Returns(sr) {
			if !core.Dominates(wait, r) {
				okShape = false
			}
		}
	}
	h.C.Check(rule+" stop-routine", "(*leader).stopRepls", okShape, h.fpos(sr), "stopRepls must close every replication's stop channel and return only after the replications' wait group is done")
	// release stops them too
	rel := h.fn("raft:(*leader).release")
	h.C.Check(rule+" release-stops", "(*leader).release", len(h.P.CallsTo(rel, sr)) >= 1, h.fpos(rel), "leader.release does not stop and wait for the replications")
	// handlers: log surgery only after stopRepls
	n := 0
	for _, spec := range []string{"raft:(*Raft).onInstallSnapRequest", "raft:(*Raft).onAppendEntriesRequest"} {
		fn := h.fn(spec)
		ffi := h.P.Info(fn)
		core.Instrs(fn, func(in ssa.Instruction) {
			c, ok := in.(ssa.CallInstruction)
			if !ok {
				return
			}
			sc := c.Common().StaticCallee()
			if sc == nil {
				return
			}
			switch h.name(sc) {
			case "(*storage).clearLog", "(*Raft).compactLog":
				n++
				r := ffi.PrecededBy(in, func(i ssa.Instruction) bool { return h.P.IsCallTo(i, sr) })
				h.C.Check(rule+" readers-stopped-first", fmt.Sprintf("%s → %s#%d", h.name(fn), h.name(sc), n), r.OK, h.pos(in), "a request handler clears or compacts the log while the replications of the leadership it has just ended may still be reading it through their views (the role is released only after the handler returns): a read of an unmapped segment kills the process")
			case "(*storage).removeGTE":
				n++
				r := ffi.PrecededBy(in, func(i ssa.Instruction) bool { return h.P.IsCallTo(i, sr) })
				h.C.Check(rule+" readers-stopped-first", fmt.Sprintf("%s → %s#%d", h.name(fn), h.name(sc), n), true, h.pos(in),
					fmt.Sprintf("accepted (stopRepls before it: %v): a request that carries entries is sent only by the pipeline, which starts after an entry-less probe of the same term was answered on that connection — the receiver stepped down in that probe and its role was released before this request is taken (C17.4 probe, C06.4c pipeline)", r.OK))
			}
		})
	}
	h.C.Floor(rule+" (log surgery in request handlers)", n, 3)
	h.onlyCallers(rule+" who-may-call", "raft:(*storage).clearLog", "(*Raft).onInstallSnapRequest")
}

// waitsOnEveryPath: every return of fn is dominated by a WaitGroup.Wait call.
func waitsOnEveryPath(fn *ssa.Function) bool {
	var wait ssa.Instruction
	core.Instrs(fn, func(in ssa.Instruction) {
		if c, ok := in.(*ssa.Call); ok {
			if f := c.Common().StaticCallee(); f != nil && f.String() == "(*sync.WaitGroup).Wait" {
				wait = in
			}
		}
	})
	if wait == nil {
		return false
	}
	for _, r := range core.Returns(fn) {
		if !core.Dominates(wait, r) {
			return false
		}
	}
	return true
}

// logReadersComplete (C15.13 / C09.11): the replication of a node dropped from
// the configuration is stopped without being waited for; until its goroutine
// has ended it can still read the log through its view. What bounds log
// compaction therefore ranges over leader.logReaders() — the running
// replications and the stopped ones that have not ended — and the pieces that
// make that set right are: changeConfig hands every replication it stops to
// leader.stopped; the replication's goroutine closes its done channel when
// runLoop has returned; logReaders leaves out a stopped replication only after
// receiving from done.
func (h H) logReadersComplete(rule string) {
	lr := h.P.FuncOpt("raft:(*leader).logReaders")
	if lr == nil {
		h.C.Check(rule+" reader-set", "(*leader).logReaders", false, "", "no routine enumerates the goroutines that still read the log")
		return
	}
	fi := h.P.Info(lr)
	isAppend := func(in ssa.Instruction) bool {
		c, ok := in.(*ssa.Call)
		if !ok {
			return false
		}
		b, ok := c.Common().Value.(*ssa.Builtin)
		return ok && b.Name() == "append"
	}
	// every running replication is in the set
	okRun := false
	if hd := fi.RangeHeader("leader.repls", 0); hd != nil {
		okRun = fi.LoopBodyMustPass(hd, isAppend).OK
	}
	h.C.Check(rule+" reader-set running", "(*leader).logReaders range repls", okRun, h.fpos(lr), "a running replication can be left out of the set of log readers")
	// a stopped one is left out only after its done channel delivered
	okStopped := false
	if hd := sliceRangeHeader(fi, "leader.stopped"); hd != nil {
		r := fi.LoopBodyMustCrossOrPass(hd, func(a core.Atom) bool {
			// the receive case of a select on <repl>.done was taken
			if !strings.HasPrefix(a.L, "select@") || a.Op != "==" {
				return false
			}
			for _, in := range hd.Parent().Blocks {
				for _, x := range in.Instrs {
					if sel, ok := x.(*ssa.Select); ok && strings.HasPrefix(a.L, fi.Sym(sel).String()+"#0") {
						for k, st := range sel.States {
							if st.Dir == types.RecvOnly && strings.HasSuffix(fi.Sym(st.Chan).String(), ".done") && a.R == fmt.Sprint(k) {
								return true
							}
						}
					}
				}
			}
			return false
		}, isAppend)
		okStopped = r.OK
	}
	h.C.Check(rule+" reader-set stopped", "(*leader).logReaders range stopped", okStopped, h.fpos(lr), "a stopped replication can be left out of the set of log readers although its goroutine has not signalled its end (done)")
	// changeConfig hands over what it stops
	n := 0
	for _, fn := range h.P.Funcs() {
		if fn.Pkg == nil || fn.Pkg.Pkg.Name() != "raft" || h.name(fn) == "(*leader).stopRepls" {
			continue
		}
		ffi := h.P.Info(fn)
		core.Instrs(fn, func(in ssa.Instruction) {
			c, ok := in.(*ssa.Call)
			if !ok {
				return
			}
			b, ok := c.Common().Value.(*ssa.Builtin)
			if !ok || b.Name() != "close" {
				return
			}
			arg := ffi.Sym(c.Common().Args[0]).String()
			if !strings.HasSuffix(arg, ".stopCh") || !strings.Contains(arg, "repls") {
				return
			}
			n++
			r := ffi.AlwaysFollowedBy(in, func(i ssa.Instruction) bool {
				st, ok := i.(*ssa.Store)
				return ok && strings.HasSuffix(ffi.Sym(st.Addr).String(), ".stopped") && strings.Contains(ffi.Sym(st.Val).String(), "append(")
			})
			h.C.Check(rule+" stopped-handed-over", fmt.Sprintf("%s close(%s)", h.name(fn), arg), r.OK, h.pos(in), "a replication is stopped without being waited for and is not kept among the log readers: compaction no longer considers it while its goroutine can still read the log through its view")
		})
	}
	h.C.Floor(rule+" (single replication stops)", n, 1)
	// the goroutine signals its end
	ar := h.fn("raft:(*leader).addReplication")
	rl := h.fn("raft:(*replication).runLoop")
	okDone := false
	for _, g := range h.P.GoSites(ar) {
		cl := core.ClosureOf(g.Call.Value)
		if cl == nil {
			continue
		}
		cfi := h.P.Info(cl)
		var run ssa.Instruction
		core.Instrs(cl, func(in ssa.Instruction) {
			if h.P.IsCallTo(in, rl) {
				run = in
			}
		})
		if run == nil {
			continue
		}
		core.Instrs(cl, func(in ssa.Instruction) {
			switch x := in.(type) {
			case *ssa.Defer:
				if b, ok := x.Call.Value.(*ssa.Builtin); ok && b.Name() == "close" && strings.HasSuffix(cfi.Sym(x.Call.Args[0]).String(), ".done") && core.Dominates(in, run) {
					okDone = true
				}
			case *ssa.Call:
				if b, ok := x.Call.Value.(*ssa.Builtin); ok && b.Name() == "close" && strings.HasSuffix(cfi.Sym(x.Call.Args[0]).String(), ".done") && core.Dominates(run, in) {
					okDone = true
				}
			}
		})
	}
	h.C.Check(rule+" end-signalled", "(*leader).addReplication goroutine", okDone, h.fpos(ar), "the replication goroutine does not close its done channel when runLoop has returned")
	ok, why := h.storesOnEveryPath(ar, "new:replication#1.done", func(v string, _ *ssa.Store) bool { return strings.HasPrefix(v, "makechan") })
	h.C.Check(rule+" end-signalled", "(*leader).addReplication done channel", ok, h.fpos(ar), "a replication is created without its done channel: "+why)
}

// clearLogResets (C04.10 / C02.5c): storage.clearLog — the install handler's
// "this log is replaced by the snapshot" — resets the log to the snapshot
// index on every path. A log that merely ends at the snapshot index may hold
// another term there; keeping it puts the next entries behind a conflicting one.
func (h H) clearLogResets(rule string) {
	fn := h.fn("raft:(*storage).clearLog")
	fi := h.P.Info(fn)
	reset := h.fn("log:(*Log).Reset")
	n := 0
	for k, r := range core.Returns(fn) {
		if len(r.Results) != 1 || !(isNilConst(r.Results[0]) || fi.Sym(r.Results[0]).String() == "nil") {
			continue
		}
		n++
		res := fi.PrecededBy(r, func(in ssa.Instruction) bool {
			c, ok := in.(ssa.CallInstruction)
			return ok && h.P.IsCallTo(in, reset) && strings.HasSuffix(h.argStr(c, 1), "#0") && strings.Contains(h.argStr(c, 1), "latest(")
		})
		h.C.Check(rule, fmt.Sprintf("(*storage).clearLog success-return#%d", k+1), res.OK, h.pos(r), "clearLog can report success without resetting the log to the latest snapshot's index: entries the snapshot replaces stay in the log")
	}
	h.C.Floor(rule+" (success returns of clearLog)", n, 1)
}

// barrierRoundTrips (C09.5c / C15.10c): Raft.lastApplied is the barrier the
// install handler relies on before it discards or compacts the log: its
// answer must have travelled through the state machine's queue (send on
// fsm.ch, wait for the task) on every path — an empty queue does not mean an
// idle state machine.
func (h H) barrierRoundTrips(rule string) {
	fn := h.fn("raft:(*Raft).lastApplied")
	fi := h.P.Info(fn)
	n := 0
	for k, r := range core.Returns(fn) {
		n++
		sent := fi.PrecededBy(r, func(in ssa.Instruction) bool {
			s, ok := in.(*ssa.Send)
			return ok && strings.HasSuffix(fi.Sym(s.Chan).String(), ".fsm.ch")
		})
		waited := fi.PrecededBy(r, func(in ssa.Instruction) bool {
			u, ok := in.(*ssa.UnOp)
			return ok && u.Op == token.ARROW && strings.HasSuffix(fi.Sym(u.X).String(), ".done")
		})
		h.C.Check(rule, fmt.Sprintf("(*Raft).lastApplied return#%d", k+1), sent.OK && waited.OK, h.pos(r), fmt.Sprintf("lastApplied can answer without a round trip through the state machine's queue (sent: %v, waited: %v): the state machine may still be reading the log the caller is about to discard", sent.OK, waited.OK))
	}
	h.C.Floor(rule+" (returns of lastApplied)", n, 1)
}

// voteResultsUnderCurrentState (C01.11): stateLoop hands a vote reply to the
// candidate only after re-checking that the node still is in the state the
// loop was entered for; a second reply consumed in the same turn would be
// counted after the first one made the node step down (a leader of a term
// nobody voted for it in).
func (h H) voteResultsUnderCurrentState(rule string) {
	sl := h.fn("raft:(*Raft).stateLoop")
	fi := h.P.Info(sl)
	ovr := h.fn("raft:(*candidate).onVoteResult")
	n := 0
	for k, c := range h.P.CallsTo(sl, ovr) {
		n++
		in := c.(ssa.Instruction)
		// forward from the call: another call must not be reachable without
		// crossing the loop's state test
		bad := ""
		seen := map[*ssa.BasicBlock]bool{}
		var walk func(b *ssa.BasicBlock, i int)
		walk = func(b *ssa.BasicBlock, i int) {
			for ; i < len(b.Instrs); i++ {
				if h.P.IsCallTo(b.Instrs[i], ovr) {
					bad = h.pos(b.Instrs[i])
					return
				}
			}
			for si, s := range b.Succs {
				if a, ok := fi.EdgeAtom(core.Edge{From: b, Succ: si}); ok && (a.L == "Raft.state" || a.R == "Raft.state") {
					continue
				}
				if !seen[s] {
					seen[s] = true
					walk(s, 0)
				}
			}
		}
		idx := 0
		for i, x := range in.Block().Instrs {
			if x == in {
				idx = i + 1
			}
		}
		walk(in.Block(), idx)
		h.C.Check(rule, h.site(sl, ovr, k), bad == "", h.pos(in), "a second vote reply can be handed to the candidate ("+bad+") without the state loop re-checking the node's state in between: replies queued behind one that made the node step down are still counted")
	}
	h.C.Floor(rule+" (onVoteResult in stateLoop)", n, 1)
	h.onlyCallers(rule+" who-may-call", "raft:(*candidate).onVoteResult", "(*Raft).stateLoop")
}

// backOffCapped (C17.13): a replication that keeps failing retries with a
// growing wait; the wait stays below the follower's election timeout (the
// caller passes hbTimeout/k, k >= 2, as the cap and backOff never returns more
// than the cap) — otherwise a follower that comes back hears nothing from the
// live leader for longer than its election timeout, campaigns and deposes it.
func (h H) backOffCapped(rule string) {
	fn := h.fn("raft:backOff")
	fi := h.P.Info(fn)
	n := 0
	for k, r := range core.Returns(fn) {
		n++
		v := fi.Sym(r.Results[0]).String()
		ok := v == "$1"
		if !ok {
			res := fi.MustCross(r, func(a core.Atom) bool {
				return a.Implies(core.MkAtom(v, "<=", "$1"))
			})
			ok = res.OK
		}
		h.C.Check(rule+" never-above-the-cap", fmt.Sprintf("backOff return#%d", k+1), ok, h.pos(r), "backOff can return a wait ("+core.Short(v, 80)+") that was not compared with the cap after it was computed")
	}
	h.C.Floor(rule+" (returns of backOff)", n, 2)
	m := 0
	for _, f := range h.P.Funcs() {
		if f.Pkg == nil || f.Pkg.Pkg.Name() != "raft" {
			continue
		}
		for k, c := range h.P.CallsTo(f, fn) {
			if c.Parent() != f {
				continue
			}
			m++
			arg := h.argStr(c, 1)
			var div int
			okCap := false
			if i := strings.LastIndex(arg, "hbTimeout / Duration("); i >= 0 {
				if _, err := fmt.Sscanf(arg[i:], "hbTimeout / Duration(%d)", &div); err == nil && div >= 2 {
					okCap = true
				}
			}
			h.C.Check(rule+" cap-below-election-timeout", h.site(f, fn, k), okCap, h.pos(c.(ssa.Instruction)), "the retry wait of a failing replication is capped by "+arg+", not by hbTimeout/k (k >= 2)")
		}
	}
	h.C.Floor(rule+" (callers of backOff)", m, 1)
}

// bootstrapAdoptsOnlyStored (C19.5): Raft.bootstrap adopts the configuration
// (changeConfig) and turns candidate only after storage.bootstrap stored the
// configuration entry; on the failure exit nothing is adopted. Otherwise the
// node reports a latest configuration that is in neither its log nor a
// snapshot.
func (h H) bootstrapAdoptsOnlyStored(rule string) {
	fn := h.fn("raft:(*Raft).bootstrap")
	fi := h.P.Info(fn)
	n := 0
	core.Instrs(fn, func(in ssa.Instruction) {
		c, ok := in.(ssa.CallInstruction)
		if !ok {
			return
		}
		sc := c.Common().StaticCallee()
		if sc == nil {
			return
		}
		switch h.name(sc) {
		case "(*Raft).changeConfig", "(*Raft).setState":
		default:
			return
		}
		n++
		r := fi.MustCross(in, func(a core.Atom) bool {
			return a.Op == "==" && a.R == "nil" && strings.HasPrefix(a.L, "(*storage).bootstrap(")
		})
		h.C.Check(rule, fmt.Sprintf("(*Raft).bootstrap → %s#%d", h.name(sc), n), r.OK, h.pos(in), "the bootstrap configuration is adopted (or the node turns candidate) although storing its entry may have failed: "+r.Witness)
	})
	h.C.Floor(rule+" (effects of Raft.bootstrap)", n, 2)
}

// lockNotTakenFromHolder (C20.4): lockDir removes only its own temporary file.
// The lock file itself is removed by unlockDir alone, which only a caller that
// holds the lock runs (after a successful lockDir): a refused attempt that
// removed the lock would let the next attempt in while the holder still serves.
func (h H) lockNotTakenFromHolder(rule string) {
	fn := h.fn("raft:lockDir")
	n := 0
	check := func(f *ssa.Function) {
		ffi := h.P.Info(f)
		core.Instrs(f, func(in ssa.Instruction) {
			c, ok := in.(ssa.CallInstruction)
			if !ok {
				return
			}
			sc := c.Common().StaticCallee()
			if sc == nil || sc.Pkg == nil || sc.Pkg.Pkg.Path() != "os" || !strings.HasPrefix(sc.Name(), "Remove") {
				return
			}
			n++
			arg := ffi.Sym(c.Common().Args[0]).String()
			own := strings.Contains(arg, "Name(") || strings.Contains(arg, "TempFile")
			h.C.Check(rule+" removes-only-its-temp-file", fmt.Sprintf("%s os.%s#%d", h.name(core.Root(f)), sc.Name(), n), own, h.pos(in), "lockDir removes "+core.Short(arg, 80)+": only the temporary file it created may be removed there (the lock file belongs to whoever holds the lock)")
		})
	}
	check(fn)
	for _, cl := range h.P.DeferredClosures(fn) {
		check(cl)
	}
	h.C.Floor(rule+" (removals in lockDir)", n, 1)
	// unlockDir runs only after a lockDir that succeeded
	ul := h.fn("raft:unlockDir")
	m := 0
	for _, s := range h.P.Callers(ul) {
		m++
		root := core.Root(s.Fn)
		rfi := h.P.Info(root)
		okAfter := false
		for _, c := range h.P.CallsTo(root, fn) {
			// the unlock (or the defer that registers it) lies behind lockDir(...) == nil
			var at ssa.Instruction = s.Instr
			if s.Fn != root {
				for _, d := range deferSitesOf(root, s.Fn) {
					at = d
				}
			}
			r := rfi.MustCross(at, func(a core.Atom) bool {
				return a.Op == "==" && a.R == "nil" && strings.HasPrefix(a.L, "lockDir(")
			})
			if r.OK && core.Dominates(c.(ssa.Instruction), at) {
				okAfter = true
			}
		}
		h.C.Check(rule+" unlock-only-by-the-holder", fmt.Sprintf("%s → unlockDir#%d", h.name(root), m), okAfter, h.pos(s.Instr), "the storage lock can be removed by a caller that did not take it (unlock not behind a successful lockDir)")
	}
	h.C.Floor(rule+" (callers of unlockDir)", m, 2)
}

// deferSitesOf: the defer instructions of root that run closure cl.
func deferSitesOf(root, cl *ssa.Function) []ssa.Instruction {
	var out []ssa.Instruction
	core.Instrs(root, func(in ssa.Instruction) {
		if d, ok := in.(*ssa.Defer); ok && core.ClosureOf(d.Call.Value) == cl {
			out = append(out, in)
		}
	})
	return out
}

// releaseWaitsSnapshot (C20.5): Serve unlocks the storage directory when it
// returns; Raft.release, which runs before, waits for a snapshot that is being
// written on every path on which one is in progress — otherwise the old
// instance still writes, publishes and prunes snapshots in a directory that
// another instance may already have locked.
func (h H) releaseWaitsSnapshot(rule string) {
	rrel := h.fn("raft:(*Raft).release")
	ost := h.fn("raft:(*Raft).onSnapshotTaken")
	fi := h.P.Info(rrel)
	n := 0
	for k, r := range core.Returns(rrel) {
		n++
		res := fi.MustCrossOrPass(r, func(a core.Atom) bool {
			return a.Implies(core.MkAtom("Raft.snapTakenCh", "==", "nil"))
		}, nil, func(in ssa.Instruction) bool { return h.P.IsCallTo(in, ost) })
		h.C.Check(rule, fmt.Sprintf("(*Raft).release return#%d", k+1), res.OK, h.pos(r), "Raft.release can return while a snapshot is being written, without waiting for it (Serve then unlocks the directory under the writer): "+res.Witness)
	}
	h.C.Floor(rule+" (returns of Raft.release)", n, 1)
}

// stepDownOnCommitOnlyWhenNotVoter (C17.7b): the step-down in
// Raft.setCommitIndex is for a leader that the committed configuration no
// longer lists as voter, and for nothing else — a leader that stepped down at
// every configuration commit would make each membership change cost an
// election.
func (h H) stepDownOnCommitOnlyWhenNotVoter(rule string) {
	fn := h.fn("raft:(*Raft).setCommitIndex")
	fi := h.P.Info(fn)
	ss := h.fn("raft:(*Raft).setState")
	n := 0
	for k, c := range h.P.CallsTo(fn, ss) {
		n++
		r := fi.MustCross(c.(ssa.Instruction), func(a core.Atom) bool {
			return a.Op == "false" && a.L == "(Config).isVoter(Raft.storage.configs.Latest, Raft.storage.nid)"
		})
		h.C.Check(rule, h.site(fn, ss, k), r.OK, h.pos(c.(ssa.Instruction)), "the node changes state when a configuration commits although it may still be a voter of it: "+r.Witness)
	}
	h.C.Floor(rule+" (state changes in setCommitIndex)", n, 1)
}
