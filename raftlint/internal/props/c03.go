package props

import "raftlint/internal/core"

func init() {
	register(&Property{ID: "C03", Run: runC03, Assumptions: commonAssumptions,
		Explanation: "Structural necessary conditions of state-machine agreement: the user's FSM is invoked only by the single FSM goroutine (started once in Serve); apply requests are built only by the two applyCommitted functions with a log view ending at the commit index; the leader hands queued client entries over only when committed (or reads/barriers directly behind the commit index); in onApply every FSM.Update is behind the contiguity guard for the same entry, only for update entries, and followed by advancing the applied index; fsm.index/term are written only by onApply and a successful restore. Equality of applied sequences across nodes and exactly-once across restarts are not decided."})
	register(&Property{ID: "C07", Run: runC07, Assumptions: commonAssumptions,
		Explanation: "Only necessary conditions of the client-visible semantics are decided (linearizability / exactly-once over concurrent histories is a history property and is not applicable): non-error results reach client entries only from the FSM goroutine; each iteration of leader.storeEntry either answers InProgressError without appending or enqueues (assigning lastLogIndex+1 and the leader's term, appending only log entries) and only when no transfer is in progress and the leader is a voter; Lost=true is reported only by leader.release; non-leaders forward only dirty reads; queued entries are released only when committed."})
}

func runC03(c *core.Ctx) {
	h := newH(c)
	h.assertIdiom("C03.idiom assert-panics")
	c.Clause("C03.1 single applier: FSM methods invoked only on the FSM goroutine, started once")
	h.singleApplier("C03.1 single-applier")
	c.Clause("C03.2 apply requests end at the commit index")
	h.applyRequestsEndAtCommit("C03.2 apply-view")
	c.Clause("C03.3 queued client entries handed over only when committed")
	h.dequeueOnlyCommitted("C03.3 dequeue")
	c.Clause("C03.4 in-order, gap-free application is enforced; fsm.index writers")
	h.applyInOrder("C03.4 apply-in-order")
	h.isLogEntrySummaries("C03.4b isLogEntry")
	c.Clause("C03.5 on restart the FSM is restored from the snapshot before its index is adopted")
	h.servePrologue("C03.5 serve-prologue")
	h.installSnapshotHandler("C03.6 install-handler")
	c.Clause("C03.7 the leader's queue of client entries is emptied when leadership is released (no entry of an earlier leadership is ever handed to the state machine)")
	h.releaseEmptiesHolders("C03.7 release-empties-queue")
	// what a follower restores from is labelled with the snapshot's own index and term
	h.snapshotFallback("C03.8 snapshot-fallback")
	h.installCommitsWhatItKeeps("C03.9 install-commit")
	c.Clause("C03.10 what a leader hands to its state machine is on its own disk first (a restart would otherwise feed a different command at that position)")
	h.leaderFlushBeforeAdvance("C03.10 leader-flush")
	h.openStorageRebuild("C03.11 restart-rebuild")
	c.Clause("C03.12 what a follower applies is what the leader sent: a received entry is passed over only when the local entry at its index has the same term (an uncommitted tail of an earlier leader kept under new entries is applied as if committed)")
	h.entrySkipAndKeep("C03.12 skip-and-keep")
	h.truncationOnlyAtConflict("C03.12b truncation")
	c.Clause("C03.12 upstream of one history: one leader per term — only replies of the current election are counted")
	h.leaderOnlyByMajority("C03.12 votes-of-this-election")
	h.candidateReleaseRetiresChannel("C03.12b stale-replies-not-counted")
}

func runC07(c *core.Ctx) {
	h := newH(c)
	h.assertIdiom("C07.idiom assert-panics")
	c.Clause("C07.1 success is only reported from the FSM goroutine")
	h.successOnlyFromFSM("C07.1 success-from-fsm")
	c.Clause("C07.2 definitive rejection excludes taking effect (leader loop, non-leader branch)")
	h.rejectOrEnqueue("C07.2a reject-or-enqueue")
	h.nonLeaderRejects("C07.2b non-leader")
	c.Clause("C07.3 definite vs ambiguous failure flag")
	h.lostFlagDiscipline("C07.3 lost-flag")
	c.Clause("C07.4 reads/barriers released only behind committed entries; apply view ends at commit index")
	h.dequeueOnlyCommitted("C07.4a dequeue")
	h.applyRequestsEndAtCommit("C07.4b apply-view")
	h.singleApplier("C07.4c single-applier")
	h.releaseEmptiesHolders("C07.5 release-empties-queue")
	h.taskConstructors("C07.6 task-constructors")
	h.queueDiscipline("C07.7 client-queue")
	// success is reported once a majority stored the entry: matchIndex rises only by what the follower acknowledged
	h.matchIndexOnlyOnSuccess("C07.8 matchIndex")
	h.majorityOverVoters("C07.8b majority")
	c.Clause("C07.9 a completed task shows its outcome: the result is stored before done is closed; the flush that precedes every acknowledgement covers the index it is asked for")
	h.taskReplyPublishes("C07.9 task-reply")
	h.canCommitSummary("C07.11 canCommit-summary")
	h.applyInOrder("C07.12 applied-position")
	h.leaderFlushBeforeAdvance("C07.10 leader-flush")
}
