package props

import "raftlint/internal/core"

func init() {
	register(&Property{ID: "C19", Run: runC19, Assumptions: commonAssumptions,
		Explanation: "Structural necessary conditions of an ordered, non-regressing status: the commit index is written only by setCommitIndex (whose callers are behind index > commitIndex: canCommit summary, majorityMatchIndex > commitIndex), by the install handler behind lastIndex > commitIndex (a stale snapshot request is ignored) and once by Serve before the state loop; the term setters have monotone guards; snaps.index is advanced only by snapshotSink.done; the applied index advances contiguously and apply requests end at the commit index; configuration bookkeeping ties Committed to Latest; Info is assembled in one activation of the raft goroutine from the fields it names. The inequalities as run-time facts (e.g. committed <= last on every path) are not decided."})
	register(&Property{ID: "C20", Run: runC20, Assumptions: append([]string{"peers run this library (the property's own scope)", "os.Link fails when the target exists (model)"}, commonAssumptions...),
		Explanation: "Structural necessary conditions of identity isolation and storage exclusivity: dial is called only by connPool.getConn, which hands out a freshly dialled connection only after a successful identity RPC carrying the pool's (cid, nid) with result == success, closes it otherwise, and dials the address resolved for the pool's node id; pools are created only with this node's cluster id and the requested node id; connection objects are created only by dial, handleConn and the admin client (which never writes raft RPCs); the listener confirms identity only when both ids match, never dispatches an identity request further, and drops the connection after a mismatch; Serve takes the directory lock before starting any goroutine or the state loop and defers the unlock; lockDir succeeds only after Link and SameFile; SetIdentity stores only under the lock and only when no identity is stored; New refuses a zero identity."})
}

func runC19(c *core.Ctx) {
	h := newH(c)
	h.assertIdiom("C19.idiom assert-panics")
	c.Clause("C19.1 monotone stores: commit index, term, snapshot index, applied index")
	h.monotoneStatus("C19.1 monotone")
	h.leaderCommitRule("C19.1b leader-commit")
	h.canCommitSummary("C19.1c canCommit-summary")
	h.followerCommitSites("C19.1d follower-commit-sites")
	h.setterPersistThenPublish("C19.1e term-monotone", "raft:(*storage).setTerm", ">")
	h.setterPersistThenPublish("C19.1e term-monotone", "raft:(*storage).setVotedFor", ">=")
	h.sinkPublishOrder("C19.1f snapshot-index")
	c.Clause("C19.2 applied <= committed: apply requests end at the commit index; contiguous application")
	h.applyRequestsEndAtCommit("C19.2a apply-view")
	h.applyInOrder("C19.2b apply-in-order")
	c.Clause("C19.3 configuration bookkeeping")
	h.adoptAndRevert("C19.3a adopt-revert")
	h.commitConfigTied("C19.3b commit-config")
	h.configSetters("C19.3c config-setters")
	h.openStorageRebuild("C19.3d restart-rebuild")
	h.servePrologue("C19.4 serve-prologue")
	h.labelCoherence("C19.3e label-coherence")
	h.bootstrapAdoptsOnlyStored("C19.5 bootstrap-adopts-only-stored")
}

func runC20(c *core.Ctx) {
	h := newH(c)
	h.assertIdiom("C20.idiom assert-panics")
	c.Clause("C20.1 every outgoing connection is verified before use")
	h.dialerVerifiesIdentity("C20.1 dialer")
	h.failedConnNotReused("C20.1b failed-conn-not-reused")
	c.Clause("C20.2 listener refuses a mismatching identity and drops the connection")
	h.listenerRefusesMismatch("C20.2 listener")
	c.Clause("C20.3 storage exclusivity and write-once identity")
	h.storageExclusivity("C20.3 storage")
	// a refused SetIdentity (or a failed write of the identity) must be reported as such
	h.deferredResultOverwrite("C20.3c deferred-result-overwrite")
	h.setIdentityRefusal("C20.3d set-identity-refusal")
	h.termVoteWriters("C20.3b value-writers")
	h.openStorageLoads("C20.4 restart-loads", "identity")
	c.Clause("C20.5 the lock is removed only by its holder, and the holder has stopped writing when it removes it")
	h.lockNotTakenFromHolder("C20.5 lock-holder")
	h.releaseWaitsSnapshot("C20.5b release-waits-snapshot")
}
