package props

import (
	"fmt"
	"strings"

	"golang.org/x/tools/go/ssa"

	"raftlint/internal/core"
)

// Leadership-transfer obligations (C16).

func (h H) transferTargetEligibility(rule string) {
	fn := h.fn("raft:(*leader).tryTransfer")
	fi := h.P.Info(fn)
	// the target variable: what the timeout-now request's connection is opened
	// to — a value merged from the candidates and 0 (nothing eligible)
	var target *ssa.Phi
	for _, c := range h.P.CallsTo(fn, h.fn("raft:(*Raft).getConnPool")) {
		if len(c.Common().Args) >= 2 {
			if p, ok := c.Common().Args[1].(*ssa.Phi); ok {
				target = p
			}
		}
	}
	if !h.C.Check(rule+" target-variable", "(*leader).tryTransfer target", target != nil, h.fpos(fn), "cannot identify the chosen-target variable") {
		return
	}
	tsym := fi.Sym(target).String()
	n := 0
	for i, e := range target.Edges {
		if c, ok := e.(*ssa.Const); ok && c.Value != nil && c.Value.String() == "0" {
			continue
		}
		n++
		cand := fi.Sym(e).String()
		pred := target.Block().Preds[i]
		last := pred.Instrs[len(pred.Instrs)-1]
		site := fmt.Sprintf("(*leader).tryTransfer target := %s", cand)
		var voter core.GateResult
		if cand == "leader.transfer.transferLdr.target" {
			voter = fi.MustCrossAtom(last, core.BoolAtom("(Config).isVoter(leader.Raft.storage.configs.Latest, "+cand+")", true))
		} else {
			nv := h.rangeVar(fn, "leader.Raft.storage.configs.Latest.Nodes")
			voter = fi.MustCrossAtom(last, core.BoolAtom(nv+".Voter", true))
			notSelf := fi.MustCrossAtom(last, core.MkAtom(cand, "!=", "leader.Raft.storage.nid"))
			h.C.Check(rule+" not-self", site, notSelf.OK && cand == "each(leader.Raft.storage.configs.Latest.Nodes).key", h.pos(last), "the leader may choose itself (or a node outside the latest configuration) as transfer target")
		}
		h.C.Check(rule+" voter", site, voter.OK, h.pos(last), "a non-voter can be chosen as transfer target: "+voter.Witness)
		reach := fi.MustCrossAtom(last, core.BoolAtom("(time.Time).IsZero(leader.repls["+cand+"].status.noContact)", true))
		h.C.Check(rule+" reachable", site, reach.OK, h.pos(last), "an unreachable node can be chosen as transfer target: "+reach.Witness)
		upto := fi.MustCrossAtom(last, core.MkAtom("leader.Raft.storage.lastLogIndex", "==", "leader.repls["+cand+"].status.matchIndex"))
		h.C.Check(rule+" log-complete", site, upto.OK, h.pos(last), "a node whose match index is behind the leader's last index can be chosen as transfer target: "+upto.Witness)
	}
	h.C.Floor(rule+" (target assignments)", n, 2)
	// the request goes to the chosen target only, and only if one was chosen
	gcp := h.fn("raft:(*Raft).getConnPool")
	for k, c := range h.P.CallsTo(fn, gcp) {
		h.C.Check(rule+" request-to-target", h.site(fn, gcp, k), h.argStr(c, 1) == tsym, h.pos(c), "timeout-now is sent to "+h.argStr(c, 1)+" instead of the chosen target")
		r := fi.MustCross(c, func(a core.Atom) bool {
			return a.Op == "!=" && (a.L == "0" && a.R == tsym || a.R == "0" && a.L == tsym)
		})
		h.C.Check(rule+" only-if-chosen", h.site(fn, gcp, k), r.OK, h.pos(c), "timeout-now can be sent without a chosen target")
	}
	for i, g := range h.P.GoSites(fn) {
		okArg := false
		for _, a := range g.Call.Args {
			if fi.Sym(a).String() == "leader.transfer.respCh" {
				okArg = true
			}
		}
		h.C.Check(rule+" reply-channel", fmt.Sprintf("(*leader).tryTransfer go#%d", i+1), okArg, h.pos(g), "the timeout-now goroutine must get the reply channel by value")
	}
	// validateTransfer: nil => no transfer in progress, more than one voter, target (if given) is another voter of the latest configuration
	vt := h.fn("raft:(*leader).validateTransfer")
	ts := h.simAll().Run(vt)
	nOK := 0
	for _, t := range ts {
		if t.Exit != "return" || len(t.Ret) != 1 || !t.Entails(t.Ret[0], "==", "nil") {
			continue
		}
		nOK++
		key := "(*leader).validateTransfer nil-path[" + t.Describe() + "]"
		c1 := t.Entails("leader.transfer.timer.active", "!=", "true")
		c2 := false
		for _, e := range t.Events {
			if e.Callee == "(Config).numVoters" && len(e.Results) == 1 && t.Entails(e.Results[0], "!=", "1") {
				c2 = true
			}
		}
		c3 := t.Entails("transferLdr.target", "==", "0")
		if !c3 {
			c3 = t.Entails("transferLdr.target", "!=", "leader.Raft.storage.nid") &&
				t.Entails("leader.Raft.storage.configs.Latest.Nodes[transferLdr.target]#1", "==", "true") &&
				t.Entails("leader.Raft.storage.configs.Latest.Nodes[transferLdr.target]#0.Voter", "==", "true")
		}
		h.C.Check(rule+" validateTransfer", key, c1 && c2 && c3, t.ExitPos, fmt.Sprintf("a transfer request is accepted although: another transfer may be in progress (%v), single voter (%v), target is self/unknown/non-voter (%v)", !c1, !c2, !c3))
	}
	h.C.Floor(rule+" (accepting paths of validateTransfer)", nOK, 2)
	// onTransfer changes state only after validation
	ot := h.fn("raft:(*leader).onTransfer")
	k := 0
	core.Instrs(ot, func(in ssa.Instruction) {
		st, ok := in.(*ssa.Store)
		if !ok || !strings.HasPrefix(h.P.Info(ot).Sym(st.Addr).String(), "leader.transfer.") {
			return
		}
		k++
		h.gateLoose(rule+" validated-first", fmt.Sprintf("(*leader).onTransfer store#%d", k), st, core.MkAtom("(*leader).validateTransfer(leader, transferLdr)", "==", "nil"))
	})
	h.C.Floor(rule+" (transfer state stores in onTransfer)", k, 2)
}

// transferReplyMeaning (C16.3): success iff the term advanced.
func (h H) transferReplyMeaning(rule string) {
	tr := h.fn("raft:(*transfer).reply")
	h.onlyCallers(rule+" who-may-call", "raft:(*transfer).reply", "(*leader).release", "(*leader).replyTransfer")
	h.onlyCallers(rule+" who-may-call", "raft:(*leader).replyTransfer", "(*leader).onTransferTimeout", "(*leader).onTimeoutNowResult")
	h.onlyWriters(rule+" who-may-write", "raft:transfer.term", "(*leader).onTransfer")
	ot := h.fn("raft:(*leader).onTransfer")
	for _, s := range h.storesIn(ot, "raft:transfer.term") {
		v := h.P.Info(ot).Sym(storeVal(s.Instr)).String()
		h.C.Check(rule+" term-at-request", "(*leader).onTransfer store transfer.term", v == "leader.Raft.storage.term", h.pos(s.Instr), "transfer.term must record the leader's term when the request was accepted; found "+v)
	}
	rel := h.fn("raft:(*leader).release")
	rfi := h.P.Info(rel)
	for k, c := range h.P.CallsTo(rel, tr) {
		site := h.site(rel, tr, k)
		arg := c.Common().Args[1]
		srcs := h.valueSources(arg, c.(ssa.Instruction))
		if !h.C.Check(rule+" release-arg", site, len(srcs) >= 2, h.pos(c), "unexpected shape of the transfer result in leader.release: "+rfi.Sym(arg).String()) {
			continue
		}
		nNil := 0
		for _, src := range srcs {
			if cst, isC := src.Val.(*ssa.Const); isC && cst.IsNil() {
				nNil++
				want := core.MkAtom("leader.Raft.storage.term", ">", "leader.transfer.term")
				r := h.sourceGated(src, func(a core.Atom) bool { return a.Implies(want) })
				h.C.Check(rule+" success-iff-term-advanced", site, r.OK, h.pos(c), "a leadership transfer is reported successful although the term did not advance past the term at request time: "+r.Witness)
			}
		}
		h.C.Check(rule+" success-edge", site, nNil == 1, h.pos(c), fmt.Sprintf("expected exactly one success edge, found %d", nNil))
		h.gate(rule+" only-in-progress", site, c, core.BoolAtom("leader.transfer.timer.active", true))
	}
	// every replyTransfer passes a non-nil error
	rt := h.fn("raft:(*leader).replyTransfer")
	for _, s := range h.P.Callers(rt) {
		ci := s.Instr.(ssa.CallInstruction)
		arg := ci.Common().Args[1]
		nonNil := false
		switch x := arg.(type) {
		case *ssa.MakeInterface:
			nonNil = true
		case *ssa.Call:
			if f := x.Common().StaticCallee(); f != nil && f.String() == "fmt.Errorf" {
				nonNil = true
			}
		}
		h.C.Check(rule+" failure-replies", "replyTransfer in "+h.name(s.Fn), nonNil, h.pos(s.Instr), "replyTransfer may report success (nil) outside leader.release")
	}
	// replyTransfer: reply first, then re-evaluate membership actions
	cca := h.fn("raft:(*leader).checkConfigActions")
	for k, c := range h.P.CallsTo(rt, cca) {
		h.dominatedByCall(rule+" re-enable-actions", h.site(rt, cca, k), c, tr)
	}
	h.C.Floor(rule+" (checkConfigActions in replyTransfer)", len(h.P.CallsTo(rt, cca)), 1)
	// transfer.reply answers the task and stops the timer (clears inProgress)
	ts := h.simAll().Run(tr)
	for _, t := range ts {
		if t.Exit != "return" {
			continue
		}
		iR := evIndex(t, isCall("(*task).reply"))
		iS := evIndex(t, func(e core.Event) bool { return e.Callee == "(*safeTimer).stop" && e.Args[0] == "transfer.timer" })
		ok := iR >= 0 && t.Events[iR].Args[1] == "$1" && iS >= 0
		h.C.Check(rule+" reply-shape", "(*transfer).reply path["+t.Describe()+"]", ok, t.ExitPos, "transfer.reply must answer the task with its argument and stop the transfer timer")
		// back to idle: inProgress() and targetChosen() are false afterwards (timer, respCh, newTermTimer)
		iN := evIndex(t, func(e core.Event) bool {
			return e.Callee == "(*safeTimer).stop" && e.Args[0] == "transfer.newTermTimer"
		})
		idle := iS >= 0 && iN >= 0 && t.Mem("transfer.respCh") == "nil"
		h.C.Check(rule+" reply-returns-to-idle", "(*transfer).reply idle["+t.Describe()+"]", idle, t.ExitPos, "after a transfer is answered some of its in-progress state survives (timer, reply channel, new-term timer): a late timeout-now answer or timer would be handled by a node that is no longer transferring (respCh="+t.Mem("transfer.respCh")+")")
	}
}

// disruptPermission (C16.4): the transfer flag of vote requests originates only from a timeout-now request.
func (h H) disruptPermission(rule string) {
	sites := h.onlyWriters(rule+" who-may-write", "raft:candidate.transfer", "(*Raft).onTimeoutNowRequest", "(*candidate).release")
	for _, s := range sites {
		v := h.P.Info(s.Fn).Sym(storeVal(s.Instr)).String()
		name := h.name(s.Fn)
		if v == "true" {
			h.C.Check(rule+" set-only-by-timeout-now", "candidate.transfer := true in "+name, name == "(*Raft).onTimeoutNowRequest", h.pos(s.Instr), "permission to disrupt a leader is granted outside a timeout-now request")
		} else {
			h.C.Check(rule+" cleared", "candidate.transfer := "+v+" in "+name, v == "false", h.pos(s.Instr), "non-constant transfer flag")
		}
	}
	for _, s := range h.P.StoresTo(h.P.Field("raft:voteReq.transfer")) {
		name := h.name(core.Root(s.Fn))
		v := h.P.Info(s.Fn).Sym(storeVal(s.Instr)).String()
		ok := name == "(*voteReq).decode" || name == "(*candidate).startElection" && v == "candidate.transfer"
		h.C.Check(rule+" flag-source", "voteReq.transfer in "+name, ok, h.pos(s.Instr), "vote requests may carry the transfer flag only from candidate.transfer; found "+v)
	}
	// the timeout-now request is sent only by tryTransfer
	tn := h.P.Named("raft:timeoutNowReq")
	_ = tn
}
