package props

import (
	"fmt"
	"strings"

	"golang.org/x/tools/go/ssa"

	"raftlint/internal/core"
)

// layoutAgreement (C13.3): the writer's and the reader's view of a segment's
// offset table agree: slot 0 = entry count, slot 1 = 0, slot k+1 = end of the
// k-th entry; an entry's bytes are Data[offset(k) : offset(k+1)].
func (h H) layoutAgreement(rule string) {
	sym := func(fn *ssa.Function, v ssa.Value) string { return h.P.Info(fn).Sym(v).String() }
	// at(i): position of slot i counted from the end of the file, 8 bytes per slot
	at := h.fn("log:(*segment).at")
	for _, r := range core.Returns(at) {
		got := sym(at, r.Results[0])
		ok := got == "((len(segment.file.Data) - ($1 * 8)) - 8)" || got == "(len(segment.file.Data) - (($1 + 1) * 8))" || got == "((len(segment.file.Data) - 8) - ($1 * 8))"
		h.C.Check(rule+" slot-position", "(*log.segment).at", ok, h.pos(r), "slot i must live at len(Data) - 8*i - 8; found "+got)
	}
	// offset / setOffset use the slot they are given, with the same byte order and width
	off := h.fn("log:(*segment).offset")
	set := h.fn("log:(*segment).setOffset")
	slotOf := func(fn *ssa.Function) string {
		for _, c := range h.P.CallsTo(fn, at) {
			return h.argStr(c, 1)
		}
		return ""
	}
	h.C.Check(rule+" slot-reader", "(*log.segment).offset", slotOf(off) == "$1", h.fpos(off), "offset(i) must read slot i; reads slot "+slotOf(off))
	h.C.Check(rule+" slot-writer", "(*log.segment).setOffset", slotOf(set) == "$2", h.fpos(set), "setOffset(off, i) must write slot i; writes slot "+slotOf(set))
	widths := func(fn *ssa.Function, want string) bool {
		ok := false
		core.Instrs(fn, func(in ssa.Instruction) {
			if c, isC := in.(*ssa.Call); isC && c.Common().StaticCallee() != nil && c.Common().StaticCallee().Name() == want {
				ok = true
			}
		})
		return ok
	}
	h.C.Check(rule+" slot-width", "offset/setOffset", widths(off, "Uint64") && widths(set, "PutUint64"), h.fpos(off), "slots are 64-bit on both sides")
	core.Instrs(set, func(in ssa.Instruction) {
		if c, ok := in.(*ssa.Call); ok && c.Common().StaticCallee() != nil && c.Common().StaticCallee().Name() == "PutUint64" {
			h.C.Check(rule+" slot-value", "(*log.segment).setOffset", h.argStr(c, 2) == "$1", h.pos(c), "setOffset must store its off argument; stores "+h.argStr(c, 2))
		}
	})
	// writer: append
	ap := h.fn("log:(*segment).append")
	api := h.P.Info(ap)
	for _, c := range h.P.CallsTo(ap, set) {
		offArg, slot := h.argStr(c, 1), h.arg(c, 2)
		base, den, o, add, ok := core.LinNorm(slot)
		h.C.Check(rule+" writer-slot", "(*log.segment).append setOffset", ok && base == "segment.n" && den == 1 && o == 0 && add == 2, h.pos(c), "the end of the (n+1)-th entry must be written to slot n+2; found "+slot.String())
		h.C.Check(rule+" writer-end", "(*log.segment).append setOffset", offArg == "(segment.size + len($1))", h.pos(c), "the end offset of the new entry must be size+len(b); found "+offArg)
	}
	h.C.Floor(rule+" (setOffset in append)", len(h.P.CallsTo(ap, set)), 1)
	for _, s := range h.storesIn(ap, "log:segment.n") {
		h.C.Check(rule+" writer-count", "(*log.segment).append store n", api.Sym(storeVal(s.Instr)).String() == "(segment.n + 1)", h.pos(s.Instr), "append must count one entry")
	}
	for _, s := range h.storesIn(ap, "log:segment.size") {
		h.C.Check(rule+" writer-size", "(*log.segment).append store size", api.Sym(storeVal(s.Instr)).String() == "(segment.size + len($1))", h.pos(s.Instr), "append must advance size by len(b)")
	}
	core.Instrs(ap, func(in ssa.Instruction) {
		if c, ok := in.(*ssa.Call); ok {
			if b, ok := c.Call.Value.(*ssa.Builtin); ok && b.Name() == "copy" {
				if sl, ok := c.Call.Args[0].(*ssa.Slice); ok {
					low := ""
					if sl.Low != nil {
						low = api.Sym(sl.Low).String()
					}
					h.C.Check(rule+" writer-position", "(*log.segment).append copy", low == "segment.size" && api.Sym(sl.X).String() == "segment.file.Data", h.pos(c), "the entry must be copied to Data[size:]; found Data["+low+":]")
				}
			}
		}
	})
	// reader: get(i, n) = Data[offset(i-prev) : offset(i-prev+n)]
	get := h.fn("log:(*segment).get")
	gfi := h.P.Info(get)
	n := 0
	core.Instrs(get, func(in ssa.Instruction) {
		sl, ok := in.(*ssa.Slice)
		if !ok {
			return
		}
		n++
		lo, hi := "", ""
		if sl.Low != nil {
			lo = gfi.Sym(sl.Low).String()
		}
		if sl.High != nil {
			hi = gfi.Sym(sl.High).String()
		}
		okLo := lo == "(*log.segment).offset(segment, ($1 - segment.prevIndex))"
		okHi := hi == "(*log.segment).offset(segment, (($1 - segment.prevIndex) + $2))"
		h.C.Check(rule+" reader-range", "(*log.segment).get slice", okLo && okHi && gfi.Sym(sl.X).String() == "segment.file.Data", h.pos(sl),
			"entries i..i+n-1 must be Data[offset(i-prevIndex) : offset(i-prevIndex+n)]; found Data["+lo+" : "+hi+"]")
		h.gate(rule+" reader-guard", "(*log.segment).get slice", sl, core.MkAtom("$1", ">", "segment.prevIndex"))
	})
	h.C.Floor(rule+" (slices in get)", n, 1)
	// open: n = slot 0, size = slot n+1 (end of the last entry), synced = n
	op := h.fn("log:openSegment")
	ofi := h.P.Info(op)
	want := map[string][]string{
		"n":      {"(*log.segment).offset(new:log.segment#1, 0)"},
		"size":   {"(*log.segment).offset(new:log.segment#1, (new:log.segment#1.n + 1))"},
		"synced": {"new:log.segment#1.n", "(*log.segment).offset(new:log.segment#1, 0)"},
	}
	for f, ws := range want {
		for _, s := range h.storesIn(op, "log:segment."+f) {
			got := ofi.Sym(storeVal(s.Instr)).String()
			ok := false
			for _, w := range ws {
				if got == w {
					ok = true
				}
			}
			h.C.Check(rule+" open-reads-table", "log.openSegment store "+f, ok, h.pos(s.Instr), fmt.Sprintf("on open, %s must be read from the offset table (%v); found %s", f, ws, got))
		}
	}
	for _, s := range h.storesIn(op, "log:segment.prevIndex") {
		h.C.Check(rule+" open-prevIndex", "log.openSegment store prevIndex", ofi.Sym(storeVal(s.Instr)).String() == "$1", h.pos(s.Instr), "a segment's prevIndex is the index in its file name")
	}
	// available space: start of the slot the next entry would use, minus data size
	av := h.fn("log:(*segment).available")
	for _, r := range core.Returns(av) {
		got := h.P.Info(av).Sym(r.Results[0]).String()
		h.C.Check(rule+" available", "(*log.segment).available", got == "((*log.segment).at(segment, (segment.n + 2)) - segment.size)", h.pos(r), "free space must be at(n+2) - size (the next entry's end offset goes to slot n+2); found "+got)
	}
	// back removal: count n' = i-prevIndex-1 into slot 0, size = slot n'+1
	rg := h.fn("log:(*segment).removeGTE")
	rfi := h.P.Info(rg)
	for _, c := range h.P.CallsTo(rg, set) {
		base, den, o, add, ok := core.LinNorm(h.arg(c, 1))
		h.C.Check(rule+" removeGTE-count", "(*log.segment).removeGTE setOffset", ok && den == 1 && o == 0 && add == -1 && (base == "($1 - segment.prevIndex)") && h.argStr(c, 2) == "0", h.pos(c), "removeGTE(i) must keep i-prevIndex-1 entries; found count "+h.argStr(c, 1))
	}
	h.C.Check(rule+" removeGTE-size", "(*log.segment).removeGTE size-refreshed", len(h.storesIn(rg, "log:segment.size")) >= 1, h.fpos(rg), "back removal lowers the entry count but not the data size: the next append would be written behind the removed entries' bytes")
	for _, s := range h.storesIn(rg, "log:segment.size") {
		got := rfi.Sym(storeVal(s.Instr)).String()
		h.C.Check(rule+" removeGTE-size", "(*log.segment).removeGTE store size", got == "(*log.segment).offset(segment, ((($1 - segment.prevIndex) - 1) + 1))" || got == "(*log.segment).offset(segment, ($1 - segment.prevIndex))", h.pos(s.Instr), "after keeping n' entries the data size is slot n'+1; found "+got)
	}
	// abstract-sequence accessors
	li := h.fn("log:(*segment).lastIndex")
	for _, r := range core.Returns(li) {
		h.C.Check(rule+" lastIndex", "(*log.segment).lastIndex", h.P.Info(li).Sym(r.Results[0]).String() == "(segment.prevIndex + segment.n)", h.pos(r), "a segment's last index is prevIndex+n")
	}
	cnt := h.fn("log:(*Log).Count")
	for _, r := range core.Returns(cnt) {
		h.C.Check(rule+" Count", "(*log.Log).Count", h.P.Info(cnt).Sym(r.Results[0]).String() == "((*log.Log).LastIndex(Log) - (*log.Log).PrevIndex(Log))", h.pos(r), "Count must be LastIndex-PrevIndex")
	}
	con := h.fn("log:(*Log).Contains")
	sums, uns, ok := h.simAll().TrueSummary(con)
	if !ok || len(sums) == 0 {
		h.C.Undecided(rule+" Contains", "(*log.Log).Contains", h.fpos(con), "cannot summarise")
	}
	for i, f := range sums {
		var prev, last string
		for _, r := range f {
			for _, t := range []string{r.A, r.B} {
				if strings.HasPrefix(t, "ret:(*log.Log).PrevIndex") {
					prev = t
				}
				if strings.HasPrefix(t, "ret:(*log.Log).LastIndex") {
					last = t
				}
			}
		}
		c1 := prev != "" && core.Entails(f, core.Rel{A: "$1", Op: ">", B: prev}, uns)
		c2 := last != "" && core.Entails(f, core.Rel{A: "$1", Op: "<=", B: last}, uns)
		h.C.Check(rule+" Contains", fmt.Sprintf("(*log.Log).Contains true-path#%d", i+1), c1 && c2, h.fpos(con), "Contains(i) must mean PrevIndex < i <= LastIndex")
	}
	// view bounds
	for _, spec := range []string{"log:(*Log).PrevIndex", "log:(*Log).LastIndex"} {
		fn := h.fn(spec)
		fi := h.P.Info(fn)
		slot := "0"
		own := "Log.first.prevIndex"
		if strings.HasSuffix(spec, "LastIndex") {
			slot, own = "1", "(Log.last.prevIndex + Log.last.n)"
		}
		for _, r := range core.Returns(fn) {
			got := fi.Sym(r.Results[0]).String()
			if got == "Log.index["+slot+"]" {
				h.gate(rule+" view-bounds", h.name(fn)+" view", r, core.MkAtom("Log.index", "!=", "nil"))
			} else {
				h.C.Check(rule+" view-bounds", h.name(fn)+" own", got == own, h.pos(r), "unexpected bound "+got)
			}
		}
	}
	// ViewAt stores [prevIndex, lastIndex] in that order
	va := h.fn("log:(*Log).ViewAt")
	vfi := h.P.Info(va)
	nIdx := 0
	core.Instrs(va, func(in ssa.Instruction) {
		st, ok := in.(*ssa.Store)
		if !ok {
			return
		}
		a := vfi.Sym(st.Addr).String()
		if strings.HasPrefix(a, "new:[2]uint64") {
			nIdx++
			want := "$1"
			if strings.HasSuffix(a, "[1]") {
				want = "$2"
			}
			h.C.Check(rule+" view-index", "(*log.Log).ViewAt "+a[strings.LastIndex(a, "["):], vfi.Sym(st.Val).String() == want, h.pos(st), "a view's index must be {prevIndex, lastIndex}")
		}
	})
	h.C.Floor(rule+" (view index stores)", nIdx, 2)
}
