package props

import (
	"fmt"
	"go/ast"
	"go/constant"
	"go/token"
	"go/types"
	"sort"
	"strings"

	"golang.org/x/tools/go/ssa"

	"raftlint/internal/core"
)

func init() {
	register(&Property{ID: "C18", Run: runC18, Assumptions: append([]string{"encoding/binary, bufio, fmt and strconv behave as documented (trusted)", "entries larger than 4 GiB (uint32 length) are out of scope"}, commonAssumptions...),
		Explanation: "Decides, for all field values, which bytes are produced and consumed: for each of the codec pairs the wire grammar derived from the encoder's syntax tree equals the decoder's (same primitive sequence, same nested codecs, alternatives keyed on the same transferred field, count-prefixed loops) and the i-th value written is read into the same field; primitives agree on width and byte order; every read's error is returned (a truncated encoding yields an error); isEntryBuffered's header length equals the fixed prefix of the entry grammar; request bodies of the admin client match server.handleTask and encodeTaskResp matches decodeTaskResp branch by branch; rpcType/taskType switches are exhaustive and the error-kind strings of the task decoder name existing error types; persisted file names are parsed with an unsigned 64-bit parser matching their %d of uint64. Value identity of time.Time/error objects after transport is not decided."})
}

func runC18(c *core.Ctx) {
	h := newH(c)
	c.Clause("C18.1 grammar symmetry of every encode/decode pair, with field correspondence")
	pairs := [][2]string{
		{"raft:(*req).encode", "raft:(*req).decode"},
		{"raft:(*identityReq).encode", "raft:(*identityReq).decode"},
		{"raft:(*voteReq).encode", "raft:(*voteReq).decode"},
		{"raft:(*appendReq).encode", "raft:(*appendReq).decode"},
		{"raft:(*appendResp).encode", "raft:(*appendResp).decode"},
		{"raft:(*resp).encode", "raft:(*resp).decode"},
		{"raft:(*installSnapReq).encode", "raft:(*installSnapReq).decode"},
		{"raft:(*entry).encode", "raft:(*entry).decode"},
		{"raft:(Node).encode", "raft:(*Node).decode"},
		{"raft:(*snapshotMeta).encode", "raft:(*snapshotMeta).decode"},
		{"raft:(Info).encode", "raft:(*Info).decode"},
		{"raft:(*Replication).encode", "raft:(*Replication).decode"},
	}
	for _, p := range pairs {
		h.codecPairSpec("C18.1 codec", p[0], p[1])
	}
	c.Floor("C18.1 codec (pairs)", len(pairs), 12)
	h.decodersRejectOnlyReadFailures("C18.1e decoders-reject-only-read-failures")
	h.decodersAssignCollections("C18.1f decoders-assign-collections")
	h.decodersUseFreshElements("C18.1g decoders-fresh-elements")
	h.byteReadersReturnOwnedMemory("C18.1h decoded-bytes-owned")
	h.configCodec("C18.1b config-codec")
	c.Clause("C18.2 primitive widths and byte order agree; isEntryBuffered header length")
	h.primitiveLayer("C18.2 primitives")
	h.headerLenAgrees("C18.2b headerLen")
	c.Clause("C18.2c the leader-originated handlers consume exactly the announced payload on every reply path (framing of pipelined requests)")
	h.handlersDrainPayload("C18.2c payload-drained")
	h.failedConnNotReused("C18.2e failed-conn-not-reused")
	h.pipelineRequestsAccounted("C18.2f pipeline-accounting")
	h.replyRPCDecodes("C18.2d leader-request-decoded")
	c.Clause("C18.3 admin request bodies and task responses agree branch by branch")
	h.adminBodies("C18.3 admin")
	c.Clause("C18.4 registries: rpcType/taskType switches exhaustive; error kinds of the task decoder exist")
	h.registries("C18.4 registries")
	c.Clause("C18.5 persisted file names: %d of uint64 parsed with ParseUint(…, 10, 64)")
	h.fileNameParsers("C18.5 filenames")
	c.Clause("C18.6 every decoding step's error is examined before the next step and returned (truncated input yields an error, on every path of every decoder)")
	h.errorDiscipline("C18.6 error-discipline")
	c.Clause("C18.7 bool wire values: readBool's predicate inverts writeBool's byte for both values")
	h.boolWire("C18.7 bool-wire")
}

func (h H) codecPairSpec(rule, encSpec, decSpec string) {
	enc := h.fn(encSpec)
	dec := h.fn(decSpec)
	ge, ce := h.grammarOf(enc, true, "")
	gd, cd := h.grammarOf(dec, false, "")
	name := strings.TrimPrefix(encSpec, "raft:")
	name = name[:strings.LastIndex(name, ".")]
	name = strings.Trim(name, "(*)")
	ke, kd := kinds(ge), kinds(gd)
	h.C.Check(rule+" grammar-shape", name, ke == kd && ke != "", h.fpos(enc), "encoder and decoder disagree on the sequence of wire operations: encode=["+ke+"] decode=["+kd+"]")
	if ke == kd {
		fe, fdd := fieldsOf(ge), fieldsOf(gd)
		var diff []string
		for i := 0; i < len(fe) && i < len(fdd); i++ {
			a, b := normField(fe[i]), normField(fdd[i])
			if strings.HasPrefix(a, "len(") {
				continue // count prefix: read into the loop counter
			}
			if a == "" || b == "" || a != b {
				diff = append(diff, fmt.Sprintf("#%d encode:%q decode:%q", i+1, fe[i], fdd[i]))
			}
		}
		h.C.Check(rule+" field-correspondence", name, len(fe) == len(fdd) && len(diff) == 0, h.fpos(dec), "the i-th value written and the i-th value read belong to different fields: "+strings.Join(diff, "; "))
		cE, cD := conds(ge), conds(gd)
		okc := len(cE) == len(cD)
		for i := 0; okc && i < len(cE); i++ {
			if condKey(cE[i]) != condKey(cD[i]) {
				okc = false
			}
		}
		h.C.Check(rule+" alternatives", name, okc, h.fpos(dec), fmt.Sprintf("conditional parts are keyed differently: encode=%v decode=%v", cE, cD))
	}
	if len(cd.errs) == 0 {
		h.C.Check(rule+" decode-error-discipline", name, true, h.fpos(dec), "every read's error is returned")
	}
	for _, e := range cd.errs {
		h.C.Check(rule+" decode-error-discipline", name+" "+shortPos(e), false, shortPos(e), "decoder: "+e)
	}
	for _, e := range ce.errs {
		h.C.Info(rule+" encode-error-discipline", name+" "+shortPos(e), shortPos(e), "encoder: "+e+" (write errors are sticky in bufio.Writer and surface at Flush; outside the truncated-decoding clause)")
	}
	h.C.Floor(rule+" (wire operations in "+name+")", ce.nCalls, 1)
	h.C.Floor(rule+" (wire operations in "+name+" decoder)", cd.nCalls, 1)
}

// configCodec: Config.encode() builds an entry whose data is u32(len(Nodes)) + Node*; Config.decode(e) reads exactly that.
func (h H) configCodec(rule string) {
	enc := h.fn("raft:(Config).encode")
	dec := h.fn("raft:(*Config).decode")
	ge, ce := h.grammarOf(enc, true, "w")
	gd, cd := h.grammarOf(dec, false, "r")
	ke, kd := kinds(ge), kinds(gd)
	h.C.Check(rule+" grammar-shape", "Config", ke == kd && ke == "u32 loop{nested:Node}", h.fpos(enc), "Config data must be a u32 count followed by that many nodes on both sides: encode=["+ke+"] decode=["+kd+"]")
	h.C.Check(rule+" decode-error-discipline", "Config", len(cd.errs) == 0, h.fpos(dec), strings.Join(cd.errs, "; "))
	_ = ce
	// the count written is len(c.Nodes); the entry carries index/term/typ of the configuration
	fe := fieldsOf(ge)
	h.C.Check(rule+" count-is-len", "Config", len(fe) > 0 && fe[0] == "len(Nodes)", h.fpos(enc), fmt.Sprintf("the node count must be len(c.Nodes); fields: %v", fe))
	efi := h.P.Info(enc)
	want := map[string]string{"typ": h.constStr("raft:entryConfig"), "index": "Config.Index", "term": "Config.Term"}
	seen := 0
	core.Instrs(enc, func(in ssa.Instruction) {
		if st, ok := in.(*ssa.Store); ok {
			a := efi.Sym(st.Addr).String()
			for f, w := range want {
				if strings.HasPrefix(a, "new:entry") && strings.HasSuffix(a, "."+f) {
					seen++
					h.C.Check(rule+" entry-header", "Config.encode entry."+f, efi.Sym(st.Val).String() == w, h.pos(st), "configuration entry field "+f+" must be "+w)
				}
			}
		}
	})
	h.C.Floor(rule+" (entry header fields)", seen, 3)
	dfi := h.P.Info(dec)
	for _, s := range h.storesIn(dec, "raft:Config.Index") {
		h.C.Check(rule+" entry-header", "Config.decode Index", dfi.Sym(storeVal(s.Instr)).String() == "entry.index", h.pos(s.Instr), "Config.Index must be read from the entry's index")
	}
	for _, s := range h.storesIn(dec, "raft:Config.Term") {
		h.C.Check(rule+" entry-header", "Config.decode Term", dfi.Sym(storeVal(s.Instr)).String() == "entry.term", h.pos(s.Instr), "Config.Term must be read from the entry's term")
	}
}

// adminBodies: Client.X request bodies vs server.handleTask; encodeTaskResp vs decodeTaskResp.
func (h H) adminBodies(rule string) {
	ht := h.fn("raft:(*server).handleTask")
	gh, ch := h.grammarOf(ht, false, "c.bufr")
	h.C.Check(rule+" handleTask-error-discipline", "(*server).handleTask", len(ch.errs) == 0, h.fpos(ht), strings.Join(ch.errs, "; "))
	server := map[string]string{}
	for _, t := range gh {
		if t.Kind == "alt" && strings.HasPrefix(t.Cond, "case ") {
			server[strings.TrimPrefix(t.Cond, "case ")] = kinds(t.Then)
		}
	}
	clients := []struct{ method, task string }{
		{"GetInfo", "taskInfo"}, {"ChangeConfig", "taskChangeConfig"}, {"WaitForStableConfig", "taskWaitForStableConfig"},
		{"TakeSnapshot", "taskTakeSnapshot"}, {"TransferLeadership", "taskTransferLdr"}}
	for _, c := range clients {
		fn := h.fn("raft:(*Client)." + c.method)
		g, _ := h.grammarOf(fn, true, "conn.bufw")
		var body []tok
		for _, t := range g {
			if t.Kind == "raw:WriteByte" || t.Kind == "raw:Flush" {
				continue
			}
			body = append(body, t)
		}
		want := server[c.task]
		got := kinds(body)
		h.C.Check(rule+" request-body", "Client."+c.method+" ↔ handleTask["+c.task+"]", got == want, h.fpos(fn), "request body written by the client ["+got+"] differs from what the server reads ["+want+"]")
		// the task byte announced is the one the server dispatches on
		fd := h.P.ASTFunc(fn)
		okByte := false
		ast.Inspect(fd.Body, func(n ast.Node) bool {
			if call, ok := n.(*ast.CallExpr); ok {
				if sel, ok := call.Fun.(*ast.SelectorExpr); ok && sel.Sel.Name == "WriteByte" && len(call.Args) == 1 {
					if strings.Contains(exprStr(call.Args[0]), c.task) {
						okByte = true
					}
				}
				if id, ok := call.Fun.(*ast.Ident); ok && id.Name == "decodeTaskResp" && len(call.Args) == 2 {
					if exprStr(call.Args[0]) != c.task {
						okByte = false
					}
				}
			}
			return true
		})
		h.C.Check(rule+" task-byte", "Client."+c.method, okByte, h.fpos(fn), "the client must announce and decode with "+c.task)
		// the reply is read: every return that reports success is preceded by
		// decodeTaskResp(<task>, …) and the decoder's error is handed on (the
		// errors it builds are how a client recognises not-leader / in-progress)
		dt := h.fn("raft:decodeTaskResp")
		calls := h.P.CallsTo(fn, dt)
		okResp := len(calls) == 1
		if okResp {
			cfi := h.P.Info(fn)
			okResp = cfi.Sym(calls[0].Common().Args[0]).String() == h.constStr("raft:"+c.task)
			errIdx := fn.Signature.Results().Len() - 1
			for _, r := range core.Returns(fn) {
				v := retOperand(r, errIdx)
				if core.Dominates(calls[0].(ssa.Instruction), r) {
					continue
				}
				// a return not preceded by the decode must report an error
				if isNilConst(v) {
					okResp = false
				}
			}
		}
		h.C.Check(rule+" response-decoded", "Client."+c.method, okResp, h.fpos(fn), "the client must read the task's reply with decodeTaskResp("+c.task+", …) before reporting success")
	}
	// responses
	et := h.fn("raft:encodeTaskResp")
	dt := h.fn("raft:decodeTaskResp")
	ge, _ := h.grammarOf(et, true, "w")
	gd, cd := h.grammarOf(dt, false, "r")
	h.C.Check(rule+" decodeTaskResp-error-discipline", "decodeTaskResp", len(cd.errs) == 0, h.fpos(dt), strings.Join(cd.errs, "; "))
	find := func(ts []tok, marker string) (string, bool) {
		var res string
		found := false
		var rec func(ts []tok)
		rec = func(ts []tok) {
			for _, t := range ts {
				if t.Kind == "alt" {
					if strings.Contains(t.Cond, marker) && !found {
						res, found = kinds(t.Then), true
					}
					rec(t.Then)
					rec(t.Else)
				}
				if t.Kind == "loop" {
					rec(t.Then)
				}
			}
		}
		rec(ts)
		return res, found
	}
	for _, p := range []struct{ enc, dec, what string }{
		{"type NotLeaderError", "\"raft.NotLeaderError\"", "NotLeaderError payload"},
		{"type uint64", "taskTakeSnapshot", "uint64 result"},
		{"type Config", "taskWaitForStableConfig", "Config result"},
		{"type Info", "taskInfo", "Info result"},
	} {
		a, okA := find(ge, p.enc)
		b, okB := find(gd, p.dec)
		h.C.Check(rule+" response-branch", "encodeTaskResp ↔ decodeTaskResp ["+p.what+"]", okA && okB && a == b, h.fpos(et), "task response branch differs: encode=["+a+"] decode=["+b+"]")
	}
	// polarity: the error payload travels iff the task failed, and is parsed
	// iff the kind string is non-empty; result payloads the other way round
	for k, c := range h.P.CallsTo(et, h.fn("raft:writeString")) {
		arg := h.P.Info(et).Sym(c.Common().Args[1]).String()
		switch {
		case strings.HasPrefix(arg, "fmt.Sprintf(\"%T\""):
			h.gateLoose(rule+" response-polarity", fmt.Sprintf("encodeTaskResp kind-string#%d", k+1), c.(ssa.Instruction), core.MkAtom("invoke:Err($0)", "!=", "nil"))
		case arg == `""`:
			h.gateLoose(rule+" response-polarity", fmt.Sprintf("encodeTaskResp empty-kind#%d", k+1), c.(ssa.Instruction), core.MkAtom("invoke:Err($0)", "==", "nil"))
		}
	}
	nPol := 0
	core.Instrs(dt, func(in ssa.Instruction) {
		c, ok := in.(*ssa.Call)
		if !ok {
			return
		}
		f := c.Common().StaticCallee()
		if f == nil {
			return
		}
		switch h.name(f) {
		case "(*Node).decode":
			nPol++
			h.gateLoose(rule+" response-polarity", "decodeTaskResp error-payload", c, core.MkAtom("readString($1)#0", "!=", `""`))
		case "(*Info).decode", "(*entry).decode":
			nPol++
			h.gateLoose(rule+" response-polarity", "decodeTaskResp result-payload "+h.name(f), c, core.MkAtom("readString($1)#0", "==", `""`))
		}
	})
	h.C.Floor(rule+" response-polarity (decoder sites)", nPol, 3)
	// … and then the caller gets an error: every return behind a non-empty kind
	// string hands back an error that cannot be nil (a failed task must never
	// read as success on the client)
	dfi := h.P.Info(dt)
	var nonNil func(v ssa.Value, at ssa.Instruction, depth int) bool
	nonNil = func(v ssa.Value, at ssa.Instruction, depth int) bool {
		if ph, isPhi := v.(*ssa.Phi); isPhi && depth < 4 {
			live := h.P.LivePhiEdges(ph, at)
			for i, e := range ph.Edges {
				if live != nil && !live[i] {
					continue
				}
				pred := ph.Block().Preds[i]
				if !nonNil(e, pred.Instrs[len(pred.Instrs)-1], depth+1) {
					return false
				}
			}
			return len(ph.Edges) > 0
		}
		if h.P.NeverNil(v, 0) {
			return true
		}
		isNil, known := core.NilnessAt(v, at)
		return known && !isNil
	}
	nErr := 0
	kind := core.MkAtom("readString($1)#0", "!=", `""`)
	type leafT struct {
		v  ssa.Value
		at ssa.Instruction
	}
	var leaves func(v ssa.Value, at ssa.Instruction, depth int) []leafT
	leaves = func(v ssa.Value, at ssa.Instruction, depth int) []leafT {
		if ph, isPhi := v.(*ssa.Phi); isPhi && depth < 4 {
			var out []leafT
			live := h.P.LivePhiEdges(ph, at)
			for i, e := range ph.Edges {
				if live != nil && !live[i] {
					continue
				}
				pred := ph.Block().Preds[i]
				out = append(out, leaves(e, pred.Instrs[len(pred.Instrs)-1], depth+1)...)
			}
			return out
		}
		return []leafT{{v, at}}
	}
	for k, r := range core.Returns(dt) {
		if len(r.Results) != 2 {
			continue
		}
		// a value merged from several places is judged where it was chosen
		for j, lf := range leaves(retOperand(r, 1), r, 0) {
			if !dfi.MustCrossAtom(lf.at, kind).OK {
				continue
			}
			nErr++
			h.C.Check(rule+" response-polarity", fmt.Sprintf("decodeTaskResp error-kind return#%d.%d", k+1, j+1), nonNil(lf.v, lf.at, 0), h.pos(lf.at), "a task response that carries an error kind is decoded into a nil error: the failed task reads as success")
		}
	}
	h.C.Floor(rule+" response-polarity (returns behind a non-empty kind string)", nErr, 4)
	// both start with the error-kind string
	h.C.Check(rule+" response-prefix", "encodeTaskResp ↔ decodeTaskResp [kind string]", len(gd) > 0 && gd[0].Kind == "string" && strings.HasPrefix(kinds(ge), "alt{string"), h.fpos(et), "a task response must start with the error-kind string on both sides: encode=["+kinds(ge)+"] decode=["+kinds(gd)+"]")
}

func (h H) constsOfType(tname string) map[string]constant.Value {
	out := map[string]constant.Value{}
	sc := h.P.Types[core.RaftPkg].Scope()
	for _, n := range sc.Names() {
		if c, ok := sc.Lookup(n).(*types.Const); ok {
			if nt, ok := c.Type().(*types.Named); ok && nt.Obj().Name() == tname {
				out[n] = c.Val()
			}
		}
	}
	return out
}

// switchCaseNames lists what fn dispatches on, whatever the form (switch, if
// chain, boolean expression): the named constants and strings some value is
// compared with for equality, and the types asserted with the comma-ok form
// (type switch). Decided on SSA, where all these forms are `x == c`
// comparisons and checked type assertions.
func (h H) switchCaseNames(fn *ssa.Function) []string {
	set := map[string]bool{}
	constName := func(c *ssa.Const) string {
		if c.Value == nil {
			return ""
		}
		if nt, ok := c.Type().(*types.Named); ok && nt.Obj().Pkg() != nil {
			sc := nt.Obj().Pkg().Scope()
			for _, n := range sc.Names() {
				if k, isC := sc.Lookup(n).(*types.Const); isC && types.Identical(k.Type(), nt) && constant.Compare(k.Val(), token.EQL, c.Value) {
					return n
				}
			}
			return ""
		}
		if c.Value.Kind() == constant.String {
			return c.Value.ExactString()
		}
		return ""
	}
	core.Instrs(fn, func(in ssa.Instruction) {
		switch x := in.(type) {
		case *ssa.BinOp:
			if x.Op != token.EQL && x.Op != token.NEQ {
				return
			}
			for _, o := range []ssa.Value{x.X, x.Y} {
				if c, ok := o.(*ssa.Const); ok {
					if n := constName(c); n != "" {
						set[n] = true
					}
				}
			}
		case *ssa.TypeAssert:
			if x.CommaOk {
				set[types.TypeString(x.AssertedType, func(*types.Package) string { return "" })] = true
			}
		}
	})
	var out []string
	for k := range set {
		out = append(out, k)
	}
	sort.Strings(out)
	return out
}

func (h H) registries(rule string) {
	all := func(m map[string]constant.Value) []string {
		var s []string
		for k := range m {
			s = append(s, k)
		}
		sort.Strings(s)
		return s
	}
	rpcs := all(h.constsOfType("rpcType"))
	for _, spec := range []string{"raft:(rpcType).isValid", "raft:(rpcType).createReq", "raft:(rpcType).createResp"} {
		fn := h.fn(spec)
		got := h.switchCaseNames(fn)
		h.C.Check(rule+" rpcType-exhaustive", h.name(fn), setEq(got, rpcs), h.fpos(fn), fmt.Sprintf("switch covers %v, declared rpc types are %v", got, rpcs))
	}
	// isValid answers true exactly for the declared values: decided on the
	// function's value for every declared constant and for undeclared values
	// around them, whatever form (switch, if chain, boolean expression) it has
	for _, w := range []struct{ spec, typ string }{{"raft:(rpcType).isValid", "rpcType"}, {"raft:(taskType).isValid", "taskType"}} {
		fn := h.fn(w.spec)
		declared := h.constsOfType(w.typ)
		isDecl := map[int64]bool{}
		var max int64
		okT, okF, known := true, true, true
		for _, val := range declared {
			if i, exact := constant.Int64Val(val); exact {
				isDecl[i] = true
				if i > max {
					max = i
				}
			}
			r, k := evalEnumPredicate(fn, val)
			known = known && k
			okT = okT && r
		}
		nF := 0
		for _, i := range []int64{0, max + 1, max + 2, 200, 255} {
			if isDecl[i] {
				continue
			}
			nF++
			r, k := evalEnumPredicate(fn, constant.MakeInt64(i))
			known = known && k
			okF = okF && !r
		}
		if !known {
			h.C.Undecided(rule+" isValid-polarity", h.name(fn), h.fpos(fn), "the predicate could not be evaluated for a constant argument")
			continue
		}
		h.C.Check(rule+" isValid-polarity", h.name(fn)+" return true", okT, h.fpos(fn), "isValid answers false for a declared value")
		h.C.Check(rule+" isValid-polarity", h.name(fn)+" return false", okF, h.fpos(fn), "isValid answers true without matching a declared value")
		h.C.Check(rule+" isValid-polarity", h.name(fn)+" both-answers", len(declared) >= 1 && nF >= 1, h.fpos(fn), "isValid must answer true for declared and false for other values")
	}
	fl := h.fn("raft:(rpcType).fromLeader")
	// decided on the function's value for each declared constant, whatever
	// form (switch, if chain, boolean expression) it is written in
	var trueFor []string
	okEval := true
	for name, val := range h.constsOfType("rpcType") {
		r, known := evalEnumPredicate(fl, val)
		if !known {
			okEval = false
		}
		if r {
			trueFor = append(trueFor, name)
		}
	}
	sort.Strings(trueFor)
	h.C.Check(rule+" fromLeader", h.name(fl), okEval && setEq(trueFor, []string{"rpcAppendEntries", "rpcInstallSnap", "rpcTimeoutNow"}), h.fpos(fl), fmt.Sprintf("requests whose payload the raft goroutine reads itself: %v (evaluated for every declared rpc type: %v)", trueFor, okEval))
	// createReq/createResp map each rpc type to its own message types
	for _, spec := range []string{"raft:(rpcType).createReq", "raft:(rpcType).createResp"} {
		fn := h.fn(spec)
		fd := h.P.ASTFunc(fn)
		suffix := "Req"
		if strings.HasSuffix(spec, "Resp") {
			suffix = "Resp"
		}
		wantT := map[string]string{"rpcIdentity": "identity", "rpcVote": "vote", "rpcAppendEntries": "append", "rpcInstallSnap": "installSnap", "rpcTimeoutNow": "timeoutNow"}
		ast.Inspect(fd.Body, func(n ast.Node) bool {
			cc, ok := n.(*ast.CaseClause)
			if !ok || len(cc.List) != 1 || len(cc.Body) != 1 {
				return true
			}
			label := exprStr(cc.List[0])
			ret, ok := cc.Body[0].(*ast.ReturnStmt)
			if !ok || len(ret.Results) != 1 {
				return true
			}
			s := exprStr(ret.Results[0])
			h.C.Check(rule+" rpc-message-types", h.name(fn)+" case "+label, strings.Contains(s, wantT[label]+suffix+"{"), h.P.PosStr(cc.Pos(), fn), "rpc type "+label+" must map to "+wantT[label]+suffix+"; found "+s)
			return true
		})
	}
	// each request type reports its own rpcType
	for req, rt := range map[string]string{"identityReq": "rpcIdentity", "voteReq": "rpcVote", "appendReq": "rpcAppendEntries", "installSnapReq": "rpcInstallSnap", "timeoutNowReq": "rpcTimeoutNow"} {
		fn := h.fn("raft:(*" + req + ").rpcType")
		ok := false
		for _, r := range core.Returns(fn) {
			ok = h.P.Info(fn).Sym(r.Results[0]).String() == h.constStr("raft:"+rt)
		}
		h.C.Check(rule+" request-rpcType", "(*"+req+").rpcType", ok, h.fpos(fn), "must return "+rt)
	}
	// onRequest dispatches every non-identity request type
	or := h.fn("raft:(*Raft).onRequest")
	got := h.switchCaseNames(or)
	h.C.Check(rule+" onRequest-exhaustive", h.name(or), setEq(got, []string{"*appendReq", "*installSnapReq", "*timeoutNowReq", "*voteReq"}), h.fpos(or), fmt.Sprintf("onRequest handles %v", got))
	// task types
	tasks := all(h.constsOfType("taskType"))
	tv := h.fn("raft:(taskType).isValid")
	h.C.Check(rule+" taskType-exhaustive", h.name(tv), setEq(h.switchCaseNames(tv), tasks), h.fpos(tv), fmt.Sprintf("switch covers %v, declared %v", h.switchCaseNames(tv), tasks))
	ht := h.fn("raft:(*server).handleTask")
	h.C.Check(rule+" taskType-exhaustive", h.name(ht), setEq(h.switchCaseNames(ht), tasks), h.fpos(ht), fmt.Sprintf("switch covers %v, declared %v", h.switchCaseNames(ht), tasks))
	// rpc and task bytes cannot collide on the wire: disjoint value ranges
	rv, tvv := h.constsOfType("rpcType"), h.constsOfType("taskType")
	clash := false
	for _, a := range rv {
		for _, b := range tvv {
			av, _ := constant.Int64Val(a)
			bv, _ := constant.Int64Val(b)
			if av == bv {
				clash = true
			}
		}
	}
	h.C.Check(rule+" type-bytes-disjoint", "rpcType/taskType", !clash, "", "an rpc type and a task type share the same leading byte")
	// error kinds named by the decoder exist and are error types; exported sentinels have one of those dynamic types
	dt := h.fn("raft:decodeTaskResp")
	kindsNamed := map[string]bool{}
	for _, c := range h.switchCaseNames(dt) {
		if strings.HasPrefix(c, "\"raft.") {
			kindsNamed[strings.Trim(c, "\"")] = true
		}
	}
	for k := range kindsNamed {
		tn := strings.TrimPrefix(k, "raft.")
		obj := h.P.Types[core.RaftPkg].Scope().Lookup(tn)
		ok := false
		if tnObj, isT := obj.(*types.TypeName); isT {
			ok = types.Implements(tnObj.Type(), h.errorIface())
		}
		h.C.Check(rule+" error-kinds", "decodeTaskResp kind "+k, ok && h.P.Types[core.RaftPkg].Name() == "raft", h.fpos(dt), "the task decoder recognises error kind "+k+" but package raft has no such error type (fmt %T of the real error would not match)")
	}
	h.C.Floor(rule+" (error kinds in decodeTaskResp)", len(kindsNamed), 4)
	// each kind is rebuilt as the error type it names: a return that lies behind
	// `kind == "raft.T"` (and behind no other kind's test) hands back a T. Two
	// kinds folded into one case lose the distinction a caller relies on
	// (ErrNotCommitReady is a temporaryError: "retry").
	dtfi := h.P.Info(dt)
	rebuilt := map[string]bool{}
	for _, r := range core.Returns(dt) {
		if len(r.Results) != 2 {
			continue
		}
		for _, lf := range h.leavesAt(retOperand(r, 1), r, 0) {
			mi, ok := lf.V.(*ssa.MakeInterface)
			if !ok {
				continue
			}
			tn := ""
			if nt, ok := mi.X.Type().(*types.Named); ok {
				tn = nt.Obj().Name()
			}
			for _, a := range dtfi.FactsAt(lf.At) {
				if a.Op == "==" && strings.HasPrefix(a.R, "\"raft.") && strings.Trim(a.R, "\"") == "raft."+tn {
					rebuilt[strings.Trim(a.R, "\"")] = true
				}
			}
		}
	}
	for k := range kindsNamed {
		h.C.Check(rule+" error-kind-rebuilt", "decodeTaskResp kind "+k, rebuilt[k], h.fpos(dt), "no return behind kind == \""+k+"\" rebuilds an error of that type: the kind is decoded as some other error type")
	}
	for _, must := range []string{"raft.NotLeaderError", "raft.InProgressError", "raft.plainError", "raft.temporaryError"} {
		h.C.Check(rule+" error-kinds", "decodeTaskResp must recognise "+must, kindsNamed[must], h.fpos(dt), "kind missing from the decoder")
	}
	sc := h.P.Types[core.RaftPkg].Scope()
	n := 0
	for _, name := range sc.Names() {
		v, ok := sc.Lookup(name).(*types.Var)
		if !ok || !v.Exported() || !strings.HasPrefix(name, "Err") {
			continue
		}
		n++
		g := h.P.Global("raft:" + name)
		// the variable's own type, or for interface-typed variables the initialiser's dynamic type
		dyn := ""
		if nt, ok := v.Type().(*types.Named); ok {
			if _, isIface := nt.Underlying().(*types.Interface); !isIface {
				dyn = "raft." + nt.Obj().Name()
			}
		}
		initFn := h.P.SSA[core.RaftPkg].Func("init")
		core.Instrs(initFn, func(in ssa.Instruction) {
			if st, ok := in.(*ssa.Store); ok && st.Addr == ssa.Value(g) && dyn == "" {
				if mi, ok := st.Val.(*ssa.MakeInterface); ok {
					dyn = "raft." + namedOfType(mi.X.Type()).Obj().Name()
				}
			}
		})
		h.C.Check(rule+" sentinel-kinds", "sentinel "+name, kindsNamed[dyn], "", "exported sentinel "+name+" has dynamic type "+dyn+" which the task decoder does not reconstruct (equality would be lost over the admin protocol)")
	}
	h.C.Floor(rule+" (exported sentinels)", n, 10)
	// the encoder writes %T of the error
	et := h.fn("raft:encodeTaskResp")
	okT := false
	ast.Inspect(h.P.ASTFunc(et).Body, func(nd ast.Node) bool {
		if c, ok := nd.(*ast.CallExpr); ok && exprStr(c.Fun) == "fmt.Sprintf" && len(c.Args) == 2 && exprStr(c.Args[0]) == `"%T"` && exprStr(c.Args[1]) == "t.Err()" {
			okT = true
		}
		return true
	})
	h.C.Check(rule+" kind-is-%T", "encodeTaskResp", okT, h.fpos(et), "the error kind on the wire must be fmt.Sprintf(\"%T\", t.Err())")
}

// fileNameParsers (C18.5).
func (h H) fileNameParsers(rule string) {
	pairs := []struct{ format, parse string }{
		{"raft:valueFile", "raft:openValue"}, {"raft:metaFile", "raft:findSnapshots"}, {"raft:snapFile", "raft:findSnapshots"}, {"log:segmentFile", "log:segments"}}
	for _, p := range pairs {
		ff := h.fn(p.format)
		pf := h.fn(p.parse)
		// formatter: every numeric parameter is uint64 and printed with %d
		allU64 := true
		nNum := 0
		for _, prm := range ff.Params {
			if b, ok := prm.Type().Underlying().(*types.Basic); ok && b.Info()&types.IsInteger != 0 {
				nNum++
				if b.Kind() != types.Uint64 {
					allU64 = false
				}
			}
		}
		fmtStr := ""
		ast.Inspect(h.P.ASTFunc(ff).Body, func(n ast.Node) bool {
			if c, ok := n.(*ast.CallExpr); ok && exprStr(c.Fun) == "fmt.Sprintf" && len(c.Args) > 0 {
				fmtStr = exprStr(c.Args[0])
			}
			return true
		})
		okFmt := strings.Count(fmtStr, "%d") == nNum && nNum > 0
		// parser: strconv.ParseUint(_, 10, 64) exactly nNum times, no ParseInt/Atoi
		nU, nBad := 0, 0
		pfi := h.P.Info(pf)
		h.P.InstrsScope(pf, func(in ssa.Instruction) {
			c, ok := in.(*ssa.Call)
			if !ok || c.Common().StaticCallee() == nil {
				return
			}
			switch c.Common().StaticCallee().String() {
			case "strconv.ParseUint":
				if pfi.Sym(c.Common().Args[1]).String() == "10" && pfi.Sym(c.Common().Args[2]).String() == "64" {
					nU++
				} else {
					nBad++
				}
			case "strconv.ParseInt", "strconv.Atoi":
				nBad++
			}
		})
		want := nNum
		if p.parse == "raft:findSnapshots" || p.parse == "log:segments" {
			want = 1
		}
		h.C.Check(rule, h.name(ff)+" ↔ "+h.name(pf), allU64 && okFmt && nU == want && nBad == 0, h.fpos(pf),
			fmt.Sprintf("values are formatted as %s of uint64 (all uint64=%v) but parsed with %d ParseUint(_,10,64) and %d signed/other parsers: values >= 2^63 would not read back", fmtStr, allU64, nU, nBad))
	}
}

// handlersDrainPayload: in onAppendEntriesRequest / onInstallSnapRequest every
// return that answers normally (anything but readErr/unexpectedErr, after which the
// connection is dropped) has consumed the announced entries / snapshot bytes:
// it returns the drain closure's result, or lies behind "nothing left to read".
func (h H) handlersDrainPayload(rule string) {
	readErr, unexp := h.constStr("raft:readErr"), h.constStr("raft:unexpectedErr")
	// append handler
	fn := h.fn(appendFn)
	fi := h.P.Info(fn)
	n := 0
	drained := core.MkAtom("appendReq.numEntries", "==", "0")
	for k, r := range core.Returns(fn) {
		v0 := r.Results[0]
		if u, isLoad := v0.(*ssa.UnOp); isLoad { // defer-spilled result
			if a, isCell := u.X.(*ssa.Alloc); isCell {
				for j := len(r.Block().Instrs) - 1; j >= 0; j-- {
					if st, isSt := r.Block().Instrs[j].(*ssa.Store); isSt && st.Addr == ssa.Value(a) {
						v0 = st.Val
						break
					}
				}
			}
		}
		// a result merged from several places is judged where it was chosen
		normal := false
		for j, lf := range h.leavesAt(v0, r, 0) {
			v := fi.SymAt(lf.V, lf.At).String()
			site := fmt.Sprintf("(*Raft).onAppendEntriesRequest return#%d.%d", k+1, j+1)
			if v == readErr || v == unexp {
				continue
			}
			normal = true
			if strings.HasPrefix(v, "(*Raft).onAppendEntriesRequest$") && strings.HasSuffix(v, "#0") {
				h.C.Check(rule, site, true, h.pos(r), "returns through the drain closure")
				continue
			}
			res := fi.MustCross(lf.At, func(a core.Atom) bool {
				return a.Implies(drained) || (a.L == "appendReq.numEntries" && a.R == "0" && a.Op == "<=") || (a.R == "appendReq.numEntries" && a.L == "0" && a.Op == ">=")
			})
			h.C.Check(rule, site, res.OK, h.pos(r), "the handler answers "+v+" while entries announced by the request may still be unread on the connection: the next request on this pipelined stream would be decoded from the middle of them")
		}
		if normal {
			n++
		}
	}
	h.C.Floor(rule+" (normal returns of the append handler)", n, 4)
	// the drain closure reads until numEntries == 0
	for _, cl := range h.P.Closures(fn) {
		if len(h.P.DeferredClosures(fn)) > 0 && cl == h.P.DeferredClosures(fn)[0] {
			continue
		}
		cfi := h.P.Info(cl)
		for k, r := range core.Returns(cl) {
			v := cfi.Sym(r.Results[0]).String()
			if v == readErr {
				continue
			}
			res := cfi.MustCrossAtom(r, core.MkAtom("appendReq.numEntries", "==", "0"))
			h.C.Check(rule+" drain-complete", fmt.Sprintf("%s return#%d", h.name(cl), k+1), res.OK, h.pos(r), "the drain helper can return before all announced entries were read")
		}
	}
	// both loops that consume the announced entries read exactly one entry per
	// unit of numEntries: an iteration completes only after one decrement by
	// one and one entry.decode, and there is one decode site per loop
	dec := h.fn("raft:(*entry).decode")
	nLoops := 0
	for _, f := range append([]*ssa.Function{fn}, h.P.Closures(fn)...) {
		ffi := h.P.Info(f)
		for _, hd := range core.LoopHeaders(f) {
			nDec := 0
			for _, c := range h.P.CallsTo(f, dec) {
				b := c.(ssa.Instruction).Block()
				if b == hd || core.InLoop(hd, b) {
					nDec++
				}
			}
			if nDec == 0 {
				continue
			}
			nLoops++
			site := fmt.Sprintf("%s loop@%s", h.name(f), shortPos(h.pos(hd.Instrs[len(hd.Instrs)-1])))
			r1 := ffi.LoopBodyMustPass(hd, func(in ssa.Instruction) bool {
				st, ok := in.(*ssa.Store)
				return ok && strings.HasSuffix(ffi.Sym(st.Addr).String(), "appendReq.numEntries") && strings.HasSuffix(ffi.Sym(st.Val).String(), "appendReq.numEntries - 1)")
			})
			r2 := ffi.LoopBodyMustPass(hd, func(in ssa.Instruction) bool { return h.P.IsCallTo(in, dec) })
			nSt := 0
			core.Instrs(f, func(in ssa.Instruction) {
				if st, ok := in.(*ssa.Store); ok && strings.HasSuffix(ffi.Sym(st.Addr).String(), "appendReq.numEntries") && (in.Block() == hd || core.InLoop(hd, in.Block())) {
					nSt++
				}
			})
			h.C.Check(rule+" one-entry-per-count", site, r1.OK && r2.OK && nDec == 1 && nSt == 1, h.pos(hd.Instrs[len(hd.Instrs)-1]),
				fmt.Sprintf("an iteration must decrement numEntries by one exactly once and decode exactly one entry (decrement on every iteration=%v, decode on every iteration=%v, decode sites=%d, numEntries stores=%d): otherwise the handler reads more or fewer entries than the request announced", r1.OK, r2.OK, nDec, nSt))
		}
	}
	h.C.Floor(rule+" (entry-consuming loops)", nLoops, 2)
	// install handler: a normal return either went through drain or follows a complete CopyN
	in := h.fn("raft:(*Raft).onInstallSnapRequest")
	ifi := h.P.Info(in)
	m := 0
	copied := func(a core.Atom) bool {
		return a.Op == "==" && a.R == "nil" && strings.HasPrefix(a.L, "io.CopyN(") && strings.HasSuffix(a.L, "#1")
	}
	// a returned value merged from several places is judged per place: the
	// value chosen there, and the paths into that choice
	var judge func(v ssa.Value, at ssa.Instruction, depth int) (ok, normal bool, what string)
	judge = func(v ssa.Value, at ssa.Instruction, depth int) (bool, bool, string) {
		if ph, isPhi := v.(*ssa.Phi); isPhi && depth < 4 {
			live := h.P.LivePhiEdges(ph, at)
			allOK, anyNormal := true, false
			what := ""
			for i, e := range ph.Edges {
				if live != nil && !live[i] {
					continue
				}
				pred := ph.Block().Preds[i]
				ok, normal, w := judge(e, pred.Instrs[len(pred.Instrs)-1], depth+1)
				if !ok {
					allOK = false
					what = w
				}
				anyNormal = anyNormal || normal
			}
			return allOK, anyNormal, what
		}
		s := ifi.SymAt(v, at).String()
		if s == readErr || s == unexp {
			return true, false, s
		}
		if strings.HasPrefix(s, "(*Raft).onInstallSnapRequest$") && strings.HasSuffix(s, "#0") {
			return true, true, s // through the drain closure
		}
		return ifi.MustCross(at, copied).OK, true, s
	}
	for k, r := range core.Returns(in) {
		site := fmt.Sprintf("(*Raft).onInstallSnapRequest return#%d", k+1)
		v := r.Results[0]
		if u, isLoad := v.(*ssa.UnOp); isLoad { // defer-spilled result
			if a, isCell := u.X.(*ssa.Alloc); isCell {
				for j := len(r.Block().Instrs) - 1; j >= 0; j-- {
					if st, isSt := r.Block().Instrs[j].(*ssa.Store); isSt && st.Addr == ssa.Value(a) {
						v = st.Val
						break
					}
				}
			}
		}
		ok, normal, what := judge(v, r, 0)
		if !normal && ok {
			continue
		}
		m++
		h.C.Check(rule, site, ok, h.pos(r), "the install handler answers "+what+" although the snapshot bytes announced by the request may still be unread on the connection")
	}
	h.C.Floor(rule+" (normal returns of the install handler)", m, 2)
}

// evalEnumPredicate evaluates a func (t T) bool whose only input is its
// receiver, for t == val, by constant folding along the CFG.
func evalEnumPredicate(fn *ssa.Function, val constant.Value) (result, known bool) {
	if len(fn.Params) != 1 || len(fn.Blocks) == 0 {
		return false, false
	}
	prm := fn.Params[0]
	var evalV func(v ssa.Value, from *ssa.BasicBlock, at *ssa.BasicBlock, d int) (constant.Value, bool)
	evalV = func(v ssa.Value, from, at *ssa.BasicBlock, d int) (constant.Value, bool) {
		if d > 8 {
			return nil, false
		}
		switch x := v.(type) {
		case *ssa.Parameter:
			if x == prm {
				return val, true
			}
		case *ssa.Const:
			if x.Value != nil {
				return x.Value, true
			}
		case *ssa.Phi:
			if x.Block() == at && from != nil {
				for i, p := range at.Preds {
					if p == from {
						return evalV(x.Edges[i], nil, nil, d+1)
					}
				}
			}
		case *ssa.UnOp:
			if x.Op == token.NOT {
				if c, ok := evalV(x.X, from, at, d+1); ok && c.Kind() == constant.Bool {
					return constant.MakeBool(!constant.BoolVal(c)), true
				}
			}
		case *ssa.BinOp:
			l, ok1 := evalV(x.X, from, at, d+1)
			r, ok2 := evalV(x.Y, from, at, d+1)
			if ok1 && ok2 {
				switch x.Op {
				case token.EQL, token.NEQ, token.LSS, token.LEQ, token.GTR, token.GEQ:
					if l.Kind() == r.Kind() {
						return constant.MakeBool(constant.Compare(l, x.Op, r)), true
					}
				}
			}
		case *ssa.ChangeType:
			return evalV(x.X, from, at, d+1)
		case *ssa.Convert:
			return evalV(x.X, from, at, d+1)
		}
		return nil, false
	}
	b := fn.Blocks[0]
	var from *ssa.BasicBlock
	for steps := 0; steps < 200; steps++ {
		last := b.Instrs[len(b.Instrs)-1]
		switch x := last.(type) {
		case *ssa.Return:
			if len(x.Results) != 1 {
				return false, false
			}
			c, ok := evalV(x.Results[0], from, b, 0)
			if !ok || c.Kind() != constant.Bool {
				return false, false
			}
			return constant.BoolVal(c), true
		case *ssa.If:
			c, ok := evalV(x.Cond, from, b, 0)
			if !ok || c.Kind() != constant.Bool {
				return false, false
			}
			from = b
			if constant.BoolVal(c) {
				b = b.Succs[0]
			} else {
				b = b.Succs[1]
			}
		case *ssa.Jump:
			from, b = b, b.Succs[0]
		default:
			return false, false
		}
	}
	return false, false
}

// decodersRejectOnlyReadFailures (C18.1e): decode(encode(x)) == x for every
// value x needs the decoder to accept whatever the encoder writes. The wire
// decoders fail only when a read fails; an error constructed inside a decoder
// — a "defensive" range check on a decoded value — turns a value the encoder
// produces (the last enum member, an empty list) into a decoding failure.
// A constructed error is accepted only as the wrapping of a failed read (it is
// built under `err != nil` of a call result).
func (h H) decodersRejectOnlyReadFailures(rule string) {
	exempt := map[string]string{
		"(*Config).decode": "its argument is a log entry, not a byte stream: the entry's type tag is checked before the payload is decoded",
	}
	n := 0
	for _, fn := range h.P.Funcs() {
		if fn.Pkg == nil || fn.Pkg.Pkg.Name() != "raft" || fn.Name() != "decode" || fn.Signature.Recv() == nil {
			continue
		}
		n++
		fi := h.P.Info(fn)
		bad := ""
		core.Instrs(fn, func(in ssa.Instruction) {
			constructed := false
			switch x := in.(type) {
			case *ssa.Call:
				if sc := x.Common().StaticCallee(); sc != nil && sc.Pkg != nil {
					q := sc.Pkg.Pkg.Path() + "." + sc.Name()
					constructed = q == "fmt.Errorf" || q == "errors.New"
				}
			case *ssa.MakeInterface:
				if types.Implements(x.X.Type(), errorIface()) {
					if _, isCall := x.X.(*ssa.Call); !isCall {
						constructed = true
					}
				}
			}
			if !constructed {
				return
			}
			if v, ok := in.(ssa.Value); !ok || !flowsToReturn(v) {
				return // a payload value (an error carried inside a message), not the decoder's verdict
			}
			wrap := false
			for _, a := range fi.FactsAt(in) {
				if a.Op == "!=" && a.R == "nil" && (strings.Contains(a.L, "(") || strings.HasPrefix(a.L, "ret:")) {
					wrap = true
				}
			}
			if !wrap && bad == "" {
				bad = h.pos(in)
			}
		})
		if why, ok := exempt[h.name(fn)]; ok && bad != "" {
			h.C.Check(rule, h.name(fn), true, h.fpos(fn), "accepted: "+why)
			continue
		}
		h.C.Check(rule, h.name(fn), bad == "", bad, "the decoder constructs an error of its own (not the wrapping of a failed read): it rejects a value that its encoder can write, so decode(encode(x)) fails for that x")
	}
	h.C.Floor(rule+" (wire decoders)", n, 10)
}

func errorIface() *types.Interface {
	return types.Universe.Lookup("error").Type().Underlying().(*types.Interface)
}

// flowsToReturn: v can become a result of its function (through phis,
// interface conversions and local variables; not through fields).
func flowsToReturn(v ssa.Value) bool {
	seen := map[ssa.Value]bool{}
	work := []ssa.Value{v}
	for len(work) > 0 {
		x := work[len(work)-1]
		work = work[:len(work)-1]
		if seen[x] || x.Referrers() == nil {
			continue
		}
		seen[x] = true
		for _, r := range *x.Referrers() {
			switch y := r.(type) {
			case *ssa.Return:
				return true
			case *ssa.Phi:
				work = append(work, y)
			case *ssa.MakeInterface:
				work = append(work, y)
			case *ssa.ChangeInterface:
				work = append(work, y)
			case *ssa.Store:
				if al, ok := y.Addr.(*ssa.Alloc); ok && y.Val == x {
					for _, rr := range *al.Referrers() {
						if u, ok := rr.(*ssa.UnOp); ok {
							work = append(work, u)
						}
					}
				}
			}
		}
	}
	return false
}

// decodersAssignCollections (C18.1f): a decoder that fills a map or slice field
// of its receiver must (re)assign that field on every path that reports
// success — an early `return nil` for "zero elements" leaves the receiver's
// old contents (or a nil map the caller then writes into) where the encoder
// wrote an empty collection.
func (h H) decodersAssignCollections(rule string) {
	exempt := map[string]string{
		"(*Info).decode Followers": "a leader without followers encodes an empty map and decodes to nil; Info is a report that is only read (kept as the code has it)",
	}
	n := 0
	for _, fn := range h.P.Funcs() {
		if fn.Pkg == nil || fn.Pkg.Pkg.Name() != "raft" || fn.Name() != "decode" || fn.Signature.Recv() == nil || len(fn.Params) == 0 {
			continue
		}
		fi := h.P.Info(fn)
		recv := fn.Params[0]
		type fld struct {
			name   string
			stores []ssa.Instruction
		}
		fields := map[string]*fld{}
		core.Instrs(fn, func(in ssa.Instruction) {
			st, ok := in.(*ssa.Store)
			if !ok {
				return
			}
			fa, ok := st.Addr.(*ssa.FieldAddr)
			if !ok || fa.X != ssa.Value(recv) {
				return
			}
			switch st.Val.Type().Underlying().(type) {
			case *types.Map, *types.Slice:
			default:
				return
			}
			nm := fieldName(fa)
			if fields[nm] == nil {
				fields[nm] = &fld{name: nm}
			}
			fields[nm].stores = append(fields[nm].stores, in)
		})
		for _, f := range fields {
			n++
			bad := ""
			for _, r := range core.Returns(fn) {
				last := r.Results[len(r.Results)-1]
				if !isNilConst(last) && fi.Sym(last).String() != "nil" {
					continue
				}
				dom := false
				for _, s := range f.stores {
					if core.Dominates(s, r) {
						dom = true
					}
				}
				if !dom && bad == "" {
					bad = h.pos(r)
				}
			}
			key := h.name(fn) + " " + f.name
			if why, ok := exempt[key]; ok && bad != "" {
				h.C.Check(rule, key, true, h.fpos(fn), "accepted: "+why)
				continue
			}
			h.C.Check(rule, key, bad == "", bad, "the decoder can report success without assigning its receiver's collection field "+f.name+" (a zero-element value decodes into whatever the receiver held, or into a nil map)")
		}
	}
	h.C.Floor(rule+" (collection fields of decoders)", n, 2)
}

// decodersUseFreshElements (C18.1g): an element decoder may leave fields it
// does not find on the wire untouched (Replication.decode assigns Unreachable
// and Err only when present); that is a faithful decoding only into a zero
// receiver. A decoder that reads a sequence of elements in a loop therefore
// decodes each into a receiver created in that iteration.
func (h H) decodersUseFreshElements(rule string) {
	n := 0
	for _, fn := range h.P.Funcs() {
		if fn.Pkg == nil || fn.Pkg.Pkg.Name() != "raft" || fn.Blocks == nil {
			continue
		}
		hds := core.LoopHeaders(fn)
		if len(hds) == 0 {
			continue
		}
		core.Instrs(fn, func(in ssa.Instruction) {
			c, ok := in.(*ssa.Call)
			if !ok {
				return
			}
			sc := c.Common().StaticCallee()
			if sc == nil || sc.Name() != "decode" || sc.Signature.Recv() == nil || len(c.Common().Args) == 0 {
				return
			}
			var hd *ssa.BasicBlock
			for _, x := range hds {
				if core.InLoop(x, in.Block()) {
					hd = x
				}
			}
			if hd == nil {
				return
			}
			al, ok := c.Common().Args[0].(*ssa.Alloc)
			if !ok {
				return // a field or element of something else: not a reused local
			}
			n++
			fresh := core.InLoop(hd, al.Block()) && al.Block() != hd || al.Block() == in.Block()
			h.C.Check(rule, fmt.Sprintf("%s → %s receiver %s", h.name(fn), h.name(sc), al.Comment), fresh, h.pos(in), "the elements of a sequence are decoded into one receiver that outlives the iteration: fields an element does not carry keep the previous element's values")
		})
	}
	h.C.Floor(rule+" (element decoders in loops)", n, 2)
}

// byteReadersReturnOwnedMemory (C18.1h): the byte slice a decoder hands out is
// memory of its own. A slice that aliases the source's buffer (bufio Peek,
// bytes.Buffer.Next/Bytes) equals the encoded value only until the next read
// from the same stream: the decoded value then changes under its holder.
func (h H) byteReadersReturnOwnedMemory(rule string) {
	n := 0
	for _, fn := range h.P.Funcs() {
		if fn.Pkg == nil || fn.Pkg.Pkg.Name() != "raft" || fn.Blocks == nil || fn.Signature.Recv() != nil {
			continue
		}
		res := fn.Signature.Results()
		par := fn.Signature.Params()
		if res.Len() == 0 || par.Len() != 1 || par.At(0).Type().String() != "io.Reader" {
			continue
		}
		sl, ok := res.At(0).Type().Underlying().(*types.Slice)
		if !ok {
			continue
		}
		if b, ok := sl.Elem().Underlying().(*types.Basic); !ok || b.Kind() != types.Uint8 {
			continue
		}
		n++
		ri := 0
		core.Instrs(fn, func(in ssa.Instruction) {
			ret, ok := in.(*ssa.Return)
			if !ok || len(ret.Results) == 0 {
				return
			}
			ri++
			bad := ownedBytes(ret.Results[0], map[ssa.Value]bool{})
			h.C.Check(rule, fmt.Sprintf("%s return#%d", h.name(fn), ri), bad == "", h.pos(in), "the decoded bytes are not memory of the decoder's own ("+bad+"): a slice of the source's buffer changes with the next read from the stream, so the decoded value stops being equal to the encoded one")
		})
	}
	h.C.Floor(rule+" (byte readers)", n, 1)
}

// ownedBytes returns "" when v is nil or memory allocated for this value, and a description of the foreign source otherwise.
func ownedBytes(v ssa.Value, seen map[ssa.Value]bool) string {
	if seen[v] {
		return ""
	}
	seen[v] = true
	switch x := v.(type) {
	case *ssa.Const:
		if x.IsNil() {
			return ""
		}
	case *ssa.MakeSlice:
		return ""
	case *ssa.Slice:
		if a, ok := x.X.(*ssa.Alloc); ok && a.Heap {
			return ""
		}
		return ownedBytes(x.X, seen)
	case *ssa.Phi:
		for _, e := range x.Edges {
			if s := ownedBytes(e, seen); s != "" {
				return s
			}
		}
		return ""
	case *ssa.ChangeType:
		return ownedBytes(x.X, seen)
	case *ssa.Extract:
		return ownedBytes(x.Tuple, seen)
	case *ssa.Call:
		if b, ok := x.Call.Value.(*ssa.Builtin); ok && b.Name() == "append" {
			return ownedBytes(x.Call.Args[0], seen)
		}
		if sc := x.Call.StaticCallee(); sc != nil && sc.Pkg != nil {
			switch sc.Pkg.Pkg.Path() + "." + sc.Name() {
			case "io.ReadAll", "bytes.Clone", "slices.Clone", "os.ReadFile":
				return ""
			}
			return "result of " + sc.String()
		}
		return "result of a dynamic call"
	}
	return v.String()
}
