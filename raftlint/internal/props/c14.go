package props

import "raftlint/internal/core"

func init() {
	register(&Property{ID: "C14", Run: runC14, Assumptions: append([]string{"msync/unlink behave as the property's crash models say (model, not decided)"}, commonAssumptions...),
		Explanation: "Only the write-ordering protocol the property's mechanisms name is decided (that reopening every intermediate file image yields the durable prefix needs file images and is not applicable): segment.sync is flush -> header -> flush -> mark synced with errors returned in between; header slot 0 is written only by sync and removeGTE, append only writes slot n+2; removeGTE lowers the header and marks unsynced before flushing on every path; Append commits before rolling over to a segment named after the last index, RemoveLTE/RemoveGTE/Close commit first, CommitN cannot skip a dirty segment with entries <= n; createSegment truncates, zeroes the header, syncs, closes and removes the file on failure; openSegments connects or removes every discovered file and leaves its loop only on a non-nil error."})
	register(&Property{ID: "C13", Run: runC13, Assumptions: commonAssumptions,
		Explanation: "Only structural clauses are claimed (byte-exact reads over arbitrary operation sequences and multi-segment index arithmetic are value-dependent and not applicable): the writer's and reader's offset tables agree (slot positions and widths, end-of-entry slots, what open reads back, back removal, Count/Contains/lastIndex, view bounds); front removal removes whole segments, never the last one, only non-empty ones entirely at or below the requested index, unlinking before removing, and CanLTE predicts exactly that; log views held by replications, apply requests and leader updates are used only through the reading API, whose methods write nothing."})
}

func runC14(c *core.Ctx) {
	h := newH(c)
	c.Clause("C14.1/2 flush data+offsets, then header, then flush; back-removal lowers the header first")
	h.segmentSyncProtocol("C14.1 sync-protocol")
	c.Clause("C14.3 commit before roll-over, removal and close; CommitN covers every dirty segment <= n")
	h.commitBeforeStructureChange("C14.3 commit-first")
	c.Clause("C14.4 createSegment: truncate -> zero header -> sync -> close; removed on failure")
	h.createSegmentProtocol("C14.4 create-segment")
	h.initialisedFileOnly("C14.4b open-segment")
	c.Clause("C14.5 openSegments handles every discovered file; in-loop exits only on error")
	h.openHandlesEveryFile("C14.5 open-segments")
	c.Clause("C14.6 the walks that flush, close or dispose of the segment chain visit every segment and stop only at the chain's end, a clean segment (CommitN) or an error")
	h.segmentWalks("C14.6 segment-walks")
	h.unlinkBeforeRemove("C14.6b unlink-before-remove")
	c.Clause("C14.7 no error of a file, mapping or segment operation inside the log package is dropped (a failed flush must not be reported as a completed commit)")
	h.storageErrorsNotLost("C14.7 storage-errors")
	h.dirListingLiteral("C14.8 dir-listing")
}

func runC13(c *core.Ctx) {
	h := newH(c)
	h.initialisedFileOnly("C13.8 open-segment")
	c.Clause("C13.1 front removal removes whole segments and never beyond the request; CanLTE agrees")
	h.frontRemovalWholeSegments("C13.1 front-removal")
	c.Clause("C13.2 views are read-only")
	h.viewsAreReadOnly("C13.2 read-only-views")
	c.Clause("C13.3 writer's and reader's offset tables agree (slot positions, end-of-entry slots, open, back removal, accessors)")
	h.layoutAgreement("C13.3 layout")
	c.Clause("C13.4 roll-over names the new segment after the last index; open chains only contiguous segments")
	h.commitBeforeStructureChange("C13.4a roll-over")
	h.openHandlesEveryFile("C13.4b open-chain")
	h.rollOverFits("C13.4c roll-over-fits")
	c.Clause("C13.5 observers: Count, Contains, PrevIndex, LastIndex and segment.lastIndex are the abstract sequence's definitions")
	h.observers("C13.5 observers")
	c.Clause("C13.6 Reset/Close/CommitN walk the whole chain; Reset removes every old segment before it creates the new one")
	h.segmentWalks("C13.6 segment-walks")
	h.unlinkBeforeRemove("C13.7 unlink-before-remove")
}
