// mutgen enumerates mechanical single-point mutations of one Go source file
// (operator flips, condition negation, statement deletion, off-by-one) and
// writes each mutant next to an index. It is a development aid for auditing
// raftcheck's coverage (tools/mutsweep.py); it is not part of any registered
// check.
package main

import (
	"encoding/json"
	"flag"
	"fmt"
	"go/ast"
	"go/parser"
	"go/token"
	"os"
	"path/filepath"
	"sort"
)

type mut struct {
	ID     int    `json:"id"`
	Kind   string `json:"kind"`
	Func   string `json:"func"`
	Line   int    `json:"line"`
	Desc   string `json:"desc"`
	File   string `json:"file"`
	Mutant string `json:"mutant"`
	start  int
	end    int
	repl   string
}

func main() {
	file := flag.String("file", "", "source file")
	outdir := flag.String("outdir", "", "where to write mutants")
	flag.Parse()
	src, err := os.ReadFile(*file)
	if err != nil {
		panic(err)
	}
	fset := token.NewFileSet()
	f, err := parser.ParseFile(fset, *file, src, parser.ParseComments)
	if err != nil {
		panic(err)
	}
	var muts []*mut
	off := func(p token.Pos) int { return fset.Position(p).Offset }
	text := func(n ast.Node) string { return string(src[off(n.Pos()):off(n.End())]) }
	short := func(s string) string {
		if len(s) > 70 {
			return s[:70] + "…"
		}
		return s
	}
	for _, d := range f.Decls {
		fd, ok := d.(*ast.FuncDecl)
		if !ok || fd.Body == nil {
			continue
		}
		name := fd.Name.Name
		if fd.Recv != nil && len(fd.Recv.List) > 0 {
			name = "(" + text(fd.Recv.List[0].Type) + ")." + name
		}
		if fd.Name.Name == "String" || fd.Name.Name == "Error" {
			continue
		}
		add := func(kind string, n ast.Node, start, end int, repl, desc string) {
			muts = append(muts, &mut{Kind: kind, Func: name, Line: fset.Position(n.Pos()).Line, Desc: desc, start: start, end: end, repl: repl})
		}
		flip := map[token.Token][]string{
			token.LSS: {"<="}, token.LEQ: {"<"}, token.GTR: {">="}, token.GEQ: {">"},
			token.EQL: {"!="}, token.NEQ: {"=="}, token.LAND: {"||"}, token.LOR: {"&&"},
		}
		ast.Inspect(fd.Body, func(n ast.Node) bool {
			switch x := n.(type) {
			case *ast.CallExpr:
				if id, ok := x.Fun.(*ast.Ident); ok && (id.Name == "debug" || id.Name == "trace") {
					return false
				}
			case *ast.BinaryExpr:
				for _, r := range flip[x.Op] {
					o := off(x.OpPos)
					add("op", x, o, o+len(x.Op.String()), r, short(text(x))+"  ["+x.Op.String()+" -> "+r+"]")
				}
				if x.Op == token.ADD || x.Op == token.SUB {
					if lit, ok := x.Y.(*ast.BasicLit); ok && lit.Kind == token.INT && lit.Value == "1" {
						add("off1", x, off(x.X.End()), off(x.End()), "", short(text(x))+"  [drop "+x.Op.String()+"1]")
					}
				}
			case *ast.IfStmt:
				c := x.Cond
				if u, ok := c.(*ast.UnaryExpr); ok && u.Op == token.NOT {
					add("neg", x, off(u.Pos()), off(u.Pos())+1, "", "if "+short(text(c))+"  [drop !]")
				} else if _, ok := c.(*ast.BinaryExpr); !ok {
					add("neg", x, off(c.Pos()), off(c.End()), "!("+text(c)+")", "if "+short(text(c))+"  [negate]")
				}
				// force: condition replaced by constant outcome is covered by
				// deleting the body / else
				if x.Else == nil && len(x.Body.List) > 0 {
					add("ifbody", x, off(x.Body.Lbrace)+1, off(x.Body.Rbrace), "", "if "+short(text(c))+" {…}  [empty body]")
				}
			case *ast.BlockStmt:
				for _, st := range x.List {
					switch s := st.(type) {
					case *ast.ExprStmt:
						add("del", s, off(s.Pos()), off(s.End()), "", short(text(s))+"  [delete]")
					case *ast.AssignStmt:
						if s.Tok != token.DEFINE {
							add("del", s, off(s.Pos()), off(s.End()), "", short(text(s))+"  [delete]")
						}
					case *ast.IncDecStmt:
						add("del", s, off(s.Pos()), off(s.End()), "", short(text(s))+"  [delete]")
					case *ast.DeferStmt:
						add("del", s, off(s.Pos()), off(s.End()), "", short(text(s))+"  [delete]")
					case *ast.GoStmt:
						add("del", s, off(s.Pos()), off(s.End()), "", short(text(s))+"  [delete]")
					case *ast.SendStmt:
						add("del", s, off(s.Pos()), off(s.End()), "", short(text(s))+"  [delete]")
					case *ast.ReturnStmt:
						if len(s.Results) == 0 {
							// early return removed: falls through
							add("delret", s, off(s.Pos()), off(s.End()), "", "return  [delete]")
						}
					case *ast.BranchStmt:
						if s.Label == nil && (s.Tok == token.CONTINUE || s.Tok == token.BREAK) {
							add("delbr", s, off(s.Pos()), off(s.End()), "", s.Tok.String()+"  [delete]")
						}
					}
				}
			case *ast.Ident:
				if x.Name == "true" || x.Name == "false" {
					r := "true"
					if x.Name == "true" {
						r = "false"
					}
					add("bool", x, off(x.Pos()), off(x.End()), r, x.Name+" -> "+r)
				}
			}
			return true
		})
	}
	sort.SliceStable(muts, func(i, j int) bool { return muts[i].start < muts[j].start })
	base := filepath.Base(*file)
	os.MkdirAll(*outdir, 0o755)
	for i, m := range muts {
		m.ID = i
		m.File = *file
		out := make([]byte, 0, len(src)+8)
		out = append(out, src[:m.start]...)
		out = append(out, m.repl...)
		// keep line structure: preserve newlines of the deleted range
		for _, c := range src[m.start:m.end] {
			if c == '\n' && m.repl == "" {
				out = append(out, '\n')
			}
		}
		out = append(out, src[m.end:]...)
		m.Mutant = filepath.Join(*outdir, fmt.Sprintf("%s.%04d.go", base, i))
		if err := os.WriteFile(m.Mutant, out, 0o644); err != nil {
			panic(err)
		}
	}
	b, _ := json.MarshalIndent(muts, "", " ")
	os.WriteFile(filepath.Join(*outdir, base+".index.json"), b, 0o644)
	fmt.Printf("%s: %d mutants\n", base, len(muts))
}
