// raftcheck decides structural clauses of the properties in
// /verif/properties.jsonl for the source tree in /repo, purely statically.
package main

import (
	"flag"
	"fmt"
	"os"
	"path/filepath"
	"runtime/debug"
	"sort"
	"strings"
	"time"

	"golang.org/x/tools/go/ssa"

	"raftlint/internal/core"
	"raftlint/internal/props"
)

func main() {
	prop := flag.String("prop", "", "property id (C01..C20)")
	tier := flag.String("tier", "quick", "quick|thorough")
	repo := flag.String("repo", "/repo", "repository root")
	verif := flag.String("verif", "", "verif dir (default: parent of the binary's dir)")
	dump := flag.String("dump", "", "debug: dump canonical forms of a function (e.g. raft:(*Raft).onVoteRequest)")
	explain := flag.String("explain", "", "print a stored violation file")
	list := flag.Bool("list", false, "list registered properties")
	listFuncs := flag.Bool("list-funcs", false, "dev: print the names of all top-level source functions of the repository (for internal/core/known_funcs.go)")
	overlay := flag.String("overlay", "", "dev only (mutation sweep): ORIG=REPLACEMENT substitutes one source file's contents")
	noInline := flag.Bool("no-inline", false, "dev: do not expand calls to new helpers before analysing (tests the fallback treatment)")
	showNorm := flag.String("show-normalized", "", "dev: write the normalised source of FILE (as analysed) to stdout")
	known := flag.String("known", "", "known-findings file (default: known_findings.json in the verif dir, else next to the binary's dir: a scratch -verif dir still sees the committed list)")
	flag.Parse()
	core.NoInline = *noInline
	showNormalized = *showNorm
	if *overlay != "" {
		kv := strings.SplitN(*overlay, "=", 2)
		b, err := os.ReadFile(kv[1])
		if err != nil {
			fmt.Println(err)
			os.Exit(2)
		}
		core.Overlay = map[string][]byte{kv[0]: b}
	}

	home := "/verif"
	if exe, err := os.Executable(); err == nil {
		home = filepath.Dir(filepath.Dir(exe))
	}
	if *verif == "" {
		*verif = home
	}
	core.KnownPath = *known
	if core.KnownPath == "" {
		core.KnownPath = filepath.Join(*verif, "known_findings.json")
		if _, err := os.Stat(core.KnownPath); err != nil {
			core.KnownPath = filepath.Join(home, "known_findings.json")
			if _, err := os.Stat(core.KnownPath); err != nil {
				core.KnownPath = "/verif/known_findings.json"
			}
		}
	}
	if *explain != "" {
		b, err := os.ReadFile(*explain)
		if err != nil {
			fmt.Println(err)
			os.Exit(2)
		}
		fmt.Print(string(b))
		return
	}
	if *listFuncs {
		p := core.Load(*repo, "trace")
		seen := map[string]bool{}
		for _, pr := range []*core.Program{p, core.Load(*repo, "")} {
			for _, fn := range pr.Funcs() {
				if fn.Parent() == nil && !seen[fn.String()] {
					seen[fn.String()] = true
				}
			}
		}
		var names []string
		for n := range seen {
			names = append(names, n)
		}
		sort.Strings(names)
		for _, n := range names {
			fmt.Println(n)
		}
		return
	}
	if *list {
		for _, id := range props.IDs() {
			fmt.Println(id)
		}
		return
	}
	if t := os.Getenv("VERIF_TIER"); t != "" && (t == "quick" || t == "thorough") {
		// explicit flag wins; env only used when flag left at default and differs
		if !flagSet("tier") {
			*tier = t
		}
	}
	start := time.Now()
	if *prop == "all" {
		os.Exit(runAll(*tier, *repo, *verif))
	}
	code := run(*prop, *tier, *repo, *verif, *dump, start)
	os.Exit(code)
}

// runAll decides every property on one loaded program (dev use: mutation
// sweep and audits). One line "RESULT <id> rc=<n> <first violation>" each.
func runAll(tier, repo, verif string) (worst int) {
	var p *core.Program
	func() {
		defer func() {
			if v := recover(); v != nil {
				fmt.Printf("UNDECIDED load: %v\n", v)
				worst = 2
			}
		}()
		p = core.Load(repo, "")
	}()
	if p == nil {
		return 2
	}
	for _, id := range props.IDs() {
		rc := func() (code int) {
			defer func() {
				if v := recover(); v != nil {
					fmt.Printf("UNDECIDED property=%s %v\n", id, v)
					code = 2
				}
			}()
			pr := props.Get(id)
			ctx := core.NewCtx(p, id, tier)
			pr.Run(ctx)
			return ctx.Finish(verif, time.Now(), pr.Assumptions, pr.Explanation)
		}()
		fmt.Printf("RESULT %s rc=%d\n", id, rc)
		if rc > worst {
			worst = rc
		}
	}
	return worst
}

var showNormalized string

func flagSet(name string) bool {
	set := false
	flag.Visit(func(f *flag.Flag) {
		if f.Name == name {
			set = true
		}
	})
	return set
}

func run(prop, tier, repo, verif, dump string, start time.Time) (code int) {
	defer func() {
		if v := recover(); v != nil {
			if u, ok := v.(core.Undecided); ok {
				fmt.Printf("UNDECIDED property=%s %s\n", prop, u.Msg)
			} else {
				fmt.Printf("UNDECIDED property=%s analyser panic: %v\n%s\n", prop, v, debug.Stack())
			}
			code = 2
		}
	}()
	p := core.Load(repo, "")
	if showNormalized != "" {
		for k, v := range p.Source {
			if strings.HasSuffix(k, showNormalized) {
				fmt.Printf("%s", v)
			}
		}
		return 0
	}
	if dump != "" {
		dumpFunc(p, dump)
		return 0
	}
	pr := props.Get(prop)
	if pr == nil {
		fmt.Printf("UNDECIDED unknown property %q\n", prop)
		return 2
	}
	ctx := core.NewCtx(p, prop, tier)
	pr.Run(ctx)
	if tier == "thorough" {
		// second build configuration: -tags trace (debug tracing compiled in)
		p2 := core.Load(repo, "trace")
		ctx2 := core.NewCtx(p2, prop, tier)
		pr.Run(ctx2)
		for _, o := range ctx2.Obs {
			o.Rule = o.Rule + "[tags=trace]"
			ctx.Obs = append(ctx.Obs, o)
		}
		ctx.Note("thorough tier: every obligation re-decided on the build with -tags trace")
	}
	return ctx.Finish(verif, start, pr.Assumptions, pr.Explanation)
}

func dumpFunc(p *core.Program, spec string) {
	fn := p.Func(spec)
	fns := append([]*ssa.Function{fn}, p.Closures(fn)...)
	for _, f := range fns {
		fi := p.Info(f)
		fmt.Printf("=== %s\n", p.FuncName(f))
		for _, b := range f.Blocks {
			var succ []string
			for _, s := range b.Succs {
				succ = append(succ, fmt.Sprint(s.Index))
			}
			fmt.Printf(" block %d -> %s\n", b.Index, strings.Join(succ, ","))
			for _, in := range b.Instrs {
				line := p.PosStr(in.Pos(), f)
				switch x := in.(type) {
				case *ssa.If:
					fmt.Printf("   %-18s if %s\n", line, fi.AtomOf(x.Cond))
				case *ssa.Store:
					fmt.Printf("   %-18s store %s := %s\n", line, fi.Sym(x.Addr), fi.Sym(x.Val))
				case *ssa.MapUpdate:
					fmt.Printf("   %-18s mapupdate %s[%s] := %s\n", line, fi.Sym(x.Map), fi.Sym(x.Key), fi.Sym(x.Value))
				case *ssa.Return:
					var rs []string
					for _, r := range x.Results {
						rs = append(rs, fi.Sym(r).String())
					}
					fmt.Printf("   %-18s return %s\n", line, strings.Join(rs, ", "))
				case *ssa.Send:
					fmt.Printf("   %-18s send %s <- %s\n", line, fi.Sym(x.Chan), fi.Sym(x.X))
				case *ssa.Panic:
					fmt.Printf("   %-18s panic %s\n", line, fi.Sym(x.X))
				case *ssa.RunDefers:
					fmt.Printf("   %-18s rundefers\n", line)
				case ssa.CallInstruction:
					kind := "call"
					if _, ok := in.(*ssa.Defer); ok {
						kind = "defer"
					}
					if _, ok := in.(*ssa.Go); ok {
						kind = "go"
					}
					var cs []string
					for _, c := range p.CalleesOf(x) {
						cs = append(cs, p.FuncName(c))
					}
					sort.Strings(cs)
					var args []string
					for _, a := range x.Common().Args {
						args = append(args, fi.Sym(a).String())
					}
					name := strings.Join(cs, "|")
					if name == "" {
						name = fi.Sym(x.Common().Value).String()
						if x.Common().IsInvoke() {
							name = "invoke " + x.Common().Method.Name() + " on " + name
						}
					}
					fmt.Printf("   %-18s %s %s(%s)\n", line, kind, name, strings.Join(args, ", "))
				}
			}
		}
	}
}
