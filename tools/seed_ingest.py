#!/usr/bin/env python3
"""Ingest independently produced breaking changes from /tmp/seedwork/<Cnn>/ :
verify each (compiles, demo fails with / passes without, optionally full suite passes with),
run every property check against it, and store it under /verif/seeded/<Cnn>-<A|B>/.
usage: [SEEDWORK=/tmp/seedwork2 SEED_RENAME=A=C,B=D] seed_ingest.py Cnn [--suite]"""
import json, os, shutil, subprocess, sys, tempfile
ENV = dict(os.environ, GOFLAGS="-mod=mod", GOPROXY="off", GOSUMDB="off", GOTOOLCHAIN="local", GOWORK="off")
V = "/verif"
def sh(cmd, cwd=None, timeout=1800):
    p = subprocess.run(cmd, shell=True, cwd=cwd, env=ENV, stdout=subprocess.PIPE, stderr=subprocess.STDOUT, text=True, timeout=timeout)
    return p.returncode, p.stdout
def main():
    pid = sys.argv[1]
    suite = "--suite" in sys.argv
    src = "%s/%s" % (os.environ.get("SEEDWORK", "/tmp/seedwork"), pid)
    rename = dict(x.split("=") for x in os.environ.get("SEED_RENAME", "").split(",") if x)  # e.g. A=C,B=D for a second round
    meta = json.load(open(src + "/seeded_meta.json"))
    props = ["C%02d" % i for i in range(1, 21)]
    for k in sorted(meta):
        m = meta[k]
        diff = "%s/seeded_%s.diff" % (src, k)
        if not os.path.exists(diff):
            print(pid, k, "no diff"); continue
        work = tempfile.mkdtemp(prefix="seed-ingest-")
        try:
            sh("rsync -a --exclude .git --exclude 'seeded_*' --exclude PROPERTY.json /repo/ %s/" % work)
            # demo files
            demo = m.get("demo_file", "")
            demos = [d.strip() for d in demo.replace(",", " ").split() if d.strip().endswith(".go")]
            # shared helper files written by the agent (seeded_helpers_test.go, or the other variant's file when it holds helpers)
            import glob
            for g in glob.glob(src + "/seeded_*_test.go") + glob.glob(src + "/log/seeded_*_test.go"):
                rel = os.path.relpath(g, src)
                if rel not in demos:
                    demos.append(rel)
            for d in demos:
                os.makedirs(os.path.dirname(os.path.join(work, d)) or work, exist_ok=True)
                shutil.copy(os.path.join(src, d), os.path.join(work, d))
            cmd = m.get("demo_cmd", "")
            rc0, out0 = sh(cmd, cwd=work)
            rc, out = sh("git apply --directory=. %s 2>&1 || patch -p1 < %s" % (diff, diff), cwd=work)
            if rc != 0:
                print(pid, k, "PATCH FAILED", out[-300:]); continue
            rcb, outb = sh("go build ./...", cwd=work)
            rc1, out1 = sh(cmd, cwd=work)
            res = {"clean_demo_rc": rc0, "mutant_build_rc": rcb, "mutant_demo_rc": rc1}
            if suite:
                # demo files must not be part of the suite run
                for d in demos:
                    os.remove(os.path.join(work, d))
                rcs, outs = sh("go test -vet=off -count=1 -timeout 25m ./...", cwd=work)
                res["suite_rc"] = rcs
                res["suite_tail"] = outs[-400:]
                for d in demos:
                    shutil.copy(os.path.join(src, d), os.path.join(work, d))
            caught = {}
            for p in props:
                vs = tempfile.mkdtemp(prefix="seed-verif-")
                rcc, outc = sh("%s -prop %s -repo %s -verif %s" % (os.environ.get("RAFTCHECK", V + "/bin/raftcheck"), p, work, vs))
                shutil.rmtree(vs, ignore_errors=True)
                if rcc != 0:
                    lines = [l for l in outc.splitlines() if ": rule " in l or l.startswith("UNDECIDED")]
                    caught[p] = {"rc": rcc, "first": (lines[0][:300] if lines else "")}
            res["caught_by"] = caught
            valid = rc0 == 0 and rcb == 0 and rc1 != 0
            res["valid"] = valid
            kk = rename.get(k, k)
            out_dir = "%s/seeded/%s-%s" % (V, pid, kk)
            os.makedirs(out_dir, exist_ok=True)
            shutil.copy(diff, out_dir + "/patch.diff")
            for d in demos:
                shutil.copy(os.path.join(src, d), out_dir + "/" + os.path.basename(d))
            json.dump({"property": pid, "variant": kk, "summary": m.get("summary"), "breaks": m.get("breaks"), "needs": m.get("needs"),
                       "demo_file": [os.path.basename(d) for d in demos], "demo_cmd": cmd, "demo_fails_with": m.get("demo_fails_with"),
                       "verification": res,
                       "what_i_ran": "rsync of /repo to a scratch dir; demo on the clean copy (must pass); git apply patch.diff; go build; demo again (must fail); optional full suite without the demo files; raftcheck for every property against the mutated copy"},
                      open(out_dir + "/meta.json", "w"), indent=1)
            own = "CAUGHT" if pid in caught and caught[pid]["rc"] == 1 else "MISSED"
            others = ",".join(p for p in caught if p != pid and caught[p]["rc"] == 1)
            print("%s-%s valid=%s demo(clean=%d,mutant=%d) own-check=%s others=[%s] %s" % (pid, k, valid, rc0, rc1, own, others, ("suite_rc=%d" % res["suite_rc"]) if suite else ""))
            if pid in caught: print("     ", caught[pid]["first"][:260])
        finally:
            shutil.rmtree(work, ignore_errors=True)
if __name__ == "__main__":
    main()
