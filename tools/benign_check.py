#!/usr/bin/env python3
"""Re-runs the corpus of behaviour-preserving refactorings (/verif/benign/*/patch.diff):
every property check must stay quiet on each of them. Exit 1 on any alarm.
usage: benign_check.py [-k substr]"""
import os, sys, glob, subprocess
sys.path.insert(0, os.path.dirname(os.path.abspath(__file__)))
from benign_ingest import check
key = sys.argv[sys.argv.index("-k") + 1] if "-k" in sys.argv else ""
bad = 0; n = 0
for d in sorted(glob.glob("/verif/benign/*/patch.diff")):
    name = d.split("/")[-2]
    if key and key not in name:
        continue
    n += 1
    status, alarms = check(d)
    if status != "quiet":
        bad += 1
        print("FALSE-ALARM %s %s" % (name, status))
        for a in alarms[:3]:
            print("      " + a[:300])
    else:
        print("ok   %s" % name)
print("benign corpus: %d patches, %d alarms" % (n, bad))
sys.exit(1 if bad else 0)
