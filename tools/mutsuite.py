#!/usr/bin/env python3
"""Runs the repository's own tests against surviving mutants of the coverage
audit (tools/mutsweep.py) using `go test -overlay`, so /repo is never
modified. Development aid only.

usage: mutsuite.py IN.jsonl OUT.jsonl [-j N] [--pkg ./log|.] [--status survived]"""
import argparse, json, os, subprocess, sys, tempfile
from concurrent.futures import ThreadPoolExecutor
ENV = dict(os.environ, GOFLAGS="-mod=mod", GOPROXY="off", GOSUMDB="off", GOTOOLCHAIN="local", GOWORK="off")
ap = argparse.ArgumentParser()
ap.add_argument("inp"); ap.add_argument("out")
ap.add_argument("-j", type=int, default=4)
ap.add_argument("--pkg", default="./log")
ap.add_argument("--status", default="survived")
ap.add_argument("--ids", default="")
ap.add_argument("--timeout", default="20m")
ap.add_argument("--retry", action="store_true")
ap.add_argument("--files", default="")
a = ap.parse_args()
rows = [json.loads(l) for l in open(a.inp)]
want = set(a.ids.split(",")) if a.ids else None
def sel(r):
    inlog = "/log/" in r["file"]
    if (a.pkg == "./log") != inlog:
        return False
    if want is not None:
        return os.path.basename(r["mutant"]) in want
    if a.files and os.path.basename(r["file"]) not in a.files.split(","):
        return False
    d = r["desc"]
    if any(x in d for x in ("trace", "println", "logger", "tracer.", "debug(", "alerts.")):
        return False
    return r["status"] == a.status
rows = [r for r in rows if sel(r)]
print(len(rows), "mutants", file=sys.stderr)
def one(r):
    with tempfile.NamedTemporaryFile("w", suffix=".json", delete=False) as f:
        json.dump({"Replace": {r["file"]: r["mutant"]}}, f)
    try:
        cmd = ["go", "test", "-vet=off", "-count=1", "-failfast", "-timeout", a.timeout, "-overlay", f.name, a.pkg]
        p = subprocess.run(cmd, cwd="/repo", env=ENV, stdout=subprocess.PIPE, stderr=subprocess.STDOUT, text=True)
        if p.returncode != 0 and a.retry and "panic: test timed out" not in p.stdout:
            p2 = subprocess.run(cmd, cwd="/repo", env=ENV, stdout=subprocess.PIPE, stderr=subprocess.STDOUT, text=True)
            if p2.returncode == 0:
                p = p2
    finally:
        os.unlink(f.name)
    fails = [l for l in p.stdout.splitlines() if l.startswith(("--- FAIL", "panic:", "FAIL"))][:4]
    return dict(r, suite_rc=p.returncode, suite_fail=fails)
with ThreadPoolExecutor(a.j) as ex, open(a.out, "w") as out:
    for r in ex.map(one, rows):
        out.write(json.dumps(r) + "\n"); out.flush()
