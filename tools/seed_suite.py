#!/usr/bin/env python3
"""Runs the repository's unedited test suite with one seeded change applied (in a scratch copy)
and records the outcome in /verif/seeded/<id>/meta.json. usage: seed_suite.py <id>"""
import json, os, shutil, subprocess, sys, tempfile
ENV = dict(os.environ, GOFLAGS="-mod=mod", GOPROXY="off", GOSUMDB="off", GOTOOLCHAIN="local", GOWORK="off")
sid = sys.argv[1]
d = "/verif/seeded/" + sid
work = tempfile.mkdtemp(prefix="seed-suite-")
try:
    subprocess.run("rsync -a --exclude .git /repo/ %s/" % work, shell=True, check=True)
    subprocess.run("git apply --directory=. %s/patch.diff 2>/dev/null || patch -p1 -s < %s/patch.diff" % (d, d), shell=True, cwd=work, check=True)
    p = subprocess.run("go test -vet=off -count=1 -timeout 25m ./...", shell=True, cwd=work, env=ENV, stdout=subprocess.PIPE, stderr=subprocess.STDOUT, text=True)
    rc, out = p.returncode, p.stdout
    if rc != 0:  # one retry: the suite is timer driven
        p = subprocess.run("go test -vet=off -count=1 -timeout 25m ./...", shell=True, cwd=work, env=ENV, stdout=subprocess.PIPE, stderr=subprocess.STDOUT, text=True)
        rc, out = p.returncode, out + "\n--- retry ---\n" + p.stdout
    m = json.load(open(d + "/meta.json"))
    m["verification"]["suite_rc"] = rc
    m["verification"]["suite_tail"] = "\n".join(l for l in out.splitlines() if l.startswith(("ok", "FAIL", "--- FAIL", "panic")))[-600:]
    json.dump(m, open(d + "/meta.json", "w"), indent=1)
    print(sid, "suite_rc=%d" % rc)
finally:
    shutil.rmtree(work, ignore_errors=True)
