#!/usr/bin/env python3
"""Generates /verif/MANIFEST.json from the table below (kept next to the checks so
that claims and not_applicable entries stay in sync with what raftcheck registers)."""
import json, os, subprocess, sys
V = os.path.dirname(os.path.dirname(os.path.abspath(__file__)))
SETUP = ("cd /verif/raftlint && GOFLAGS=-mod=mod GOPROXY=off GOSUMDB=off GOTOOLCHAIN=local GOWORK=off "
         "go build -o /verif/bin/raftcheck ./cmd/raftcheck")
BASE = ("for m in $(cat /w/out/gomods.txt); do MF=$(cd /repo/$m && . /w/out/goenv.sh && gomodflag); "
        "(cd /repo/$m && go test $MF -json -vet=off -count=1 -timeout 25m ./...); done")

from claims import CLAIMS, NOT_APPLICABLE  # noqa

checks = []
for pid in sorted(CLAIMS):
    c = CLAIMS[pid]
    checks.append({
        "property_id": pid,
        "quick_cmd": "./bin/raftcheck -prop %s -tier quick" % pid,
        "thorough_cmd": "./bin/raftcheck -prop %s -tier thorough" % pid,
        "evidence_file": "evidence/%s.json" % pid,
        "replay_cmd_template": "./bin/raftcheck -explain {path}",
        "engine": "raftcheck",
        "level_claimed": {"category": "other", "text": c["text"], "design_ref": c["ref"]},
        "level_note": c["note"],
        "technique": c["technique"],
    })
m = {
    "version": 1,
    "setup_cmd": SETUP,
    "hooks": {"guard": "verif", "enable": "none: static analysis needs no instrumentation; /repo is analysed as it is (default build, plus -tags trace in the thorough tier)",
              "baseline_off_cmd": BASE, "source_commits": [], "add_only": True},
    "engines": [{"name": "raftcheck", "path": "raftlint/", "serves_properties": sorted(CLAIMS),
                 "kind_free_text": "repository-specific static analyser over go/types + go/ssa + VTA call graph (x/tools v0.29.0): who-may-call/write, CFG gates and orderings, path-sensitive ordering dataflow, lockset, goroutine confinement, reply typestate, codec grammar symmetry"}],
    "checks": checks,
    "not_applicable": [{"property_id": k, "reason": v} for k, v in sorted(NOT_APPLICABLE.items())],
    "notes": "All claims are level 'other': each check decides structural necessary conditions of its property for every path of the program text and says so; the behavioural property as a whole (histories, schedules, crash images) is outside static analysis. Exit 2 (UNDECIDED) means the checker could not see what it needs and must be read as a broken check, never as 'held'. Fixed genuine defects and known findings: known_findings.json (30 repaired defects F1–F30 with 'fix:' commits in /repo; one recorded finding K1, printed as KNOWN-FINDING by the C10 check), DESIGN.md §10.3.",
}
json.dump(m, open(os.path.join(V, "MANIFEST.json"), "w"), indent=1)
print("wrote MANIFEST.json with", len(checks), "checks,", len(NOT_APPLICABLE), "not applicable")
