#!/usr/bin/env python3
"""Recomputes, for the seeded changes whose directory name contains the given
substring, which property checks report them (meta.json verification.caught_by)
with the current checker on the current /repo. Demonstrations are not re-run.
usage: seed_refresh.py -k substr [--bin PATH]"""
import glob, json, os, shutil, subprocess, sys, tempfile
from concurrent.futures import ThreadPoolExecutor
ENV = dict(os.environ, GOFLAGS="-mod=mod", GOPROXY="off", GOSUMDB="off", GOTOOLCHAIN="local", GOWORK="off")
key = sys.argv[sys.argv.index("-k") + 1] if "-k" in sys.argv else ""
binp = sys.argv[sys.argv.index("--bin") + 1] if "--bin" in sys.argv else "/verif/bin/raftcheck"
PROPS = ["C%02d" % i for i in range(1, 21)]
def one(d):
    m = json.load(open(d + "/meta.json"))
    work = tempfile.mkdtemp(prefix="seed-rf-")
    try:
        subprocess.run("rsync -a --exclude .git /repo/ %s/" % work, shell=True, check=True)
        p = subprocess.run("git apply --directory=. %s/patch.diff 2>/dev/null || patch -p1 -s < %s/patch.diff" % (d, d), shell=True, cwd=work)
        if p.returncode != 0:
            return os.path.basename(d), "PATCH-FAILED"
        caught = {}
        for pr in PROPS:
            vs = tempfile.mkdtemp(prefix="seed-rfv-")
            q = subprocess.run([binp, "-prop", pr, "-repo", work, "-verif", vs], env=ENV, stdout=subprocess.PIPE, stderr=subprocess.STDOUT, text=True)
            shutil.rmtree(vs, ignore_errors=True)
            if q.returncode == 1 and any(l.startswith("VIOLATION") for l in q.stdout.splitlines()):
                first = next((l for l in q.stdout.splitlines() if ": rule " in l), "")
                caught[pr] = {"rc": 1, "first": first[:300]}
        m.setdefault("verification", {})["caught_by"] = caught
        m["verification"]["own_check"] = "CAUGHT" if m["property"] in caught else "MISSED"
        json.dump(m, open(d + "/meta.json", "w"), indent=1)
        return os.path.basename(d), m["verification"]["own_check"] + " others=" + ",".join(k for k in caught if k != m["property"])
    finally:
        shutil.rmtree(work, ignore_errors=True)
ds = [d for d in sorted(glob.glob("/verif/seeded/*")) if os.path.isdir(d) and key in d]
with ThreadPoolExecutor(6) as ex:
    for name, st in ex.map(one, ds):
        print("%-8s %s" % (name, st), flush=True)
