#!/usr/bin/env python3
"""Behaviour-preserving refactorings produced by independent sub-agents
(/tmp/benignwork/Bnn/benign_k.diff): apply each to a scratch copy of /repo,
build, and run every property check on it. Any VIOLATION / UNDECIDED is a false
alarm of the checker. Patches are kept under /verif/benign/ as a regression
corpus (tools/benign_check.py re-runs them).
usage: benign_ingest.py Bnn"""
import json, os, shutil, subprocess, sys, tempfile, glob
ENV = dict(os.environ, GOFLAGS="-mod=mod", GOPROXY="off", GOSUMDB="off", GOTOOLCHAIN="local", GOWORK="off")
V = "/verif"
def sh(cmd, cwd=None):
    p = subprocess.run(cmd, shell=True, cwd=cwd, env=ENV, stdout=subprocess.PIPE, stderr=subprocess.STDOUT, text=True)
    return p.returncode, p.stdout
def check(patch):
    work = tempfile.mkdtemp(prefix="benign-")
    vs = tempfile.mkdtemp(prefix="benign-verif-")
    try:
        sh("rsync -a --exclude .git /repo/ %s/" % work)
        rc, out = sh("git apply --directory=. %s 2>&1 || patch -p1 < %s" % (patch, patch), cwd=work)
        if rc != 0:
            return "PATCH-FAILED", [out[-200:]]
        rc, out = sh("go build ./...", cwd=work)
        if rc != 0:
            return "BUILD-FAILED", [out[-300:]]
        rc, out = sh("%s -prop all -repo %s -verif %s" % (os.environ.get("RAFTCHECK", V + "/bin/raftcheck"), work, vs))
        alarms = [l[:400] for l in out.splitlines() if ": rule " in l or l.startswith("UNDECIDED")]
        return ("ALARM" if alarms else "quiet"), alarms
    finally:
        shutil.rmtree(work, ignore_errors=True); shutil.rmtree(vs, ignore_errors=True)
def main():
    b = sys.argv[1]
    src = os.environ.get("BENIGNWORK", "/tmp/benignwork") + "/" + b
    meta = {}
    if os.path.exists(src + "/benign_meta.json"):
        meta = json.load(open(src + "/benign_meta.json"))
    for d in sorted(glob.glob(src + "/benign_*.diff")):
        k = os.path.basename(d)[len("benign_"):-len(".diff")]
        if os.path.getsize(d) == 0:
            continue
        status, alarms = check(d)
        out = "%s/benign/%s-%s" % (V, b, k)
        os.makedirs(out, exist_ok=True)
        shutil.copy(d, out + "/patch.diff")
        json.dump({"id": "%s-%s" % (b, k), "meta": meta.get(k, {}), "status_at_ingest": status, "alarms_at_ingest": alarms}, open(out + "/meta.json", "w"), indent=1)
        print("%s-%s %s %s" % (b, k, status, (meta.get(k, {}).get("summary") or "")[:110]))
        for a in alarms[:4]:
            print("      " + a[:300])
if __name__ == "__main__":
    main()
