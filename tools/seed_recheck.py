#!/usr/bin/env python3
"""Re-runs, for every seeded breaking change under /verif/seeded/, the check of
the property it was written against on a scratch copy with the change applied;
each must exit 1 with a VIOLATION line. usage: seed_recheck.py [-k substr] [--bin PATH]"""
import glob, json, os, shutil, subprocess, sys, tempfile
from concurrent.futures import ThreadPoolExecutor
ENV = dict(os.environ, GOFLAGS="-mod=mod", GOPROXY="off", GOSUMDB="off", GOTOOLCHAIN="local", GOWORK="off")
key = sys.argv[sys.argv.index("-k") + 1] if "-k" in sys.argv else ""
binp = sys.argv[sys.argv.index("--bin") + 1] if "--bin" in sys.argv else "/verif/bin/raftcheck"
def one(d):
    m = json.load(open(d + "/meta.json"))
    prop = m["property"]
    work = tempfile.mkdtemp(prefix="seed-re-"); vs = tempfile.mkdtemp(prefix="seed-rev-")
    try:
        subprocess.run("rsync -a --exclude .git /repo/ %s/" % work, shell=True, check=True)
        p = subprocess.run("git apply --directory=. %s/patch.diff 2>/dev/null || patch -p1 -s < %s/patch.diff" % (d, d), shell=True, cwd=work)
        if p.returncode != 0:
            return os.path.basename(d), "PATCH-FAILED", ""
        p = subprocess.run([binp, "-prop", prop, "-repo", work, "-verif", vs], env=ENV, stdout=subprocess.PIPE, stderr=subprocess.STDOUT, text=True)
        viol = [l for l in p.stdout.splitlines() if l.startswith("VIOLATION")]
        first = next((l for l in p.stdout.splitlines() if ": rule " in l), "")
        return os.path.basename(d), ("CAUGHT" if p.returncode == 1 and viol else "MISSED rc=%d" % p.returncode), first[:160]
    finally:
        shutil.rmtree(work, ignore_errors=True); shutil.rmtree(vs, ignore_errors=True)
ds = [d for d in sorted(glob.glob("/verif/seeded/*")) if os.path.isdir(d) and key in d]
bad = 0
with ThreadPoolExecutor(6) as ex:
    for name, st, first in ex.map(one, ds):
        if st != "CAUGHT":
            bad += 1
        print("%-8s %s %s" % (name, st, first if st != "CAUGHT" else ""))
print("seeded: %d changes, %d not caught" % (len(ds), bad))
sys.exit(1 if bad else 0)
