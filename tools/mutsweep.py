#!/usr/bin/env python3
"""Coverage audit of raftcheck (development aid, not a registered check).

For every mechanical single-point mutant produced by raftlint/cmd/mutgen the
whole rule set is run (raftcheck -prop all, source overlay, nothing is
executed) and the result recorded: killed (some property reports a violation
that the unmutated tree does not), undecided, type-error, or survived.
Survivors are the places where no rule looks; they are triaged by hand
(DESIGN.md 10.6) into benign / outside every property / rule added.

usage: mutsweep.py [-j N] [-k substr] [--out FILE]
"""
import argparse, glob, json, os, re, subprocess, sys, shutil
from concurrent.futures import ThreadPoolExecutor

ENV = dict(os.environ, GOFLAGS="-mod=mod", GOPROXY="off", GOSUMDB="off", GOTOOLCHAIN="local", GOWORK="off")
ap = argparse.ArgumentParser()
ap.add_argument("-j", type=int, default=12)
ap.add_argument("-k", default="")
ap.add_argument("--out", default="/tmp/mutsweep.jsonl")
ap.add_argument("--bin", default="/tmp/raftcheck-dev")
ap.add_argument("--muts", default="/tmp/muts")
ap.add_argument("--only", default="", help="file with mutant paths to re-run")
a = ap.parse_args()

VIO = re.compile(r"^(\S*): rule (.*?), construct (.*?): ")

def run(orig, mutant, scratch):
    os.makedirs(scratch, exist_ok=True)
    args = [a.bin, "-prop", "all", "-repo", "/repo", "-verif", scratch]
    if mutant:
        args += ["-overlay", "%s=%s" % (orig, mutant)]
    p = subprocess.run(args, env=ENV, stdout=subprocess.PIPE, stderr=subprocess.STDOUT, text=True)
    vios, rcs, und = set(), {}, []
    for l in p.stdout.splitlines():
        m = VIO.match(l)
        if m:
            vios.add(m.group(2) + " | " + m.group(3))
        m = re.match(r"RESULT (C\d+) rc=(\d)", l)
        if m:
            rcs[m.group(1)] = int(m.group(2))
        if l.startswith("UNDECIDED"):
            und.append(l[:300])
    return vios, rcs, und

base_v, base_rc, base_und = run(None, None, "/tmp/vsw/base")
print("baseline:", sorted(base_v), base_und, file=sys.stderr)

muts = []
for idx in sorted(glob.glob(a.muts + "/*/*.index.json")):
    muts += json.load(open(idx)) or []
if a.k:
    muts = [m for m in muts if a.k in m["mutant"] or a.k in m["func"]]
if a.only:
    want = set(open(a.only).read().split())
    muts = [m for m in muts if m["mutant"] in want]
print(len(muts), "mutants", file=sys.stderr)

def one(i_m):
    i, m = i_m
    v, rcs, und = run(m["file"], m["mutant"], "/tmp/vsw/w%d" % (i % (a.j * 2)))
    new = sorted(v - base_v)
    typeerr = any("type errors" in u or "load" in u for u in und)
    if typeerr:
        status = "typeerr"
    elif new:
        status = "killed"
    elif und:
        status = "undecided"
    else:
        status = "survived"
    props = sorted({x.split(".")[0].split(" ")[0] for x in new})
    r = dict(m, status=status, props=props, new=new[:6], und=und[:2])
    return r

with ThreadPoolExecutor(a.j) as ex, open(a.out, "w") as out:
    n = 0
    for r in ex.map(one, enumerate(muts)):
        out.write(json.dumps(r) + "\n")
        out.flush()
        n += 1
        if n % 100 == 0:
            print(n, file=sys.stderr)
shutil.rmtree("/tmp/vsw", ignore_errors=True)
