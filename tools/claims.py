CLAIMS = {
 "C05": {
  "text": "Decides, for every path of the program text, the structural necessary conditions of C05: (1) vote handler post-conditions by a path-sensitive ordering dataflow over onVoteRequest and its deferred persist: a success reply implies the pair persisted is (req.term, req.src), persisted exactly once as the last effect; at every exit the pair is unchanged, or a higher term, or a first vote in the current term; (2) setTerm/setVotedFor publish in memory only after a successful termVal.set of the same values under a monotone guard; value.set is rename -> dir sync -> memory; (3) sole writers/callers; (4) replies are built only from onRequest's result and a panicking persist becomes unexpectedErr; (5) the candidate persists (term+1, self) before any request goroutine or self-reply. It does not decide what a crash does to files.",
  "ref": "DESIGN.md §3 C05", "technique": "path-sensitive ordering dataflow (trace partitioning) on SSA + who-may-write + dominance",
  "note": "Trusted: go/ssa + VTA; os.Rename atomic and synced directory durable (model); test hooks (grantingVote, tracer) do not mutate state; no 64-bit overflow."},
}
NOT_APPLICABLE = {}
for i in range(1, 21):
    pid = "C%02d" % i
    if pid not in CLAIMS:
        NOT_APPLICABLE[pid] = "check not built yet in this session (planned in DESIGN.md §3); not claimed until the obligations run and are self-tested"
