CLAIMS = {
 "C01": {
  "text": "Decides structural necessary conditions of election safety on every path of the program text: vote-handler post-conditions (success => persisted pair = (req.term, req.src); one vote per term) by path-sensitive ordering dataflow; a node becomes leader only in candidate.onVoteResult after decrementing votesNeeded (= quorum() = voters/2+1 of the latest configuration) once per success reply without error and without a higher term, down to zero; each election uses a fresh reply channel handed to the request goroutines by value; the self vote is persisted before any request; every site observing a higher term adopts it and steps down; a leader is accepted only at equal term. It does not decide that majorities intersect over message schedules, crashes and reconfiguration histories.",
  "ref": "DESIGN.md §3 C01", "technique": "path-sensitive ordering dataflow on SSA + CFG gates + who-may-call/write",
  "note": "Trusted: go/ssa + VTA call graph; test hooks do not mutate state; no overflow. History-level election safety is not claimed."},
 "C02": {
  "text": "Decides structural necessary conditions of commit stability: the up-to-date check holds on every vote-granting path; the leader commits only majorityMatchIndex() > commitIndex and >= startIndex (startIndex = lastLogIndex+1 before the no-op); the majority is the (i/2)-th largest match index over voters of the latest configuration (normal-form check of the index arithmetic), the single-voter shortcut is guarded; canCommit's true-summary implies ldrCommitIndex>=index, term==req.term, index>commitIndex and gates both follower commit sites; truncation only above the snapshot, inside the log, at a proven term conflict, by a follower; configuration changes are gated on a committed previous configuration and an own-term commit. The leader-completeness induction over histories is not decided.",
  "ref": "DESIGN.md §3 C02", "technique": "ordering dataflow + guard summaries + CFG gates with stability + who-may-call",
  "note": "Trusted: go/ssa + VTA; sort.Sort sorts. Only the listed clauses are claimed."},
 "C04": {
  "text": "Decides structural necessary conditions of log matching: every append, truncation, commit and success reply of the append handler is behind the prevLogIndex/prevLogTerm check (local term has exactly the two sound reaching definitions) or a snapshot-covered prevLogIndex; entries <= snapshot index are skipped, same-term entries kept; storage.appendEntry appends contiguously (assert proven) and lastLogIndex/lastLogTerm follow every log mutation; requests are built from the sender's own log view (prev coordinates, entries, nextIndex advance); stale-term requests have no effect; a leader never truncates. The inductive property over pairs of nodes is not decided.",
  "ref": "DESIGN.md §3 C04", "technique": "CFG gates (fresh-value) + reaching definitions + ordering dataflow on loop-free helpers",
  "note": "Trusted: go/ssa + VTA. Only the listed clauses are claimed."},
 "C06": {
  "text": "Decides structural necessary conditions of durable acknowledgement: leader flushes (commitLog(index), error => panic) before advancing its commit index to the same value; on every feasible path the follower registers the flushing defer before the first append (correlated-condition filter), marks every append, flushes lastLogIndex before advancing its commit index and returns success only after the defers ran; majority over voters with a fresh voter cache (leader.numVoters/node derive from the configuration being installed); matchIndex raised only by a success reply, to the last index of the acknowledged request. What msync guarantees and how many nodes hold an entry at run time are not decided.",
  "ref": "DESIGN.md §3 C06", "technique": "dominance/must-pass with feasibility filter + cache-freshness def-use + who-may-write",
  "note": "Trusted: go/ssa + VTA; msync makes data durable (model)."},
 "C08": {
  "text": "Decides structural necessary conditions of safe membership change: validation gates of onChangeConfig on every path (including loop invariants: nothing removed, voting right unchanged, new nodes non-voters, a voter without action remains); canChangeConfig's summary (committed and no transfer) gates every doChangeConfig; at most one mutation of a cloned configuration per entry; Voter:=true only on the promote action; adoption on append / revert on truncation; commitConfig tied to the commit index; sole writers of configs.Latest/Committed; voter cache freshness. That C01/C02 hold under reconfiguration histories and that a voter remains at run time are not decided.",
  "ref": "DESIGN.md §3 C08", "technique": "CFG gates + loop-body invariants + ordering dataflow + who-may-call/write",
  "note": "Trusted: go/ssa + VTA. Only the listed clauses are claimed."},
 "C11": {
  "text": "Decides structural necessary conditions of 'non-voters hold no authority': every setState(Candidate) site is voter-gated (canStartElection summary, timeout-now refusal before any effect, bootstrap self-voter check, startElection assertion; isVoter = exists && Voter); non-voters never enter the majority; promotion only with a finished round observed after the last begin(), fast enough or nothing new, under canChangeConfig; rounds finish only at their target; removal of a non-voter waits for matchIndex >= Latest.Index; a non-voting leader steps down after commitConfig; doClose(ErrNodeRemoved) only on the committed path when absent and enabled. Schedules of learning configurations vs timeouts are not decided.",
  "ref": "DESIGN.md §3 C11", "technique": "ordering dataflow over checkConfigAction + guard summaries + CFG gates",
  "note": "Trusted: go/ssa + VTA. Only the listed clauses are claimed."},
 "C17": {
  "text": "Only the leader-stability clause is claimed (availability/liveness is not applicable to static analysis): on every path of the vote handler with no transfer flag, a known leader and a requester other than that leader, the result is not success and the persisted (term, vote) pair is unchanged; replyRPC reports resetTimer for a vote request only when it was granted and stateLoop resets the follower timer only on that report; Raft.leader is written only by setLeader.",
  "ref": "DESIGN.md §3 C17", "technique": "path-sensitive ordering dataflow on SSA",
  "note": "Liveness clause not claimed. Trusted: go/ssa + VTA."},
 "C05": {
  "text": "Decides, for every path of the program text, the structural necessary conditions of C05: (1) vote handler post-conditions by a path-sensitive ordering dataflow over onVoteRequest and its deferred persist: a success reply implies the pair persisted is (req.term, req.src), persisted exactly once as the last effect; at every exit the pair is unchanged, or a higher term, or a first vote in the current term; (2) setTerm/setVotedFor publish in memory only after a successful termVal.set of the same values under a monotone guard; value.set is rename -> dir sync -> memory; (3) sole writers/callers; (4) replies are built only from onRequest's result and a panicking persist becomes unexpectedErr; (5) the candidate persists (term+1, self) before any request goroutine or self-reply. It does not decide what a crash does to files.",
  "ref": "DESIGN.md §3 C05", "technique": "path-sensitive ordering dataflow (trace partitioning) on SSA + who-may-write + dominance",
  "note": "Trusted: go/ssa + VTA; os.Rename atomic and synced directory durable (model); test hooks (grantingVote, tracer) do not mutate state; no 64-bit overflow."},
}
NOT_APPLICABLE = {}
for i in range(1, 21):
    pid = "C%02d" % i
    if pid not in CLAIMS:
        NOT_APPLICABLE[pid] = "check not built yet in this session (planned in DESIGN.md §3); not claimed until the obligations run and are self-tested"
