package raft

import (
	"testing"
	"time"
)

// F24: leader.notifyFlr coalesces leaderUpdates per replication: a pending
// update is taken out of repl.leaderUpdateCh and replaced by the newer one.
// If the pending update carried the new configuration (config != nil) and
// the newer one was built with includeConfig=false, the replication never
// learns the configuration: replication.onLeaderUpdate sets r.node only when
// u.config != nil. For a node that was just promoted, the replication keeps
// r.node.Voter == false, so checkLeaderUpdate never arms the idle heartbeat
// timer: an idle leader sends nothing to the new voter, which times out and
// campaigns with a higher term; the next append sent to it is answered with
// staleTerm and the healthy leader steps down.
//
// Synthetic part: the three leader events
//   client batch stored -> nonvoter promoted -> next client batch stored
// are run back to back inside one inspect closure on the leader's goroutine
// (in production they are three consecutive iterations of the same loop).
// The first notify is handed directly to the idle replication goroutine,
// the second (with config) stays in the channel buffer because that goroutine
// is busy writing the first batch, the third (without config) replaces it.
// The promotion itself is built the way checkConfigAction's Promote case
// builds it (clone, Voter=true, Action=None, doChangeConfig).
func TestF24_promotedNodeGetsNoHeartbeats(t *testing.T) {
	c, ldr, _ := launchCluster(t, 3)
	defer c.shutdown()
	c.waitCommitReady(ldr)

	// M4 joins as nonvoter and catches up
	m4 := c.launch(1, false)[4]
	c.ensure(c.waitAddNonvoter(ldr, 4, c.id2Addr(4), false))
	c.waitForStableConfig(ldr)
	c.waitCatchup()

	first, second := UpdateFSM([]byte("first")), UpdateFSM([]byte("second"))
	_ = ldr.inspect(func(r *Raft) {
		if r.state != Leader {
			return
		}
		l := r.ldr
		// a client batch arrives
		l.storeEntry(first.newEntry())
		// M4 is promoted (what checkConfigAction does for action Promote)
		config := l.configs.Latest.clone()
		n := config.Nodes[4]
		n.Voter, n.Action = true, None
		config.Nodes[4] = n
		l.doChangeConfig(nil, config)
		// next client batch arrives
		l.storeEntry(second.newEntry())
	})
	for _, task := range []FSMTask{first, second} {
		select {
		case <-task.Done():
			if task.Err() != nil {
				t.Fatalf("update failed: %v", task.Err())
			}
		case <-time.After(c.longTimeout):
			t.Fatal("update not applied")
		}
	}
	c.waitForStableConfig(ldr)
	c.waitCatchup()

	// M4 knows that it is voter now
	isVoter := func() bool {
		n, ok := c.info(m4).Configs.Committed.Nodes[4]
		return ok && n.Voter
	}
	if !waitForCondition(isVoter, c.commitTimeout, c.longTimeout) {
		t.Fatal("M4 must have become voter")
	}
	before := c.info(ldr)
	if before.State != Leader {
		t.Fatalf("leader state: %v", before.State)
	}

	// the cluster is idle now: leader must keep the new voter quiet with heartbeats
	deadline := time.Now().Add(3 * c.heartbeatTimeout)
	for time.Now().Before(deadline) {
		info := c.info(m4)
		if info.State != Follower || info.Term != before.Term {
			t.Fatalf("idle leader sent no heartbeats to promoted M4: M4 is %v in term %d, want Follower in term %d",
				info.State, info.Term, before.Term)
		}
		time.Sleep(50 * time.Millisecond)
	}

	// and the leader survives the next update
	if _, err := waitUpdate(ldr, "third", c.longTimeout); err != nil {
		t.Fatalf("update after idle period: %v", err)
	}
	if after := c.info(ldr); after.State != Leader || after.Term != before.Term {
		t.Fatalf("leader deposed: %v in term %d, want Leader in term %d", after.State, after.Term, before.Term)
	}
}
