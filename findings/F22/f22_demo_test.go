package raft

import (
	"bufio"
	"bytes"
	"fmt"
	"testing"
	"time"

	"github.com/santhosh-tekuri/fnet"
)

// F22: onInstallSnapRequest, branch that keeps the log suffix (our log has
// the snapshot index with the same term), compacts the log upto the snapshot
// index although neither commitIndex nor the fsm have reached it: the
// entries in between are removed from the log without ever being applied.
//
// schedule:
//   - M4 (nonvoter, so it never campaigns) is in sync at index n0
//   - the leader's write of AppendEntries(prev=n0, 64 entries) to M4 breaks
//     in the middle of the message: M4 appends the 57 entries it got, the
//     leader's nextIndex stays n0+1 (it advances only after a complete write)
//   - the leader takes a snapshot at n0+50 and, M4 being unreachable,
//     compacts its log beyond n0
//   - M4 is reachable again: prevLogIndex n0 is no longer in the leader's
//     log, so it sends the snapshot. M4 has n0+50 with the same term, keeps
//     the suffix and removes whole segments <=n0+50; its fsm is at n0.
//
// everything is done by the real nodes, except the broken write: the bytes
// the leader's replication writes for that request are written by the test
// on a real connection to M4's server, which is closed in the middle of an
// entry.
func TestF22_installSnap_keepSuffix_removesUnappliedEntries(t *testing.T) {
	const isolateOnViolation = true

	c := newCluster(t)
	c.opt.LogSegmentSize = 1024

	// observe M4 at the moment it compacts its log, from its own goroutine
	violation := make(chan string, 1)
	origLogCompacted := tracer.logCompacted
	tracer.logCompacted = func(r *Raft) {
		origLogCompacted(r)
		if r.cid == c.id && r.nid == 4 {
			prevIndex, commitIndex, applied := r.log.PrevIndex(), r.commitIndex, r.lastApplied()
			if prevIndex > applied {
				if isolateOnViolation {
					// the next entries from leader make fsm goroutine panic with
					// Log.Get(applied+1): entry not found, which kills the
					// test binary. keep them away, to fail gracefully
					network.SetFirewall(fnet.AllowSelf)
				}
				select {
				case violation <- fmt.Sprintf("M4 removed entries <=%d from its log, but its fsm has applied only upto %d (commitIndex %d): "+
					"entries %d..%d are lost for the fsm, applying the next committed entry panics with Log.Get(%d): entry not found",
					prevIndex, applied, commitIndex, applied+1, prevIndex, applied+1):
				default:
				}
			}
		}
	}
	defer func() {
		tracer.logCompacted = origLogCompacted
		network.SetFirewall(fnet.AllowAll)
	}()

	ldr, flrs := c.ensureLaunch(3)
	defer c.shutdown()

	// add nonvoter M4, 5 updates, everybody in sync
	m4 := c.launch(1, false)[4]
	c.waitCommitReady(ldr)
	c.ensure(c.waitAddNonvoter(ldr, 4, c.id2Addr(4), false))
	<-c.sendUpdates(ldr, 1, 5).Done()
	c.waitFSMLen(5)
	c.waitCatchup()
	n0 := c.info(ldr).LastLogIndex
	if info := c.info(m4); info.LastLogIndex != n0 || info.Committed != n0 || info.LastApplied != n0 {
		t.Fatalf("M4 not in sync at %d: %+v", n0, info)
	}

	// M4 gets partitioned. 50 more updates, snapshot at n0+50
	c.disconnect(m4)
	<-c.sendUpdates(ldr, 6, 55).Done()
	c.waitUnreachableDetected(ldr, m4)
	c.waitCatchup(flrs...)
	logCompacted := c.registerFor(eventLogCompacted, ldr)
	defer c.unregister(logCompacted)
	c.takeSnapshot(ldr, 1, nil)
	c.ensure(logCompacted.waitForEvent(c.longTimeout))
	snapIndex := n0 + 50
	if info := c.info(ldr); info.SnapshotIndex != snapIndex || info.FirstLogIndex <= n0+1 {
		t.Fatalf("leader: snapshotIndex %d firstLogIndex %d, want snapshot at %d and log compacted beyond %d",
			info.SnapshotIndex, info.FirstLogIndex, snapIndex, n0)
	}
	if repl := c.info(ldr).Followers[4]; repl.MatchIndex != n0 {
		t.Fatalf("leader: matchIndex of M4 is %d, want %d", repl.MatchIndex, n0)
	}

	// 14 more updates: leader's log is now n0+64
	<-c.sendUpdates(ldr, 56, 69).Done()
	c.waitCatchup(flrs...)
	c.waitFSMLen(69, ldr, flrs[0], flrs[1])

	// the bytes of AppendEntries(prev=n0, entries n0+1..n0+64), as the leader's
	// replication writes them; taken from a voter that has the complete log
	var stream bytes.Buffer
	cut := 0
	_ = flrs[0].inspect(func(r *Raft) {
		prevTerm, err := r.storage.getEntryTerm(n0)
		if err != nil {
			panic(err)
		}
		req := &appendReq{
			req:            req{term: r.term, src: r.leader},
			prevLogIndex:   n0,
			prevLogTerm:    prevTerm,
			ldrCommitIndex: n0,
			numEntries:     64,
		}
		stream.WriteByte(byte(req.rpcType()))
		if err := req.encode(&stream); err != nil {
			panic(err)
		}
		for i := n0 + 1; i <= n0+64; i++ {
			b, err := r.log.Get(i)
			if err != nil {
				panic(err)
			}
			stream.Write(b)
			if i == n0+57 {
				cut = stream.Len() + len(b)/2 // in the middle of entry n0+58
			}
		}
	})

	// the connection breaks after M4 got 57 entries and a half
	conn, err := network.Host(id2Host(4)).DialTimeout("tcp", c.id2Addr(4), time.Second)
	if err != nil {
		t.Fatal(err)
	}
	bufw := bufio.NewWriter(conn)
	_, _ = bufw.Write(stream.Bytes()[:cut])
	if err := bufw.Flush(); err != nil {
		t.Fatal(err)
	}
	_ = conn.Close()
	if !waitForCondition(func() bool { return c.info(m4).LastLogIndex == n0+57 }, 10*time.Millisecond, c.longTimeout) {
		t.Fatalf("M4.lastLogIndex: got %d, want %d", c.info(m4).LastLogIndex, n0+57)
	}
	if info := c.info(m4); info.Committed != n0 || info.LastApplied != n0 || info.Term != c.info(ldr).Term {
		t.Fatalf("M4: %+v", info)
	}

	// M4 is back: leader sends it the snapshot
	c.connect()
	caughtUp := func() bool {
		return len(violation) > 0 || fsm(m4).len() == 69
	}
	if !waitForCondition(caughtUp, 10*time.Millisecond, 2*c.longTimeout) {
		t.Fatalf("M4 did not catch up: %+v", c.info(m4))
	}
	select {
	case v := <-violation:
		t.Fatal(v)
	default:
	}
	if got := c.info(m4).SnapshotIndex; got != snapIndex {
		t.Fatalf("M4.snapshotIndex: got %d, want %d", got, snapIndex)
	}

	// M4 keeps following
	<-c.sendUpdates(ldr, 70, 79).Done()
	c.waitFSMLen(79)
	c.ensureFSMSame(nil)
}
