package raft

import (
	"io/ioutil"
	"os"
	"testing"
)

// F14: SetIdentity's deferred unlock overwrites the error being returned.
func TestF14_SetIdentityReportsRefusal(t *testing.T) {
	dir, err := ioutil.TempDir("", "f14")
	if err != nil {
		t.Fatal(err)
	}
	defer os.RemoveAll(dir)
	if err := SetIdentity(dir, 1, 1); err != nil {
		t.Fatal(err)
	}
	err = SetIdentity(dir, 2, 2)
	if err != ErrIdentityAlreadySet {
		t.Fatalf("second SetIdentity with a different identity: got %v, want %v", err, ErrIdentityAlreadySet)
	}
	// the stored identity is unchanged
	val, err := openValue(dir, ".id")
	if err != nil {
		t.Fatal(err)
	}
	if val.v1 != 1 || val.v2 != 1 {
		t.Fatalf("identity changed to (%d,%d)", val.v1, val.v2)
	}
}
