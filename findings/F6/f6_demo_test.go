package raft

import (
	"sync"
	"testing"
)

// D6: snapshots.open does s.used[index]++ without holding usedMu, whereas
// snapshot.release/applyRetain lock it. open is called concurrently by
// replication goroutines and fsm goroutine.
//
// run with -race to see DATA RACE report; without -race it typically
// crashes with "fatal error: concurrent map writes".
func TestF6Demo_snapshotsOpenRace(t *testing.T) {
	snaps, err := openSnapshots(t.TempDir(), DefaultOptions())
	if err != nil {
		t.Fatal(err)
	}
	nodes := map[uint64]Node{1: {ID: 1, Addr: "M1:8888", Voter: true}}
	sink, err := snaps.new(10, 2, Config{Nodes: nodes, Index: 1, Term: 1})
	if err != nil {
		t.Fatal(err)
	}
	if _, err = sink.file.Write([]byte("snapshot-data")); err != nil {
		t.Fatal(err)
	}
	if _, err = sink.done(nil); err != nil {
		t.Fatal(err)
	}

	var wg sync.WaitGroup
	for g := 0; g < 8; g++ {
		wg.Add(1)
		go func() {
			defer wg.Done()
			for i := 0; i < 2000; i++ {
				snap, err := snaps.open()
				if err != nil {
					t.Error(err)
					return
				}
				snap.release()
			}
		}()
	}
	wg.Wait()

	snaps.usedMu.RLock()
	defer snaps.usedMu.RUnlock()
	if n := snaps.used[10]; n != 0 {
		t.Errorf("used[10]=%d after all snapshots released, want 0 (lost update)", n)
	}
}
