package raft

import (
	"bytes"
	"fmt"
	"testing"
	"time"

	"github.com/santhosh-tekuri/fnet"
)

// F21: the pipeline writer of replication.replicate may write an appendEntries
// request and then, because stopCh got closed meanwhile, drop its result instead
// of recording it in resultCh. drainResps then reads one response fewer than the
// number of requests written, and runLoop returns the connection, with an unread
// response still pending on it, to the connPool. Whoever uses that pooled
// connection next (requestVote, timeoutNow, the next replication) reads the stale
// appendEntries response as the answer to its own request.
//
// Schedule (honest peers, no storage/FSM errors, only a slow link):
//   - 3 voters L (leader), A, B. The link L<->B is slow (fnet bandwidth limit), so
//     L's pipeline writer for B is practically always in the middle of writing a
//     request while B lags behind.
//   - leadership is transferred from L to A (public TransferLeadership task).
//     A's voteReq with the higher term makes L step down: leader.release closes
//     repl.stopCh while the request to B is on the wire.
//   - replicate() closes the pipeline's stopCh and drains. The writer finishes its
//     write and then selects between <-stopCh and resultCh<-result: both are ready,
//     Go picks one at random. If it picks stopCh, the request has been written but
//     is not accounted for.
//   - runLoop's deferred returnConn puts the connection into L's pool for B.
//
// The test looks at L's pooled connection to B after L has stepped down. No request
// is outstanding on a pooled connection, so nothing may be readable from it.
// Because of the random select, each round hits the defect with probability ~1/2;
// leadership is therefore passed around for several rounds.
func TestF21_pipelineAbandonedRequest_connReused(t *testing.T) {
	c := newCluster(t)
	ldr, _ := c.ensureLaunch(3)
	defer c.shutdown()
	defer network.SetBandwidth("M1", "M2", fnet.NoLimit)
	defer network.SetBandwidth("M1", "M3", fnet.NoLimit)
	defer network.SetBandwidth("M2", "M3", fnet.NoLimit)
	c.waitCommitReady(ldr)

	const rounds = 10
	payload := bytes.Repeat([]byte("x"), 200)
	for round := 1; round <= rounds; round++ {
		flrs := c.exclude(ldr)
		target, slow := flrs[0], flrs[1]
		testln("round", round, "ldr:", host(ldr), "target:", host(target), "slow:", host(slow))

		// slow link between leader and one follower:
		// a request with 64 entries (~14KB) takes ~200ms to write
		network.SetBandwidth(host(ldr), host(slow), 64*1024)

		// build a backlog (~130KB) for the slow follower,
		// and wait until leader has appended all of it to its log
		want := c.info(ldr).LastLogIndex + 600
		for i := 0; i < 600; i++ {
			ldr.FSMTasks() <- UpdateFSM(payload)
		}
		if !waitForCondition(func() bool { return c.info(ldr).LastLogIndex >= want }, 5*time.Millisecond, c.longTimeout) {
			t.Fatalf("round %d: leader did not store the updates", round)
		}

		// transfer leadership to the other follower. leader steps down
		// on target's voteReq, while the request to slow follower is on the wire
		if _, err := waitTask(ldr, TransferLeadership(target.nid, c.longTimeout), c.longTimeout); err != nil {
			t.Fatalf("round %d: transferLeadership: %v", round, err)
		}
		c.waitForState(ldr, c.longTimeout, Follower)

		// old leader has stepped down, its replications have ended (leader.release
		// waits for them). look at the connection they left in the pool
		var leftover string
		_ = ldr.inspect(func(r *Raft) {
			pool := r.getConnPool(slow.nid)
			pool.mu.Lock()
			conns := append([]*conn(nil), pool.conns...)
			pool.mu.Unlock()
			for _, pc := range conns {
				// no request is outstanding on a pooled connection,
				// so nothing must be readable from it
				_ = pc.rwc.SetReadDeadline(time.Now().Add(300 * time.Millisecond))
				if _, err := pc.bufr.Peek(1); err == nil {
					resp := &appendResp{}
					if err := pc.readResp(resp, time.Now().Add(300*time.Millisecond)); err == nil {
						leftover = fmt.Sprintf("appendResp{term:%d result:%v lastLogIndex:%d}", resp.term, resp.result, resp.lastLogIndex)
					} else {
						leftover = fmt.Sprintf("undecodable bytes (%v)", err)
					}
				}
				_ = pc.rwc.SetReadDeadline(time.Time{})
			}
		})
		network.SetBandwidth(host(ldr), host(slow), fnet.NoLimit)
		if leftover != "" {
			t.Fatalf("round %d: connection %s->%s was returned to connPool with an unread response pending on it: %s; "+
				"one appendEntries request was written by the pipeline but its response never consumed, "+
				"the next user of this connection gets this stale response as answer to its request",
				round, host(ldr), host(slow), leftover)
		}

		// new leader takes over
		ldr = c.waitForLeader()
		if ldr != target {
			t.Fatalf("round %d: leader: got %s, want %s", round, host(ldr), host(target))
		}
		c.waitCommitReady(ldr)
	}
}
