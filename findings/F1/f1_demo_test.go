package raft

import "testing"

// D1: onVoteRequest answers `success` to the node it believes to be leader
// without recording the vote (term/votedFor unchanged), so the voter can
// later grant a second vote for the same term to another candidate.
func TestF1Demo_voteToKnownLeaderNotRecorded(t *testing.T) {
	c, ldr, flrs := launchCluster(t, 3)
	defer c.shutdown()

	flr := flrs[0]
	var (
		knownLeader       uint64
		reqTerm           uint64
		result            rpcResult
		gotTerm, gotVoted uint64
	)
	err := flr.inspect(func(r *Raft) {
		knownLeader = r.leader
		reqTerm = r.term + 1
		result, _ = r.onVoteRequest(&voteReq{
			req:          req{term: reqTerm, src: ldr.nid},
			lastLogIndex: r.lastLogIndex,
			lastLogTerm:  r.lastLogTerm,
		})
		gotTerm, gotVoted = r.term, r.votedFor
	})
	if err != nil {
		t.Fatal(err)
	}
	if knownLeader != ldr.nid {
		t.Fatalf("precondition: follower.leader=%d, want %d", knownLeader, ldr.nid)
	}
	if result == success && (gotTerm != reqTerm || gotVoted != ldr.nid) {
		t.Fatalf("vote granted for term %d to M%d but not recorded: term=%d votedFor=%d",
			reqTerm, ldr.nid, gotTerm, gotVoted)
	}
}
