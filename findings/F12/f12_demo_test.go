package raft

import (
	"testing"
	"time"
)

// D12: round.begin does not reset round.End, so a round that is
// restarted after it finished once, counts as finished at once.

// unit level: begin, finish, begin => the new round must not be finished.
func TestF12_round_restart(t *testing.T) {
	r := new(round)
	r.begin(10)
	if r.finished() {
		t.Fatal("round #1 must not be finished just after begin")
	}
	time.Sleep(2 * time.Millisecond)
	r.finish()
	if !r.finished() {
		t.Fatal("round #1 must be finished after finish")
	}
	if d := r.Duration(); d <= 0 {
		t.Fatalf("round #1 duration: got %v, want >0", d)
	}

	time.Sleep(2 * time.Millisecond)
	r.begin(20)
	if r.Ordinal != 2 || r.LastIndex != 20 {
		t.Fatalf("round #2: got %#v", *r)
	}
	if r.finished() {
		t.Errorf("round #2 is reported finished immediately after begin: %v", *r)
	}
	if r.finished() {
		// note: Duration is meaningful only for finished round
		if d := r.Duration(); d < 0 {
			t.Errorf("round #2 has negative duration %v (End is stale, from round #1)", d)
		}
	}

	// round #2 when really finished, has duration of round #2 alone
	start2 := r.Start
	time.Sleep(2 * time.Millisecond)
	r.finish()
	if !r.finished() {
		t.Fatal("round #2 must be finished after finish")
	}
	if d := r.Duration(); d <= 0 || d > time.Since(start2) {
		t.Errorf("round #2 duration: got %v, want in (0, %v]", d, time.Since(start2))
	}
}

// handler level: nonvoter M4 completes its first round slower than promoteThreshold
// while new entries arrived, so leader starts second round. M4 has not yet caught up
// with the second round, still leader promotes it.
func TestF12_promotedWithoutCompletingRestartedRound(t *testing.T) {
	c, ldr, _ := launchCluster(t, 3)
	defer c.shutdown()
	c.waitCommitReady(ldr)

	// add running nonvoter M4 with promote=false
	m4 := c.launch(1, false)[4]
	c.ensure(c.waitAddNonvoter(ldr, m4.nid, c.id2Addr(m4.nid), false))
	c.waitForCommitted(c.info(ldr).LastLogIndex)

	// the config in which user asks to promote M4
	var config Config
	// leader's book keeping for M4: we use our own copy, so that
	// actual replication of M4 does not interfere with this test
	status := &replicationStatus{id: m4.nid}

	// first round starts. M4 is one entry behind
	var round1Last uint64
	c.ensure(ldr.inspect(func(r *Raft) {
		if !r.ldr.canChangeConfig() {
			t.Error("leader must be able to change config now")
			return
		}
		config = r.configs.Latest.clone()
		n := config.Nodes[m4.nid]
		n.Action = Promote
		config.Nodes[m4.nid] = n
		status.node = n

		status.matchIndex = r.lastLogIndex - 1
		r.ldr.checkConfigAction(nil, config, status)
		if status.round == nil || status.round.Ordinal != 1 || status.round.finished() {
			t.Errorf("round #1 must be in progress: %v", status.round)
			return
		}
		round1Last = status.round.LastIndex
	}))
	if t.Failed() {
		return
	}

	// leader gets one more entry
	if _, err := waitUpdate(ldr, "hello", c.longTimeout); err != nil {
		t.Fatal(err)
	}

	c.ensure(ldr.inspect(func(r *Raft) {
		if r.lastLogIndex <= round1Last {
			t.Errorf("lastLogIndex: got %d, want >%d", r.lastLogIndex, round1Last)
			return
		}
		lastLogIndex, latestIndex := r.lastLogIndex, r.configs.Latest.Index

		// M4 completes round #1, but it took one hour, which is > promoteThreshold
		// and there are new entries, so leader must start round #2
		status.round.Start = time.Now().Add(-time.Hour)
		status.matchIndex = round1Last
		r.ldr.checkConfigAction(nil, config, status)
		if status.round.Ordinal != 2 || status.round.LastIndex != r.lastLogIndex {
			t.Errorf("round #2 must have been started: %v", status.round)
			return
		}
		if r.lastLogIndex != lastLogIndex {
			t.Errorf("nothing should be appended yet")
			return
		}

		// M4 acknowledges nothing new: matchIndex is still behind lastIndex of round #2
		if status.matchIndex >= status.round.LastIndex {
			t.Errorf("test bug: matchIndex %d, round #2 lastIndex %d", status.matchIndex, status.round.LastIndex)
			return
		}
		r.ldr.checkConfigAction(nil, config, status)
		if r.lastLogIndex != lastLogIndex || r.configs.Latest.Index != latestIndex {
			t.Errorf("M4 matchIndex=%d has not completed %v (duration %v), but leader appended config entry %d: M4 voter=%v",
				status.matchIndex, *status.round, status.round.Duration(), r.configs.Latest.Index, r.configs.Latest.isVoter(m4.nid))
		}
	}))
}
