package raft

import (
	"io/ioutil"
	"os"
	"testing"
	"time"
)

// F23: snapshots.open() registers itself as user of the latest snapshot
// only after it has read the meta file and opened the snap file, whereas
// snapshotSink.done() -> applyRetain() removes every unused snapshot
// beyond SnapshotsRetain. A snapshot published inbetween removes the
// files open() is about to look at, and open() fails with ENOENT though
// storage is healthy. In sendInstallSnapReq/onRestoreReq that error
// becomes an OpError, which shuts the node down.
//
// The test runs the two real halves concurrently, without any hook:
//   - publisher: what doTakeSnapshot does (snaps.new, write, sink.done(nil))
//   - opener:    what sendInstallSnapReq does (snaps.open, snap.release)
//
// The only synthetic part is that both are repeated in a tight loop, to
// hit the window in reasonable time.
func TestF23_openVsRetain(t *testing.T) {
	dir, err := ioutil.TempDir("", "f23")
	if err != nil {
		t.Fatal(err)
	}
	defer os.RemoveAll(dir)
	snaps, err := openSnapshots(dir, Options{SnapshotsRetain: 1})
	if err != nil {
		t.Fatal(err)
	}

	publish := func(index uint64) error {
		sink, err := snaps.new(index, 1, Config{})
		if err != nil {
			return err
		}
		_, err = sink.file.Write([]byte("state"))
		_, err = sink.done(err)
		return err
	}
	if err := publish(1); err != nil {
		t.Fatal(err)
	}

	const publishes = 12000
	stop, pubErr := make(chan struct{}), make(chan error, 1)
	go func() {
		defer close(pubErr)
		for index := uint64(2); index < publishes; index++ {
			select {
			case <-stop:
				return
			default:
			}
			if err := publish(index); err != nil {
				pubErr <- err
				return
			}
		}
	}()
	defer func() {
		close(stop)
		for range pubErr {
		}
	}()

	deadline := time.Now().Add(15 * time.Second)
	opens := 0
	for time.Now().Before(deadline) {
		select {
		case err, ok := <-pubErr:
			if ok {
				t.Fatalf("publish failed: %v", err)
			}
			t.Logf("%d opens survived %d publishes", opens, publishes)
			return
		default:
		}
		snap, err := snaps.open()
		if err != nil {
			// this is what replication.sendInstallSnapReq wraps into
			// opError(err, "snapshots.open") and runLoop panics with
			t.Fatalf("snapshots.open failed after %d opens, latest snapshot is %d: %v",
				opens, snaps.latestIndex(), err)
		}
		if snap.meta.index == 0 || snap.meta.size != int64(len("state")) {
			t.Fatalf("opened bogus snapshot: %+v", snap.meta)
		}
		snap.release()
		opens++
	}
}
