package log

import (
	"bytes"
	"fmt"
	"io/ioutil"
	"os"
	"testing"
)

// F17: a process kill inside createSegment, after os.OpenFile(O_CREATE) has
// made the file but before Truncate has given it its size, leaves a 0-byte
// "<lastIndex>.log". Log.Append commits the previous segment before rolling
// over, so that name is exactly the one openSegments accepts as the
// continuing segment; openSegment sees that the file exists, skips
// createSegment and mmaps 0 bytes, which fails: the log can no longer be
// opened although nothing that was committed is damaged.

// f17FillSegment appends entries until the next Append would roll over to
// a new segment, commits, and returns the number of entries appended.
func f17FillSegment(t *testing.T, l *Log) uint64 {
	t.Helper()
	for l.last.available() >= len(msg(l.LastIndex()+1)) {
		appendEntry(t, l)
	}
	if numSegments(l) != 1 {
		t.Fatalf("numSegments: got %d, want 1", numSegments(l))
	}
	// Append does this before calling openSegment for the new segment
	if err := l.Commit(); err != nil {
		t.Fatal(err)
	}
	return l.LastIndex()
}

// f17Open opens the log, turning a panic into an error.
func f17Open(dir string, opt Options) (l *Log, err error) {
	defer func() {
		if v := recover(); v != nil {
			l, err = nil, fmt.Errorf("panic: %v", v)
		}
	}()
	return Open(dir, 0700, opt)
}

// f17CheckReopened checks that all n committed entries are there and that the
// log can continue into the next segment.
func f17CheckReopened(t *testing.T, l *Log, n uint64) {
	t.Helper()
	assertUint64(t, "prevIndex", l.PrevIndex(), 0)
	assertUint64(t, "lastIndex", l.LastIndex(), n)
	for i := uint64(1); i <= n; i++ {
		b, err := l.Get(i)
		if err != nil {
			t.Fatalf("get(%d): %v", i, err)
		}
		if !bytes.Equal(b, msg(i)) {
			t.Fatalf("get(%d): got %q, want %q", i, b, msg(i))
		}
	}
	appendEntry(t, l)
	if err := l.Commit(); err != nil {
		t.Fatal(err)
	}
	assertInt(t, "numSegments", numSegments(l), 2)
	assertInt(t, "newSegment.available", l.last.available(), l.opt.SegmentSize-4*8-len(msg(n+1)))
	l = reopen(t, l)
	assertUint64(t, "lastIndex", l.LastIndex(), n+1)
	checkGet(t, l)
	if err := l.Close(); err != nil {
		t.Fatal(err)
	}
}

// crash in createSegment during rollover, between OpenFile and Truncate
func TestF17_CrashInCreateSegment_Rollover(t *testing.T) {
	l := newLog(t, 1024)
	n := f17FillSegment(t, l)
	dir, opt := l.dir, l.opt

	// Append(msg(n+1)): Commit done, openSegment -> createSegment:
	// os.OpenFile(name, O_RDWR|O_CREATE) completed, then the process is killed
	name := segmentFile(dir, n)
	f, err := os.OpenFile(name, os.O_RDWR|os.O_CREATE, opt.FileMode)
	if err != nil {
		t.Fatal(err)
	}
	_ = f.Close()
	_ = l.Close() // process gone

	l, err = f17Open(dir, opt)
	if err != nil {
		t.Fatalf("F17: Open after crash in createSegment (0-byte %s left behind): %v", name, err)
	}
	f17CheckReopened(t, l, n)
}

// crash in createSegment of the very first segment (first Open of the log)
func TestF17_CrashInCreateSegment_FirstOpen(t *testing.T) {
	dir, err := ioutil.TempDir(tempDir, "log")
	if err != nil {
		t.Fatal(err)
	}
	opt := Options{0600, 1024}
	name := segmentFile(dir, 0)
	if err := ioutil.WriteFile(name, nil, opt.FileMode); err != nil {
		t.Fatal(err)
	}

	l, err := f17Open(dir, opt)
	if err != nil {
		t.Fatalf("F17: Open after crash in createSegment (0-byte %s left behind): %v", name, err)
	}
	assertUint64(t, "lastIndex", l.LastIndex(), 0)
	assertInt(t, "available", l.last.available(), 1024-3*8)
	appendEntry(t, l)
	l = reopen(t, l)
	assertUint64(t, "lastIndex", l.LastIndex(), 1)
	checkGet(t, l)
	_ = l.Close()
}

// defensive variant: the file got some bytes but less than the 16-byte header
// that openSegment reads (not producible by a process kill, since ftruncate
// sets the size in one step, but covered by the same fix)
func TestF17_CrashInCreateSegment_ShortHeader(t *testing.T) {
	l := newLog(t, 1024)
	n := f17FillSegment(t, l)
	dir, opt := l.dir, l.opt
	name := segmentFile(dir, n)
	if err := ioutil.WriteFile(name, make([]byte, 7), opt.FileMode); err != nil {
		t.Fatal(err)
	}
	_ = l.Close()

	l, err := f17Open(dir, opt)
	if err != nil {
		t.Fatalf("F17: Open with %s shorter than its header: %v", name, err)
	}
	f17CheckReopened(t, l, n)
}

// control: crash after Truncate but before the header write / Sync. The file
// has its full size and is all zeros, which is a valid empty segment; this
// passes with and without the fix.
func TestF17_Control_CrashAfterTruncate(t *testing.T) {
	l := newLog(t, 1024)
	n := f17FillSegment(t, l)
	dir, opt := l.dir, l.opt
	name := segmentFile(dir, n)
	f, err := os.OpenFile(name, os.O_RDWR|os.O_CREATE, opt.FileMode)
	if err != nil {
		t.Fatal(err)
	}
	if err := f.Truncate(int64(opt.SegmentSize)); err != nil {
		t.Fatal(err)
	}
	_ = f.Close()
	_ = l.Close()

	l, err = f17Open(dir, opt)
	if err != nil {
		t.Fatalf("Open with zero-filled full-size %s: %v", name, err)
	}
	f17CheckReopened(t, l, n)
}
