package raft

import (
	"io"
	"os"
	"testing"
	"time"
)

// f16State delays Persist until gate is closed: a snapshot whose
// persistence takes a while (large FSM, slow disk).
type f16State struct {
	FSMState
	started chan struct{}
	gate    chan struct{}
}

func (s f16State) Persist(w io.Writer) error {
	close(s.started)
	<-s.gate
	return s.FSMState.Persist(w)
}

// f16FSM is installed for exactly one Snapshot() call. Snapshot runs on
// the fsm goroutine, which is the only reader of stateMachine.FSM, so it
// puts the original fsmMock back (test helpers expect *fsmMock).
type f16FSM struct {
	*fsmMock
	sm      *stateMachine
	started chan struct{}
	gate    chan struct{}
}

func (f *f16FSM) Snapshot() (FSMState, error) {
	f.sm.FSM = f.fsmMock
	st, err := f.fsmMock.Snapshot()
	if err != nil {
		return nil, err
	}
	return f16State{st, f.started, f.gate}, nil
}

// A node is persisting a local snapshot at index N (TakeSnapshot) when the
// leader sends it InstallSnapshot for index M > N. After both finished, the
// latest snapshot of the node must still be M and must be readable.
func TestF16_localSnapshotMustNotReplaceNewerInstalledSnapshot(t *testing.T) {
	c := newCluster(t)
	c.opt.LogSegmentSize = 1024
	ldr, _ := c.ensureLaunch(3)
	defer c.shutdown()

	// M4 is a nonvoter: it never starts elections while partitioned,
	// so the leader stays the same for the whole test
	m4 := c.launch(1, false)[4]
	c.waitCommitReady(ldr)
	c.ensure(c.waitAddNonvoter(ldr, m4.NID(), c.id2Addr(m4.NID()), false))

	<-c.sendUpdates(ldr, 1, 30).Done()
	c.waitFSMLen(30)

	// partition m4
	c.disconnect(m4)

	// leader moves on, takes snapshot and compacts its log beyond m4's log
	<-c.sendUpdates(ldr, 31, 90).Done()
	c.waitFSMLen(90, c.exclude(m4)...)
	_ = c.waitUnreachableDetected(ldr, m4)
	c.takeSnapshot(ldr, 1, nil)
	m4Last := c.info(m4).LastLogIndex
	if !waitForCondition(func() bool {
		return c.info(ldr).FirstLogIndex > m4Last+1
	}, 10*time.Millisecond, c.longTimeout) {
		t.Fatalf("setup: leader did not compact its log beyond m4: firstLogIndex=%d m4.lastLogIndex=%d",
			c.info(ldr).FirstLogIndex, m4Last)
	}
	ldrSnap := c.info(ldr).SnapshotIndex

	// m4 starts a local snapshot, its Persist is slow
	started, gate := make(chan struct{}), make(chan struct{})
	_ = m4.inspect(func(r *Raft) {
		r.fsm.FSM = &f16FSM{fsmMock: r.fsm.FSM.(*fsmMock), sm: r.fsm, started: started, gate: gate}
	})
	takeSnap := TakeSnapshot(0)
	m4.Tasks() <- takeSnap
	select {
	case <-started:
	case <-time.After(c.longTimeout):
		close(gate)
		t.Fatal("setup: local snapshot of m4 did not start")
	}

	// partition heals: leader sends InstallSnapshot(ldrSnap) to m4
	c.connect()
	installed := waitForCondition(func() bool {
		return c.info(m4).SnapshotIndex == ldrSnap
	}, 10*time.Millisecond, c.longTimeout)

	// now the local snapshot completes
	close(gate)
	if !installed {
		t.Fatalf("setup: m4 did not install leader's snapshot %d", ldrSnap)
	}
	<-takeSnap.Done()
	t.Logf("local takeSnapshot: result=%v err=%v", takeSnap.Result(), takeSnap.Err())

	info := c.info(m4)
	t.Logf("m4: snapshotIndex=%d firstLogIndex=%d lastLogIndex=%d snapFiles=%v",
		info.SnapshotIndex, info.FirstLogIndex, info.LastLogIndex, c.snaps(m4))
	if info.SnapshotIndex != ldrSnap {
		t.Errorf("m4.snapshotIndex moved backwards: got %d, want %d (firstLogIndex=%d)",
			info.SnapshotIndex, ldrSnap, info.FirstLogIndex)
	}
	if _, err := os.Stat(metaFile(m4.snaps.dir, info.SnapshotIndex)); err != nil {
		t.Errorf("m4: files of latest snapshot %d are missing: %v", info.SnapshotIndex, err)
	}
	var openErr error
	_ = m4.inspect(func(r *Raft) {
		snap, err := r.snaps.open()
		if err == nil {
			snap.release()
		}
		openErr = err
	})
	if openErr != nil {
		t.Errorf("m4: snapshots.open failed: %v", openErr)
	}

	// m4 keeps following
	c.sendUpdates(ldr, 91, 100)
	c.waitFSMLen(100)
	c.ensureFSMSame(nil)
}
