package raft

import (
	"testing"
	"time"
)

// demonstration for finding F7 (run with -race): snapshotSink.done publishes
// snaps.index/term under snaps.mu from the snapshot goroutine while the raft
// goroutine reads r.snaps.index without the lock (append handler, info, ...).
func TestDemo_F7_snapIndexRace(t *testing.T) {
	c, ldr, flrs := launchCluster(t, 3)
	defer c.shutdown()
	stop := make(chan struct{})
	done := make(chan struct{})
	go func() {
		defer close(done)
		for i := 1; ; i++ {
			select {
			case <-stop:
				return
			default:
			}
			c.sendUpdates(ldr, i, i)
			time.Sleep(time.Millisecond)
		}
	}()
	flr := flrs[0]
	for i := 0; i < 20; i++ {
		ts := TakeSnapshot(0)
		flr.Tasks() <- ts
		<-ts.Done()
		_ = c.info(flr)
		time.Sleep(5 * time.Millisecond)
	}
	close(stop)
	<-done
}
