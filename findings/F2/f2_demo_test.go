package raft

import (
	"testing"
	"time"
)

// D2: leader.changeConfig computes numVoters from the OLD configuration,
// so after promoting a 2nd voter the leader still thinks it is the only
// voter and commits entries on its own.
func TestF2Demo_numVotersStaleAfterPromote(t *testing.T) {
	c, ldr, _ := launchCluster(t, 1)
	defer c.shutdown()
	c.waitCommitReady(ldr)

	// launch M2 and add it as nonvoter with promote=true
	nr := c.launch(1, false)[2]
	c.ensure(c.waitAddNonvoter(ldr, 2, c.id2Addr(2), true))
	twoVoters := func() bool {
		cfgs := c.info(ldr).Configs
		return cfgs.IsCommitted() && cfgs.Latest.numVoters() == 2
	}
	if !waitForCondition(twoVoters, 10*time.Millisecond, c.longTimeout) {
		t.Fatal("M2 was not promoted to voter")
	}
	c.waitForStableConfig(ldr)

	var cached, actual int
	_ = ldr.inspect(func(r *Raft) {
		cached, actual = r.ldr.numVoters, r.configs.Latest.numVoters()
	})
	// with M2 down, majority (2 of 2) is unavailable: update must not commit
	c.shutdown(nr)
	_, err := waitUpdate(ldr, "lonely", time.Second)

	if cached != actual {
		t.Errorf("leader.numVoters=%d but latest config has %d voters", cached, actual)
	}
	if err == nil {
		t.Errorf("update committed by leader alone although 2 voters are configured")
	}
}
