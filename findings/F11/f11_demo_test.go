package raft

import (
	"sync/atomic"
	"testing"
	"time"

	"github.com/santhosh-tekuri/fnet"
)

// D11: user's ChangeConfig is refused with ErrNotCommitReady until leader has
// committed an entry from its own term (leader.onChangeConfig), but config actions
// started by leader itself (checkConfigActions/checkConfigAction -> canChangeConfig)
// are not gated on that.

// public path: committed config has pending Promote for nonvoter M4, which was never
// running. New leader gets elected and at that instant it is partitioned, along with M4,
// from other voters. So it can never commit its no-op entry. Now M4 comes up, catches up with
// new leader. Leader must not append config entry promoting M4, because it has not
// yet committed any entry from its term.
func TestF11_promoteBeforeOwnTermCommit(t *testing.T) {
	// the instant a node becomes leader(when armed), partition it along with M4 from others
	var armed int32
	var cid uint64
	stateChanged := tracer.stateChanged
	tracer.stateChanged = func(r *Raft) {
		if r.state == Leader && r.cid == atomic.LoadUint64(&cid) && atomic.CompareAndSwapInt32(&armed, 1, 2) {
			testln("partition:", host(r), "M4 | others")
			network.SetFirewall(fnet.Split([]string{host(r), "M4"}, fnet.AllowAll))
		}
		stateChanged(r)
	}
	defer func() { tracer.stateChanged = stateChanged }()

	c := newCluster(t)
	atomic.StoreUint64(&cid, c.id)
	c.quorumWait = 30 * time.Second // isolated leader should not step down during this test
	ldr, flrs := c.ensureLaunch(3)
	defer c.shutdown()
	defer c.connect()
	c.waitCommitReady(ldr)

	// add M4 as nonvoter with promote=true. M4 is not running,
	// so Promote action stays pending in committed config
	c.ensure(c.waitAddNonvoter(ldr, 4, c.id2Addr(4), true))
	c.waitForCommitted(c.info(ldr).LastLogIndex)
	for _, r := range c.rr {
		configs := c.info(r).Configs
		if !configs.IsCommitted() || configs.Committed.Nodes[4].Action != Promote {
			t.Fatalf("M%d: committed config must have pending promote for M4: %v", r.nid, configs)
		}
	}

	// leader goes down, one of the followers becomes
	// leader and gets partitioned immediately
	atomic.StoreInt32(&armed, 1)
	c.shutdown(ldr)
	newLdr := c.waitForLeader(flrs...)
	if atomic.LoadInt32(&armed) != 2 {
		t.Fatal("test bug: partition not done")
	}

	roundCompleted := c.registerFor(eventRoundFinished, newLdr)
	defer c.unregister(roundCompleted)
	actionStarted := c.registerFor(eventConfigActionStarted, newLdr)
	defer c.unregister(actionStarted)

	// now M4 comes up and catches up with new leader
	m4 := c.launch(1, false)[4]
	if e, err := roundCompleted.waitForEvent(c.longTimeout); err != nil {
		t.Fatalf("M4 did not complete round: %v", err)
	} else if e.target != m4.nid {
		t.Fatalf("roundCompleted: got M%d, want M4", e.target)
	}

	// give leader a chance to do something wrong
	e, err := actionStarted.waitForEvent(2 * time.Second)
	started := err == nil

	c.ensure(newLdr.inspect(func(r *Raft) {
		if r.state != Leader {
			t.Errorf("test bug: M%d is no longer leader", r.nid)
			return
		}
		if r.commitIndex >= r.ldr.startIndex {
			t.Errorf("test bug: M%d has committed entry from its term", r.nid)
			return
		}
		t.Logf("leader M%d: term=%d startIndex=%d commitIndex=%d lastLogIndex=%d configs=%v",
			r.nid, r.term, r.ldr.startIndex, r.commitIndex, r.lastLogIndex, r.configs)
		if !r.configs.IsCommitted() {
			t.Errorf("leader M%d of term %d appended config entry %d, though it has not committed any entry from its term: commitIndex=%d, startIndex=%d",
				r.nid, r.term, r.configs.Latest.Index, r.commitIndex, r.ldr.startIndex)
		}
		if r.configs.Latest.isVoter(m4.nid) {
			t.Errorf("leader M%d of term %d promoted M4 before it is commit ready", r.nid, r.term)
		}
	}))
	if started {
		t.Errorf("leader M%d started config action %v on M%d before it is commit ready", e.src, e.action, e.target)
	}
	if t.Failed() {
		return
	}

	// the action is only postponed: once network heals, some leader
	// becomes commit ready and promotes M4
	c.connect()
	promoted := func() bool {
		for _, r := range []*Raft{flrs[0], flrs[1], m4} {
			info := c.info(r)
			if info.State == Leader && info.Configs.IsCommitted() && info.Configs.Committed.isVoter(m4.nid) {
				return true
			}
		}
		return false
	}
	if !waitForCondition(promoted, 50*time.Millisecond, 15*time.Second) {
		t.Fatal("M4 is not promoted, after network is healed")
	}
}

// handler level: a follower has committed config with pending Demote for another voter
// (we plant it in its memory). It becomes leader. It must start the Demote, but only after
// it has committed an entry from its term.
func TestF11_pendingDemote_deferredUntilCommitReady(t *testing.T) {
	type started struct{ term, commitIndex, startIndex, lastLogIndex uint64 }
	var cid, src, target uint64
	startedCh := make(chan started, 10)
	configActionStarted := tracer.configActionStarted
	tracer.configActionStarted = func(r *Raft, id uint64, action Action) {
		if r.cid == atomic.LoadUint64(&cid) && r.nid == atomic.LoadUint64(&src) && id == atomic.LoadUint64(&target) {
			startedCh <- started{r.term, r.commitIndex, r.ldr.startIndex, r.lastLogIndex}
		}
		configActionStarted(r, id, action)
	}
	defer func() { tracer.configActionStarted = configActionStarted }()

	c, ldr, flrs := launchCluster(t, 3)
	defer c.shutdown()
	atomic.StoreUint64(&cid, c.id)
	c.waitCommitReady(ldr)
	c.sendUpdates(ldr, 1, 5)
	c.waitBarrier(ldr, c.longTimeout)
	c.waitForCommitted(c.info(ldr).LastLogIndex)

	a, b := flrs[0], flrs[1]
	atomic.StoreUint64(&src, a.nid)
	atomic.StoreUint64(&target, b.nid)

	// committed config of A has pending demote for B
	c.ensure(a.inspect(func(r *Raft) {
		if !r.configs.IsCommitted() {
			t.Error("test bug: config must be committed")
			return
		}
		config := r.configs.Latest.clone()
		n := config.Nodes[b.nid]
		n.Action = Demote
		config.Nodes[b.nid] = n
		r.configs.Latest, r.configs.Committed = config, config
	}))
	if t.Failed() {
		return
	}

	// A becomes leader
	if _, err := waitTask(ldr, TransferLeadership(a.nid, c.longTimeout), c.longTimeout); err != nil {
		t.Fatal(err)
	}

	select {
	case s := <-startedCh:
		t.Logf("M%d started demote of M%d: term=%d startIndex=%d commitIndex=%d lastLogIndex=%d",
			a.nid, b.nid, s.term, s.startIndex, s.commitIndex, s.lastLogIndex)
		if s.commitIndex < s.startIndex {
			t.Fatalf("leader M%d of term %d started demote of M%d, though it has not committed any entry from its term: commitIndex=%d, startIndex=%d",
				a.nid, s.term, b.nid, s.commitIndex, s.startIndex)
		}
	case <-time.After(c.longTimeout):
		t.Fatalf("leader M%d never started the pending demote of M%d", a.nid, b.nid)
	}

	// and demote gets completed
	c.waitForStableConfig(a)
	configs := c.info(a).Configs
	if !configs.IsCommitted() || configs.Committed.isVoter(b.nid) || configs.Committed.numVoters() != 2 {
		t.Fatalf("M%d must have been demoted: %v", b.nid, configs)
	}
}
