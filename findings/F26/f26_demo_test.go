package raft

import (
	"bytes"
	"os"
	"os/exec"
	"strings"
	"sync/atomic"
	"testing"
	"time"
)

// F26: a leader that steps down inside onInstallSnapRequest clears/compacts its
// log (closing, unmapping and deleting the segments) while its own replication
// goroutines are still running: leader.release(), which stops them, runs only
// after the handler has returned. A replication that reads the log through the
// view it holds in that interval touches unmapped memory: the process dies
// with "unexpected fault address".
//
// The scenario runs in a child process, so that the fault fails this test
// instead of killing the test binary.
//
// honest parts (all traffic is produced by the nodes themselves):
//   - 5 voters, split 2|3. old leader L keeps leading its follower N in term 1
//   - the majority side elects A (term 2), commits updates, takes a snapshot and
//     compacts its log beyond the index at which its replication to L starts
//   - the link A<->L (only) comes back: the first request A's replication sends
//     to L is InstallSnapshot, L handles it as Leader
//
// synthetic parts:
//   - quorumWait is raised (internal option, as TestLeader_quorumWait_reachable
//     does) so that L does not resign on its own while partitioned
//   - A's main loop is kept busy for 1.2s while the link comes back, so that L
//     learns the new term from A's request and not from a response to its own
//     replication (both orders are legal, this pins one)
//   - L is given a slow Options.Logger: the handler logs the configuration of the snapshot
//     after it has cleared the log and before it returns; the 1.5s spent there
//     stand for the handler tail and widen the window enough for the
//     heartbeat (every hbTimeout/2) of L's replication to N to fall into it

var f26SlowLog int32

type f26Logger struct{}

func (f26Logger) Info(v ...interface{}) {
	if atomic.LoadInt32(&f26SlowLog) == 1 && len(v) > 0 && (v[0] == "changed to" || v[0] == "bootstrapped with") {
		time.Sleep(1500 * time.Millisecond)
	}
}

func (f26Logger) Warn(v ...interface{}) {}

// hosts can talk if they are in same group
type f26Firewall [][]string

func (f f26Firewall) Allow(h1, h2 string) bool {
	if h1 == h2 {
		return true
	}
	for _, g := range f {
		if contains(g, h1) && contains(g, h2) {
			return true
		}
	}
	return false
}

func contains(ss []string, s string) bool {
	for _, e := range ss {
		if e == s {
			return true
		}
	}
	return false
}

func TestF26_demo(t *testing.T) {
	if os.Getenv("F26_CHILD") == "1" {
		f26Scenario(t)
		return
	}

	cmd := exec.Command(os.Args[0], "-test.run=^TestF26_demo$", "-test.timeout=60s")
	cmd.Env = append(os.Environ(), "F26_CHILD=1")
	out, err := cmd.CombinedOutput()
	if err == nil {
		return
	}

	fault := bytes.Contains(out, []byte("unexpected fault address")) || bytes.Contains(out, []byte("SIGSEGV"))
	var keep []string
	lines := strings.Split(string(out), "\n")
	for i, line := range lines {
		if strings.Contains(line, "unexpected fault address") || strings.Contains(line, "SIGSEGV") || strings.HasPrefix(line, "fatal error:") {
			keep = append(keep, line)
		}
		if strings.HasPrefix(line, "goroutine ") && strings.Contains(line, "gp=") && strings.Contains(line, "[running]") {
			for j := i; j < len(lines) && j < i+24; j++ {
				keep = append(keep, lines[j])
			}
		}
	}
	if fault {
		t.Fatalf("node crashed: stepped-down leader removed log segments under its running replications (%v)\n%s", err, strings.Join(keep, "\n"))
	}
	tail := lines
	if len(tail) > 60 {
		tail = tail[len(tail)-60:]
	}
	t.Fatalf("scenario failed without a fault (%v)\n%s", err, strings.Join(tail, "\n"))
}

func f26Scenario(t *testing.T) {
	c := newCluster(t)
	c.quorumWait = 30 * time.Minute
	c.opt.LogSegmentSize = 1024
	c.opt.Logger = f26Logger{}
	ldr, flrs := c.ensureLaunch(5)
	defer c.shutdown()

	// some committed entries: log of every node spans many segments
	updates := uint64(60)
	<-c.sendUpdates(ldr, 1, 60).Done()
	c.waitFSMLen(updates)

	// split: {ldr, n} | {rest}
	n, rest := flrs[0], flrs[1:]
	minority := []string{host(ldr), host(n)}
	majority := []string{host(rest[0]), host(rest[1]), host(rest[2])}
	testln("split:", minority, majority)
	network.SetFirewall(f26Firewall{minority, majority})

	// majority elects new leader; old leader stays leader of n
	newLdr := c.waitForLeader(rest...)
	if c.getState(ldr) != Leader {
		t.Fatalf("old leader M%d resigned", ldr.NID())
	}

	// old leader goes on accepting updates, they reach only n
	c.sendUpdates(ldr, 1001, 1020)

	// new leader commits updates, takes snapshot and compacts its log
	logCompacted := c.registerFor(eventLogCompacted, newLdr)
	defer c.unregister(logCompacted)
	updates += 100
	<-c.sendUpdates(newLdr, 61, 160).Done()
	c.waitFSMLen(updates, rest...)
	c.takeSnapshot(newLdr, 1, nil)
	c.ensure(logCompacted.waitForEvent(c.longTimeout))

	oldInfo := c.info(ldr)
	if oldInfo.State != Leader || oldInfo.Term >= c.info(newLdr).Term {
		t.Fatalf("old leader M%d: state %v term %d", ldr.NID(), oldInfo.State, oldInfo.Term)
	}

	// link between old and new leader comes back, while new leader's
	// main loop is busy (it does not answer old leader's replication)
	atomic.StoreInt32(&f26SlowLog, 1)
	go func() {
		_ = newLdr.inspect(func(r *Raft) {
			time.Sleep(1200 * time.Millisecond)
		})
	}()
	time.Sleep(50 * time.Millisecond)
	testln("heal:", host(ldr), host(newLdr))
	network.SetFirewall(f26Firewall{minority, majority, {host(ldr), host(newLdr)}})

	// old leader installs the snapshot and follows new leader
	c.waitForState(ldr, c.longTimeout, Follower)
	time.Sleep(2 * time.Second) // let the handler return
	atomic.StoreInt32(&f26SlowLog, 0)

	// everything comes back
	c.connect()
	c.waitForHealthy()
	c.waitFSMLen(updates)
	c.ensureFSMSame(nil)
}
