package raft

import "testing"

// D9: value file name is written with %d of uint64, but openValue parses
// it with strconv.ParseInt(.., 10, 64): values >= 2^63 can be written
// but never read back.
func TestF9Demo_valueRoundTripUint64(t *testing.T) {
	dir := t.TempDir()
	cid, nid := uint64(1)<<63, uint64(7)
	if err := SetIdentity(dir, cid, nid); err != nil {
		t.Fatalf("SetIdentity: %v", err)
	}
	val, err := openValue(dir, ".id")
	if err != nil {
		t.Fatalf("openValue after SetIdentity(%d, %d): %v", cid, nid, err)
	}
	if v1, v2 := val.get(); v1 != cid || v2 != nid {
		t.Fatalf("identity: got (%d, %d), want (%d, %d)", v1, v2, cid, nid)
	}
}
