package raft

import "testing"

// demonstration for finding F3: after a multi-segment compaction with all
// followers caught up, the leader's removeLTE stays below log.PrevIndex();
// the next notifyFlr hands a nil log view to the replication goroutines.
func TestDemo_F3_compactThenNotify(t *testing.T) {
	c := newCluster(t)
	c.opt.LogSegmentSize = 1024
	ldr, flrs := c.ensureLaunch(3)
	defer c.shutdown()

	c.sendUpdates(ldr, 1, 100)
	c.waitBarrier(ldr, 0)
	c.waitFSMLen(100, flrs...)
	c.waitCatchup()

	logCompacted := c.registerFor(eventLogCompacted, ldr)
	defer c.unregister(logCompacted)
	c.takeSnapshot(ldr, 10, nil)
	c.ensure(logCompacted.waitForEvent(c.longTimeout))

	c.sendUpdates(ldr, 101, 103)
	c.waitFSMLen(103, ldr)
	c.waitFSMLen(103, flrs...)
}
