package raft

// Demonstration for known finding K1 (C10.11): the storage lock outlives the
// process that took it. A child process takes the lock exactly as Serve and
// SetIdentity do (lockDir) and is killed with SIGKILL; the parent then does
// what a restarted node does first on that directory.
//
//	cp k1_demo_test.go /repo && cd /repo && go test -vet=off -count=1 -run TestK1 .

import (
	"bufio"
	"io/ioutil"
	"os"
	"os/exec"
	"strings"
	"testing"
)

func TestK1_lockSurvivesProcessDeath(t *testing.T) {
	if dir := os.Getenv("K1_CHILD_DIR"); dir != "" {
		if err := lockDir(dir); err != nil {
			println("ERR", err.Error())
			os.Exit(3)
		}
		os.Stdout.WriteString("LOCKED\n")
		select {} // serve until killed
	}
	dir, err := ioutil.TempDir("", "k1")
	if err != nil {
		t.Fatal(err)
	}
	defer os.RemoveAll(dir)
	cmd := exec.Command(os.Args[0], "-test.run=TestK1_lockSurvivesProcessDeath")
	cmd.Env = append(os.Environ(), "K1_CHILD_DIR="+dir)
	out, err := cmd.StdoutPipe()
	if err != nil {
		t.Fatal(err)
	}
	if err := cmd.Start(); err != nil {
		t.Fatal(err)
	}
	line, _ := bufio.NewReader(out).ReadString('\n')
	if strings.TrimSpace(line) != "LOCKED" {
		t.Fatalf("child did not take the lock: %q", line)
	}
	_ = cmd.Process.Kill() // the node process dies
	_ = cmd.Wait()

	// restart on the same storage directory: Serve starts with lockDir
	if err := lockDir(dir); err != nil {
		t.Fatalf("restart after the process died: %v", err)
	}
	_ = unlockDir(dir)
}
