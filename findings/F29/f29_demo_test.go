package raft

// Demonstration for F29: a process that dies inside Log.Reset.
//
// onInstallSnapRequest publishes a received snapshot (sink.done) and then
// discards a conflicting log with clearLog -> Log.Reset, which closes and
// deletes the segment files one by one, first to last, before it creates the
// new one. A process killed after the first deletions leaves a suffix of the
// old log: segments that start beyond the snapshot index. openStorage kept it
// (it ends after the snapshot, and does not contain the snapshot index), so
// the node came up with a log that is not contiguous with its snapshot.
//
//	cp f29_demo_test.go /repo && cd /repo && go test -vet=off -count=1 -run TestF29 .

import (
	"io/ioutil"
	"os"
	"path/filepath"
	"sort"
	"strconv"
	"strings"
	"testing"
)

func TestF29_crashInsideLogReset(t *testing.T) {
	dir, err := ioutil.TempDir("", "f29")
	if err != nil {
		t.Fatal(err)
	}
	defer os.RemoveAll(dir)
	if err := SetIdentity(dir, 1, 1); err != nil {
		t.Fatal(err)
	}
	opt := DefaultOptions()
	opt.LogSegmentSize = 1024

	s, err := openStorage(dir, opt)
	if err != nil {
		t.Fatal(err)
	}
	// entries 1..200 of term 1: leftovers of a deposed leader, several segments
	for i := uint64(1); i <= 200; i++ {
		s.appendEntry(&entry{index: i, term: 1, typ: entryUpdate, data: []byte("stale")})
	}
	s.commitLog(200)

	// the new leader installs its snapshot (index 30, term 2): the handler
	// stores it, finds another term at index 30 in the log and discards the log
	const S = 30
	sink, err := s.snaps.new(S, 2, Config{Nodes: map[uint64]Node{1: {ID: 1, Addr: "M1:8888", Voter: true}}, Index: 1, Term: 1})
	if err != nil {
		t.Fatal(err)
	}
	if _, err := sink.done(nil); err != nil {
		t.Fatal(err)
	}
	if term, err := s.getEntryTerm(S); err != nil || term == 2 {
		t.Fatalf("test bug: log must conflict with the snapshot at %d: term=%d err=%v", S, term, err)
	}
	if err := s.log.Close(); err != nil {
		t.Fatal(err)
	}

	// clearLog -> Log.Reset(30) removes the segment files first to last;
	// the process is killed when those starting at or before S are gone
	files, _ := filepath.Glob(filepath.Join(dir, "log", "*.log"))
	var prevs []int
	for _, f := range files {
		n, _ := strconv.Atoi(strings.TrimSuffix(filepath.Base(f), ".log"))
		prevs = append(prevs, n)
	}
	sort.Ints(prevs)
	removed := 0
	for _, p := range prevs {
		if p <= S || removed < 2 {
			if err := os.Remove(filepath.Join(dir, "log", strconv.Itoa(p)+".log")); err != nil {
				t.Fatal(err)
			}
			removed++
		}
	}
	if removed == len(prevs) {
		t.Fatal("test bug: every segment removed")
	}

	// restart
	s2, err := openStorage(dir, opt)
	if err != nil {
		t.Fatalf("restart failed: %v", err)
	}
	defer s2.log.Close()
	t.Logf("after restart: snapshot %d, log (%d, %d], lastLogIndex=%d lastLogTerm=%d", s2.snaps.index, s2.log.PrevIndex(), s2.log.LastIndex(), s2.lastLogIndex, s2.lastLogTerm)
	if s2.log.PrevIndex() > s2.snaps.index {
		t.Fatalf("log starts after index %d but the latest snapshot ends at %d: entries %d..%d are nowhere, the log is not contiguous with the snapshot",
			s2.log.PrevIndex(), s2.snaps.index, s2.snaps.index+1, s2.log.PrevIndex())
	}
}
