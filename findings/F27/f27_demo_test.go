package raft

import (
	"fmt"
	"io"
	"os"
	"reflect"
	"testing"
	"time"
)

// F27: a follower dies inside onInstallSnapRequest after the snapshot is
// published (sink.done) and before the conflicting log is discarded (clearLog).
// openStorage keeps the conflicting log because it still reaches the snapshot
// index, so entries <= snapshot index that were never committed survive, and
// are served to a new follower once this node becomes leader.
//
// synthetic parts:
//   - quorumWait=10s keeps the old leader, partitioned together with one
//     follower, in Leader state, so that it replicates client updates to that
//     follower that never get committed (honest, just a setting)
//   - the crash itself: that follower is shut down while partitioned, and the
//     on-disk state "install handler ran up to sink.done" is produced by running
//     the very same steps of the handler on its storage directory
//     (setTerm, snaps.new, copy of the leader's snapshot bytes, sink.done),
//     without the clearLog that follows them
func TestF27_installSnapCrashBeforeClearLog(t *testing.T) {
	c := newCluster(t)
	c.quorumWait = 10 * time.Second
	oldLdr, flrs := c.ensureLaunch(5)
	defer c.shutdown()
	m1, rest := flrs[0], flrs[1:] // m1: the follower that is going to crash

	// 5 committed updates everywhere
	c.sendUpdates(oldLdr, 1, 5)
	c.waitFSMLen(5)
	base := c.info(oldLdr).LastLogIndex

	// partition {leader, m1} from the other three; the leader stays leader
	// (quorumWait) and replicates 10 updates to m1, that can never be committed
	c.disconnect(oldLdr, m1)
	for i := 1; i <= 10; i++ {
		oldLdr.FSMTasks() <- UpdateFSM([]byte(fmt.Sprintf("stale:%d", i)))
	}
	if !waitForCondition(func() bool {
		return c.info(m1).LastLogIndex == base+10
	}, 5*time.Millisecond, c.longTimeout) {
		t.Fatal("follower did not receive the stale entries")
	}
	staleTerm := c.info(m1).LastLogTerm

	// the others elect a new leader, which commits 5 other updates,
	// takes a snapshot and compacts its log completely
	ldr := c.waitForLeader(rest...)
	var other *Raft
	for _, r := range rest {
		if r != ldr {
			other = r
		}
	}
	c.sendUpdates(ldr, 6, 10)
	c.waitFSMLen(10, rest...)
	c.takeSnapshot(ldr, 0, nil)
	snapIndex, snapTerm := ldr.snaps.latest()
	ldrTerm := c.info(ldr).Term
	if !(base < snapIndex && snapIndex <= base+10) {
		t.Fatalf("setup: snapIndex=%d, stale entries are %d..%d", snapIndex, base+1, base+10)
	}

	// m1 dies while still partitioned
	c.shutdown(m1)

	// ---- crash state: onInstallSnapRequest up to and including sink.done ----
	func() {
		st, err := openStorage(c.storage[m1.nid], c.opt)
		if err != nil {
			t.Fatal(err)
		}
		defer st.log.Close()
		st.setTerm(ldrTerm) // handler: r.setTerm(req.getTerm())
		meta, err := ldr.snaps.meta()
		if err != nil {
			t.Fatal(err)
		}
		sink, err := st.snaps.new(meta.index, meta.term, meta.config)
		if err != nil {
			t.Fatal(err)
		}
		src, err := os.Open(snapFile(ldr.snaps.dir, meta.index))
		if err != nil {
			t.Fatal(err)
		}
		_, err = io.Copy(sink.file, src)
		_ = src.Close()
		if _, err = sink.done(err); err != nil {
			t.Fatal(err)
		}
		// the handler's decision at this point: discardLog
		if !st.log.Contains(meta.index) {
			t.Fatalf("setup: log does not contain %d", meta.index)
		}
		term, err := st.getEntryTerm(meta.index)
		if err != nil {
			t.Fatal(err)
		}
		if term != staleTerm || term == meta.term {
			t.Fatalf("setup: term at %d is %d, snapshot term %d", meta.index, term, meta.term)
		}
		// process dies here: clearLog() is not executed
	}()

	// ---- restart, rejoin ----
	c.connect()
	m1 = c.restart(m1)
	// one more committed update, so that the leader has entries to send after
	// the snapshot index (a bare heartbeat at prevLogIndex==snapIndex truncates nothing)
	c.sendUpdates(ldr, 11, 11)
	c.waitFSMLen(11, ldr, other)
	if !waitForCondition(func() bool {
		li, mi := c.info(ldr), c.info(m1)
		return li.Committed == li.LastLogIndex && mi.LastLogIndex == li.LastLogIndex && mi.Committed == li.Committed
	}, 10*time.Millisecond, 2*c.longTimeout) {
		t.Fatalf("restarted node did not catch up: %#v", c.info(m1))
	}
	c.ensureFSMSame(nil, ldr, other, m1)

	// (1) its log must not hold anything that differs from the committed entries.
	// other never compacted its log: it has the committed entries
	type ent struct {
		term uint64
		typ  entryType
		data string
	}
	get := func(r *Raft, from, to uint64) map[uint64]ent {
		m := make(map[uint64]ent)
		_ = r.inspect(func(r *Raft) {
			for i := from; i <= to; i++ {
				if r.log.Contains(i) {
					e := &entry{}
					r.storage.mustGetEntry(i, e)
					m[i] = ent{e.term, e.typ, string(e.data)}
					if e.typ == entryConfig {
						var conf Config // encoding order of nodes is not fixed
						if err := conf.decode(e); err != nil {
							panic(err)
						}
						m[i] = ent{e.term, e.typ, fmt.Sprint(conf.Nodes)}
					}
				}
			}
		})
		return m
	}
	last := c.info(ldr).LastLogIndex
	want, got := get(other, 1, last), get(m1, 1, last)
	for i := uint64(1); i <= last; i++ {
		if g, ok := got[i]; ok && g != want[i] {
			t.Errorf("M%d log[%d] = %+v, committed entry is %+v (snapshot index %d term %d)", m1.nid, i, g, want[i], snapIndex, snapTerm)
		}
	}

	// (2) end-to-end: it becomes leader and brings up a fresh node
	if _, err := waitTask(ldr, TransferLeadership(m1.nid, c.longTimeout), c.longTimeout); err != nil {
		t.Fatalf("transfer: %v", err)
	}
	if !waitForCondition(func() bool {
		return c.info(m1).State == Leader
	}, 10*time.Millisecond, c.longTimeout) {
		t.Fatal("restarted node did not become leader")
	}
	m6 := c.launch(1, false)[6]
	c.waitCommitReady(m1)
	c.ensure(c.waitAddNonvoter(m1, 6, c.id2Addr(6), false))
	if !waitForCondition(func() bool {
		li, fi := c.info(m1), c.info(m6)
		return fi.Committed == li.Committed && fi.LastApplied == li.Committed
	}, 10*time.Millisecond, 2*c.longTimeout) {
		t.Fatalf("new node did not catch up: %#v", c.info(m6))
	}
	if got, want := fsm(m6).commands(), fsm(other).commands(); !reflect.DeepEqual(got, want) {
		t.Errorf("new node M6 applied\n      %q\ncluster applied\n      %q", got, want)
	}
}
