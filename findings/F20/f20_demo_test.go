package raft

import (
	"sync"
	"testing"
	"time"
)

// F20: a follower that receives InstallSnapshot discards (Log.Reset) or
// compacts its log on the raft goroutine, while its FSM goroutine is still
// working through earlier fsmApply requests whose log views point into the
// segments that were just unmapped.
//
// Schedule (honest peers, no storage/FSM errors):
//   - M4 is a nonvoter whose FSM.Update is slow (gated by the test)
//   - leader replicates and commits 5 updates to M4; M4 queues fsmApply
//     with a view of its log, its FSM is busy inside the first Update
//   - M4 gets partitioned; leader commits 55 more updates, takes a snapshot
//     and compacts its log beyond M4's last entry
//   - partition heals; leader sends InstallSnapshot; M4 stores it and resets
//     its log (snapshot is beyond its log)
//   - M4's FSM continues with the queued apply: reads unmapped memory
//
// On the unmodified tree the test binary dies (SIGSEGV "unexpected fault
// address" in log.(*segment).offset called from (*stateMachine).onApply, or
// a panic from onApply if the kernel happened to reuse the address range).
func TestF20_installSnap_whileFSMStillApplying(t *testing.T) {
	c := newCluster(t)
	c.opt.LogSegmentSize = 1024
	ldr, _ := c.ensureLaunch(3)
	defer c.shutdown()

	// add nonvoter M4, wait until it has everything
	m4 := c.launch(1, false)[4]
	c.waitCommitReady(ldr)
	c.ensure(c.waitAddNonvoter(ldr, m4.NID(), c.id2Addr(m4.NID()), false))
	c.waitCatchup(m4)

	// make M4's FSM slow: its first Update blocks until released
	entered, release := make(chan struct{}), make(chan struct{})
	var enterOnce, releaseOnce sync.Once
	releaseFSM := func() { releaseOnce.Do(func() { close(release) }) }
	defer releaseFSM()
	mock := fsm(m4)
	mock.mu.Lock()
	mock.changed = func(id identity, n uint64) {
		enterOnce.Do(func() {
			close(entered)
			<-release
		})
		ee.onFMSChanged(id, n)
	}
	mock.mu.Unlock()

	// 5 updates, committed everywhere; M4's FSM is stuck applying the first
	<-c.sendUpdates(ldr, 1, 5).Done()
	var ldrCommit uint64
	_ = ldr.inspect(func(r *Raft) { ldrCommit = r.commitIndex })
	select {
	case <-entered:
	case <-time.After(c.longTimeout):
		t.Fatal("setup: M4 fsm did not start applying")
	}
	var m4Last uint64
	if !waitForCondition(func() bool {
		var commit uint64
		_ = m4.inspect(func(r *Raft) { commit, m4Last = r.commitIndex, r.lastLogIndex })
		return commit >= ldrCommit
	}, c.commitTimeout, c.longTimeout) {
		t.Fatal("setup: M4 did not learn commitIndex")
	}

	// partition M4, commit more, snapshot and compact leader log beyond M4's log
	// (an idle nonvoter gets no heartbeats: unreachability is noticed on the next send)
	c.disconnect(m4)
	<-c.sendUpdates(ldr, 6, 60).Done()
	c.waitFSMLen(60, c.exclude(m4)...)
	c.waitCatchup(c.exclude(m4)...)
	c.waitUnreachableDetected(ldr, m4)
	logCompacted := c.registerFor(eventLogCompacted, ldr)
	defer c.unregister(logCompacted)
	c.takeSnapshot(ldr, 1, nil)
	c.ensure(logCompacted.waitForEvent(c.longTimeout))
	var ldrPrev uint64
	_ = ldr.inspect(func(r *Raft) { ldrPrev = r.log.PrevIndex() })
	if ldrPrev <= m4Last {
		t.Fatalf("setup: leader log.prevIndex %d, M4 lastLogIndex %d: no installSnap needed", ldrPrev, m4Last)
	}

	// heal: leader has to send its snapshot to M4
	c.connect()
	if !waitForCondition(func() bool {
		return len(c.snaps(m4)) > 0
	}, 10*time.Millisecond, c.longTimeout) {
		t.Fatal("setup: M4 did not receive snapshot")
	}
	// snapshot is stored; give onInstallSnapRequest ample time to get to
	// discarding the log, then let the FSM continue with its queued applies
	time.Sleep(500 * time.Millisecond)
	testln("releasing M4 fsm")
	releaseFSM()

	// M4 must survive and converge
	c.waitFSMLen(60, m4)
	c.ensureFSMSame(nil, ldr, m4)
	c.sendUpdates(ldr, 61, 70)
	c.waitFSMLen(70)
	c.ensureFSMSame(nil)
}
