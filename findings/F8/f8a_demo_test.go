package raft

import (
	"fmt"
	"testing"

	"github.com/santhosh-tekuri/fnet"
)

// Demonstrates the data race on Raft.configs.Latest:
//
//   - (*leader).notifyFlr (leader.go) publishes &l.configs.Latest to every
//     replication goroutine in leaderUpdate.config.
//   - (*replication).onLeaderUpdate (replication.go) dereferences that pointer
//     (u.config.Nodes[...]) on the replication goroutine.
//   - (*Raft).setLatest (config.go) overwrites r.configs.Latest on the raft
//     goroutine for the next configuration change.
//
// Setup: 3 voters M(ldr), M(slow), M(away).
//
//   - away is firewalled. its replication goroutine sits in the backoff loop of
//     replication.runLoop: sleep, checkLeaderUpdate (non blocking), dial fails, repeat.
//     it never sends anything to leader (noContact is notified only on first failure),
//     so nothing orders its read of *u.config before what leader does next.
//   - the link to slow is bandwidth limited, so that committing a config entry takes
//     a few hundred milliseconds. this matters because on commit the leader calls
//     notifyFlr(false) which replaces the pending leaderUpdate (with config pointer)
//     by one without config; the slow commit gives away's replication enough time
//     to poll leaderUpdateCh while the update with config pointer is still pending.
//
// As soon as config N is committed (ldr+slow is majority), test submits config N+1
// and leader overwrites l.configs.Latest which away's replication has read.
//
// note: healthy replications do not show the race reliably, because every fnet
// conn.Read/Write takes host wide mutex and does socket io, which accidentally
// orders them with the fast follower's replication and thus with raft goroutine.
//
// Run with: go test -race -vet=off -count=1 -run TestDemo_F8a_notifyFlrConfigPointer .
func TestDemo_F8a_notifyFlrConfigPointer(t *testing.T) {
	c, ldr, flrs := launchCluster(t, 3)
	defer c.shutdown()
	slow, away := flrs[0], flrs[1]

	// wait until bootstrap config is committed and followers are in sync
	c.waitCommitReady(ldr)
	c.waitBarrier(ldr, c.longTimeout)
	c.waitCatchup()

	// slow down commits
	network.SetBandwidth(id2Host(ldr.nid), id2Host(slow.nid), fnet.Bandwidth(40000))
	defer network.SetBandwidth(id2Host(ldr.nid), id2Host(slow.nid), fnet.NoLimit)

	// isolate away, and wait until its replication has reported noContact to leader.
	// from now on, it does not talk to leader anymore.
	c.disconnect(away)
	_ = c.waitUnreachableDetected(ldr, away)

	// issue config changes in succession, each as soon as previous one is committed.
	// SetData produces a config entry without changing membership.
	for i := 0; i < 10; i++ {
		config := c.info(ldr).Configs.Latest
		if err := config.SetData(ldr.nid, fmt.Sprintf("data%d", i)); err != nil {
			t.Fatal(err)
		}
		if _, err := waitTask(ldr, ChangeConfig(config), c.longTimeout); err != nil {
			t.Fatalf("changeConfig #%d: %v", i, err)
		}
	}
}
