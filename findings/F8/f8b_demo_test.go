package raft

import (
	"testing"
	"time"
)

// Demonstrates the data race on replicationStatus.noContact:
//
//   - (*Raft).info (task.go) hands out &repl.status.noContact inside
//     Info.Followers[id].Unreachable to whoever submitted the GetInfo task.
//   - (*leader).checkReplUpdates (leader.go, case noContact) keeps writing
//     status.noContact on the raft goroutine whenever reachability changes.
//
// So any reader of *Info.Followers[id].Unreachable races with the leader.
// Run with: go test -race -vet=off -count=1 -run TestDemo_F8b_infoUnreachablePointer .
func TestDemo_F8b_infoUnreachablePointer(t *testing.T) {
	c, ldr, flrs := launchCluster(t, 3)
	defer c.shutdown()

	flr := flrs[0]
	var sink time.Time
	for round := 0; round < 3; round++ {
		// make follower unreachable; leader records status.noContact = now
		c.shutdown(flr)
		_ = c.waitUnreachableDetected(ldr, flr)

		// Info now carries a pointer into leader owned replicationStatus
		info := c.info(ldr)
		p := info.Followers[flr.nid].Unreachable
		if p == nil {
			t.Fatalf("round %d: Followers[M%d].Unreachable is nil, want non-nil", round, flr.nid)
		}
		var owned *time.Time
		nid := flr.nid
		_ = ldr.inspect(func(r *Raft) {
			owned = &r.ldr.repls[nid].status.noContact
		})
		if p != owned {
			t.Logf("round %d: Unreachable does not alias repl.status.noContact (repaired?)", round)
		}

		// bring follower back; leader will zero status.noContact on raft goroutine.
		flr = c.restart(flr)

		// keep reading through the pointer like an API user would do,
		// without any synchronization with raft goroutine.
		// note: we must not use waitReachableDetected here, it synchronizes
		// with raft goroutine via tracer mutex, which hides the race.
		deadline := time.Now().Add(2 * time.Second)
		for time.Now().Before(deadline) {
			sink = *p
			if sink.IsZero() {
				break // leader has overwritten the value we are looking at
			}
			time.Sleep(200 * time.Microsecond)
		}
		if !sink.IsZero() {
			t.Logf("round %d: leader did not rewrite noContact within deadline", round)
		}
	}
	_ = sink
}
