package raft

import (
	"testing"
)

// F15: a node that is not bootstrapped yet answers vote requests and so can
// be in a term > 1 when the bootstrap task arrives. storage.bootstrap then
// calls setTerm(1), whose assert(term > s.term) fails; recoverErr re-panics
// assertion failures, so on the task path (executeTask on the raft goroutine)
// the process terminates itself.
func TestF15_bootstrapAfterHigherTerm(t *testing.T) {
	c := newCluster(t)
	c.launch(1, false)
	defer c.shutdown()
	r := c.rr[1]

	// a candidate of some cluster member asks for a vote in term 7
	if err := r.inspect(func(r *Raft) {
		_, _ = r.onVoteRequest(&voteReq{req: req{7, 9}, lastLogIndex: 5, lastLogTerm: 6})
	}); err != nil {
		t.Fatal(err)
	}
	if got := c.info(r).Term; got != 7 {
		t.Fatalf("term=%d, want 7", got)
	}

	config := c.info(r).Configs.Latest
	if err := config.AddVoter(r.NID(), c.id2Addr(r.NID())); err != nil {
		t.Fatal(err)
	}
	task := ChangeConfig(config).(changeConfig)
	var crashed interface{}
	if err := r.inspect(func(r *Raft) {
		// the raft goroutine has no recover for assertion failures: what is
		// caught here would have terminated the process
		defer func() { crashed = recover() }()
		r.bootstrap(task)
	}); err != nil {
		t.Fatal(err)
	}
	if crashed != nil {
		t.Fatalf("bootstrap task after a vote request of term 7 terminates the node: %v", crashed)
	}
	<-task.Done()
	if task.Err() != nil {
		t.Fatalf("bootstrap failed: %v", task.Err())
	}
	if got := c.info(r).Term; got < 7 {
		t.Fatalf("term went backwards: %d", got)
	}
}
