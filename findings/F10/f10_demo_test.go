package raft

import (
	"bufio"
	"strings"
	"testing"
)

// demonstration for finding F10: a stale (delayed / duplicated) installSnap
// request of the current leader, whose lastIndex is below what the follower has
// already committed and compacted, makes the follower publish the old snapshot,
// discard its whole log and move its commit index backwards.
func TestDemo_F10_staleInstallSnap(t *testing.T) {
	c := newCluster(t)
	c.opt.LogSegmentSize = 1024
	ldr, flrs := c.ensureLaunch(3)
	defer c.shutdown()

	c.sendUpdates(ldr, 1, 100)
	c.waitBarrier(ldr, 0)
	c.waitFSMLen(100, flrs...)
	flr := flrs[0]
	c.takeSnapshot(flr, 10, nil) // follower snapshots and compacts its own log

	before := c.info(flr)
	if before.FirstLogIndex <= 3 {
		t.Skipf("log was not compacted (first index %d)", before.FirstLogIndex)
	}
	var res rpcResult
	var err error
	_ = flr.inspect(func(r *Raft) {
		req := &installSnapReq{req: req{term: r.term, src: r.leader}, lastIndex: 2, lastTerm: 1, lastConfig: r.configs.Committed.clone(), size: 0}
		res, err = r.onInstallSnapRequest(req, &conn{bufr: bufio.NewReader(strings.NewReader(""))})
	})
	if err != nil {
		t.Fatalf("handler: %v %v", res, err)
	}
	after := c.info(flr)
	if after.Committed < before.Committed || after.SnapshotIndex < before.SnapshotIndex || after.LastLogIndex < before.Committed {
		t.Fatalf("stale snapshot regressed the node: committed %d -> %d, snapshotIndex %d -> %d, lastLogIndex %d -> %d",
			before.Committed, after.Committed, before.SnapshotIndex, after.SnapshotIndex, before.LastLogIndex, after.LastLogIndex)
	}
}
