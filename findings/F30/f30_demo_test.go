package raft

import (
	"testing"
	"time"
)

// F30: a node that is being ADDED to a running cluster shuts itself down
// with ErrNodeRemoved while it is still catching up.
//
// The new node gets the log from the beginning, in batches of at most
// maxAppendEntries entries. After the first batch its latest configuration
// is the bootstrap configuration, which does not list it. That batch is
// already committed on the leader, so the new node commits it, "commits"
// the bootstrap configuration and, with ShutdownOnRemove (the default),
// concludes that it was removed.
//
// Nothing here is synthetic: honest peers, no storage/FSM errors, no
// dropped or reordered messages, default options of the test cluster.
func TestF30_addedNodeShutsItselfDownWhileCatchingUp(t *testing.T) {
	// launch 3 node cluster
	c, ldr, _ := launchCluster(t, 3)
	defer c.shutdown()

	// more than one AppendEntries batch precedes the config entry that adds M4
	numUpdates := 3*maxAppendEntries + 8
	c.sendUpdates(ldr, 1, numUpdates)
	c.waitBarrier(ldr, c.longTimeout)
	c.waitFSMLen(uint64(numUpdates))

	// launch the new node M4, with empty storage
	nr := c.launch(1, false)[4]
	c.serverErrMu.RLock()
	serveErr := c.serveErr[nr.nid]
	c.serverErrMu.RUnlock()

	// add M4 as nonvoter
	c.ensure(c.waitAddNonvoter(ldr, 4, c.id2Addr(4), false))
	added := c.info(ldr).Configs.Latest

	// M4 must catch up: all updates applied and the config that adds it known
	deadline := time.After(c.longTimeout)
	for {
		select {
		case err := <-serveErr:
			serveErr <- ErrServerClosed // for c.shutdown
			t.Fatalf("M4 is being added (config index %d on leader), but it stopped serving: %v; fsmLen=%d want %d",
				added.Index, err, fsm(nr).len(), numUpdates)
		case <-deadline:
			t.Fatalf("M4 did not catch up: fsmLen=%d want %d", fsm(nr).len(), numUpdates)
		case <-time.After(10 * time.Millisecond):
		}
		if fsm(nr).len() == uint64(numUpdates) {
			break
		}
	}
	if _, ok := c.info(nr).Configs.Latest.Nodes[4]; !ok {
		t.Fatalf("M4 is not in its own latest config %v", c.info(nr).Configs.Latest)
	}

	// the cluster keeps working with M4 in it
	c.sendUpdates(ldr, numUpdates+1, numUpdates+10)
	c.waitFSMLen(uint64(numUpdates + 10))
	if nr.isClosed() {
		t.Fatal("M4 is closed")
	}
}
