package log

import (
	"io/ioutil"
	"testing"
)

// D5: openSegments returns right after successfully removing the FIRST
// dangling segment file, leaving any later dangling files on disk.
func TestF5Demo_allDanglingSegmentsRemoved(t *testing.T) {
	l := newLog(t, 1024)
	for numSegments(l) < 3 {
		appendEntry(t, l)
	}
	if err := l.Commit(); err != nil {
		t.Fatal(err)
	}
	lastIndex, valid := l.LastIndex(), getSegments(l)
	if err := l.Close(); err != nil {
		t.Fatal(err)
	}

	// create two dangling segment files, by copying an existing segment
	b, err := ioutil.ReadFile(segmentFile(l.dir, valid[0]))
	if err != nil {
		t.Fatal(err)
	}
	dangling := []uint64{lastIndex + 1000, lastIndex + 2000}
	for _, off := range dangling {
		if err := ioutil.WriteFile(segmentFile(l.dir, off), b, 0600); err != nil {
			t.Fatal(err)
		}
	}

	l, err = Open(l.dir, 0700, l.opt)
	if err != nil {
		t.Fatal(err)
	}
	defer l.Close()
	assertUint64(t, "lastIndex", l.LastIndex(), lastIndex)
	for _, off := range dangling {
		exists, err := fileExists(segmentFile(l.dir, off))
		if err != nil {
			t.Fatal(err)
		}
		if exists {
			t.Errorf("dangling segment %d.log still exists after Open", off)
		}
	}
}
