package raft

import (
	"io"
	"path/filepath"
	"testing"
	"time"
)

// D13: onInstallSnapRequest publishes the snapshot (sink.done) and only
// afterwards discards the log (storage.clearLog). If the process dies in
// between, storage dir has snapshot S and a log ending at L < S.
//
// f13CrashedFollower constructs exactly that on-disk state for a follower
// and restarts it. if moreEntries is true, leader has entries beyond S.
func f13CrashedFollower(t *testing.T, moreEntries bool) (c *cluster, ldr, flr *Raft, S uint64) {
	c, ldr, flrs := launchCluster(t, 3)
	c.waitCommitReady(ldr)

	// all nodes have 10 updates
	c.sendUpdates(ldr, 1, 10)
	c.waitBarrier(ldr, c.longTimeout)
	c.waitFSMLen(10)

	// follower goes down, with its log ending at L
	flr = flrs[0]
	L := c.info(flr).LastLogIndex
	c.shutdown(flr)

	// leader moves on and takes a snapshot at index S > L
	c.sendUpdates(ldr, 11, 20)
	c.waitBarrier(ldr, c.longTimeout)
	c.takeSnapshot(ldr, 0, nil)
	S = c.info(ldr).SnapshotIndex
	if S <= L {
		t.Fatalf("test bug: leader snapIndex %d, follower lastLogIndex %d", S, L)
	}

	// follower receives installSnapReq: it stores the snapshot same way as
	// Raft.onInstallSnapRequest does, but crashes just before storage.clearLog
	{
		src, err := ldr.snaps.open()
		if err != nil {
			t.Fatal(err)
		}
		snaps, err := openSnapshots(filepath.Join(c.storage[flr.nid], "snapshots"), c.opt)
		if err != nil {
			t.Fatal(err)
		}
		sink, err := snaps.new(src.meta.index, src.meta.term, src.meta.config)
		if err != nil {
			t.Fatal(err)
		}
		_, err = io.Copy(sink.file, src.file)
		src.release()
		if _, doneErr := sink.done(err); err != nil || doneErr != nil {
			t.Fatal(err, doneErr)
		}
		// ----- crash here: storage.clearLog() is never reached -----
	}

	if moreEntries {
		c.sendUpdates(ldr, 21, 25)
		c.waitBarrier(ldr, c.longTimeout)
	}

	// follower process comes up again
	flr = c.restart(flr)
	return
}

// leader has nothing to send beyond S, we just look at the state with which follower restarted
func TestF13_restart_info(t *testing.T) {
	c, _, flr, S := f13CrashedFollower(t, false)
	defer c.shutdown()

	info := c.info(flr)
	t.Logf("after restart M%d: snapshotIndex=%d firstLogIndex=%d lastLogIndex=%d lastLogTerm=%d committed=%d",
		info.NID, info.SnapshotIndex, info.FirstLogIndex, info.LastLogIndex, info.LastLogTerm, info.Committed)
	if info.SnapshotIndex != S {
		t.Fatalf("snapshotIndex: got %d, want %d", info.SnapshotIndex, S)
	}
	if info.LastLogIndex < info.SnapshotIndex {
		t.Fatalf("restarted with lastLogIndex %d < snapshotIndex %d", info.LastLogIndex, info.SnapshotIndex)
	}
	c.waitFSMLen(20)
	c.ensureFSMSame(nil)
}

// leader has entries S+1.. to send. On unrepaired tree this brings down the whole
// test process: assert(e.index == s.lastLogIndex+1) in storage.appendEntry
// (recoverErr re-panics assertion failures).
func TestF13_restart_catchup(t *testing.T) {
	c, ldr, flr, _ := f13CrashedFollower(t, true)
	defer c.shutdown()

	// it must be able to accept entries S+1... from leader and catch up
	shuttingDown := c.registerFor(eventShuttingDown, flr)
	defer c.unregister(shuttingDown)
	caughtUp := func() bool {
		return fsm(flr).len() == 25
	}
	deadline := time.After(c.longTimeout)
	for !caughtUp() {
		select {
		case e := <-shuttingDown.ch:
			err := c.serveError(flr)
			t.Fatalf("M%d died while accepting entries from leader: %v (serve returned: %v)", flr.nid, e.err, err)
		case <-deadline:
			t.Fatalf("M%d could not catch up: fsmLen %d, want 25", flr.nid, fsm(flr).len())
		case <-time.After(10 * time.Millisecond):
		}
	}
	c.ensureFSMSame(nil)
	info := c.info(flr)
	if want := c.info(ldr).LastLogIndex; info.LastLogIndex != want {
		t.Fatalf("lastLogIndex: got %d, want %d", info.LastLogIndex, want)
	}
}
