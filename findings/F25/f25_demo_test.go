package raft

import (
	"fmt"
	"io/ioutil"
	"os"
	"path/filepath"
	"testing"

	"github.com/santhosh-tekuri/raft/log"
)

// F25: a storage directory whose path contains a glob metacharacter
// (here "node[1]") is unreadable on reopen, because the directory path
// is made part of a filepath.Glob pattern.
//
// Nothing here is synthetic: healthy storage is written through the
// normal API, closed cleanly and opened again on the same directory.

func f25Dir(t *testing.T) string {
	t.Helper()
	tmp, err := ioutil.TempDir("", "f25")
	if err != nil {
		t.Fatal(err)
	}
	t.Cleanup(func() { _ = os.RemoveAll(tmp) })
	dir := filepath.Join(tmp, "node[1]")
	if err := os.Mkdir(dir, 0700); err != nil {
		t.Fatal(err)
	}
	return dir
}

// log package: entries in segments after the first one are lost on reopen.
func TestF25_LogReopen(t *testing.T) {
	dir := filepath.Join(f25Dir(t), "log")
	opt := log.Options{FileMode: 0600, SegmentSize: 1024}

	l, err := log.Open(dir, 0700, opt)
	if err != nil {
		t.Fatal(err)
	}
	const n = 200
	for i := 1; i <= n; i++ {
		if err := l.Append([]byte(fmt.Sprintf("entry-%04d-xxxxxxxxxxxxxxxx", i))); err != nil {
			t.Fatal(err)
		}
	}
	if err := l.Commit(); err != nil {
		t.Fatal(err)
	}
	if got := l.LastIndex(); got != n {
		t.Fatalf("before close: lastIndex=%d, want %d", got, n)
	}
	if err := l.Close(); err != nil {
		t.Fatal(err)
	}
	files, _ := ioutil.ReadDir(dir)
	if len(files) < 3 {
		t.Fatalf("test needs several segments, got %d files", len(files))
	}

	l, err = log.Open(dir, 0700, opt)
	if err != nil {
		t.Fatal(err)
	}
	defer l.Close()
	if got := l.LastIndex(); got != n {
		t.Fatalf("after reopen: lastIndex=%d, want %d (%d segment files on disk): committed entries lost", got, n, len(files))
	}
	b, err := l.Get(n)
	if err != nil {
		t.Fatal(err)
	}
	if want := fmt.Sprintf("entry-%04d-xxxxxxxxxxxxxxxx", n); string(b) != want {
		t.Fatalf("entry %d = %q, want %q", n, b, want)
	}
}

// raft package: identity, term and vote are read back as zero.
func TestF25_TermVoteReopen(t *testing.T) {
	dir := f25Dir(t)
	opt := DefaultOptions()
	opt.LogSegmentSize = 4096

	if err := SetIdentity(dir, 7, 3); err != nil {
		t.Fatal(err)
	}
	s, err := openStorage(dir, opt)
	if err != nil {
		t.Fatal(err)
	}
	s.setTerm(5)
	s.setVotedFor(5, 2)
	if err := s.log.Close(); err != nil {
		t.Fatal(err)
	}

	s, err = openStorage(dir, opt)
	if err != nil {
		t.Fatalf("reopen: %v", err)
	}
	defer s.log.Close()
	if s.cid != 7 || s.nid != 3 {
		t.Errorf("after reopen: cid=%d nid=%d, want 7 3: identity lost", s.cid, s.nid)
	}
	if s.term != 5 || s.votedFor != 2 {
		t.Errorf("after reopen: term=%d votedFor=%d, want 5 2: node can vote again in term 5", s.term, s.votedFor)
	}
}

// raft package: a published snapshot is not found.
func TestF25_SnapshotsReopen(t *testing.T) {
	dir := filepath.Join(f25Dir(t), "snapshots")
	opt := DefaultOptions()

	snaps, err := openSnapshots(dir, opt)
	if err != nil {
		t.Fatal(err)
	}
	for _, index := range []uint64{10, 20} {
		sink, err := snaps.new(index, 2, Config{Nodes: map[uint64]Node{1: {ID: 1, Addr: "a:1", Voter: true}}, Index: 1, Term: 1})
		if err != nil {
			t.Fatal(err)
		}
		if _, err := sink.file.Write([]byte("state")); err != nil {
			t.Fatal(err)
		}
		if _, err := sink.done(nil); err != nil {
			t.Fatal(err)
		}
	}
	if index, term := snaps.latest(); index != 20 || term != 2 {
		t.Fatalf("before reopen: latest=(%d,%d), want (20,2)", index, term)
	}

	snaps, err = openSnapshots(dir, opt)
	if err != nil {
		t.Fatal(err)
	}
	if index, term := snaps.latest(); index != 20 || term != 2 {
		t.Errorf("after reopen: latest=(%d,%d), want (20,2): snapshot lost", index, term)
	}
	// SnapshotsRetain is 1: snapshot 10 should have been removed when 20 was published
	if _, err := os.Stat(metaFile(dir, 10)); !os.IsNotExist(err) {
		t.Errorf("snapshot 10 still on disk (retention never finds old snapshots): %v", err)
	}
}
