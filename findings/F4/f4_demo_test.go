package raft

import "testing"

// demonstration for finding F4: onTakeSnapshot reads configs.Committed on the
// raft goroutine but the fsmSnapReq is enqueued later by the snapshot
// goroutine. This test plays the schedule in which that goroutine is delayed
// until a membership change has been committed and applied: the snapshot then
// covers the new configuration entry but is labelled with the old one.
func TestDemo_F4_staleLabel(t *testing.T) {
	c, ldr, _ := launchCluster(t, 1)
	defer c.shutdown()
	c.sendUpdates(ldr, 1, 5)
	c.waitBarrier(ldr, 0)

	// what onTakeSnapshot captures at request time
	var captured Config
	var snapIndex uint64
	if err := ldr.inspect(func(r *Raft) { captured = r.configs.Committed; snapIndex = r.snaps.index }); err != nil {
		t.Fatal(err)
	}

	// a membership change commits before the snapshot goroutine gets to run
	c.ensure(c.waitAddNonvoter(ldr, 9, c.id2Addr(9), false))
	c.waitBarrier(ldr, 0)
	var committed Config
	_ = ldr.inspect(func(r *Raft) { committed = r.configs.Committed })
	if committed.Index <= captured.Index {
		t.Fatalf("membership change did not commit: %d <= %d", committed.Index, captured.Index)
	}

	// ... and now the delayed goroutine body runs
	meta, err := doTakeSnapshot(ldr.fsm, snapIndex, captured)
	if err != nil {
		t.Fatal(err)
	}
	if meta.index >= committed.Index && meta.config.Index < committed.Index {
		t.Fatalf("snapshot at index %d covers config entry %d but is labelled with config %d", meta.index, committed.Index, meta.config.Index)
	}
}
