package raft

import (
	"bytes"
	"os"
	"os/exec"
	"strings"
	"sync"
	"testing"
	"time"
)

// F28: leader.changeConfig stops the replication of a node dropped from the
// configuration (close(stopCh); delete(l.repls, id)) without waiting for its
// goroutine. From then on nothing that bounds log compaction knows about it,
// but the goroutine may still be inside a blocking call (here: the address
// lookup/dial of connPool.getConn) and reads the log through the view it holds
// as soon as that call returns: runLoop goes from getConn straight into
// replicate -> writeAppendEntriesReq -> getEntryTerm(prevLogIndex) without
// looking at stopCh. If the leader took a snapshot and compacted in between,
// the segment is unmapped and the process dies with a fault.
//
// The scenario runs in a child process, because the fault is fatal.
//
// synthetic part: the Resolver (a user supplied component, Options.Resolver)
// answers the lookup of the new node only when the test releases it, always
// within the timeout raft grants to it (2*HeartbeatTimeout). it stands for any
// slow lookup/connect/read of a replication that was just removed.

const f28ChildEnv = "F28_CHILD"

type f28Resolver struct {
	c       *cluster
	slowID  uint64
	mu      sync.Mutex
	lookups int
	started chan struct{} // closed when lookup of slowID begins
	release chan struct{} // lookup of slowID answers when this is closed
}

func (r *f28Resolver) LookupID(id uint64, timeout time.Duration) (string, error) {
	if id == r.slowID {
		r.mu.Lock()
		r.lookups++
		first := r.lookups == 1
		r.mu.Unlock()
		if first {
			close(r.started)
			select {
			case <-r.release:
			case <-time.After(timeout * 9 / 10): // honour the timeout given by raft
			}
		}
	}
	return r.c.id2Addr(id), nil
}

func TestF28_removedReplicationReadsCompactedLog(t *testing.T) {
	if os.Getenv(f28ChildEnv) == "1" {
		f28Scenario(t)
		return
	}
	cmd := exec.Command(os.Args[0], "-test.run=^TestF28_removedReplicationReadsCompactedLog$", "-test.timeout=60s")
	cmd.Env = append(os.Environ(), f28ChildEnv+"=1")
	var out bytes.Buffer
	cmd.Stdout, cmd.Stderr = &out, &out
	err := cmd.Run()
	if err == nil {
		return
	}
	var key []string
	for _, line := range strings.Split(out.String(), "\n") {
		if strings.Contains(line, "unexpected fault address") || strings.Contains(line, "fatal error") ||
			strings.Contains(line, "SIGSEGV") || strings.Contains(line, "SIGBUS") ||
			strings.Contains(line, "getEntryTerm") || strings.Contains(line, "F28:") {
			key = append(key, strings.TrimSpace(line))
		}
	}
	if len(key) > 12 {
		key = key[:12]
	}
	if len(key) == 0 {
		t.Logf("child output:\n%s", out.String())
	}
	t.Fatalf("leader process died (%v) after a removed replication read the compacted log:\n  %s", err, strings.Join(key, "\n  "))
}

func f28Scenario(t *testing.T) {
	c := newCluster(t)
	resolver := &f28Resolver{c: c, slowID: 4, started: make(chan struct{}), release: make(chan struct{})}
	c.opt.Resolver = resolver
	// the removed replication may legitimately deliver a few entries to M4 before it
	// sees stopCh, among them the config that removes M4: keep M4 running then, the
	// helpers of raft_test.go expect to shut it down themselves
	c.opt.ShutdownOnRemove = false

	// three voters; log segments are 4KiB
	ldr, _ := c.ensureLaunch(3)
	c.waitCommitReady(ldr)

	// M4 is up and serving, but not part of the cluster yet
	c.launch(1, false)

	// fill a few segments
	<-c.sendUpdates(ldr, 1, 300).Done()

	// add M4 as nonvoter: its replication starts and sits in getConn (address lookup)
	c.ensure(nil, c.waitAddNonvoter(ldr, 4, c.id2Addr(4), false))
	select {
	case <-resolver.started:
	case <-time.After(c.longTimeout):
		t.Fatal("F28: replication of M4 did not start")
	}
	startedAt := time.Now()
	added := c.info(ldr).LastLogIndex // >= prevLogIndex that M4's replication will use

	// remove M4 again: changeConfig closes stopCh and forgets the replication
	config := c.info(ldr).Configs.Latest
	c.ensure(nil, config.SetAction(4, ForceRemove))
	c.ensure(waitTask(ldr, ChangeConfig(config), c.longTimeout))
	c.ensure(waitTask(ldr, WaitForStableConfig(), c.longTimeout))
	if _, ok := c.info(ldr).Configs.Latest.Nodes[4]; ok {
		t.Fatal("F28: M4 is still in config")
	}

	// more entries, replicated to the followers, then snapshot and compaction
	<-c.sendUpdates(ldr, 301, 600).Done()
	c.waitFSMLen(600, c.exclude(c.rr[4])...)
	c.takeSnapshot(ldr, 1, nil)
	first := c.info(ldr).FirstLogIndex
	t.Logf("F28: added at %d, firstLogIndex after snapshot %d, %v after the lookup began", added, first, time.Since(startedAt))

	// now the lookup answers: the replication goroutine of removed M4 dials M4,
	// and sends its first appendEntries with prevLogIndex=added
	close(resolver.release)
	time.Sleep(time.Second)

	if first <= added {
		// compaction was held back while the removed replication was alive (fixed tree).
		// it must not be held back forever: the goroutine has ended by now
		<-c.sendUpdates(ldr, 601, 700).Done()
		c.waitFSMLen(700, c.exclude(c.rr[4])...)
		c.takeSnapshot(ldr, 1, nil)
		if first = c.info(ldr).FirstLogIndex; first <= added {
			t.Fatalf("F28: log is not compacted after the removed replication ended: firstLogIndex %d, added %d", first, added)
		}
	}

	// leader first: its release waits for all replication goroutines,
	// M4 must be still serving for the removed one to get its connection
	c.shutdown(ldr)
	c.shutdown()
}
