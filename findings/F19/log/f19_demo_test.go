package log

import (
	"bytes"
	"fmt"
	"runtime/debug"
	"testing"
)

// F19 (log level): a view taken before RemoveLTE shares the segment chain
// with the log. RemoveLTE unmaps the leading segments and cuts the chain
// (newFirst.prev = nil). A lookup through the old view of an index that
// was in a removed segment (in particular the segment boundary itself,
// which is what a replication asks for as prevLogIndex) must answer
// ErrNotFound; on the unmodified tree it walks the cut prev pointer and
// dereferences nil. A view that ends in a removed segment (a replication
// that has not yet seen the entries appended later) is worse: the lookup
// reads the unmapped file, a SIGSEGV that is fatal for the process unless
// debug.SetPanicOnFault is set as done here.
func TestF19_ViewAfterRemoveLTE(t *testing.T) {
	l := newLog(t, 1024)
	for numSegments(l) != 4 {
		appendEntry(t, l)
	}
	for i := 0; i < 10; i++ {
		appendEntry(t, l)
	}
	if err := l.Commit(); err != nil {
		t.Fatal(err)
	}
	segs := getSegments(l) // prevIndex of each segment: 0, b1, b2, b3
	b := segs[2]           // a segment boundary: last entry of the 2nd segment

	v := l.ViewAt(l.PrevIndex(), l.LastIndex())
	vOld := l.ViewAt(l.PrevIndex(), b) // ends in the segment that is removed below
	if got := l.CanLTE(b); got != b {
		t.Fatalf("CanLTE(%d)=%d", b, got)
	}
	if err := l.RemoveLTE(b); err != nil {
		t.Fatal(err)
	}
	assertUint64(t, "log.prevIndex", l.PrevIndex(), b)

	get := func(name string, f func() error) {
		t.Helper()
		var err error
		func() {
			defer debug.SetPanicOnFault(debug.SetPanicOnFault(true))
			defer func() {
				if r := recover(); r != nil {
					err = fmt.Errorf("PANIC: %v", r)
					if f, ok := r.(interface{ Addr() uintptr }); ok && f.Addr() != 0 {
						err = fmt.Errorf("PANIC: %v (fault reading unmapped address %#x)", r, f.Addr())
					}
				}
			}()
			err = f()
		}()
		if err != ErrNotFound {
			t.Errorf("%s on a view taken before RemoveLTE(%d): got %v, want ErrNotFound", name, b, err)
		}
	}
	// the boundary entry: what replication.getEntryTerm(prevLogIndex) asks
	get(fmt.Sprintf("view.Get(%d)", b), func() error { _, err := v.Get(b); return err })
	// an index in the middle of a removed segment
	get(fmt.Sprintf("view.Get(%d)", segs[1]+1), func() error { _, err := v.Get(segs[1] + 1); return err })
	get(fmt.Sprintf("view.GetN(%d, 3)", b), func() error { _, err := v.GetN(b, 3); return err })
	// same boundary entry through the view that ends at the boundary
	get(fmt.Sprintf("oldView.Get(%d)", b), func() error { _, err := vOld.Get(b); return err })

	// entries that are still in the log remain readable through the old view
	for i := b + 1; i <= v.LastIndex(); i++ {
		got, err := v.Get(i)
		if err != nil {
			t.Fatalf("view.Get(%d): %v", i, err)
		}
		if !bytes.Equal(got, msg(i)) {
			t.Fatalf("view.Get(%d)=%q, want %q", i, got, msg(i))
		}
	}
}
