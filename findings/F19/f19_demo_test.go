package raft

import (
	"bytes"
	"fmt"
	"runtime/debug"
	"testing"
	"time"

	"github.com/santhosh-tekuri/raft/log"
)

// F19 (raft level): the leader compacts its log right after a snapshot up to
// nowCompact = CanLTE(min(snapshot index, followers' matchIndex)), but a
// replication still needs the entry AT matchIndex: it is the prevLogIndex of
// its next request (nextIndex = matchIndex+1) and its term is read with
// getEntryTerm(prevLogIndex) through the log view the replication already
// holds. That view shares the segment chain that RemoveLTE has just cut.
//
// schedule (all peers honest, no storage error):
//   - 3 nodes, LogSegmentSize 1024, everybody caught up at index k
//   - follower M stops (matchIndex = k, nextIndex = k+1 in its replication)
//   - one update that does not fit in the first segment: the leader's log is
//     now [1..k] [k+1], i.e. k is a segment boundary; committed by the other two
//   - TakeSnapshot on leader: snapshot index k+1, nowCompact = CanLTE(k) = k,
//     canCompact = k too, so segment [1..k] is unmapped and removed at once
//     and nobody is given a new view
//   - M comes back: replication sends appendEntries with prevLogIndex = k,
//     k != snapshot index, so getEntryTerm(k) on the stale view
func f19Setup(t *testing.T) (c *cluster, ldr, other, stopped *Raft, k uint64) {
	c = newCluster(t)
	c.opt.LogSegmentSize = 1024
	ldr, flrs := c.ensureLaunch(3)
	other, stopped = flrs[0], flrs[1]

	<-c.sendUpdates(ldr, 1, 10).Done()
	c.waitCatchup()
	k = c.info(ldr).LastLogIndex

	// stopped follower is exactly at k
	c.shutdown(stopped)
	_ = c.waitUnreachableDetected(ldr, stopped)

	// an entry that cannot fit in what is left of the first segment
	big := UpdateFSM(bytes.Repeat([]byte("x"), 800))
	ldr.FSMTasks() <- big
	select {
	case <-big.Done():
	case <-time.After(c.longTimeout):
		t.Fatal("big update: timeout")
	}
	if big.Err() != nil {
		t.Fatal(big.Err())
	}
	c.waitFSMLen(11, ldr, other)

	var boundary, last, match, next uint64
	_ = ldr.inspect(func(r *Raft) {
		last = r.lastLogIndex
		boundary = r.log.CanLTE(last)
		repl := r.ldr.repls[stopped.nid]
		match, next = repl.status.matchIndex, repl.nextIndex
	})
	if last != k+1 || boundary != k || match != k || next != k+1 {
		t.Fatalf("setup: lastLogIndex=%d boundary=%d matchIndex=%d nextIndex=%d, want %d %d %d %d",
			last, boundary, match, next, k+1, k, k, k+1)
	}

	c.takeSnapshot(ldr, 1, nil)

	// wait until the leader has dropped the first segment
	compacted := func() bool {
		var prev uint64
		_ = ldr.inspect(func(r *Raft) { prev = r.log.PrevIndex() })
		return prev == k
	}
	if !waitForCondition(compacted, 10*time.Millisecond, c.longTimeout) {
		t.Fatalf("leader log is not compacted upto %d", k)
	}
	return
}

// f19Rejoin restarts the stopped follower and checks that the leader
// survives and brings it uptodate.
func f19Rejoin(t *testing.T, c *cluster, ldr, other, stopped *Raft) {
	stopped = c.restart(stopped)
	c.waitFSMLen(11, ldr, other, stopped)
	if info := c.info(ldr); info.State != Leader {
		t.Fatalf("M%d is %v, want leader", ldr.nid, info.State)
	}
	<-c.sendUpdates(ldr, 11, 12).Done()
	c.waitFSMLen(13, ldr, other, stopped)
}

// The only synthetic step: instead of waiting for the follower to come back,
// ask the replication's own view for the term of prevLogIndex, exactly as
// replication.writeAppendEntriesReq does, and turn the nil dereference into
// a test failure instead of a dead process. Then the real rejoin is done.
func TestF19_replicationViewAfterCompaction(t *testing.T) {
	c, ldr, other, stopped, k := f19Setup(t)
	defer c.shutdown()

	var err error
	_ = ldr.inspect(func(r *Raft) {
		repl := r.ldr.repls[stopped.nid]
		snapIndex, _ := repl.snaps.latest()
		if repl.nextIndex-1 != k || snapIndex == k {
			err = fmt.Errorf("nextIndex=%d snapIndex=%d k=%d", repl.nextIndex, snapIndex, k)
			return
		}
		// if the replication has not yet picked the view that includes k+1, its
		// view ends in the unmapped segment and the lookup is a fatal SIGSEGV
		// instead of a nil dereference; make that one recoverable too
		defer debug.SetPanicOnFault(debug.SetPanicOnFault(true))
		defer func() {
			if v := recover(); v != nil {
				err = fmt.Errorf("PANIC: %v", v)
				if f, ok := v.(interface{ Addr() uintptr }); ok && f.Addr() != 0 {
					err = fmt.Errorf("PANIC: %v (fault reading unmapped address %#x)", v, f.Addr())
				}
			}
		}()
		_, err = repl.getEntryTerm(repl.nextIndex - 1)
	})
	if err != nil && err != log.ErrNotFound {
		t.Fatalf("replication.getEntryTerm(prevLogIndex=%d) after leader compacted upto %d: %v", k, k, err)
	}

	f19Rejoin(t, c, ldr, other, stopped)
}

// Nothing synthetic: on the unmodified tree the replication goroutine hits
// the nil dereference in log.(*Log).segment when the follower is back,
// replication.runLoop's recoverErr re-panics runtime errors, and the whole
// process (the leader) dies.
func TestF19_leaderDiesWhenFollowerRejoins(t *testing.T) {
	c, ldr, other, stopped, _ := f19Setup(t)
	defer c.shutdown()
	f19Rejoin(t, c, ldr, other, stopped)
}
